"""Reproduction (real sockets, no mocks): AsyncioTransportStreamSocketAdapter with a memoryview whose itemsize is > 1.

    PYTHONPATH=/repo/src python3 meta/observations/C04_asyncio_adapter_wide_memoryview.py

A connected TCP pair on the loopback with SO_SNDBUF / SO_RCVBUF shrunk so that the kernel takes the data partially; the
peer reads everything until EOF.  For each API (send_all, send_all_from_iterable) and each buffer type the script prints
what the call did (returned / raised) and how many bytes the peer received, and whether they are the bytes sent.
"""
import asyncio
import hashlib
import socket
import sys

from easynetwork.lowlevel.api_async.backend._asyncio.backend import AsyncIOBackend
from easynetwork.lowlevel.api_async.backend._asyncio.stream.socket import (
    AsyncioTransportStreamSocketAdapter,
    StreamReaderBufferedProtocol,
)

N = 1 << 20          # 1 MiB payload, a multiple of 8


def payload():
    return bytes((i * 131 + (i >> 8)) & 0xFF for i in range(N))


async def one(api, fmt):
    loop = asyncio.get_running_loop()
    lst = socket.socket()
    lst.setsockopt(socket.SOL_SOCKET, socket.SO_RCVBUF, 4096)
    lst.bind(("127.0.0.1", 0))
    lst.listen(1)
    cli = socket.socket()
    cli.setsockopt(socket.SOL_SOCKET, socket.SO_SNDBUF, 4096)
    cli.setblocking(False)
    await loop.sock_connect(cli, lst.getsockname())
    srv, _ = lst.accept()
    srv.setblocking(False)
    lst.close()

    data = payload()
    view = memoryview(data) if fmt == "B" else memoryview(data).cast(fmt)
    protocol = StreamReaderBufferedProtocol(loop=loop)
    transport = loop._make_socket_transport(cli, protocol)
    await asyncio.sleep(0)
    adapter = AsyncioTransportStreamSocketAdapter(AsyncIOBackend(), transport, protocol)

    received = bytearray()

    async def reader():
        while True:
            chunk = await loop.sock_recv(srv, 65536)
            if not chunk:
                return
            received.extend(chunk)

    rtask = asyncio.ensure_future(reader())
    try:
        if api == "send_all":
            await asyncio.wait_for(adapter.send_all(view), 20)
        else:
            half = len(view) // 2
            await asyncio.wait_for(adapter.send_all_from_iterable([view[:half], view[half:]]), 20)
        outcome = "returned normally"
    except BaseException as exc:  # noqa: BLE001
        outcome = f"raised {type(exc).__name__}: {exc}"
    # let asyncio flush whatever it still holds, then close and collect
    for _ in range(2000):
        if transport.is_closing() or not transport.get_write_buffer_size():
            break
        await asyncio.sleep(0.005)
    transport.close()
    try:
        await asyncio.wait_for(rtask, 10)
    except asyncio.TimeoutError:
        rtask.cancel()
    srv.close()
    same = bytes(received) == data
    print(f"{api:24s} format {fmt!r}: {outcome}; peer received {len(received)} of {len(data)} bytes, "
          f"{'identical' if same else 'DIFFERENT'} (sha {hashlib.sha256(received).hexdigest()[:12]} vs "
          f"{hashlib.sha256(data).hexdigest()[:12]})")
    return outcome.startswith("returned") and not same


async def main():
    silent_loss = False
    for api in ("send_all", "send_all_from_iterable"):
        for fmt in ("B", "H", "I", "d"):
            silent_loss |= await one(api, fmt)
    print("SILENT LOSS (returned normally with wrong bytes): " + ("YES" if silent_loss else "no"))
    return 1 if silent_loss else 0


sys.exit(asyncio.run(main()))
