#!/usr/bin/env python3
"""Assemble MANIFEST.json from meta/C*.json fragments (one per property) and meta/manifest_base.json."""
import glob, json, os
V = os.path.dirname(os.path.dirname(os.path.abspath(__file__)))
base = json.load(open(os.path.join(V, "meta", "manifest_base.json")))
props = [json.loads(l)["id"] for l in open(os.path.join(V, "properties.jsonl"))]
checks, na = [], []
for pid in props:
    p = os.path.join(V, "meta", pid + ".json")
    if not os.path.exists(p):
        na.append(dict(property_id=pid, reason="check not built yet (machinery under construction)"))
        continue
    m = json.load(open(p))
    if m.get("not_applicable"):
        na.append(dict(property_id=pid, reason=m["not_applicable"]))
        continue
    checks.append(dict(
        property_id=pid,
        quick_cmd=f"./check {pid} --tier quick",
        thorough_cmd=f"./check {pid} --tier thorough",
        evidence_file=f"/verif/evidence/{pid}.json",
        replay_cmd_template=f"./check {pid} --replay {{path}}",
        engine="coq+harness",
        level_claimed=dict(category="proof", text=m["level_text"], design_ref=m.get("design_ref", f"DESIGN.md section 5, {pid}")),
        level_note=m["level_note"],
        technique=m.get("technique", "Coq proof about an executable model + model/implementation correspondence by execution"),
    ))
base["checks"] = checks
base["not_applicable"] = na
json.dump(base, open(os.path.join(V, "MANIFEST.json"), "w"), indent=1)
print(f"MANIFEST.json: {len(checks)} checks, {len(na)} not_applicable")
