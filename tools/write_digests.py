#!/bin/sh
# ./tools/write_digests.py C07  -> meta/digests/C07.json (AST digests of the anchored functions on the current /repo)
cd /verif && exec env PYTHONPATH=/repo/src:/verif/harness /venv/bin/python - "$@" <<'PY'
import importlib, json, os, sys
from common import runner
for pid in sys.argv[1:]:
    mod = importlib.import_module(pid.lower())
    d = {f"{f}:{q}": runner.anchor_digest(f, q) for f, q in mod.ANCHORS}
    bad = [k for k, v in d.items() if v in ("missing",) or v.startswith("unparsable")]
    if bad:
        print("anchors not found:", bad); sys.exit(1)
    os.makedirs("/verif/meta/digests", exist_ok=True)
    json.dump(d, open(f"/verif/meta/digests/{pid}.json", "w"), indent=1)
    print(pid, len(d), "digests written")
PY
