#!/bin/sh
# tools/run_all.sh [tier] : run every registered check sequentially, print one line per property
tier="${1:-quick}"
cd /verif
for id in $(python3 -c "import json;print(' '.join(c['property_id'] for c in json.load(open('MANIFEST.json'))['checks']))"); do
  s=$(date +%s)
  out=$(timeout 3000 ./check "$id" --tier "$tier" 2>&1); rc=$?
  e=$(( $(date +%s) - s ))
  viol=$(echo "$out" | grep -c '^VIOLATION')
  known=$(echo "$out" | grep -c '^KNOWN-FINDING')
  echo "$id rc=$rc violations=$viol known=$known ${e}s :: $(echo "$out" | grep -v '^KNOWN-FINDING' | tail -1 | cut -c1-150)"
done
