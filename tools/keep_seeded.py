#!/usr/bin/env python3
"""tools/keep_seeded.py <src_dir> <name> <property> "<what it needs to manifest>" "<caught-by text>" [status]
Copies patch.diff + demo.py (+notes.txt) into /verif/seeded/<name>/ and writes meta.json."""
import json, os, shutil, sys
src, name, prop, needs, caught = sys.argv[1:6]
status = sys.argv[6] if len(sys.argv) > 6 else "caught"
dst = os.path.join("/verif/seeded", name)
os.makedirs(dst, exist_ok=True)
for f in ("patch.diff", "demo.py", "notes.txt"):
    p = os.path.join(src, f)
    if os.path.exists(p):
        shutil.copy(p, os.path.join(dst, f))
meta = dict(property=prop, breaks=prop, needs_to_manifest=needs, detection=status, caught_by=caught,
            what_was_run=[
                "tools/try_seeded.sh <dir> %s : scratch worktree of /repo HEAD + patch.diff; demo.py exits 0 on the unchanged "
                "worktree and 1 with the change; the seeding agent ran the serializer/tools/protocol test directories (same "
                "pass set as the unchanged tree); ./check %s --tier quick with VERIF_REPO=<worktree>" % (prop, prop)])
json.dump(meta, open(os.path.join(dst, "meta.json"), "w"), indent=1)
print("kept", dst)
