#!/bin/sh
# Build the whole framework offline: regenerate Gen/Params*.v from /repo, full .vo build, extracted runner (if present).
set -e
cd /verif
mkdir -p .work evidence
env PYTHONPATH=/repo/src:/verif/harness PYTHONHASHSEED=0 /venv/bin/python -m common.setup
