#!/venv/bin/python
"""Run the repository's pinned test-suite (guard OFF) and compare with BASELINE.json's stable_pass set."""
import json, os, subprocess, sys, tempfile, xml.etree.ElementTree as ET
base = json.load(open("/root/.vp/BASELINE.json"))
out = tempfile.mkdtemp(prefix="baseline_", dir="/verif/.work") if os.path.isdir("/verif/.work") else tempfile.mkdtemp(prefix="baseline_")
xml = os.path.join(out, "run.junit.xml")
env = dict(os.environ); env.pop("EASYNETWORK_VERIF", None)
cmd = base["cmd"].replace("<file>", xml)
alt = os.environ.get("VERIF_REPO")
if alt and alt != "/repo":      # development only: run the same suite in a scratch worktree
    cmd = cmd.replace("cd /repo", f"cd {alt}")
    env["PYTHONPATH"] = f"{alt}/src"
r = subprocess.run(cmd, shell=True, env=env, stdout=subprocess.PIPE, stderr=subprocess.STDOUT, text=True)
passed = set()
for tc in ET.parse(xml).getroot().iter("testcase"):
    if not any(ch.tag in ("failure", "error", "skipped") for ch in tc):
        passed.add(f"{tc.get('classname')}::{tc.get('name')}")
want = set(base["stable_pass"])
missing = sorted(want - passed)
print(f"stable_pass={len(want)} passed_now={len(passed)} missing={len(missing)}")
for m in missing[:40]:
    print("MISSING", m)
import shutil; shutil.rmtree(out, ignore_errors=True)
sys.exit(1 if missing else 0)
