#!/usr/bin/env python3
"""Assemble DESIGN.md from meta/design/head.md, meta/notes/Cxx.md, known_findings.json, seeded/*/meta.json, tail.md."""
import glob, json, os, re
V = os.path.dirname(os.path.dirname(os.path.abspath(__file__)))
out = [open(os.path.join(V, "meta/design/head.md")).read().rstrip(), "", "---", "",
       "## 5. Per-property: model, theorems, correspondence, partiality", ""]
props = [json.loads(l) for l in open(os.path.join(V, "properties.jsonl"))]
for p in props:
    pid = p["id"]
    path = os.path.join(V, "meta/notes", pid + ".md")
    if os.path.exists(path):
        text = open(path).read().strip()
        text = re.sub(r"^# ", "### ", text, flags=re.M)          # demote headings
        text = re.sub(r"^## ", "#### ", text, flags=re.M)
        out += [text, ""]
    else:
        out += [f"### {pid} — {p['title']}", "", "(no check built: listed under not_applicable in MANIFEST.json)", ""]
out += ["---", "", "## 6. Defects found in /repo while building and running the checks", "",
        "Each was reproduced on the real code. `fixed` = repaired by an unguarded `fix:` commit in /repo (the pinned test-suite "
        "still passes; the check passes silently on the repaired tree and reports the violation again if it returns); `known` = "
        "recorded, the check prints `KNOWN-FINDING` for exactly that signature and exits 0.", "",
        "| property | status | signature | what fails |", "|---|---|---|---|"]
kf = json.load(open(os.path.join(V, "known_findings.json")))
for f in kf["findings"]:
    what = f["what"].replace("|", "\\|").replace("\n", " ")
    out.append(f"| {f['property']} | {f['status']}{' ' + f['commit'] if f.get('commit') and len(f['commit']) < 12 else ''} | `{f['signature']}` | {what} |")
out += ["", "---", "", "## 7. Seeded breaking changes (fresh agents, property text only) and which check catches which", "",
        "Each change compiles, keeps the existing tests passing, comes with a demonstration that fails with it and passes "
        "without it, and was confirmed in a scratch worktree (`tools/try_seeded.sh`); the column *pinned tests* is the result "
        "of the pinned test-suite run on /repo HEAD + the change (`tools/seeded_baseline.sh`, recorded in "
        "`seeded/<name>/baseline.txt`).", "",
        "| seeded change | property | needs, in order to manifest | detection | pinned tests |", "|---|---|---|---|---|"]
for m in sorted(glob.glob(os.path.join(V, "seeded/*/meta.json"))):
    d = json.load(open(m))
    name = os.path.basename(os.path.dirname(m))
    bp = os.path.join(os.path.dirname(m), "baseline.txt")
    base = open(bp).read().strip().replace("|", "/") if os.path.exists(bp) else "not run"
    out.append(f"| `{name}` | {d['property']} | {d['needs_to_manifest'].replace('|', '/')} | {d.get('detection','')}: {d['caught_by'].replace('|', '/')} | {base} |")
out += ["", "### 7b. Behaviour-preserving refactorings (fresh agents, property text only) and what the checks said", "",
        "Two harmless rewrites of the anchored code per property (same tests passing, same behaviour); the wanted outcome "
        "is exit 0. Kept under `refactors/<name>/`.", "",
        "| refactoring | property | outcome |", "|---|---|---|"]
for m in sorted(glob.glob(os.path.join(V, "refactors/*/meta.json"))):
    d = json.load(open(m))
    out.append(f"| `{os.path.basename(os.path.dirname(m))}` | {d['property']} | {d['result'].replace('|', '/')} |")
out += ["", "---", "", open(os.path.join(V, "meta/design/tail.md")).read().rstrip(), ""]
open(os.path.join(V, "DESIGN.md"), "w").write("\n".join(out))
print("DESIGN.md written:", sum(len(x) for x in out), "chars")
