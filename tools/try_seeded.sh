#!/bin/sh
# tools/try_seeded.sh <dir containing patch.diff (or patch_head.diff, preferred when present) and demo.py> <Cxx> [tier]
# Applies the seeded change to a scratch worktree of /repo, confirms the demo (fails with, passes without),
# runs ./check against it, removes the worktree.  Never touches /repo's working tree.
# BASELINE=1 also runs the pinned test-suite (tools/baseline_check.py) on the changed worktree (about 2.5 minutes).
d="$1"; id="$2"; tier="${3:-quick}"
wt=/tmp/lead_seed_$$/wt
mkdir -p "$(dirname "$wt")"
git -C /repo worktree add -q "$wt" HEAD || exit 2
cp /repo/src/easynetwork/version.py "$wt/src/easynetwork/version.py"
echo "== demo on unchanged tree"; (cd "$wt" && PYTHONPATH="$wt/src" timeout 300 /venv/bin/python "$d/demo.py" > /dev/null 2>&1; echo "exit=$?")
patch="$d/patch.diff"
[ -f "$d/patch_head.diff" ] && patch="$d/patch_head.diff"      # the same edit re-created on /repo HEAD after later fix: commits
(cd "$wt" && git apply "$patch") || { echo "patch does not apply"; git -C /repo worktree remove --force "$wt"; exit 2; }
echo "== demo on changed tree"; (cd "$wt" && PYTHONPATH="$wt/src" timeout 300 /venv/bin/python "$d/demo.py" 2>&1 | tail -3; echo "exit=$?")
if [ -n "$BASELINE" ]; then echo "== pinned baseline on changed tree"; (cd /verif && VERIF_REPO="$wt" timeout 3000 /venv/bin/python tools/baseline_check.py 2>&1 | tail -4); fi
echo "== check $id on changed tree"
(cd /verif && VERIF_REPO="$wt" timeout 3000 ./check "$id" --tier "$tier" 2>&1 | tail -6)
git -C /repo worktree remove --force "$wt"; rm -rf "$(dirname "$wt")"
