#!/usr/bin/env python3
"""tools/mk_mut.py <round> <property> : prepare the scratch directory of a seeding agent under /tmp/mut<round>_<property>/
(worktree of /repo HEAD, the property text, the prompt).  The agent gets nothing from /verif except the property text and
one-line descriptions of the changes seeded for that property in earlier rounds (so that it looks elsewhere)."""
import json, os, subprocess, sys

rnd, prop = sys.argv[1], sys.argv[2]
base = f"/tmp/mut{rnd}_{prop}"
os.makedirs(base + "/out", exist_ok=True)
if not os.path.exists(base + "/wt"):
    subprocess.run(["git", "-C", "/repo", "worktree", "add", "--detach", base + "/wt", "HEAD"], check=True,
                   stdout=subprocess.DEVNULL)
    subprocess.run(["cp", "/repo/src/easynetwork/version.py", base + "/wt/src/easynetwork/version.py"], check=True)
p = [json.loads(l) for l in open("/verif/properties.jsonl") if json.loads(l)["id"] == prop][0]
json.dump(p, open(base + "/property.json", "w"), indent=1)
earlier = []
for d in sorted(os.listdir("/verif/seeded")):
    m = os.path.join("/verif/seeded", d, "meta.json")
    if os.path.exists(m) and json.load(open(m)).get("property") == prop:
        diff = open(os.path.join("/verif/seeded", d, "patch.diff")).read()
        files = sorted({l[6:] for l in diff.splitlines() if l.startswith("+++ b/")})
        earlier.append(f"  - {d.split('-', 2)[-1] if d.count('-') >= 2 else d}  ({', '.join(files)})")
prompt = f"""You are helping to evaluate a verification effort for the Python library EasyNetwork. Your job is to SEED DEFECTS:
produce realistic source changes that break one stated property of the library while the existing test suite keeps passing.

Your scratch area is {base}/ and nothing else:
  {base}/wt             a git worktree of the library (src/easynetwork/..., tests/...). Work ONLY here.
  {base}/property.json  the property (statement, quantifier, anchors: the files and mechanisms it rests on)
  {base}/out/<n>/       where your results go (n = 1, 2, 3)
Do not read or touch /verif or /repo. Do not use `git stash` (the stash is shared with other worktrees). Run every command
under `timeout`. Python is /venv/bin/python; use PYTHONPATH={base}/wt/src for everything you run. There is no network.

Task: produce THREE different changes. Each change must
  1. be small and realistic: something a maintainer could plausibly commit (a refactoring, an optimisation, a "simplification",
     a statement moved, a condition rewritten, an exception handler narrowed or widened, a lock/scope/await reordered) —
     never a change that targets a test or special-cases an input, and only under src/easynetwork/;
  2. BREAK THE PROPERTY in {base}/property.json on some input, schedule, cancellation point or history that you can exhibit
     against the real code;
  3. keep the existing tests passing. The whole suite runs in about 3 minutes with EXACTLY this command (run it from the
     worktree root, without naming test directories and without -n; otherwise the async tests error at set-up):
        cd {base}/wt && PYTHONPATH={base}/wt/src timeout 1500 /venv/bin/python -m pytest -ra -q -p no:cacheprovider \
            --timeout=900 --continue-on-collection-errors --junitxml=<file>
     (about 7900 tests pass on the unchanged worktree; a few hundred fail or error because trio / cbor2 / msgpack / trustme
     are not installed — identical with and without your change). Run it on the unchanged worktree first (baseline junit
     xml), then with each change, and compare the sets of passing test ids: every test that passed at baseline must still
     pass. A change that makes a baseline-passing test fail is discarded (say so in your notes and find another one);
  4. use a mechanism different from your other two changes and from the changes already seeded for this property in
     earlier rounds:
{chr(10).join(earlier) if earlier else "  (none)"}
     Prefer mechanisms that need a particular combination to manifest (a configuration, a boundary, a second operation, a
     specific interleaving or cancellation point), in code the property's anchors name or that they call.

For each change n write into {base}/out/<n>/ :
  patch.diff   `git diff` of the change against the unchanged worktree (must apply with `git apply` on a clean worktree)
  demo.py      a self-contained script (run with PYTHONPATH=<worktree>/src) that exercises the real library code and exits 0
               on the unchanged worktree and exits 1, printing what went wrong, with the change applied. It must finish in
               well under 2 minutes and never hang (use timeouts).
  notes.txt    the mechanism, what it needs to manifest, why the existing tests do not see it, and the exact commands and
               results of the test runs (baseline vs changed).
Leave the worktree clean (`git checkout -- .`) when you are done, and finish with a short summary (one paragraph per change).
"""
open(base + "/prompt.txt", "w").write(prompt)
print(base)
