#!/usr/bin/env python3
"""tools/keep_refactor.py <src_dir> <name> <property> "<result>" : keep a behaviour-preserving refactoring (patch.diff,
notes.txt) under /verif/refactors/<name>/ with the outcome of the property's check on it (meta.json)."""
import json, os, shutil, sys
src, name, prop, result = sys.argv[1:5]
dst = os.path.join("/verif/refactors", name)
os.makedirs(dst, exist_ok=True)
for f in ("patch.diff", "notes.txt"):
    p = os.path.join(src, f)
    if os.path.exists(p):
        shutil.copy(p, os.path.join(dst, f))
json.dump(dict(property=prop, result=result), open(os.path.join(dst, "meta.json"), "w"), indent=1)
print("kept", dst)
