#!/usr/bin/env python3
"""tools/mk_refactor.py <tag> <prop> [<prop> ...] : prepare the scratch directory of an agent that writes BEHAVIOUR-PRESERVING
rewrites of the code the given properties rest on (/tmp/refac_<tag>/: worktree of /repo HEAD, the property texts, the
prompt).  Used to measure how often the checks raise an alarm on code where the property still holds."""
import json, os, subprocess, sys

tag, props = sys.argv[1], sys.argv[2:]
base = f"/tmp/refac_{tag}"
os.makedirs(base + "/out", exist_ok=True)
if not os.path.exists(base + "/wt"):
    subprocess.run(["git", "-C", "/repo", "worktree", "add", "--detach", base + "/wt", "HEAD"], check=True,
                   stdout=subprocess.DEVNULL)
    subprocess.run(["cp", "/repo/src/easynetwork/version.py", base + "/wt/src/easynetwork/version.py"], check=True)
allp = {json.loads(l)["id"]: json.loads(l) for l in open("/verif/properties.jsonl")}
earlier = []
for d in sorted(os.listdir("/verif/refactors")) if os.path.isdir("/verif/refactors") else []:
    if d.split("-")[0] in props and os.path.exists(f"/verif/refactors/{d}/patch.diff"):
        diff = open(f"/verif/refactors/{d}/patch.diff").read()
        funcs = sorted({l.split("@@")[-1].strip()[:70] for l in diff.splitlines() if l.startswith("@@") and l.count("@@") >= 2 and l.split("@@")[-1].strip()})
        files = sorted({l[6:].split("/")[-1] for l in diff.splitlines() if l.startswith("+++ b/")})
        earlier.append(f"  - {d}: {', '.join(files)} ({'; '.join(funcs[:4])})")
json.dump([allp[p] for p in props], open(base + "/properties.json", "w"), indent=1)
prompt = f"""You are helping to evaluate a verification effort for the Python library EasyNetwork. Your job is to write HARMLESS,
BEHAVIOUR-PRESERVING source changes (refactorings) of the code that certain properties of the library rest on. They are used to
measure whether property checks raise false alarms on code where the property still holds.

Your scratch area is {base}/ and nothing else:
  {base}/wt               a git worktree of the library (src/easynetwork/..., tests/...). Work ONLY here.
  {base}/properties.json  the properties ({', '.join(props)}): statement, and `anchors` = the files / functions / mechanisms each rests on
  {base}/out/<prop>-<n>/  where your results go (for each property: n = 1, 2)
Do not read or touch /verif or /repo. Do not use `git stash`. Run every command under `timeout`. Python is /venv/bin/python; use
PYTHONPATH={base}/wt/src for everything you run. There is no network.

Task: for EACH property in properties.json produce TWO different refactorings of functions named in (or called by) that
property's anchors. Each refactoring must
  1. preserve the observable behaviour of the library EXACTLY (same results, same exceptions, same order of side effects,
     same awaits / yields / lock acquisitions in the same order — do not add, remove or move any `await`, `yield`, lock,
     scope, or I/O call; do not change the public API or any exception type/message);
  2. be the kind of clean-up a maintainer commits routinely, and touch the anchored logic itself (not only comments):
     rename local variables, introduce or inline a local variable, extract a private helper function or inline one,
     rewrite a condition into an equivalent one (De Morgan, early return vs else, `match` vs `if`/`elif`, a `while` loop
     into an equivalent form), reorder independent pure statements, replace a comprehension by a loop, change
     comments/docstrings, split a long expression. Make the two refactorings of a property different in kind (e.g. one
     mostly renames/extracts, the other restructures control flow);
  3. keep the existing tests passing. The whole suite runs in about 3 minutes with EXACTLY this command (from the worktree
     root, without naming test directories and without -n; otherwise the async tests error at set-up):
        cd {base}/wt && PYTHONPATH={base}/wt/src timeout 1500 /venv/bin/python -m pytest -ra -q -p no:cacheprovider \\
            --timeout=900 --continue-on-collection-errors --junitxml=<file>
     Run it on the unchanged worktree first, then with each change; compare the sets of passing test ids: nothing that
     passed may fail (6710 tests pass on the unchanged worktree; ~3000 async unit tests error at set-up in this environment
     with and without any change).
  4. differ from the refactorings written in an earlier round for these properties (other functions where possible, and
     other KINDS of rewrite: e.g. extract / inline a private method, rename a private attribute everywhere it is used,
     reorder independent statements, replace an if/elif chain by `match` or the reverse, split or merge except clauses
     whose bodies are identical, replace `try/finally` by an equivalent context manager, introduce or remove a walrus,
     turn a comprehension into a loop, hoist an invariant read out of a loop, change which of two equal-valued
     expressions is used):
{chr(10).join(earlier) if earlier else "  (none)"}

For each refactoring write into {base}/out/<prop>-<n>/ :
  patch.diff   `git diff` against the unchanged worktree (must apply with `git apply` on a clean worktree)
  notes.txt    what was rewritten, why it cannot change behaviour, and the test commands/results.
Leave the worktree clean (`git checkout -- .`) when you are done, and finish with a one-line summary per refactoring.
"""
open(base + "/prompt.txt", "w").write(prompt)
print(base)
