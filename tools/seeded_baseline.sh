#!/bin/sh
# tools/seeded_baseline.sh <seeded dir name> : apply seeded/<name>/patch.diff to a scratch worktree of /repo HEAD and run
# the pinned test-suite on it; writes seeded/<name>/baseline.txt (one line: the result of tools/baseline_check.py, or
# "patch does not apply to <commit>").  Never touches /repo's working tree.
name="$1"
d="/verif/seeded/$name"
[ -f "$d/patch.diff" ] || { echo "no patch in $d"; exit 2; }
wt="/tmp/seedbase_$$/wt"
mkdir -p "$(dirname "$wt")"
git -C /repo worktree add -q --detach "$wt" HEAD || exit 2
cp /repo/src/easynetwork/version.py "$wt/src/easynetwork/version.py"
head=$(git -C /repo rev-parse --short HEAD)
patch="$d/patch.diff"
[ -f "$d/patch_head.diff" ] && patch="$d/patch_head.diff"      # the same edit re-created on /repo HEAD after later fix: commits
if (cd "$wt" && git apply "$patch") 2>/dev/null; then
  res=$(cd /verif && VERIF_REPO="$wt" timeout 3000 /venv/bin/python tools/baseline_check.py 2>&1 | grep -E "^stable_pass|^MISSING" | head -5 | tr '\n' ' ')
  echo "$head: $res" > "$d/baseline.txt"
else
  echo "$head: patch does not apply" > "$d/baseline.txt"
fi
cat "$d/baseline.txt"
git -C /repo worktree remove --force "$wt"; rm -rf "$(dirname "$wt")"
