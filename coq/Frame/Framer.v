(* A Python generator-based deserializer is a step machine.  Copying path: [framer]; buffer-filling path: [bframer]. *)
From EN Require Import Lib.Bytes.

Inductive err := ELimit | EDecode | EConvert | EMissing | EExtra.

Definition err_eqb (a b : err) : bool :=
  match a, b with
  | ELimit, ELimit | EDecode, EDecode | EConvert, EConvert | EMissing, EMissing | EExtra, EExtra => true
  | _, _ => false
  end.

(* result of consumer.send(chunk):  yield again | return (packet, remainder) | raise parse error(remainder) | other exception *)
Inductive fres (S P : Type) :=
| Need (s : S)
| Done (p : P) (rest : bytes)
| Fail (e : err) (rest : bytes)
| Crash.
Arguments Need {S P}. Arguments Done {S P}. Arguments Fail {S P}. Arguments Crash {S P}.

Record framer (P : Type) := {
  fst_ : Type;
  finit : fst_;                               (* state at the generator's first yield *)
  ffeed : fst_ -> bytes -> fres fst_ P        (* generator.send(chunk) *)
}.
Arguments fst_ {P}. Arguments finit {P}. Arguments ffeed {P}.

(* buffer-filling path: the generator shares the buffer [mem]; send(n) says n more bytes were written at the position
   it last yielded; it yields the next write position *)
Inductive bres (S P : Type) :=
| BNeed (s : S) (start : nat)
| BDone (p : P) (rest : bytes)
| BFail (e : err) (rest : bytes)
| BCrash.
Arguments BNeed {S P}. Arguments BDone {S P}. Arguments BFail {S P}. Arguments BCrash {S P}.

Record bframer (P : Type) := {
  bst_ : Type;
  balloc : nat -> nat;                        (* create_deserializer_buffer(sizehint) : size allocated *)
  binit : bst_ * nat;                         (* state and write position at the first yield *)
  bfeed : bst_ -> bytes -> nat -> bres bst_ P (* state -> whole buffer contents -> nb new bytes -> ... *)
}.
Arguments bst_ {P}. Arguments balloc {P}. Arguments binit {P}. Arguments bfeed {P}.

(* a one-shot inner codec: deserialize(data) either returns a packet or raises DeserializeError *)
Definition decoder (P : Type) := bytes -> option P.
