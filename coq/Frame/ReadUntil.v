(* GeneratorStreamReader.read_until / read_exactly (serializers/tools.py) and the framers built on them
   (AutoSeparatedPacketSerializer.incremental_deserialize, FixedSizePacketSerializer.incremental_deserialize). *)
From EN Require Import Lib.Bytes Frame.Framer.

Section ReadUntil.
  Context {P : Type}.
  Variable sep : bytes.
  Variable limit : nat.
  Variable keep_end : bool.
  Variable dec : decoder P.

  Definition seplen := length sep.

  (* state of the generator while suspended in read_until: None = still in the initial `while not buffer` loop,
     Some (buffer, offset) = suspended at `buffer += yield` *)
  Definition ru_state := option (bytes * nat).

  (* what happens once a separator has been found at sepidx followed by read_all() and deserialize *)
  Definition ru_finish (buffer : bytes) (sepidx : nat) : fres ru_state P :=
    if Nat.ltb limit sepidx then Fail ELimit (overrun_remainder sep buffer sepidx)
    else
      let data := firstn (if keep_end then sepidx + seplen else sepidx) buffer in
      let rest := skipn (sepidx + seplen) buffer in
      match dec data with
      | Some p => Done p rest
      | None => Fail EDecode rest
      end.

  (* one iteration of the `while True` loop body, up to the next yield *)
  Definition ru_scan (buffer : bytes) (offset : nat) : fres ru_state P :=
    let buflen := length buffer in
    if Nat.leb seplen (buflen - offset) then
      match find sep buffer offset with
      | Some sepidx => ru_finish buffer sepidx
      | None =>
          let offset' := buflen + 1 - seplen in
          if Nat.ltb limit offset' then Fail ELimit (overrun_remainder sep buffer offset')
          else Need (Some (buffer, offset'))
      end
    else Need (Some (buffer, offset)).

  Definition ru_feed (st : ru_state) (chunk : bytes) : fres ru_state P :=
    match st with
    | None => match chunk with [] => Need None | _ => ru_scan chunk 0 end
    | Some (buffer, offset) => ru_scan (buffer ++ chunk) offset
    end.

  Definition ru_framer : framer P := {| fst_ := ru_state; finit := None; ffeed := ru_feed |}.
End ReadUntil.

Section ReadExactly.
  Context {P : Type}.
  Variable size : nat.    (* > 0 *)
  Variable dec : decoder P.

  (* None = initial `while not buffer` loop ; Some buffer = suspended in `while len(buffer) < n` *)
  Definition rx_state := option bytes.

  Definition rx_check (buffer : bytes) : fres rx_state P :=
    if Nat.ltb (length buffer) size then Need (Some buffer)
    else match dec (firstn size buffer) with
         | Some p => Done p (skipn size buffer)
         | None => Fail EDecode (skipn size buffer)
         end.

  Definition rx_feed (st : rx_state) (chunk : bytes) : fres rx_state P :=
    match st with
    | None => match chunk with [] => Need None | _ => rx_check chunk end
    | Some buffer => rx_check (buffer ++ chunk)
    end.

  Definition rx_framer : framer P := {| fst_ := rx_state; finit := None; ffeed := rx_feed |}.
End ReadExactly.
