(* _buffered_readuntil and the buffered framers of serializers/base_stream.py *)
From EN Require Import Lib.Bytes Frame.Framer.

Section BufReadUntil.
  Context {P : Type}.
  Variable sep : bytes.
  Variable limit : nat.           (* the serializer's limit = size of the allocated bytearray *)
  Variable keep_end : bool.
  Variable dec : decoder P.

  Definition bseplen := length sep.

  (* (buflen, offset) *)
  Definition bru_state := (nat * nat)%type.

  (* loop body after `buflen += yield buflen`;  [mem] is the whole bytearray (stale bytes beyond buflen included).
     The generator's own limit is len(buffer) - 1 - seplen, possibly negative: compare in Z. *)
  Definition bru_scan (mem : bytes) (buflen offset : nat) : bres bru_state P :=
    if Nat.leb bseplen (buflen - offset) then
      match find_in sep mem offset buflen with
      | Some sepidx =>
          let off' := sepidx + bseplen in
          let rest := firstn (buflen - off') (skipn off' mem) in
          match dec (firstn (if keep_end then off' else sepidx) mem) with
          | Some p => BDone p rest
          | None => BFail EDecode rest
          end
      | None =>
          let offset' := buflen + 1 - bseplen in
          if Z.ltb (Z.of_nat (length mem) - 1 - Z.of_nat bseplen) (Z.of_nat offset')
          then BFail ELimit (overrun_remainder sep (firstn buflen mem) offset')
          else BNeed (buflen, offset') buflen
      end
    else BNeed (buflen, offset) buflen.

  Definition bru_feed (st : bru_state) (mem : bytes) (n : nat) : bres bru_state P :=
    let '(buflen, offset) := st in bru_scan mem (buflen + n) offset.

  Definition bru_framer : bframer P :=
    {| bst_ := bru_state; balloc := fun _ => limit; binit := ((0, 0), 0); bfeed := bru_feed |}.
End BufReadUntil.

Section BufFixed.
  Context {P : Type}.
  Variable size : nat.
  Variable dec : decoder P.

  Definition bfx_feed (nread : nat) (mem : bytes) (n : nat) : bres nat P :=
    let nread' := nread + n in
    if Nat.ltb nread' size then BNeed nread' nread'
    else
      let rest := firstn (nread' - size) (skipn size mem) in
      match dec (firstn size mem) with
      | Some p => BDone p rest
      | None => BFail EDecode rest
      end.

  Definition bfx_framer : bframer P :=
    {| bst_ := nat; balloc := fun hint => Nat.max size hint; binit := (0, 0); bfeed := bfx_feed |}.
End BufFixed.
