(* The one-shot `deserialize` methods and DatagramProtocol.build_packet_from_datagram, over the library oracles of
   ErrSites.v / Generic.v.  Result: a packet, or the class of the exception that leaves the method.  No proofs here. *)
From EN Require Import Lib.Bytes Frame.Framer Frame.ErrSites Frame.Generic.

(* StringLineSerializer.deserialize: `while data.endswith(separator): data = data.removesuffix(separator)` *)
Fixpoint strip_seps (fuel : nat) (sep data : bytes) : bytes :=
  match fuel with
  | 0 => data
  | S f => if endswithb data sep then strip_seps f sep (firstn (length data - length sep) data) else data
  end.

Definition line_strip (sep : bytes) (keep_end : bool) (data : bytes) : bytes :=
  if keep_end then data else strip_seps (length data) sep data.

Section FileBasedOneShot.
  Context {P : Type}.
  Variable load : bytes -> lres P.
  Variable expected : Z -> bool.
  Variable eof_raised : Z.        (* class raised by the `except EOFError` handler *)
  Variable exp_raised : Z.        (* class raised by the `except self.__expected_errors` handler *)
  Variable own : Z.               (* class of `raise DeserializeError("Extra data caught")` *)

  (* FileBasedPacketSerializer.deserialize *)
  Definition fb_deserialize (data : bytes) : ores P :=
    match load data with
    | LEof _ => ORaise eof_raised
    | LRaise k _ => ORaise (if expected k then exp_raised else k)
    | LDone p pos => match skipn pos data with [] => OOk p | _ => ORaise own end
    end.
End FileBasedOneShot.

Section CompressorOneShot.
  Context {P : Type}.
  Variable D : Type.
  Variable dnew : D.
  Variable ddecompress : D -> bytes -> (D * bytes) + Z.
  Variable deof : D -> bool.
  Variable dunused : D -> bytes.
  Variable expected : Z -> bool.
  Variable exp_raised : Z.
  Variable own : Z.
  Variable inner : bytes -> ores P.

  (* AbstractCompressorSerializer.deserialize *)
  Definition cz_deserialize (data : bytes) : ores P :=
    match ddecompress dnew data with
    | inr k => ORaise (if expected k then exp_raised else k)
    | inl (d, out) =>
        if negb (deof d) then ORaise own
        else match dunused d with
             | [] => inner out
             | _ => ORaise own
             end
    end.
End CompressorOneShot.

(* DatagramProtocol.build_packet_from_datagram without converter: `except DeserializeError -> DatagramProtocolParseError` *)
Definition dgram_build {P} (s : trysite) (o : ores P) : ores P := rehandle s o.
