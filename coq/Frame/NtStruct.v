(* serializers/struct.py — NamedTupleStructSerializer over a format "<n>s B" (one string field of n bytes, one unsigned
   byte): iter_values encodes the string field, struct.pack pads it with NULs (or truncates it) to n bytes;
   from_tuple strips the TRAILING NULs (strip_string_trailing_nul_bytes) and decodes.  struct.pack / unpack themselves are
   the library's; the padding rule of 's' fields is part of this model.  No proofs here. *)
From EN Require Import Lib.Bytes Frame.Framer.

Local Open Scope N_scope.

(* bytes.rstrip(b"\0") *)
Fixpoint rstrip0 (l : bytes) : bytes :=
  match l with
  | [] => []
  | b :: r => match rstrip0 r with
              | [] => if b =? 0 then [] else [b]
              | r' => b :: r'
              end
  end.

Definition nt_serialize (n : nat) (name : bytes) (x : N) : bytes :=
  firstn n name ++ repeat 0 (n - length name)%nat ++ [x].

(* None = DeserializeError (wrong size, or the field is not decodable with an ascii encoding) *)
Definition nt_deserialize (n : nat) (strip ascii : bool) (frame : bytes) : option (bytes * N) :=
  if Nat.eqb (length frame) (S n) then
    let v := firstn n frame in
    let v := if strip then rstrip0 v else v in
    if ascii && negb (forallb (fun b => b <? 128) v) then None else Some (v, nth n frame 0)
  else None.
