(* The sending side: incremental_serialize of the separator-framed and fixed-size base classes.
   [data] is what the one-shot serialize(packet) returned; None = ValueError. *)
From EN Require Import Lib.Bytes.

(* while data.endswith(separator): data = data.removesuffix(separator) *)
Fixpoint strip_suffixes (fuel : nat) (sep data : bytes) : bytes :=
  match fuel with
  | 0 => data
  | S f => if endswithb data sep then strip_suffixes f sep (firstn (length data - length sep) data) else data
  end.

(* AutoSeparatedPacketSerializer.incremental_serialize *)
Definition autosep_iser (check : bool) (sep data : bytes) : option (list bytes) :=
  if check then
    let d := strip_suffixes (length data) sep data in
    if containsb sep d then None
    else match d with [] => Some [] | _ => Some [d ++ sep] end
  else if endswithb data sep then Some [data]
  else match data with [] => Some [] | _ => Some [data ++ sep] end.

(* StringLineSerializer.incremental_serialize *)
Definition line_iser (sep data : bytes) : list bytes :=
  match data with
  | [] => []
  | _ => if endswithb data sep then [data] else [data ++ sep]
  end.

(* FixedSizePacketSerializer.incremental_serialize *)
Definition fixed_iser (size : nat) (data : bytes) : option (list bytes) :=
  if Nat.eqb (length data) size then Some [data] else None.
