(* The generic (non separator, non fixed-size) incremental deserializers of serializers/base_stream.py and
   serializers/wrapper/compressor.py, over abstract streaming libraries given as oracles.  No proofs here.

     FileBasedPacketSerializer.__generic_incremental_deserialize / __check_file_buffer_limit      -> fb_framer
     _wrap_generic_incremental_deserialize                                                        -> wrap_generic
     _wrap_generic_buffered_incremental_deserialize                                               -> bwrap_generic
     AbstractCompressorSerializer.__generic_incremental_deserialize                               -> cz_framer
     FileBasedPacketSerializer.create_deserializer_buffer / AbstractCompressorSerializer's         -> fb_alloc / cz_alloc *)
From EN Require Import Lib.Bytes Frame.Framer Frame.ErrSites.

(* ---- io.BytesIO.write(data) at file position pos : overwrite, extend, zero-fill a gap *)
Definition bio_write (content : bytes) (pos : nat) (data : bytes) : bytes :=
  firstn pos content ++ repeat 0%N (pos - length content) ++ data ++ skipn (pos + length data) content.

(* ---- FileBasedPacketSerializer ---- *)
(* load_from_file(file) on a BytesIO holding [content], read position 0.  [pos] = file.tell() when it returned/raised. *)
Inductive lres (P : Type) :=
| LEof (pos : nat)                   (* raised EOFError *)
| LDone (p : P) (pos : nat)
| LRaise (k : Z) (pos : nat).        (* raised an exception of class code k (not an EOFError) *)
Arguments LEof {P}. Arguments LDone {P}. Arguments LRaise {P}.

Section FileBased.
  Context {P : Type}.
  Variable limit : nat.
  Variable load : bytes -> lres P.
  Variable expected : Z -> bool.       (* isinstance(exc, self.__expected_errors) *)

  (* None : at `BytesIO((yield))` ;  Some (content, pos) : at `buffer.write((yield))` *)
  Definition fb_state := option (bytes * nat).

  (* __check_file_buffer_limit, then load_from_file, with the buffer rewound to 0 *)
  Definition fb_round (content : bytes) : fres fb_state P :=
    if Nat.ltb limit (length content) then Fail ELimit (overrun_remainder [] content (length content))
    else match load content with
         | LEof pos => Need (Some (content, pos))
         | LDone p pos => Done p (skipn pos content)
         | LRaise k pos => if expected k then Fail EDecode (skipn pos content) else Crash
         end.

  Definition fb_feed (st : fb_state) (chunk : bytes) : fres fb_state P :=
    match st with
    | None => fb_round chunk
    | Some (content, pos) => fb_round (bio_write content pos chunk)
    end.

  Definition fb_framer : framer P := {| fst_ := fb_state; finit := None; ffeed := fb_feed |}.

  (* create_deserializer_buffer(sizehint) *)
  Definition fb_alloc (sizehint : nat) : nat := Nat.min sizehint limit.
End FileBased.

(* ---- the two wrappers ---- *)
Section Wrap.
  Context {P : Type}.
  Variable F : framer P.

  (* _wrap_generic_incremental_deserialize: `yield from func()` then bytes(remainder) *)
  Definition wrap_generic : framer P :=
    {| fst_ := fst_ F; finit := finit F;
       ffeed := fun s chunk =>
                  match ffeed F s chunk with
                  | Need s' => Need s'
                  | Done p rest => Done p rest
                  | Fail e rest => Fail e rest
                  | Crash => Crash
                  end |}.

  (* _wrap_generic_buffered_incremental_deserialize: `nbytes = yield` (yields None: write position 0),
     then gen.send(buffer[:nbytes]) *)
  Definition bwrap_feed (s : fst_ F) (mem : bytes) (nbytes : nat) : bres (fst_ F) P :=
    match ffeed F s (firstn nbytes mem) with
    | Need s' => BNeed s' 0
    | Done p rest => BDone p rest
    | Fail e rest => BFail e rest
    | Crash => BCrash
    end.

  Definition bwrap_generic (alloc : nat -> nat) : bframer P :=
    {| bst_ := fst_ F; balloc := alloc; binit := (finit F, 0); bfeed := bwrap_feed |}.
End Wrap.

(* ---- AbstractCompressorSerializer ---- *)
Section Compressor.
  Context {P : Type}.
  Variable D : Type.                                  (* the decompressor object *)
  Variable dnew : D.                                  (* new_decompressor_stream(); its eof is False *)
  Variable ddecompress : D -> bytes -> (D * bytes) + Z.   (* decompress(chunk): new state and output, or raises class k *)
  Variable deof : D -> bool.
  Variable dunused : D -> bytes.
  Variable expected : Z -> bool.                      (* isinstance(exc, self.__expected_error) *)
  Variable inner : bytes -> ores P.                   (* self.__serializer.deserialize(data) *)
  Variable inner_declared : Z -> bool.                (* `except DeserializeError` around it *)

  (* (results deque, decompressor), suspended at `chunk = yield` *)
  Definition cz_state := (list bytes * D)%type.

  Definition cz_finish (results : list bytes) (d : D) : fres cz_state P :=
    let data := concat results in
    let unused := dunused d in
    match inner data with
    | OOk p => Done p unused
    | ORaise k => if inner_declared k then Fail EDecode unused else Crash
    end.

  Definition cz_feed (st : cz_state) (chunk : bytes) : fres cz_state P :=
    let '(results, d) := st in
    match ddecompress d chunk with
    | inr k => if expected k then Fail EDecode [] else Crash
    | inl (d', out) =>
        let results' := match out with [] => results | _ => results ++ [out] end in
        if deof d' then cz_finish results' d' else Need (results', d')
    end.

  Definition cz_framer : framer P := {| fst_ := cz_state; finit := ([], dnew); ffeed := cz_feed |}.

  Definition cz_alloc (sizehint : nat) : nat := sizehint.
End Compressor.
