(* serializers/wrapper/base64.py — Base64EncoderSerializer: serialize = b64encode(inner.serialize(p) [+ checksum]),
   deserialize = b64decode, checksum verification, inner.deserialize; framed by AutoSeparatedPacketSerializer.
   The base64 codec itself (Python's base64 / binascii, RFC 4648 with padding) is modelled here: [b64_enc] is the encoder;
   [b64_dec] is the decoder on properly padded tokens over the alphabet (binascii's lenient treatment of foreign
   characters is NOT modelled: the correspondence runs the decoder on such tokens only).  No proofs here. *)
From EN Require Import Lib.Bytes Frame.Framer.

Local Open Scope N_scope.

(* url = true: URL- and filesystem-safe alphabet ('-' and '_' instead of '+' and '/') *)
Definition b64_char (url : bool) (n : N) : N :=
  if n <? 26 then 65 + n
  else if n <? 52 then 97 + (n - 26)
  else if n <? 62 then 48 + (n - 52)
  else if n =? 62 then (if url then 45 else 43)
  else (if url then 95 else 47).

Definition b64_val (url : bool) (c : N) : option N :=
  if (65 <=? c) && (c <=? 90) then Some (c - 65)
  else if (97 <=? c) && (c <=? 122) then Some (c - 97 + 26)
  else if (48 <=? c) && (c <=? 57) then Some (c - 48 + 52)
  else if c =? (if url then 45 else 43) then Some 62
  else if c =? (if url then 95 else 47) then Some 63
  else None.

Definition b64_pad : N := 61.   (* '=' *)

Fixpoint b64_enc (url : bool) (l : bytes) : bytes :=
  match l with
  | a :: b :: c :: r =>
      let n := a * 65536 + b * 256 + c in
      b64_char url (n / 262144) :: b64_char url ((n / 4096) mod 64) :: b64_char url ((n / 64) mod 64)
        :: b64_char url (n mod 64) :: b64_enc url r
  | [a; b] =>
      let n := a * 65536 + b * 256 in
      [b64_char url (n / 262144); b64_char url ((n / 4096) mod 64); b64_char url ((n / 64) mod 64); b64_pad]
  | [a] =>
      let n := a * 65536 in
      [b64_char url (n / 262144); b64_char url ((n / 4096) mod 64); b64_pad; b64_pad]
  | [] => []
  end.

Fixpoint b64_dec (url : bool) (l : bytes) : option bytes :=
  match l with
  | [] => Some []
  | c1 :: c2 :: c3 :: c4 :: r =>
      match b64_val url c1, b64_val url c2 with
      | Some v1, Some v2 =>
          if (c3 =? b64_pad) && (c4 =? b64_pad) then
            match r with [] => Some [(v1 * 64 + v2) / 16] | _ => None end
          else
            match b64_val url c3 with
            | Some v3 =>
                if c4 =? b64_pad then
                  match r with
                  | [] => let n := v1 * 4096 + v2 * 64 + v3 in Some [n / 1024; (n / 4) mod 256]
                  | _ => None
                  end
                else
                  match b64_val url c4 with
                  | Some v4 =>
                      let n := v1 * 262144 + v2 * 4096 + v3 * 64 + v4 in
                      match b64_dec url r with
                      | Some t => Some (n / 65536 :: (n / 256) mod 256 :: n mod 256 :: t)
                      | None => None
                      end
                  | None => None
                  end
            | None => None
            end
      | _, _ => None
      end
  | _ => None
  end.

Definition wf_bytes (l : bytes) : Prop := Forall (fun b => b < 256) l.

Section B64Serializer.
  Context {P : Type}.
  Variable url : bool.
  Variable checksum : option (bytes -> bytes).   (* sha256 / hmac-sha256 digest (32 bytes); None = checksum=False *)
  Variable inner_enc : P -> bytes.                (* self.__serializer.serialize *)
  Variable inner_dec : decoder P.                 (* self.__serializer.deserialize (None = DeserializeError) *)

  Definition b64_serialize (p : P) : bytes :=
    let d := inner_enc p in
    b64_enc url (match checksum with Some h => d ++ h d | None => d end).

  (* None = DeserializeError("Invalid token") or the inner serializer's DeserializeError *)
  Definition b64_deserialize (tok : bytes) : option P :=
    match b64_dec url tok with
    | None => None
    | Some d =>
        match checksum with
        | None => inner_dec d
        | Some h =>
            let body := firstn (length d - 32)%nat d in        (* data[:-32] *)
            let digest := skipn (length d - 32)%nat d in        (* data[-32:] *)
            if bytes_eqb (h body) digest then inner_dec body else None
        end
    end.
End B64Serializer.
