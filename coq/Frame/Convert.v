(* StreamProtocol / BufferedStreamProtocol with a converter: the packet returned by the serializer's generator is passed
   to converter.create_from_dto_packet; PacketConversionError becomes a parse error carrying the same remainder. *)
From EN Require Import Lib.Bytes Frame.Framer.

Section Conv.
  Context {Q P : Type}.
  Variable conv : Q -> option P.      (* create_from_dto_packet: None = PacketConversionError *)

  Definition conv_res {S} (r : fres S Q) : fres S P :=
    match r with
    | Need s => Need s
    | Done q rest => match conv q with Some p => Done p rest | None => Fail EConvert rest end
    | Fail e rest => Fail e rest
    | Crash => Crash
    end.

  Definition conv_framer (F : framer Q) : framer P :=
    {| fst_ := fst_ F; finit := finit F; ffeed := fun s ch => conv_res (ffeed F s ch) |}.

  Definition conv_bres {S} (r : bres S Q) : bres S P :=
    match r with
    | BNeed s start => BNeed s start
    | BDone q rest => match conv q with Some p => BDone p rest | None => BFail EConvert rest end
    | BFail e rest => BFail e rest
    | BCrash => BCrash
    end.

  Definition conv_bframer (F : bframer Q) : bframer P :=
    {| bst_ := bst_ F; balloc := balloc F; binit := binit F; bfeed := fun s mem n => conv_bres (bfeed F s mem n) |}.
End Conv.
