(* NamedTupleStructSerializer with one fixed-width string field "<n>s" (serializers/struct.py), one-shot codec used for
   datagrams:  serialize = struct.pack: the value cut / NUL-padded to n bytes;
               deserialize = struct.unpack (struct.error -> DeserializeError when the size is not n), then from_tuple:
               value.rstrip(b"\0") when strip_string_trailing_nul_bytes -- TRAILING NULs only.  No proofs here. *)
From EN Require Import Lib.Bytes Frame.Framer Frame.OneShot.

Fixpoint rstrip_nul (d : bytes) : bytes :=
  match d with
  | [] => []
  | b :: r =>
      match rstrip_nul r with
      | [] => if N.eqb b 0 then [] else [b]
      | r' => b :: r'
      end
  end.

Definition struct_s_serialize (n : nat) (v : bytes) : bytes := firstn n v ++ repeat 0%N (n - length v).

Definition struct_s_deserialize (n : nat) (strip : bool) (d : bytes) : ores bytes :=
  if Nat.eqb (length d) n then OOk (if strip then rstrip_nul d else d) else OErr EDecode.
