(* Exception sites.  Every call a serializer makes into a library (str(), json, struct, binascii, zlib, bz2, a user
   loader, the wrapped serializer) is an oracle answering with a value or with an exception class; the serializer's
   `except` clause at that site decides whether the exception becomes a (Incremental)DeserializeError or escapes.
   Exception classes are small integers (the table is in harness/common/excodes.py; the sets of classes caught at each
   site are regenerated from the source into Gen/ParamsC06.v).  No proofs here. *)
From EN Require Import Lib.Bytes Frame.Framer.

(* answer of a library call made at [site] *)
Inductive ans (P : Type) :=
| AOk (p : P)
| ABad                          (* the serializer's own code rejects the value without any exception (checksum, extra data) *)
| ARaise (site : nat) (k : Z).  (* the library raised an exception whose class has code k *)
Arguments AOk {P}. Arguments ABad {P}. Arguments ARaise {P}.

(* what leaves the serializer's method: a value, or an exception of class k *)
Inductive ores (P : Type) :=
| OOk (p : P)
| ORaise (k : Z).
Arguments OOk {P}. Arguments ORaise {P}.

Definition memZ (k : Z) (l : list Z) : bool := existsb (Z.eqb k) l.

(* one `except` handler: the class codes it catches (subclasses included) and the class its body raises instead *)
Definition site : Type := (list Z * Z)%type.

(* one handler around a call that raised class k *)
Definition through (s : site) (k : Z) : Z := if memZ k (fst s) then snd s else k.

(* a `try` statement = its handlers in source order; the first one that matches runs *)
Definition trysite : Type := list site.
Definition through_try (hs : trysite) (k : Z) : Z :=
  match List.find (fun s => memZ k (fst s)) hs with
  | Some s => snd s
  | None => k
  end.

(* [own] = class the serializer raises by itself for ABad; [sites] : the try statement guarding each library call *)
Definition handle {P} (own : Z) (sites : list trysite) (a : ans P) : ores P :=
  match a with
  | AOk p => OOk p
  | ABad => ORaise own
  | ARaise s k => ORaise (through_try (nth s sites []) k)
  end.

(* an outer try statement around a method call (FixedSize/AutoSeparated incremental_deserialize around self.deserialize) *)
Definition rehandle {P} (s : trysite) (o : ores P) : ores P :=
  match o with
  | OOk p => OOk p
  | ORaise k => ORaise (through_try s k)
  end.

(* a packet type that can also say: exception class k left the generator (neither return nor parse error) *)
Definition epkt (P : Type) : Type := (P + Z)%type.

(* [declared] = the classes the caller turns into a parse error (IncrementalDeserializeError and subclasses for the
   stream protocol).  Used as the one-shot codec of the framers of ReadUntil.v / BufReadUntil.v / JsonRaw.v. *)
Definition dec_of_ores {P} (declared : list Z) (g : bytes -> ores P) : decoder (epkt P) :=
  fun x => match g x with
           | OOk p => Some (inl p)
           | ORaise k => if memZ k declared then None else Some (inr k)
           end.

(* An exception escaping inside the generator terminates it: the consumer sees a non-parse-error exception. *)
Definition lift_fres {S P} (r : fres S (epkt P)) : fres S P :=
  match r with
  | Need s => Need s
  | Done (inl p) rest => Done p rest
  | Done (inr _) _ => Crash
  | Fail e rest => Fail e rest
  | Crash => Crash
  end.

Definition lift_bres {S P} (r : bres S (epkt P)) : bres S P :=
  match r with
  | BNeed s start => BNeed s start
  | BDone (inl p) rest => BDone p rest
  | BDone (inr _) _ => BCrash
  | BFail e rest => BFail e rest
  | BCrash => BCrash
  end.

Definition lift_framer {P} (F : framer (epkt P)) : framer P :=
  {| fst_ := fst_ F; finit := finit F; ffeed := fun s c => lift_fres (ffeed F s c) |}.

Definition lift_bframer {P} (F : bframer (epkt P)) : bframer P :=
  {| bst_ := bst_ F; balloc := balloc F; binit := binit F; bfeed := fun s m n => lift_bres (bfeed F s m n) |}.
