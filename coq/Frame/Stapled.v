(* StapledPacketSerializer (serializers/composite.py): two serializers merged, one used for sending and one for
   receiving.  Which stapled class a pair becomes (and therefore which receive paths the stream layer may use) is
   [stapled_class], REGENERATED on every run as the complete table of the dispatch of StapledPacketSerializer.__new__
   (Gen/ParamsC01.v: the real constructors called on every combination); the methods delegate unchanged to one half
   (exercised by the kind-30 cases of Run/C01.v). *)
From Coq Require Import ZArith List.
From EN Require Import Lib.Bytes Frame.Framer Gen.ParamsC01.
Import ListNotations.

(* a serializer as the stream layer sees it: capability (0 one-shot only, 1 incremental, 2 buffered incremental),
   incremental_serialize, incremental_deserialize, buffered_incremental_deserialize *)
Record half (PS PR : Type) := {
  h_cap : Z;
  h_iser : PS -> option (list bytes);
  h_fr : framer PR;
  h_bfr : bframer PR
}.
Arguments h_cap {PS PR}. Arguments h_iser {PS PR}. Arguments h_fr {PS PR}. Arguments h_bfr {PS PR}.

(* StapledPacketSerializer(sent, received) *)
Definition staple {PS X Y PR : Type} (s : half PS X) (r : half Y PR) : half PS PR :=
  {| h_cap := stapled_class 0 (h_cap s) (h_cap r);
     h_iser := h_iser s;
     h_fr := h_fr r;
     h_bfr := h_bfr r |}.

(* the receive paths the protocols accept: StreamProtocol needs an incremental serializer, BufferedStreamProtocol a
   buffered one *)
Definition offers_copying {PS PR} (h : half PS PR) : bool := (1 <=? h_cap h)%Z.
Definition offers_buffered {PS PR} (h : half PS PR) : bool := (2 <=? h_cap h)%Z.
