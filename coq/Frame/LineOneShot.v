(* StringLineSerializer one-shot codec (serializers/line.py serialize / deserialize), the codec used for every datagram:
     serialize(packet)  = packet.encode(encoding)                                  (no newline appended)
     deserialize(data)  = if not keep_end: while data.endswith(separator): data = data.removesuffix(separator)
                          str(data, encoding)                                      (UnicodeError -> DeserializeError)
   Strings are modelled by their encoded bytes (ascii: bytes < 128 only; latin-1: every byte).  No proofs here. *)
From EN Require Import Lib.Bytes Frame.Framer Frame.OneShot.

(* the while loop; it runs at most [length data] times when the separator is not empty *)
Fixpoint strip_suffixes (fuel : nat) (sep data : bytes) : bytes :=
  match fuel with
  | 0 => data
  | S f => if endswithb data sep then strip_suffixes f sep (firstn (length data - length sep) data) else data
  end.

Definition line_decode (ascii : bool) (data : bytes) : ores bytes :=
  if ascii && negb (forallb (fun b => N.ltb b 128) data) then OErr EDecode else OOk data.

Definition line_deserialize (sep : bytes) (keep_end ascii : bool) (data : bytes) : ores bytes :=
  line_decode ascii (if keep_end then data else strip_suffixes (length data) sep data).

Definition line_serialize (packet : bytes) : bytes := packet.
