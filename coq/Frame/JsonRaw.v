(* _JSONParser.raw_parse / _escaped / _split_partial_document and JSONSerializer.incremental_deserialize(use_lines=False)
   (serializers/json.py).  Executable model, no proofs.

   The generator is suspended at one of three yields:
     JInit            `partial_document: bytes = yield`
     JEnc doc c       `partial_document += yield` inside the enclosure loop; the resumed offset is len(doc)
     JPlain doc       `partial_document += yield` inside the plain-value loop
   The Counter `enclosure_counter` only ever holds the keys QUOTE, b'{', b'[' ; a missing key reads 0 and is not inserted by
   a read, so three integers are enough, plus `first_enclosure` (the first key ever written).  `len(enclosure_counter) == 0`
   holds exactly when no key has been written yet, i.e. when first_enclosure is still unset (it is assigned right after the
   first write). *)
From EN Require Import Lib.Bytes Frame.Framer.

Inductive jkind := JQuote | JCurly | JSquare.

Record jcount := { jq : Z; jc : Z; js : Z; jfirst : option jkind }.
Definition jcount0 : jcount := {| jq := 0%Z; jc := 0%Z; js := 0%Z; jfirst := None |}.

Definition jget (c : jcount) (k : jkind) : Z :=
  match k with JQuote => jq c | JCurly => jc c | JSquare => js c end.

Definition jset (c : jcount) (k : jkind) (v : Z) : jcount :=
  match k with
  | JQuote => {| jq := v; jc := jc c; js := js c; jfirst := jfirst c |}
  | JCurly => {| jq := jq c; jc := v; js := js c; jfirst := jfirst c |}
  | JSquare => {| jq := jq c; jc := jc c; js := v; jfirst := jfirst c |}
  end.

Definition b_quote : byte := 34%N.     (* the double quote *)
Definition b_bslash : byte := 92%N.    (* '\\' *)
Definition b_lcurly : byte := 123%N.
Definition b_rcurly : byte := 125%N.
Definition b_lsquare : byte := 91%N.
Definition b_rsquare : byte := 93%N.

(* space | \t | \n | \r  -- also the class of the regex [ \t\n\r]* of _whitespaces_match *)
Definition is_ws (b : byte) : bool := N.eqb b 32%N || N.eqb b 9%N || N.eqb b 10%N || N.eqb b 13%N.

(* _JSON_VALUE_BYTES = digits + ascii_letters + punctuation = the printable ASCII characters except the space *)
Definition is_value_byte (b : byte) : bool := N.leb 33%N b && N.leb b 126%N.

(* _escaped(view): parity of the run of backslashes at the END of view.  [escaped_rev] takes the view reversed, which is
   how the code walks it (`for byte in reversed(view)`). *)
Fixpoint escaped_rev (r : bytes) : bool :=
  match r with
  | b :: r' => if N.eqb b b_bslash then negb (escaped_rev r') else false
  | [] => false
  end.
Definition escaped (view : bytes) : bool := escaped_rev (rev view).

(* one iteration of the `for offset, char in enumerate(...)` body.  [pre_rev] = partial_document[:offset] reversed. *)
Inductive jstep_res :=
| JContinue (c : jcount)      (* `continue`, or fell through the first_enclosure test *)
| JReturn                     (* `return split_partial_document(partial_document, offset + 1, limit)` *)
| JPlainValue.                (* `raise _PlainValueError` *)

(* the code after the match statement: executed after every write to the counter *)
Definition jafter (c : jcount) (written : jkind) : jstep_res :=
  let first := match jfirst c with Some f => f | None => written end in
  let c' := {| jq := jq c; jc := jc c; js := js c; jfirst := Some first |} in
  if Z.leb (jget c' first) 0%Z then JReturn else JContinue c'.

Definition jstep (pre_rev : bytes) (c : jcount) (ch : byte) : jstep_res :=
  if N.eqb ch b_quote && negb (escaped_rev pre_rev) then
    jafter (jset c JQuote (if Z.eqb (jq c) 1%Z then 0%Z else 1%Z)) JQuote
  else if Z.ltb 0%Z (jq c) then JContinue c                                   (* within a JSON string *)
  else if N.eqb ch b_lcurly then jafter (jset c JCurly (jc c + 1)%Z) JCurly
  else if N.eqb ch b_lsquare then jafter (jset c JSquare (js c + 1)%Z) JSquare
  else if N.eqb ch b_rcurly then jafter (jset c JCurly (jc c - 1)%Z) JCurly
  else if N.eqb ch b_rsquare then jafter (jset c JSquare (js c - 1)%Z) JSquare
  else if is_ws ch then JContinue c
  else match jfirst c with
       | None => JPlainValue                                                 (* len(enclosure_counter) == 0 *)
       | Some _ => JContinue c
       end.

Inductive jscan_res :=
| JSMore (c : jcount)          (* for loop exhausted *)
| JSClosed (consumed : nat)    (* offset + 1 *)
| JSPlain (offset : nat).

(* the for loop over partial_document[offset:]; [pre_rev] = partial_document[:offset] reversed, [todo] = the rest *)
Fixpoint jscan (pre_rev todo : bytes) (c : jcount) : jscan_res :=
  match todo with
  | [] => JSMore c
  | ch :: todo' =>
      match jstep pre_rev c ch with
      | JContinue c' => jscan (ch :: pre_rev) todo' c'
      | JReturn => JSClosed (S (length pre_rev))
      | JPlainValue => JSPlain (length pre_rev)
      end
  end.

(* length of the run of whitespace at the start of s : _whitespaces_match(doc, consumed).end() - consumed *)
Fixpoint ws_run (s : bytes) : nat :=
  match s with
  | b :: s' => if is_ws b then S (ws_run s') else 0
  | [] => 0
  end.

(* index of the first byte not in _JSON_VALUE_BYTES *)
Fixpoint find_nonvalue (s : bytes) : option nat :=
  match s with
  | [] => None
  | b :: s' => if is_value_byte b then option_map S (find_nonvalue s') else Some 0
  end.

Inductive jstate :=
| JInit
| JEnc (doc : bytes) (c : jcount)
| JPlain (doc : bytes).

Section JsonRaw.
  Variable limit : nat.       (* > 0 *)

  (* _split_partial_document(partial_document, consumed, limit); the packet of this framer is the complete document *)
  Definition jsplit (doc : bytes) (consumed : nat) : fres jstate bytes :=
    if Nat.ltb limit consumed then Fail ELimit (overrun_remainder [] doc consumed)
    else
      let consumed' := consumed + ws_run (skipn consumed doc) in
      if Nat.eqb consumed' (length doc) then Done doc []
      else
        let complete := firstn consumed' doc in
        let rest := skipn consumed' doc in
        match complete with
        | [] => Done rest []              (* `if not complete_document`: everything is handed to the decoder *)
        | _ => Done complete rest
        end.

  (* the plain-value loop, entered with partial_document = doc *)
  Definition jplain (doc : bytes) : fres jstate bytes :=
    match find_nonvalue doc with
    | Some idx => jsplit doc idx
    | None =>
        if Nat.ltb limit (length doc) then Fail ELimit (overrun_remainder [] doc (length doc))
        else Need (JPlain doc)
    end.

  (* the enclosure loop resumed with partial_document = old ++ chunk, offset = len(old) *)
  Definition jenc (old chunk : bytes) (c : jcount) : fres jstate bytes :=
    let doc := old ++ chunk in
    match jscan (rev old) chunk c with
    | JSClosed consumed => jsplit doc consumed
    | JSPlain off => jplain (skipn off doc)
    | JSMore c' =>
        if Nat.ltb limit (length doc) then Fail ELimit (overrun_remainder [] doc (length doc))
        else Need (JEnc doc c')
    end.

  Definition jraw_feed (st : jstate) (chunk : bytes) : fres jstate bytes :=
    match st with
    | JInit => jenc [] chunk jcount0
    | JEnc doc c => jenc doc chunk c
    | JPlain doc => jplain (doc ++ chunk)
    end.

  (* _JSONParser.raw_parse as a framer whose packet is the complete document *)
  Definition jraw_framer : framer bytes := {| fst_ := jstate; finit := JInit; ffeed := jraw_feed |}.

  (* JSONSerializer.incremental_deserialize, use_lines=False: str(complete_document, encoding) then decoder.decode,
     both folded into the one-shot codec [dec] (None = UnicodeError / JSONDecodeError -> IncrementalDeserializeError) *)
  Context {P : Type}.
  Variable dec : decoder P.

  Definition json_feed (st : jstate) (chunk : bytes) : fres jstate P :=
    match jraw_feed st chunk with
    | Need s => Need s
    | Done doc rest =>
        match dec doc with
        | Some p => Done p rest
        | None => Fail EDecode rest
        end
    | Fail e rest => Fail e rest
    | Crash => Crash
    end.

  Definition json_framer : framer P := {| fst_ := jstate; finit := JInit; ffeed := json_feed |}.
End JsonRaw.
