(* AbstractIncrementalPacketSerializer.serialize / deserialize (serializers/abc.py): the one-shot interface DERIVED
   from the incremental one.

     def serialize(self, packet):   return b"".join(self.incremental_serialize(packet))
     def deserialize(self, data):
         consumer = self.incremental_deserialize(); next(consumer)        # runs to the first yield
         try: consumer.send(data)
         except StopIteration as exc: packet, remaining = exc.value
         else: consumer.close(); raise DeserializeError("Missing data to create packet")
         if remaining: raise DeserializeError("Extra data caught")
         return packet
   An IncrementalDeserializeError (incl. LimitOverrunError) raised by send() is a DeserializeError and propagates.
   No proofs here. *)
From EN Require Import Lib.Bytes Frame.Framer Frame.ReadUntil.

Inductive ores (P : Type) :=
| OOk (p : P)
| OErr (e : err)
| OCrash.                      (* any other exception (RuntimeError ...) *)
Arguments OOk {P}. Arguments OErr {P}. Arguments OCrash {P}.

Section OneShot.
  Context {P : Type}.
  Variable F : framer P.

  Definition oneshot_serialize (parts : list bytes) : bytes := concat parts.

  Definition oneshot_deserialize (data : bytes) : ores P :=
    match ffeed F (finit F) data with
    | Need _ => OErr EMissing
    | Done p [] => OOk p
    | Done _ (_ :: _) => OErr EExtra
    | Fail e _ => OErr e
    | Crash => OCrash
    end.
End OneShot.

(* the two incremental test serializers of the correspondence (the documented way of writing an incremental
   serializer with GeneratorStreamReader, cf. the examples in serializers/tools.py):
     incremental_serialize(p):   yield enc(p); yield separator          |  yield enc(p)          (len = size)
     incremental_deserialize():  data = yield from reader.read_until(separator, limit)  |  read_exactly(size)
                                 return dec(data), reader.read_all()                                              *)
Definition until_parts (sep payload : bytes) : list bytes := [payload; sep].
Definition exact_parts (payload : bytes) : list bytes := [payload].
