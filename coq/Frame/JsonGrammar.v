(* The byte strings JSONSerializer(use_lines=False) sends: compact JSON texts (json.JSONEncoder with
   separators comma and colon, no whitespace) -- for an object, an array or a string the text itself, for any other value
   (number, true, false, null, NaN ...) the text followed by the newline that incremental_serialize appends
   (`if self.__use_lines or not data.startswith((LBRACE, LBRACKET, QUOTE)): data += NEWLINE`).  No proofs here. *)
From EN Require Import Lib.Bytes Frame.JsonRaw.

Definition b_comma : byte := 44%N.
Definition b_colon : byte := 58%N.
Definition b_nl : byte := 10%N.

(* the six bytes the raw scanner reacts to *)
Definition jspecial (b : byte) : bool :=
  N.eqb b b_quote || N.eqb b b_bslash || N.eqb b b_lcurly || N.eqb b b_rcurly || N.eqb b b_lsquare || N.eqb b b_rsquare.

(* what stands between the quotes of a string: any byte except the quote and the backslash, or a backslash followed by
   one byte (backslash-quote, backslash-backslash, backslash-n, backslash-u and four ordinary bytes ...) *)
Inductive jstr_body : bytes -> Prop :=
| sb_nil : jstr_body []
| sb_char b s : N.eqb b b_quote = false -> N.eqb b b_bslash = false -> jstr_body s -> jstr_body (b :: s)
| sb_esc b s : jstr_body s -> jstr_body (b_bslash :: b :: s).

Definition jstring (s : bytes) : Prop := exists body, jstr_body body /\ s = b_quote :: body ++ [b_quote].

(* numbers and literals: printable non-space ASCII without the six special bytes *)
Definition atom_byte (b : byte) : bool := is_value_byte b && negb (jspecial b).
Definition jatom (a : bytes) : Prop := a <> [] /\ forallb atom_byte a = true.

Inductive jvalue : bytes -> Prop :=
| jv_string s : jstring s -> jvalue s
| jv_atom a : jatom a -> jvalue a
| jv_array_empty : jvalue [b_lsquare; b_rsquare]
| jv_array es : jelems es -> jvalue (b_lsquare :: es ++ [b_rsquare])
| jv_object_empty : jvalue [b_lcurly; b_rcurly]
| jv_object ms : jmembers ms -> jvalue (b_lcurly :: ms ++ [b_rcurly])
with jelems : bytes -> Prop :=
| je_one v : jvalue v -> jelems v
| je_cons v es : jvalue v -> jelems es -> jelems (v ++ b_comma :: es)
with jmembers : bytes -> Prop :=
| jm_one k v : jstring k -> jvalue v -> jmembers (k ++ b_colon :: v)
| jm_cons k v ms : jstring k -> jvalue v -> jmembers ms -> jmembers (k ++ b_colon :: v ++ b_comma :: ms).

Definition starts_enclosure (v : bytes) : bool :=
  match v with
  | b :: _ => N.eqb b b_quote || N.eqb b b_lcurly || N.eqb b b_lsquare
  | [] => false
  end.

(* one packet on the wire *)
Inductive jdoc : bytes -> Prop :=
| jd_enclosure v : jvalue v -> starts_enclosure v = true -> jdoc v
| jd_plain a : jatom a -> jdoc (a ++ [b_nl]).
