(* C04, asyncio side: the BYTES that go through AsyncioTransportStreamSocketAdapter.send_all / send_all_from_iterable
   (lowlevel/api_async/backend/_asyncio/stream/socket.py):

       send_all(data):                     transport.write(data);                                   await drain()
       send_all_from_iterable(chunks):     l = list(chunks); if l: transport.writelines(l); set_write_buffer_limits(0)
                                                                                                     await drain()

   Conc/FlowControl.v (property C20) models this adapter with byte COUNTS per task (flow control: when does a send
   return).  This file carries the byte CONTENTS along the very same transition system: every step is the
   FlowControl step `ad_step` on the count state plus what happens to the contents
       k_handed  every byte handed to transport.write / writelines while the transport was alive, in call order
       k_buf     the contents of the transport's user-space write buffer
       k_wire    the bytes the kernel has taken
   writelines() is one synchronous call, so the chunks of one packet enter the buffer contiguously and in order;
   under the client's send lock the sends themselves are issued one after the other.  No proofs here. *)
From Coq Require Import List Arith Bool.
From EN Require Import Lib.Bytes Conc.FlowControl.
Import ListNotations.

Record cad := mkCad { k_ad : ad; k_buf : bytes; k_wire : bytes; k_handed : bytes }.

Definition cad_init (c : tcfg) (n : nat) : cad := mkCad (ad_init c n) [] [] [].

Inductive clabel :=
| CSend (t : tid) (data : bytes) (k : nat)             (* send_all(data): the kernel takes k bytes at once if it can *)
| CSendIter (t : tid) (chunks : list bytes) (k : nat)  (* send_all_from_iterable(chunks) *)
| COther (l : alabel).                                 (* AReady / AKill / AClose / ALost / ACancel / ACallback / AWake *)

Definition count_label (l : clabel) : alabel :=
  match l with
  | CSend t data k => ASend t (length data) k
  | CSendIter t chunks k => ASendIter t (length (concat chunks)) k
  | COther a => a
  end.

Definition is_send_label (a : alabel) : bool :=
  match a with ASend _ _ _ | ASendIter _ _ _ | ASendTo _ _ _ => true | _ => false end.

(* what the step does to the contents (the count state a is the one BEFORE the step) *)
Definition contents_step (c : cad) (l : clabel) : bytes * bytes * bytes :=
  let a := k_ad c in
  match l with
  | CSend _ data k =>
      if a_dead a || (length data =? 0) then (k_buf c, k_wire c, k_handed c)
      else match a_buf a with          (* transport.write: try the kernel at once only if nothing is buffered *)
           | [] => let k' := Nat.min k (length data) in
                   (skipn k' data, k_wire c ++ firstn k' data, k_handed c ++ data)
           | _ => (k_buf c ++ data, k_wire c, k_handed c ++ data)
           end
  | CSendIter _ chunks k =>
      let data := concat chunks in
      if a_dead a || (length data =? 0) then (k_buf c, k_wire c, k_handed c)
      else let b := k_buf c ++ data in
           (skipn k b, k_wire c ++ firstn k b, k_handed c ++ data)
  | COther (AReady k) => (skipn k (k_buf c), k_wire c ++ firstn k (k_buf c), k_handed c)
  | COther AKill => ([], k_wire c, k_handed c)
  | COther _ => (k_buf c, k_wire c, k_handed c)
  end.

Definition cad_step (c : cad) (l : clabel) : option cad :=
  match l with
  | COther a => if is_send_label a then None else
      match ad_step (k_ad c) a with
      | Some (a', _) => let '(b, w, h) := contents_step c l in Some (mkCad a' b w h)
      | None => None
      end
  | _ =>
      match ad_step (k_ad c) (count_label l) with
      | Some (a', _) => let '(b, w, h) := contents_step c l in Some (mkCad a' b w h)
      | None => None
      end
  end.

Fixpoint cad_run (c : cad) (ls : list clabel) : option cad :=
  match ls with
  | [] => Some c
  | l :: r => match cad_step c l with Some c' => cad_run c' r | None => None end
  end.

Inductive creach (cfg : tcfg) (n : nat) : cad -> Prop :=
| creach0 : creach cfg n (cad_init cfg n)
| creach_step : forall c l c', creach cfg n c -> cad_step c l = Some c' -> creach cfg n c'.

(* the data of the sends of a history that reached the transport alive, in order *)
Fixpoint handed_of (c : cad) (ls : list clabel) : bytes :=
  match ls with
  | [] => []
  | l :: r =>
      match cad_step c l with
      | Some c' =>
          (match l with
           | CSend _ data _ => if a_dead (k_ad c) then [] else data
           | CSendIter _ chunks _ => if a_dead (k_ad c) then [] else concat chunks
           | COther _ => []
           end) ++ handed_of c' r
      | None => []
      end
  end.
