(* Executable model of the asynchronous TLS write path (lowlevel/api_async/transports/tls.py), as far as the bytes
   handed to the SSL object are concerned:

       send_all_from_iterable:  self._data_deque.extend(map(memoryview, iterable_of_data)); __flush_data_to_send()
       __flush_data_to_send:    _retry_ssl_method(__write_all_to_ssl_object, ssl_object, self._data_deque)
       __write_all_to_ssl_object(ssl_object, write_backlog):
           while write_backlog:
               data = write_backlog[0]
               sent = ssl_object.write(data)          <- scripted: Sent n | SSLWantRead/SSLWantWrite | SSLZeroReturn
               if sent < len(data): write_backlog[0] = data[sent:]
               else: del write_backlog[0]
       _retry_ssl_method: on SSLWantRead / SSLWantWrite flush the outgoing BIO (and read), then call the method again
                          -- the backlog object is shared, so the retry resumes where the write stopped.
   No proofs here. *)
From EN Require Import Lib.Bytes IO.Retry IO.SendAll.
Open Scope Z_scope.

Fixpoint tls_write_loop (fuel : nat) (backlog : list bytes) (s : sock) : sres :=
  match backlog with
  | [] => mk_sres SOk s [] 0 [] 0
  | data :: rest =>
      match fuel with
      | O => mk_sres SFuel s [] 0 [] 0
      | S f =>
          let '(r, s1, _) := sock_send data s in
          match r with
          | CbOk sent =>
              sr_add 0 [] 1
                (if Nat.ltb sent (length data) then tls_write_loop f (skipn sent data :: rest) s1
                 else tls_write_loop f rest s1)
          | CbBlock _ => sr_add 0 [] 1 (tls_write_loop f backlog s1)
          | CbRaise c => mk_sres (SExc c) s1 [] 0 [] 1
          end
      end
  end.

Definition tls_flush (fuel : nat) (chunks : list bytes) (s : sock) : sres := tls_write_loop fuel chunks s.
