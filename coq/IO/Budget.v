(* Executable models of the timeout bookkeeping above _retry (C11):
     - _DataReceiverImpl.receive        (lowlevel/api_sync/endpoints/stream.py): recompute after every partial read
     - _utils.lock_with_timeout         (lock acquisition time is part of the budget)
     - TCPNetworkClient.recv_packet / send_packet = lock_with_timeout + endpoint call
     - ClientRecvIterator.__next__      (clients/_iter.py): the remaining budget is carried across packets
   The receiving socket is an oracle (scripted recv answers); the consumer is the fixed-size framing (a packet is
   complete once N bytes are buffered) -- the framing itself is C01/C03's subject, here it only decides how many
   partial reads a packet needs.  No proofs here. *)
From EN Require Import Lib.Bytes IO.Retry IO.SendAll IO.SendMsg.
Open Scope Z_scope.

(* ---- receiving socket oracle *)
Inductive recvans :=
| RData (b : bytes) (cost : Z)       (* bytes available; [] = EOF *)
| RBlock (write : bool) (cost : Z)   (* BlockingIOError/InterruptedError/SSLWantRead (false), SSLWantWrite (true) *)
| RErr (cost : Z).                   (* ConnectionResetError *)

(* recv_noblock(bufsize); an exhausted script is an EOF *)
Definition sock_recv (bufsize : nat) (s : list recvans) : cbres bytes * list recvans * Z :=
  match s with
  | [] => (CbOk [], [], 0)
  | RData b c :: rest =>
      if Nat.ltb bufsize (length b) then (CbOk (firstn bufsize b), RData (skipn bufsize b) 0 :: rest, c)
      else (CbOk b, rest, c)
  | RBlock w c :: rest => (CbBlock w, rest, c)
  | RErr c :: rest => (CbRaise E_CONN, rest, c)
  end.

(* ---- StreamDataConsumer over a fixed-size framing of N bytes: next(None) / next(chunk) *)
Definition cons_next (N : nat) (buf : bytes) (chunk : option bytes) : option bytes * bytes :=
  let data := match chunk with None => buf | Some c => buf ++ c end in
  match data with
  | [] => (None, [])
  | _ => if Nat.leb N (length data) then (Some (firstn N data), skipn N data) else (None, data)
  end.

Inductive rvout :=
| RvPkt (p : bytes)
| RvExc (code : Z)
| RvFuel.

Record rvres := mk_rvres {
  rv_out : rvout;
  rv_buf : bytes;            (* consumer buffer afterwards *)
  rv_eof : bool;             (* _eof_reached afterwards *)
  rv_sock : list recvans;
  rv_sels : list selans;
  rv_dt : Z;
  rv_waits : list wait
}.

Definition rv_add (dt : Z) (w : list wait) (r : rvres) : rvres :=
  mk_rvres (rv_out r) (rv_buf r) (rv_eof r) (rv_sock r) (rv_sels r) (dt + rv_dt r) (w ++ rv_waits r).

Definition rout_exc {R} (o : rout R) : rvout :=
  match o with
  | ROk _ _ => RvExc 0
  | RTimeout => RvExc E_TIMEOUT
  | RRaise c => RvExc c
  | RFuel => RvFuel
  end.

Section Receive.
  Variable F : nat.          (* fuel of each _retry *)
  Variable ri : tmo.
  Variable N : nat.          (* packet size *)
  Variable bufsize : nat.    (* max_recv_size *)

  (* while not self._eof_reached: ... *)
  Fixpoint receive_loop (fuel : nat) (T : tmo) (buf : bytes) (eof : bool) (s : list recvans) (sels : list selans) : rvres :=
    if eof then mk_rvres (RvExc E_EOF) buf true s sels 0 []                 (* raise ECONNABORTED (end-of-stream) *)
    else
      match fuel with
      | O => mk_rvres RvFuel buf eof s sels 0 []
      | S f =>
          let r := retry (sock_recv bufsize) F ri T s sels in               (* transport.recv(bufsize, timeout) *)
          match rr_out r with
          | ROk chunk _ =>
              match chunk with
              | [] => rv_add (rr_dt r) (rr_waits r) (receive_loop f T buf true (rr_st r) (rr_sels r))
              | _ :: _ =>
                  match cons_next N buf (Some chunk) with
                  | (Some p, buf') => mk_rvres (RvPkt p) buf' false (rr_st r) (rr_sels r) (rr_dt r) (rr_waits r)
                  | (None, buf') =>
                      if tmo_pos T
                      then rv_add (rr_dt r) (rr_waits r)
                                  (receive_loop f (recompute T (rr_dt r)) buf' false (rr_st r) (rr_sels r))
                      else if Nat.ltb (length chunk) bufsize
                      then mk_rvres (RvExc E_TIMEOUT) buf' false (rr_st r) (rr_sels r) (rr_dt r) (rr_waits r)
                      else rv_add (rr_dt r) (rr_waits r) (receive_loop f T buf' false (rr_st r) (rr_sels r))
                  end
              end
          | o => mk_rvres (rout_exc o) buf eof (rr_st r) (rr_sels r) (rr_dt r) (rr_waits r)
          end
      end.

  (* _DataReceiverImpl.receive(timeout) *)
  Definition receive (fuel : nat) (T : tmo) (buf : bytes) (eof : bool) (s : list recvans) (sels : list selans) : rvres :=
    match cons_next N buf None with
    | (Some p, buf') => mk_rvres (RvPkt p) buf' eof s sels 0 []
    | (None, _) => receive_loop fuel T buf eof s sels
    end.
End Receive.

(* ---- _utils.lock_with_timeout *)
Inductive lockans :=
| LFree
| LHeld (acquired : bool) (el : Z).   (* a blocking acquire returns `acquired` after `el` ticks *)

Record lkres := mk_lkres {
  lk_T : option tmo;          (* Some T' = acquired, yield T' ; None = raised (code in lk_exc) *)
  lk_exc : Z;
  lk_dt : Z;
  lk_waits : list tmo         (* timeout handed to the blocking lock.acquire (None = no timeout) *)
}.

Definition lock_with_timeout (T : tmo) (l : lockans) : lkres :=
  match T with
  | None =>                                                  (* timeout is None or math.inf: `with lock:` *)
      match l with
      | LFree => mk_lkres (Some None) 0 0 []
      | LHeld _ el => mk_lkres (Some None) 0 el [None]
      end
  | Some z =>
      if z <? 0 then mk_lkres None E_VALUE 0 []
      else match l with
           | LFree => mk_lkres (Some T) 0 0 []                (* lock.acquire(blocking=False) succeeded *)
           | LHeld acq el =>
               if z =? 0 then mk_lkres None E_TIMEOUT 0 []    (* timeout == 0: no blocking acquire *)
               else if acq then mk_lkres (Some (recompute T el)) 0 el [T]
               else mk_lkres None E_TIMEOUT el [T]
           end
  end.

(* TCPNetworkClient.__convert_socket_error: except ConnectionError: raise error_from_errno(ECONNABORTED) *)
Definition convert_code (c : Z) : Z := if c =? E_CONN then E_EOF else c.
Definition convert_rv (r : rvres) : rvres :=
  match rv_out r with
  | RvExc c => mk_rvres (RvExc (convert_code c)) (rv_buf r) (rv_eof r) (rv_sock r) (rv_sels r) (rv_dt r) (rv_waits r)
  | _ => r
  end.
Definition convert_sr (r : sres) : sres :=
  match sr_out r with
  | SExc c => mk_sres (SExc (convert_code c)) (sr_sock r) (sr_sels r) (sr_dt r) (sr_waits r) (sr_calls r)
  | _ => r
  end.

(* ---- TCPNetworkClient.recv_packet(timeout) *)
Record clres := mk_clres {
  cl_rv : rvres;
  cl_lockwaits : list tmo
}.

Definition client_recv (F : nat) (ri : tmo) (N bufsize fuel : nat) (T : tmo) (l : lockans)
           (buf : bytes) (eof : bool) (s : list recvans) (sels : list selans) : clres :=
  let k := lock_with_timeout T l in
  match lk_T k with
  | None => mk_clres (mk_rvres (RvExc (lk_exc k)) buf eof s sels (lk_dt k) []) (lk_waits k)
  | Some T1 => mk_clres (rv_add (lk_dt k) [] (convert_rv (receive F ri N bufsize fuel T1 buf eof s sels))) (lk_waits k)
  end.

(* ---- TCPNetworkClient.send_packet(timeout) = lock_with_timeout + endpoint.send_packet (C04's send path) *)
Record csres := mk_csres {
  cs_sr : sres;
  cs_lockwaits : list tmo
}.

Definition client_send (drop_empty has_sendmsg : bool) (iov : Z) (F fuel : nat) (ri : tmo) (chunks : list bytes)
           (T : tmo) (l : lockans) (s : sock) (sels : list selans) : csres :=
  let k := lock_with_timeout T l in
  match lk_T k with
  | None => mk_csres (mk_sres (SExc (lk_exc k)) s sels (lk_dt k) [] 0) (lk_waits k)
  | Some T1 => mk_csres (sr_add (lk_dt k) [] 0 (convert_sr (send_iter drop_empty has_sendmsg iov F fuel ri chunks T1 s sels))) (lk_waits k)
  end.

(* ---- ClientRecvIterator: a list of __next__ calls, each with its own lock answer.
   __next__: try: with ElapsedTime: packet = client.recv_packet(timeout=self.__timeout)
             except OSError: raise StopIteration            (TimeoutError and connection errors end the iteration)
             if self.__timeout is not None: self.__timeout = elapsed.recompute_timeout(self.__timeout)          *)
Record itstep := mk_itstep {
  it_out : rvout;             (* RvPkt p | RvExc code (code 1,2,5 -> StopIteration in the implementation) *)
  it_dt : Z;
  it_waits : list wait;
  it_lockwaits : list tmo;
  it_T : tmo;                 (* self.__timeout before the call *)
  it_lockdt : Z               (* how long the blocking lock.acquire took (0 if there was none) *)
}.

Fixpoint iter_run (F : nat) (ri : tmo) (N bufsize fuel : nat) (T : tmo) (locks : list lockans)
         (buf : bytes) (eof : bool) (s : list recvans) (sels : list selans) : list itstep :=
  match locks with
  | [] => []
  | l :: locks' =>
      let c := client_recv F ri N bufsize fuel T l buf eof s sels in
      let r := cl_rv c in
      let st := mk_itstep (rv_out r) (rv_dt r) (rv_waits r) (cl_lockwaits c) T (lk_dt (lock_with_timeout T l)) in
      let T' := match rv_out r with RvPkt _ => recompute T (rv_dt r) | _ => T end in
      st :: iter_run F ri N bufsize fuel T' locks' (rv_buf r) (rv_eof r) (rv_sock r) (rv_sels r)
  end.

(* ---- AsyncClientRecvIterator.__anext__ (clients/_iter.py):
       with backend.timeout(self.__timeout), ElapsedTime() as elapsed: packet = await client.recv_packet()
       except OSError: raise StopAsyncIteration
       self.__timeout = elapsed.recompute_timeout(self.__timeout)
   The environment says when the next packet is there: after d ticks (0 = already buffered, recv_packet does not
   suspend) or a connection error at once.  The backend's timeout scope fires after self.__timeout ticks. *)
Inductive arrival := ArrAfter (d : Z) | ArrErr.

Record astep := mk_astep {
  as_out : Z;        (* 0 packet | E_TIMEOUT | E_CONN   (the last two are StopAsyncIteration) *)
  as_dt : Z;         (* virtual time the __anext__ took *)
  as_T : tmo         (* self.__timeout before the call *)
}.

Definition arrives_in_time (T : tmo) (d : Z) : bool :=
  match T with None => true | Some t => (d =? 0) || (d <? t) end.

Fixpoint aiter_run (T : tmo) (arr : list arrival) : list astep :=
  match arr with
  | [] => []
  | ArrErr :: rest => mk_astep E_CONN 0 T :: aiter_run T rest
  | ArrAfter d :: rest =>
      if arrives_in_time T d then mk_astep 0 d T :: aiter_run (recompute T d) rest
      else mk_astep E_TIMEOUT (match T with Some t => t | None => 0 end) T :: aiter_run T rest
  end.
