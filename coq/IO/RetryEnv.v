(* _retry against a TIME-INDEXED environment (C11, retry_interval_irrelevant).

   `retry_w` is the loop of IO/Retry.v (`retry_loop`) with the selector answer list replaced by a world state W:
   both the callback and the selector are functions of the world (Proofs/C11_env.v shows that `retry_loop` is the
   instance W = callback state * answer list, field by field).

   The time-indexed instance: the world is the virtual time `now`; the file descriptor becomes ready for good at
   time e_tau (the callback succeeds from then on, and would block before); the selector additionally reports
   spurious readiness at the instants e_spur.  select(wt) returns at the first event within the wait, or "not ready"
   after the full wait.  Processing time is zero.  No proofs here. *)
From Coq Require Import ZArith List Bool.
From EN Require Import IO.Retry.
Import ListNotations.
Open Scope Z_scope.

Section RetryW.
  Variables W R : Type.
  Variable cb : W -> cbres R * W * Z.
  Variable sel : W -> tmo -> selans * W.

  Fixpoint retry_w (fuel : nat) (ri T : tmo) (w : W) : rres W R :=
    match fuel with
    | O => mk_rres RFuel w [] 0 [] 0
    | S f =>
        let '(r, w1, cost) := cb w in
        match r with
        | CbOk v => mk_rres (ROk v T) w1 [] cost [] 1
        | CbRaise c => mk_rres (RRaise c) w1 [] cost [] 1
        | CbBlock wr =>
            if tmo_le0 T then mk_rres RTimeout w1 [] cost [] 1
            else
              let is_ri := negb (tmo_leb T ri) in
              let wt := if is_ri then ri else T in
              let '(a, w2) := sel w1 wt in
              let wl := [{| w_write := wr; w_req := wt; w_ready := sa_ready a; w_el := sa_el a |}] in
              match wt with
              | None =>
                  if sa_ready a then rr_add (cost + sa_el a) wl (retry_w f ri T w2)
                  else mk_rres (RRaise E_RUNTIME) w2 [] (cost + sa_el a) wl 1
              | Some _ =>
                  let T1 := recompute T (sa_el a) in
                  if negb (sa_ready a) && negb is_ri
                  then mk_rres RTimeout w2 [] (cost + sa_el a) wl 1
                  else rr_add (cost + sa_el a) wl (retry_w f ri T1 w2)
              end
        end
    end.
End RetryW.
Arguments retry_w {W R}.

Record env := mk_env { e_tau : Z; e_spur : list Z }.

(* the first instant after `now` at which the selector reports readiness (e_tau itself at the latest) *)
Definition next_event (now : Z) (e : env) : Z :=
  fold_right (fun s m => if (now <? s) && (s <? m) then s else m) (e_tau e) (e_spur e).

Definition cb_env (e : env) (now : Z) : cbres unit * Z * Z :=
  (if e_tau e <=? now then CbOk tt else CbBlock false, now, 0).

Definition sel_env (e : env) (now : Z) (wt : tmo) : selans * Z :=
  let ev := next_event now e in
  match wt with
  | None => ({| sa_ready := true; sa_el := ev - now |}, ev)
  | Some wz =>
      if ev <=? now + wz then ({| sa_ready := true; sa_el := ev - now |}, ev)
      else ({| sa_ready := false; sa_el := wz |}, now + wz)
  end.

(* _retry(callback, T) started at time `now` in environment e *)
Definition retry_env (e : env) (fuel : nat) (ri T : tmo) (now : Z) : rres Z unit :=
  if tmo_neg T then mk_rres (RRaise E_VALUE) now [] 0 [] 0
  else retry_w (cb_env e) (sel_env e) fuel ri T now.

(* ---- the same environment with a processing cost: every callback invocation takes e_cost ticks (the readiness is
   sampled when the call starts).  _retry does not charge these costs to the timeout (only select() time is
   subtracted), so with costs the retry interval is no longer irrelevant: each wake-up buys one more attempt and
   e_cost more ticks.  When the selector is entered with the fd already ready it returns at once. *)
Record envc := mk_envc { ec_env : env; ec_cost : Z }.

Definition cb_envc (e : envc) (now : Z) : cbres unit * Z * Z :=
  (if e_tau (ec_env e) <=? now then CbOk tt else CbBlock false, now + ec_cost e, ec_cost e).

Definition sel_envc (e : envc) (now : Z) (wt : tmo) : selans * Z :=
  if e_tau (ec_env e) <=? now then ({| sa_ready := true; sa_el := 0 |}, now)
  else sel_env (ec_env e) now wt.

Definition retry_envc (e : envc) (fuel : nat) (ri T : tmo) (now : Z) : rres Z unit :=
  if tmo_neg T then mk_rres (RRaise E_VALUE) now [] 0 [] 0
  else retry_w (cb_envc e) (sel_envc e) fuel ri T now.
