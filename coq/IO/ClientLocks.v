(* Lock discipline of the blocking clients (clients/tcp.py TCPNetworkClient, clients/udp.py UDPNetworkClient) as an
   executable labelled transition system.  No proofs here.

   Two locks: the send lock and the receive lock.  What each public method does (read from the code; the harness
   re-derives this table from the AST on every run and fails closed when it differs):
     send_packet(timeout)   with lock_with_timeout(send_lock, timeout):    body does socket I/O (may park)
     recv_packet(timeout)   with lock_with_timeout(receive_lock, timeout): body does socket I/O (may park)
     is_closed / close / send_eof / get_local_address / get_remote_address
                            with send_lock:  (no timeout)                   body returns at once
   lock_with_timeout: negative timeout -> ValueError; non-blocking acquire; if it fails: timeout == 0 ->
   TimeoutError at once, otherwise a blocking acquire with the timeout (None/inf: `with lock:`); the lock is pushed
   on the ExitStack, i.e. released when the body ends, normally or by an exception.

   Labels (the environment = the thread scheduler + the socket):
     Start k m T   thread k calls method m with timeout T
     Grant k       the blocking acquire of the waiting call k succeeds (possible only while the lock is free)
     GiveUp k      the blocking acquire of k times out (only for a finite timeout)
     Finish k ok   the body of the call k that holds its lock ends (returns / raises)                            *)
From Coq Require Import ZArith List Bool.
From EN Require Import IO.Retry.
Import ListNotations.
Open Scope Z_scope.

Inductive lockid := LkSend | LkRecv.
Inductive meth := MSend | MRecv | MQuick.

Definition lock_of (m : meth) : lockid := match m with MRecv => LkRecv | _ => LkSend end.
Definition timed (m : meth) : bool := match m with MQuick => false | _ => true end.
Definition parks (m : meth) : bool := match m with MQuick => false | _ => true end.

Inductive phase :=
| PWait (finite : bool)     (* blocked in lock.acquire(True, timeout) / `with lock:` *)
| PHold                     (* owns its lock, inside the body *)
| PDone (code : Z).         (* returned (0) or raised *)

Record call := mk_call { c_id : nat; c_m : meth; c_ph : phase }.

Record cst := mk_cst { o_send : option nat; o_recv : option nat; cs : list call }.

Definition cst0 : cst := mk_cst None None [].

Definition owner (s : cst) (l : lockid) : option nat := match l with LkSend => o_send s | LkRecv => o_recv s end.
Definition set_owner (s : cst) (l : lockid) (o : option nat) (calls : list call) : cst :=
  match l with LkSend => mk_cst o (o_recv s) calls | LkRecv => mk_cst (o_send s) o calls end.

Fixpoint lookup (k : nat) (l : list call) : option call :=
  match l with
  | [] => None
  | c :: r => if Nat.eqb (c_id c) k then Some c else lookup k r
  end.

Fixpoint update (k : nat) (ph : phase) (l : list call) : list call :=
  match l with
  | [] => []
  | c :: r => if Nat.eqb (c_id c) k then mk_call (c_id c) (c_m c) ph :: r else c :: update k ph r
  end.

Inductive label :=
| Start (k : nat) (m : meth) (T : tmo)
| Grant (k : nat)
| GiveUp (k : nat)
| Finish (k : nat) (ok : bool).

Definition is_none {X} (o : option X) : bool := match o with None => true | Some _ => false end.

(* acquire the (free) lock for call k of method m *)
Definition acquire (s : cst) (k : nat) (m : meth) (calls_with : phase -> list call) : cst :=
  if parks m then set_owner s (lock_of m) (Some k) (calls_with PHold)
  else mk_cst (o_send s) (o_recv s) (calls_with (PDone 0)).          (* acquired and released at once *)

Definition step (s : cst) (lb : label) : option cst :=
  match lb with
  | Start k m T =>
      match lookup k (cs s) with
      | Some _ => None                                                 (* thread ids are fresh *)
      | None =>
          let add ph := cs s ++ [mk_call k m ph] in
          if timed m && tmo_neg T then Some (mk_cst (o_send s) (o_recv s) (add (PDone E_VALUE)))
          else if is_none (owner s (lock_of m)) then Some (acquire s k m add)
          else if timed m && tmo_le0 T then Some (mk_cst (o_send s) (o_recv s) (add (PDone E_TIMEOUT)))
          else Some (mk_cst (o_send s) (o_recv s)
                            (add (PWait (timed m && match T with Some _ => true | None => false end))))
      end
  | Grant k =>
      match lookup k (cs s) with
      | Some c =>
          match c_ph c with
          | PWait _ =>
              if is_none (owner s (lock_of (c_m c))) then Some (acquire s k (c_m c) (fun ph => update k ph (cs s)))
              else None
          | _ => None
          end
      | None => None
      end
  | GiveUp k =>
      match lookup k (cs s) with
      | Some c =>
          match c_ph c with
          | PWait true => Some (mk_cst (o_send s) (o_recv s) (update k (PDone E_TIMEOUT) (cs s)))
          | _ => None
          end
      | None => None
      end
  | Finish k ok =>
      match lookup k (cs s) with
      | Some c =>
          match c_ph c with
          | PHold => Some (set_owner s (lock_of (c_m c)) None (update k (PDone (if ok then 0 else E_CONN)) (cs s)))
          | _ => None
          end
      | None => None
      end
  end.

(* run a history; a label that is not enabled is skipped and reported *)
Fixpoint run_labels (s : cst) (ls : list label) : cst * list bool :=
  match ls with
  | [] => (s, [])
  | lb :: r =>
      match step s lb with
      | Some s' => let '(sf, en) := run_labels s' r in (sf, true :: en)
      | None => let '(sf, en) := run_labels s r in (sf, false :: en)
      end
  end.

Inductive reachable : cst -> Prop :=
| reach0 : reachable cst0
| reach_step : forall s lb s', reachable s -> step s lb = Some s' -> reachable s'.
