(* Executable model of SSLStreamTransport._try_ssl_method and of the noblock methods built on it
   (lowlevel/api_sync/transports/socket.py):
       except (SSLWantReadError, SSLSyscallError): raise WouldBlockOnRead(fileno)
       except SSLWantWriteError:                   raise WouldBlockOnWrite(fileno)
   send_noblock:  SSLZeroReturnError -> OSError(ECONNRESET)
   recv_noblock:  SSLZeroReturnError -> b"" (end of stream)
   so that _retry waits for READABILITY on WANT_READ and for WRITABILITY on WANT_WRITE, whichever direction the
   application data flows.  A plain socket is the special case BlockingIOError / InterruptedError -> write (send) or
   read (recv).  No proofs here. *)
From EN Require Import Lib.Bytes IO.Retry IO.SendAll IO.Budget.
Open Scope Z_scope.

Inductive sslans :=
| SslDone (n : nat) (c : Z)       (* the SSL call returned: n bytes written *)
| SslWantRead (c : Z)
| SslWantWrite (c : Z)
| SslSyscall (c : Z)
| SslZeroReturn (c : Z).

(* SSLStreamTransport.send_noblock as a socket answer *)
Definition ssl_send_answer (a : sslans) : sockans :=
  match a with
  | SslDone n c => SSent n c
  | SslWantRead c => SBlock false c
  | SslSyscall c => SBlock false c
  | SslWantWrite c => SBlock true c
  | SslZeroReturn c => SErr c
  end.

(* SSLStreamTransport.recv_noblock: the data of a completed read is carried separately *)
Definition ssl_recv_answer (data : bytes) (a : sslans) : recvans :=
  match a with
  | SslDone _ c => RData data c
  | SslWantRead c => RBlock false c
  | SslSyscall c => RBlock false c
  | SslWantWrite c => RBlock true c
  | SslZeroReturn c => RData [] c
  end.

(* the event the i-th blocking answer asks the selector to wait for (true = writable) *)
Fixpoint ssl_wait_events (l : list sslans) : list bool :=
  match l with
  | [] => []
  | SslWantRead _ :: r => false :: ssl_wait_events r
  | SslSyscall _ :: r => false :: ssl_wait_events r
  | SslWantWrite _ :: r => true :: ssl_wait_events r
  | SslDone _ _ :: _ => []
  | SslZeroReturn _ :: _ => []
  end.

(* SSLStreamTransport.send(data, T) = _retry(send_noblock) over the SSL answers *)
Definition ssl_send (F : nat) (ri T : tmo) (data : bytes) (script : list sslans) (wire : bytes) (sels : list selans) :=
  retry (sock_send data) F ri T (mk_sock (map ssl_send_answer script) wire) sels.
