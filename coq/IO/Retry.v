(* Executable model of SelectorBaseTransport._retry (lowlevel/api_sync/transports/base_selector.py) and of the
   timeout arithmetic of lowlevel/_utils.py (ElapsedTime.recompute_timeout).  No proofs here.

   Time is an integer number of ticks (Z); math.inf is None.  The selector and the callback are oracles:
     - the callback is a state machine  cb : St -> cbres R * St * cost   (cost = ticks the call itself takes)
     - every selector.select() call consumes one scripted answer (ready?, elapsed ticks);
       an exhausted script answers (ready, 0).
   `fuel` bounds the number of callback invocations of ONE _retry call (the `while True` loop). *)
From Coq Require Import ZArith List Bool.
Import ListNotations.
Open Scope Z_scope.

Definition tmo := option Z.                       (* None = math.inf *)

(* timeout <= 0 *)
Definition tmo_le0 (t : tmo) : bool := match t with Some z => z <=? 0 | None => false end.
(* timeout > 0 *)
Definition tmo_pos (t : tmo) : bool := negb (tmo_le0 t).
(* a <= b on floats with inf *)
Definition tmo_leb (a b : tmo) : bool :=
  match a, b with
  | _, None => true
  | None, Some _ => false
  | Some x, Some y => x <=? y
  end.
(* delay < 0 (validate_timeout_delay(positive_check=True) raises ValueError) *)
Definition tmo_neg (t : tmo) : bool := match t with Some z => z <? 0 | None => false end.

(* ElapsedTime.recompute_timeout: new = old - elapsed; if new < 0.0: new = 0.0   (inf - x = inf) *)
Definition recompute (t : tmo) (elapsed : Z) : tmo :=
  match t with
  | None => None
  | Some z => Some (Z.max 0 (z - elapsed))
  end.

Record selans := { sa_ready : bool; sa_el : Z }.
Definition sel_default : selans := {| sa_ready := true; sa_el := 0 |}.
Definition next_sel (sels : list selans) : selans * list selans :=
  match sels with
  | [] => (sel_default, [])
  | a :: r => (a, r)
  end.

(* one selector wait as seen from outside: the event registered (write?) and the wait requested (None = select()) *)
Record wait := { w_write : bool; w_req : tmo; w_ready : bool; w_el : Z }.   (* + what the selector answered *)

Inductive cbres (R : Type) :=
| CbOk (r : R)
| CbBlock (write : bool)          (* WouldBlockOnWrite / WouldBlockOnRead *)
| CbRaise (code : Z).             (* any other exception: propagates *)
Arguments CbOk {R}. Arguments CbBlock {R}. Arguments CbRaise {R}.

(* exception codes shared by the IO models *)
Definition E_TIMEOUT : Z := 1.     (* OSError(ETIMEDOUT) = TimeoutError *)
Definition E_CONN : Z := 2.        (* ConnectionError family *)
Definition E_VALUE : Z := 3.       (* ValueError *)
Definition E_RUNTIME : Z := 4.     (* RuntimeError *)
Definition E_EOF : Z := 5.         (* ECONNABORTED (end-of-stream) *)
Definition E_CLOSED : Z := 6.      (* ClientClosedError *)

Inductive rout (R : Type) :=
| ROk (r : R) (t : tmo)            (* (callback(), timeout) *)
| RTimeout                         (* raise error_from_errno(ETIMEDOUT) *)
| RRaise (code : Z)
| RFuel.                           (* model artefact: fuel exhausted *)
Arguments ROk {R}. Arguments RTimeout {R}. Arguments RRaise {R}. Arguments RFuel {R}.

Record rres (St R : Type) := mk_rres {
  rr_out : rout R;
  rr_st : St;
  rr_sels : list selans;
  rr_dt : Z;                       (* virtual time that passed during the call: callback costs + select elapsed *)
  rr_waits : list wait;            (* selector waits, in order *)
  rr_calls : nat                   (* callback invocations *)
}.
Arguments mk_rres {St R}. Arguments rr_out {St R}. Arguments rr_st {St R}. Arguments rr_sels {St R}.
Arguments rr_dt {St R}. Arguments rr_waits {St R}. Arguments rr_calls {St R}.

Definition rr_add {St R} (dt : Z) (w : list wait) (r : rres St R) : rres St R :=
  mk_rres (rr_out r) (rr_st r) (rr_sels r) (dt + rr_dt r) (w ++ rr_waits r) (S (rr_calls r)).

Section Retry.
  Variables St R : Type.
  Variable cb : St -> cbres R * St * Z.

  (* the `while True:` loop of _retry, after validate_timeout_delay *)
  Fixpoint retry_loop (fuel : nat) (ri T : tmo) (st : St) (sels : list selans) : rres St R :=
    match fuel with
    | O => mk_rres RFuel st sels 0 [] 0
    | S f =>
        let '(r, st1, cost) := cb st in
        match r with
        | CbOk v => mk_rres (ROk v T) st1 sels cost [] 1
        | CbRaise c => mk_rres (RRaise c) st1 sels cost [] 1
        | CbBlock w =>
            if tmo_le0 T then mk_rres RTimeout st1 sels cost [] 1            (* if timeout <= 0: break *)
            else
              let is_ri := negb (tmo_leb T ri) in                           (* timeout <= retry_interval ? *)
              let wt := if is_ri then ri else T in
              let '(a, sels1) := next_sel sels in
              let wl := [{| w_write := w; w_req := wt; w_ready := sa_ready a; w_el := sa_el a |}] in
              match wt with
              | None =>                                                       (* wait_time == math.inf: selector.select() *)
                  if sa_ready a then rr_add (cost + sa_el a) wl (retry_loop f ri T st1 sels1)
                  else mk_rres (RRaise E_RUNTIME) st1 sels1 (cost + sa_el a) wl 1
              | Some _ =>
                  let T1 := recompute T (sa_el a) in                          (* elapsed.recompute_timeout(timeout) *)
                  if negb (sa_ready a) && negb is_ri
                  then mk_rres RTimeout st1 sels1 (cost + sa_el a) wl 1       (* not available, not a retry interval: break *)
                  else rr_add (cost + sa_el a) wl (retry_loop f ri T1 st1 sels1)
              end
        end
    end.

  (* _retry(callback, timeout) *)
  Definition retry (fuel : nat) (ri T : tmo) (st : St) (sels : list selans) : rres St R :=
    if tmo_neg T then mk_rres (RRaise E_VALUE) st sels 0 [] 0
    else retry_loop fuel ri T st sels.
End Retry.
Arguments retry_loop {St R}. Arguments retry {St R}.

(* sums over a trace of waits (used by the C11 statements) *)
Definition sum_wait_el (l : list wait) : Z := fold_right (fun w s => w_el w + s) 0 l.
