(* Large deterministic payloads for the real-socket correspondence streams of C04 / C11: the case carries only
   (seed, length); the model and the harness generate the same bytes with the same linear congruential generator,
   and compare (length, position-sensitive checksum) instead of the bytes themselves.  No proofs here. *)
From EN Require Import Lib.Bytes Lib.Sx.
Open Scope N_scope.

(* x' = (1103515245 x + 12345) mod 2^31 ; byte = (x' / 2^16) mod 256 *)
Definition lcg_next (x : N) : N := N.land (1103515245 * x + 12345) 2147483647.

Fixpoint gen_bytes (n : nat) (x : N) : bytes :=
  match n with
  | O => []
  | S k => let x' := lcg_next x in N.land (N.shiftr x' 16) 255 :: gen_bytes k x'
  end.

(* Fletcher-style checksum modulo 2^16: reordering, duplication and loss all change it *)
Fixpoint fletcher (s1 s2 : N) (b : bytes) : N * N :=
  match b with
  | [] => (s1, s2)
  | x :: r => let s1' := N.land (s1 + x + 1) 65535 in fletcher s1' (N.land (s2 + s1') 65535) r
  end.

Definition digest (b : bytes) : sx :=
  let '(s1, s2) := fletcher 0 0 b in L [A (Z.of_nat (length b)); A (Z.of_N s1); A (Z.of_N s2)].

(* a chunk in a case: B bytes, or L [A seed; A len] *)
Definition as_chunk (x : sx) : option bytes :=
  match x with
  | B b => Some b
  | L [A seed; A len] => if (Z.ltb seed 0 || Z.ltb len 0)%bool then None else Some (gen_bytes (Z.to_nat len) (Z.to_N seed))
  | _ => None
  end.

(* the digest of a concatenation, computed chunk by chunk (no large intermediate list): equal to
   digest (concat chunks) -- Proofs/C04_payload.v *)
Fixpoint fletcher_chunks (s1 s2 : N) (chunks : list bytes) : N * N :=
  match chunks with
  | [] => (s1, s2)
  | c :: r => let '(x, y) := fletcher s1 s2 c in fletcher_chunks x y r
  end.

Definition digest_chunks (chunks : list bytes) : sx :=
  let '(s1, s2) := fletcher_chunks 0 0 chunks in
  L [A (Z.of_nat (fold_left (fun n c => (n + length c)%nat) chunks 0%nat)); A (Z.of_N s1); A (Z.of_N s2)].
