(* Executable model of SocketStreamTransport.send_all_from_iterable (transports/socket.py) and of
   _utils.adjust_leftover_buffer.  No proofs here.

       buffers = deque(map(memoryview, iterable_of_data))          <- `drop_empty` = the F2 repair drops empty views here
       while buffers:
           sent, timeout = self._retry(try_sendmsg, timeout)       try_sendmsg = socket.sendmsg(islice(buffers, SC_IOV_MAX))
           _utils.adjust_leftover_buffer(buffers, sent)                                                             *)
From EN Require Import Lib.Bytes IO.Retry IO.SendAll.
Open Scope Z_scope.

Definition is_nil {X} (l : list X) : bool := match l with [] => true | _ => false end.

(* while nbytes > 0: b = popleft(); if len(b) <= nbytes: nbytes -= len(b) else: appendleft(b[nbytes:]); break
   (popleft on an empty deque would be an IndexError: unreachable while nbytes <= total size; the model returns []) *)
Fixpoint adjust_leftover (bufs : list bytes) (n : nat) : list bytes :=
  match bufs with
  | [] => []
  | b :: rest =>
      if Nat.eqb n 0 then bufs
      else if Nat.leb (length b) n then adjust_leftover rest (n - length b)
      else skipn n b :: rest
  end.

Definition build_deque (drop_empty : bool) (chunks : list bytes) : list bytes :=
  if drop_empty then filter (fun b => negb (is_nil b)) chunks else chunks.

Section SendMsg.
  Variable F : nat.         (* fuel of each _retry call *)
  Variable ri : tmo.
  Variable iov : nat.       (* constants.SC_IOV_MAX (> 0 on this path) *)

  (* socket.sendmsg(islice(buffers, SC_IOV_MAX)) *)
  Definition sock_sendmsg (bufs : list bytes) : sock -> cbres nat * sock * Z :=
    sock_send (concat (firstn iov bufs)).

  Fixpoint sendmsg_loop (fuel : nat) (bufs : list bytes) (T : tmo) (s : sock) (sels : list selans) : sres :=
    match bufs with
    | [] => mk_sres SOk s sels 0 [] 0
    | _ :: _ =>
        match fuel with
        | O => mk_sres SFuel s sels 0 [] 0
        | S f =>
            let r := retry (sock_sendmsg bufs) F ri T s sels in
            match rr_out r with
            | ROk sent T1 =>
                sr_add (rr_dt r) (rr_waits r) (rr_calls r)
                       (sendmsg_loop f (adjust_leftover bufs sent) T1 (rr_st r) (rr_sels r))
            | o => sres_of_fail r (rout_fail o)
            end
        end
    end.
End SendMsg.

(* SocketStreamTransport.send_all_from_iterable *)
Definition send_iter (drop_empty has_sendmsg : bool) (iov : Z) (F fuel : nat) (ri : tmo)
           (chunks : list bytes) (T : tmo) (s : sock) (sels : list selans) : sres :=
  if (iov <=? 0) || negb has_sendmsg
  then send_all_join F ri fuel chunks T s sels
  else sendmsg_loop F ri (Z.to_nat iov) fuel (build_deque drop_empty chunks) T s sels.

(* the fuel the correspondence runs with (the harness aborts the real call after the same number of socket calls) *)
Definition fuel_bound (chunks : list bytes) (script : list sockans) : nat :=
  length (concat chunks) + length script + length chunks + 1.
