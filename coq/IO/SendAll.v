(* Executable model of the blocking send path:
     - the socket as an oracle (scripted send()/sendmsg() answers, accepted bytes appended to the wire)
     - SelectorStreamWriteTransport.send      = _retry(lambda: send_noblock(data), timeout)[0]
     - StreamWriteTransport.send_all          (abc.py: empty-data special case, total_sent loop, timeout recomputation)
     - StreamWriteTransport.send_all_from_iterable (default: b"".join + send_all; also SSLStreamTransport's)
   No proofs here. *)
From EN Require Import Lib.Bytes IO.Retry.
Open Scope Z_scope.

(* one scripted answer of socket.send()/sendmsg() (SSL: SSLSocket.send()) *)
Inductive sockans :=
| SSent (n : nat) (cost : Z)        (* accepts min(n, available) bytes *)
| SBlock (write : bool) (cost : Z)  (* BlockingIOError / InterruptedError / SSLWantWrite (true), SSLWantRead / SSLSyscallError (false) *)
| SErr (cost : Z).                  (* ConnectionResetError / SSLZeroReturnError -> ECONNRESET *)

Record sock := mk_sock { sk_script : list sockans; sk_wire : bytes }.

(* send_noblock(data); an exhausted script accepts everything *)
Definition sock_send (data : bytes) (s : sock) : cbres nat * sock * Z :=
  match sk_script s with
  | [] => (CbOk (length data), mk_sock [] (sk_wire s ++ data), 0)
  | SSent n c :: rest =>
      let k := Nat.min n (length data) in
      (CbOk k, mk_sock rest (sk_wire s ++ firstn k data), c)
  | SBlock w c :: rest => (CbBlock w, mk_sock rest (sk_wire s), c)
  | SErr c :: rest => (CbRaise E_CONN, mk_sock rest (sk_wire s), c)
  end.

Inductive sout :=
| SOk                 (* returned None *)
| SExc (code : Z)     (* raised *)
| SFuel.              (* model artefact: the loop did not finish within the fuel (the implementation spins) *)

Record sres := mk_sres {
  sr_out : sout;
  sr_sock : sock;
  sr_sels : list selans;
  sr_dt : Z;
  sr_waits : list wait;
  sr_calls : nat      (* socket calls *)
}.

Definition sr_add (dt : Z) (w : list wait) (calls : nat) (r : sres) : sres :=
  mk_sres (sr_out r) (sr_sock r) (sr_sels r) (dt + sr_dt r) (w ++ sr_waits r) (calls + sr_calls r).

Definition sres_of_fail {R} (r : rres sock R) (o : sout) : sres :=
  mk_sres o (rr_st r) (rr_sels r) (rr_dt r) (rr_waits r) (rr_calls r).

Definition rout_fail {R} (o : rout R) : sout :=
  match o with
  | ROk _ _ => SOk
  | RTimeout => SExc E_TIMEOUT
  | RRaise c => SExc c
  | RFuel => SFuel
  end.

Section Send.
  Variable F : nat.         (* fuel of each _retry call *)
  Variable ri : tmo.        (* self._retry_interval *)

  (* transport.send(data, timeout) *)
  Definition send (data : bytes) (T : tmo) (s : sock) (sels : list selans) : rres sock nat :=
    retry (sock_send data) F ri T s sels.

  (* while total_sent < nb_bytes_to_send: ...   `rest` is data[total_sent:] *)
  Fixpoint send_all_loop (fuel : nat) (rest : bytes) (T : tmo) (s : sock) (sels : list selans) : sres :=
    match rest with
    | [] => mk_sres SOk s sels 0 [] 0
    | _ :: _ =>
        match fuel with
        | O => mk_sres SFuel s sels 0 [] 0
        | S f =>
            let r := send rest T s sels in
            match rr_out r with
            | ROk sent _ =>
                (* total_sent += sent; timeout = elapsed.recompute_timeout(timeout)  (elapsed spans the whole send()) *)
                sr_add (rr_dt r) (rr_waits r) (rr_calls r)
                       (send_all_loop f (skipn sent rest) (recompute T (rr_dt r)) (rr_st r) (rr_sels r))
            | o => sres_of_fail r (rout_fail o)
            end
        end
    end.

  Definition send_all (fuel : nat) (data : bytes) (T : tmo) (s : sock) (sels : list selans) : sres :=
    match data with
    | [] =>                                   (* nb_bytes_to_send == 0: one send(), result ignored *)
        let r := send [] T s sels in
        sres_of_fail r (rout_fail (rr_out r))
    | _ :: _ => send_all_loop fuel data T s sels
    end.

  (* default send_all_from_iterable: data = b"".join(iterable_of_data); self.send_all(data, timeout) *)
  Definition send_all_join (fuel : nat) (chunks : list bytes) (T : tmo) (s : sock) (sels : list selans) : sres :=
    send_all fuel (concat chunks) T s sels.
End Send.
