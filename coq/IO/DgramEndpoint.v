(* Datagram path: DatagramProtocol (protocol.py) and the datagram endpoints / UDP clients
   (lowlevel/api_sync/endpoints/datagram.py, lowlevel/api_async/endpoints/datagram.py, clients/udp.py, clients/async_udp.py).

     make_datagram(packet):              dto = converter.convert_to_dto_packet(packet) if converter else packet
                                         return serializer.serialize(dto)
     build_packet_from_datagram(dgram):  dto = serializer.deserialize(dgram)       # DeserializeError   -> DatagramProtocolParseError
                                         return converter.create_from_dto_packet(dto)   # PacketConversionError -> DatagramProtocolParseError
     _DataSenderImpl.send(packet):       transport.send(protocol.make_datagram(packet))           (one transport.send)
     _DataReceiverImpl.receive():        return protocol.build_packet_from_datagram(transport.recv())  (one transport.recv)

   The endpoint objects keep NO buffer: their only state is the transport.  The transport is modelled as the two
   kernel queues of a connected datagram socket.  The serializer and the converter are Section variables (one-shot
   codecs: any function), so every statement holds for every serializer, wrapper and converter.  No proofs here. *)
From EN Require Import Lib.Bytes Frame.Framer Frame.OneShot.

Inductive rres (Q : Type) :=
| RPacket (q : Q)
| RParseError (e : err)        (* DatagramProtocolParseError(DeserializeError | PacketConversionError) *)
| RCrashed                     (* RuntimeError("protocol.build_packet_from_datagram() crashed") *)
| RNoData                      (* transport.recv found nothing: TimeoutError *)
| RSockError                   (* the transport reported an asynchronous socket error (ICMP -> error_received) here *)
| RCancelled                   (* the receive was cancelled while nothing was available: nothing consumed *)
| RSendFailed.                 (* send_packet: RuntimeError("protocol.make_datagram() crashed"), nothing sent *)
Arguments RPacket {Q}. Arguments RParseError {Q}. Arguments RCrashed {Q}. Arguments RNoData {Q}.
Arguments RSockError {Q}. Arguments RCancelled {Q}. Arguments RSendFailed {Q}.

(* what sits in the receive queue of the transport, in order: datagrams, and the positions at which an asynchronous
   socket error was reported (asyncio: error_received puts the exception and a marker between the datagrams) *)
Inductive item := IData (d : bytes) | IErr.

Section Datagram.
  Context {P Q : Type}.                      (* DTO packets, packets *)
  Variable serialize : P -> bytes.
  Variable deserialize : bytes -> ores P.
  Variable to_dto : Q -> P.                  (* converter.convert_to_dto_packet; identity without converter *)
  Variable from_dto : P -> option Q.         (* converter.create_from_dto_packet; None = PacketConversionError *)
  Variable bufsize : N.                      (* size given to recv(2): MAX_DATAGRAM_BUFSIZE for the blocking transport (or the
                                                transport's max_datagram_size), 256 KiB inside asyncio; recv silently drops
                                                the bytes of a datagram that do not fit *)
  Variable drop_empty : bool.                (* the transport's send silently ignores an empty payload: true for the
                                                asyncio backend on CPython < 3.13 (DatagramTransport.sendto returns
                                                early on `not data`), false for the blocking socket transport *)

  Definition make_datagram (q : Q) : bytes := serialize (to_dto q).

  Definition build_packet_from_datagram (d : bytes) : rres Q :=
    match deserialize d with
    | OOk p => match from_dto p with Some q => RPacket q | None => RParseError EConvert end
    | OErr e => RParseError e
    | OCrash => RCrashed
    end.

  (* a connected datagram socket: what the peer sent us and has not been received yet; what we sent *)
  Record transport := { inq : list item; outq : list bytes }.

  (* socket.recv(bufsize) on a datagram socket *)
  Definition trunc (d : bytes) : bytes :=
    if (N.of_nat (length d) <=? bufsize)%N then d else firstn (N.to_nat bufsize) d.

  (* one queue item gives exactly one outcome *)
  Definition item_result (i : item) : rres Q :=
    match i with IData d => build_packet_from_datagram (trunc d) | IErr => RSockError end.

  Definition transport_send (t : transport) (d : bytes) : transport :=
    match d with
    | [] => if drop_empty then t else {| inq := inq t; outq := outq t ++ [d] |}
    | _ => {| inq := inq t; outq := outq t ++ [d] |}
    end.

  Definition send_packet (t : transport) (q : Q) : transport :=
    transport_send t (make_datagram q).

  Definition recv_packet (t : transport) : transport * rres Q :=
    match inq t with
    | i :: rest => ({| inq := rest; outq := outq t |}, item_result i)
    | [] => (t, RNoData)
    end.

  (* a receive whose task is cancelled one scheduling step after it started: what was already available is delivered
     (taking it and turning it into a packet happens without a cancellation point in between); otherwise nothing is
     consumed *)
  Definition recv_packet_cancelled (t : transport) : transport * rres Q :=
    match inq t with
    | i :: rest => ({| inq := rest; outq := outq t |}, item_result i)
    | [] => (t, RCancelled)
    end.

  (* OpArrive: the peer sends us a datagram; OpSockError: the kernel reports an asynchronous error on the socket *)
  (* OpSendFail: send_packet of a packet whose serialization raises: RuntimeError, nothing is sent, nothing remembered *)
  Inductive op := OpSend (q : Q) | OpRecv | OpArrive (d : bytes) | OpRecvCancel | OpSockError | OpSendFail.

  Definition do_op (t : transport) (o : op) : transport * list (rres Q) :=
    match o with
    | OpSend q => (send_packet t q, [])
    | OpRecv => let '(t', r) := recv_packet t in (t', [r])
    | OpArrive d => ({| inq := inq t ++ [IData d]; outq := outq t |}, [])
    | OpRecvCancel => let '(t', r) := recv_packet_cancelled t in (t', [r])
    | OpSockError => ({| inq := inq t ++ [IErr]; outq := outq t |}, [])
    | OpSendFail => (t, [RSendFailed])
    end.

  Fixpoint do_ops (t : transport) (os : list op) : transport * list (rres Q) :=
    match os with
    | [] => (t, [])
    | o :: os' =>
        let '(t1, r1) := do_op t o in
        let '(t2, r2) := do_ops t1 os' in
        (t2, r1 ++ r2)
    end.

  (* receive everything that is queued *)
  Fixpoint recv_n (n : nat) (t : transport) : transport * list (rres Q) :=
    match n with
    | 0 => (t, [])
    | S k => let '(t1, r) := recv_packet t in let '(t2, rs) := recv_n k t1 in (t2, r :: rs)
    end.
End Datagram.
