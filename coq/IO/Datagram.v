(* Executable model of the datagram clients' blocking calls (clients/udp.py UDPNetworkClient.recv_packet /
   send_packet over SocketDatagramTransport): lock_with_timeout, then ONE _retry around socket.recv() / socket.send().
   No proofs here. *)
From EN Require Import Lib.Bytes IO.Retry IO.SendAll IO.Budget.
Open Scope Z_scope.

(* socket.recv(max_datagram_size): one scripted answer per call; nothing scripted = nothing will ever arrive *)
Definition dgram_recv (s : list recvans) : cbres bytes * list recvans * Z :=
  match s with
  | [] => (CbBlock false, [], 0)
  | RData b c :: rest => (CbOk b, rest, c)
  | RBlock w c :: rest => (CbBlock w, rest, c)
  | RErr c :: rest => (CbRaise E_CONN, rest, c)
  end.

(* socket.send(data): the whole datagram is accepted, or the call raises *)
Definition dgram_send (data : bytes) (s : sock) : cbres unit * sock * Z :=
  match sk_script s with
  | [] => (CbOk tt, mk_sock [] (sk_wire s ++ data), 0)
  | SSent _ c :: rest => (CbOk tt, mk_sock rest (sk_wire s ++ data), c)
  | SBlock w c :: rest => (CbBlock w, mk_sock rest (sk_wire s), c)
  | SErr c :: rest => (CbRaise E_CONN, mk_sock rest (sk_wire s), c)
  end.

(* with lock_with_timeout(lock, timeout) as timeout: endpoint.xxx_packet(timeout=timeout)  -> one _retry.
   lk = None: endpoint level (no lock layer). *)
Definition locked_retry {St R : Type} (cb : St -> cbres R * St * Z) (F : nat) (ri T : tmo) (lk : option lockans)
           (st : St) (sels : list selans) : lkres * option (rres St R) :=
  let k := match lk with Some l => lock_with_timeout T l | None => mk_lkres (Some T) 0 0 [] end in
  match lk_T k with
  | None => (k, None)
  | Some T1 => (k, Some (retry cb F ri T1 st sels))
  end.

Definition udp_recv_packet (F : nat) (ri T : tmo) (lk : option lockans) (s : list recvans) (sels : list selans) :=
  locked_retry dgram_recv F ri T lk s sels.

Definition udp_send_packet (F : nat) (ri T : tmo) (lk : option lockans) (data : bytes) (s : sock) (sels : list selans) :=
  locked_retry (dgram_send data) F ri T lk s sels.
