(* Universal value type used to pass cases between the Python harness, vm_compute and the extracted runner. *)
From Coq Require Import String Ascii.
From EN Require Import Lib.Bytes.

Inductive sx :=
| A (z : Z)
| B (b : bytes)
| L (l : list sx).

Fixpoint sx_eqb (x y : sx) {struct x} : bool :=
  match x, y with
  | A a, A b => Z.eqb a b
  | B a, B b => bytes_eqb a b
  | L a, L b =>
      (fix go (a : list sx) (b : list sx) {struct a} : bool :=
         match a, b with
         | [], [] => true
         | x :: a', y :: b' => sx_eqb x y && go a' b'
         | _, _ => false
         end) a b
  | _, _ => false
  end.

(* compact byte-string literals for generated case files: Bx "0a0d" = B [10; 13] *)
Definition hexval (c : Ascii.ascii) : N :=
  let n := Ascii.N_of_ascii c in
  if (N.leb 48 n && N.leb n 57)%bool then (n - 48)%N
  else if (N.leb 97 n && N.leb n 102)%bool then (n - 87)%N
  else 0%N.
Fixpoint hex (s : String.string) : bytes :=
  match s with
  | String.String a (String.String b r) => (16 * hexval a + hexval b)%N :: hex r
  | _ => []
  end.
Definition Bx (s : String.string) : sx := B (hex s).

Definition bad_input : sx := L [A (-999)%Z].

(* decoding helpers *)
Definition as_Z (x : sx) : option Z := match x with A z => Some z | _ => None end.
Definition as_nat (x : sx) : option nat :=
  match x with A z => if Z.ltb z 0 then None else Some (Z.to_nat z) | _ => None end.
Definition as_bool (x : sx) : option bool :=
  match x with A 0%Z => Some false | A 1%Z => Some true | _ => None end.
Definition as_bytes (x : sx) : option bytes := match x with B b => Some b | _ => None end.
Definition as_list (x : sx) : option (list sx) := match x with L l => Some l | _ => None end.

Fixpoint map_opt {X Y} (f : X -> option Y) (l : list X) : option (list Y) :=
  match l with
  | [] => Some []
  | x :: l' => match f x, map_opt f l' with
               | Some y, Some ys => Some (y :: ys)
               | _, _ => None
               end
  end.

Definition as_list_of {Y} (f : sx -> option Y) (x : sx) : option (list Y) :=
  match x with L l => map_opt f l | _ => None end.

(* L [] = None ; L [v] = Some v *)
Definition as_opt {Y} (f : sx -> option Y) (x : sx) : option (option Y) :=
  match x with
  | L [] => Some None
  | L [v] => match f v with Some y => Some (Some y) | None => None end
  | _ => None
  end.

Definition of_nat (n : nat) : sx := A (Z.of_nat n).
Definition of_bool (b : bool) : sx := A (if b then 1 else 0)%Z.
Definition of_opt {X} (f : X -> sx) (o : option X) : sx :=
  match o with None => L [] | Some x => L [f x] end.

Notation "'do' x <- e ; k" := (match e with Some x => k | None => bad_input end)
  (at level 200, x pattern, e at level 100, k at level 200).

(* indices of the cases on which the model disagrees with the recorded implementation output *)
Fixpoint mismatches_from (run : sx -> sx) (n : nat) (cases : list (sx * sx)) : list nat :=
  match cases with
  | [] => []
  | (i, o) :: cs =>
      if sx_eqb (run i) o then mismatches_from run (S n) cs
      else n :: mismatches_from run (S n) cs
  end.
Definition mismatches run cases := mismatches_from run 0 cases.
