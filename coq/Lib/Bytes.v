(* Byte strings and the bytes.find family, as used by every framing model. No proofs here. *)
From Coq Require Export List NArith ZArith Arith Bool Lia.
Export ListNotations.

Definition byte := N.
Definition bytes := list byte.

Fixpoint bytes_eqb (a b : bytes) : bool :=
  match a, b with
  | [], [] => true
  | x :: a', y :: b' => N.eqb x y && bytes_eqb a' b'
  | _, _ => false
  end.

(* p is a prefix of s *)
Fixpoint prefixb (p s : bytes) : bool :=
  match p, s with
  | [], _ => true
  | x :: p', y :: s' => N.eqb x y && prefixb p' s'
  | _ :: _, [] => false
  end.

(* bytes.find(sep) : index of the first occurrence, None for -1.  sep = [] gives Some 0 like Python. *)
Fixpoint find0 (sep s : bytes) : option nat :=
  if prefixb sep s then Some 0
  else match s with
       | [] => None
       | _ :: s' => option_map S (find0 sep s')
       end.

(* bytes.find(sep, off) for 0 <= off *)
Definition find (sep s : bytes) (off : nat) : option nat :=
  if Nat.ltb (length s) off then None
  else option_map (fun i => off + i) (find0 sep (skipn off s)).

(* bytearray.find(sep, off, stop) for 0 <= off, stop <= len *)
Definition find_in (sep s : bytes) (off stop : nat) : option nat :=
  find sep (firstn stop s) off.

(* data.endswith(sep) *)
Definition endswithb (s sep : bytes) : bool :=
  Nat.leb (length sep) (length s) && bytes_eqb (skipn (length s - length sep) s) sep.

(* sep in data *)
Definition containsb (sep s : bytes) : bool :=
  match find0 sep s with Some _ => true | None => false end.

(* LimitOverrunError.__init__ : the remaining_data it computes.
     remaining = buffer[consumed:]
     if remaining[:seplen] == sep: remaining = remaining[seplen:]
     else: while remaining and remaining[:seplen] != sep[:len(remaining)]: remaining = remaining[1:]      *)
Fixpoint strip_to_sep_prefix (sep r : bytes) : bytes :=
  match r with
  | [] => []
  | _ :: r' =>
      if bytes_eqb (firstn (length sep) r) (firstn (length r) sep) then r
      else strip_to_sep_prefix sep r'
  end.

Definition overrun_remainder (sep buf : bytes) (consumed : nat) : bytes :=
  let r := skipn consumed buf in
  match sep with
  | [] => r
  | _ =>
      if bytes_eqb (firstn (length sep) r) sep then skipn (length sep) r
      else strip_to_sep_prefix sep r
  end.

(* all ways of cutting a byte string into non-empty chunks are the lists cs with concat cs = s, no [] member *)
Definition chunking (cs : list bytes) (s : bytes) : Prop :=
  concat cs = s /\ Forall (fun c => c <> []) cs.
