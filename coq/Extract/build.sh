#!/bin/sh
# Build one extracted runner per property: coq/Extract/bin/modelrun_Cxx (best effort: a failure only disables the
# fast path of that property; evaluation by vm_compute inside coqc remains).
cd "$(dirname "$0")" || exit 1
mkdir -p gen bin
status=0
if [ $# -gt 0 ]; then ids="$*"; else ids=$(for v in ../Run/C[0-9][0-9].v; do basename "$v" .v; done); fi
for id in $ids; do
  d=gen/$id; rm -rf "$d"; mkdir -p "$d"
  cat > "$d/Ext.v" <<EOT
Require Extraction.
Require Import ExtrOcamlBasic.
From EN Require Import Lib.Sx Run.$id.
Extraction Language OCaml.
Set Extraction Output Directory ".".
Extraction "model.ml" run.
EOT
  ( cd "$d" && timeout 600 coqc -Q ../../.. EN -w none Ext.v > ext.log 2>&1 \
      && cp ../../driver.ml driver.ml \
      && root=$(grep -oE '^let (rec )?run[0-9]* ' model.ml | tail -1 | sed -E 's/^let (rec )?//; s/ $//') \
      && echo "let run = Model.$root" > entry.ml \
      && timeout 600 ocamlfind ocamlopt -O2 -w -a model.mli model.ml entry.ml driver.ml -o ../../bin/modelrun_$id >> ext.log 2>&1 ) \
    || { echo "extraction failed for $id (see $d/ext.log)"; status=1; }
done
exit 0
