(* The extraction root (the last `run*` of model.ml = the `run` of Run/Cxx.v, whatever runs it imports) is bound in the
   generated entry.ml.  Generic runner for an extracted model:  modelrun_Cxx < cases.txt  — one sx value per line in, one per line out.
   Text format: integers, #hex byte strings, ( ... ) lists.  Trusted glue (cross-checked against vm_compute). *)
open Model

let rec pos_of_int n = if n = 1 then XH else if n land 1 = 1 then XI (pos_of_int (n lsr 1)) else XO (pos_of_int (n lsr 1))
let z_of_int n = if n = 0 then Z0 else if n > 0 then Zpos (pos_of_int n) else Zneg (pos_of_int (-n))
let n_of_int n = if n = 0 then N0 else Npos (pos_of_int n)
let rec int_of_pos = function XH -> 1 | XO p -> 2 * int_of_pos p | XI p -> 2 * int_of_pos p + 1
let int_of_z = function Z0 -> 0 | Zpos p -> int_of_pos p | Zneg p -> - (int_of_pos p)
let int_of_n = function N0 -> 0 | Npos p -> int_of_pos p

let parse (s : string) : sx =
  let n = String.length s in
  let pos = ref 0 in
  let skip () = while !pos < n && (s.[!pos] = ' ' || s.[!pos] = '\t' || s.[!pos] = '\r') do incr pos done in
  let hexv c = match c with '0'..'9' -> Char.code c - 48 | 'a'..'f' -> Char.code c - 87 | 'A'..'F' -> Char.code c - 55 | _ -> failwith "hex" in
  let rec value () =
    skip ();
    if !pos >= n then failwith "eof";
    match s.[!pos] with
    | '(' -> incr pos; let items = ref [] in
        let rec loop () = skip (); if !pos < n && s.[!pos] = ')' then incr pos else (items := value () :: !items; loop ()) in
        loop (); L (List.rev !items)
    | '#' -> incr pos; let bs = ref [] in
        while !pos + 1 < n && (match s.[!pos] with '0'..'9' | 'a'..'f' | 'A'..'F' -> true | _ -> false) do
          bs := n_of_int (16 * hexv s.[!pos] + hexv s.[!pos + 1]) :: !bs; pos := !pos + 2 done;
        B (List.rev !bs)
    | _ -> let st = !pos in
        if s.[!pos] = '-' then incr pos;
        while !pos < n && s.[!pos] >= '0' && s.[!pos] <= '9' do incr pos done;
        A (z_of_int (int_of_string (String.sub s st (!pos - st))))
  in value ()

let rec print buf = function
  | A z -> Buffer.add_string buf (string_of_int (int_of_z z))
  | B bs -> Buffer.add_char buf '#'; List.iter (fun b -> Buffer.add_string buf (Printf.sprintf "%02x" (int_of_n b))) bs
  | L l -> Buffer.add_char buf '(';
      List.iteri (fun i x -> if i > 0 then Buffer.add_char buf ' '; print buf x) l; Buffer.add_char buf ')'

let () =
  try
    while true do
      let line = input_line stdin in
      if String.trim line <> "" then begin
        let out = Entry.run (parse line) in
        let buf = Buffer.create 256 in
        print buf out; print_endline (Buffer.contents buf)
      end
    done
  with End_of_file -> ()
