(* The blocking receive loop of lowlevel/api_sync/endpoints/stream.py (_DataReceiverImpl.receive; the buffered variant
   has the same control flow with recv_into) over an arbitrary consumer.  No proofs here.
     consumer  : any deterministic machine  next : C -> option bytes -> C * option R
                 (None = StopIteration, Some r = a packet or a parse error: both end the call)
     transport : an oracle, one event per transport.recv(bufsize, timeout) call:
                 BData chunk expired  -- a chunk; [expired]: the recomputed timeout is 0 after this call
                 BEof                 -- b""          BTimeout -- recv raised TimeoutError                      *)
From EN Require Import Lib.Bytes.

Inductive bevent := BData (b : bytes) (expired : bool) | BEof | BTimeout.

Section BlockRecv.
  Context {C R : Type}.
  Variable next : C -> option bytes -> C * option R.
  Variable bufsize : nat.

  Inductive bres := BPacket (r : R) | BTimedOut | BClosed | BStuck.

  Definition nilb (b : bytes) : bool := match b with [] => true | _ => false end.

  (* while not self._eof_reached: ...   [tz]: timeout == 0 *)
  Fixpoint bloop (evs : list bevent) (tz : bool) (c : C) (eof : bool) : C * bool * list bevent * bres :=
    if eof then (c, eof, evs, BClosed) else
    match evs with
    | [] => (c, eof, [], BStuck)                                        (* the oracle has no more answers *)
    | BTimeout :: evs' => (c, eof, evs', BTimedOut)                     (* TimeoutError out of transport.recv *)
    | BEof :: evs' => (c, true, evs', BClosed)
    | BData b expired :: evs' =>
        if nilb b then (c, true, evs', BClosed) else
        match next c (Some b) with
        | (c', Some r) => (c', eof, evs', BPacket r)
        | (c', None) =>
            if tz then
              if Nat.ltb (length b) bufsize then (c', eof, evs', BTimedOut)   (* short read with timeout 0: break *)
              else bloop evs' true c' eof
            else bloop evs' expired c' eof                               (* timeout = recompute_timeout(timeout) *)
        end
    end.

  (* receiver.receive(timeout) *)
  Definition breceive (tz : bool) (c : C) (eof : bool) (evs : list bevent) : C * bool * list bevent * bres :=
    match next c None with
    | (c', Some r) => (c', eof, evs, BPacket r)
    | (c', None) => bloop evs tz c' eof
    end.

  (* a history of calls *)
  Fixpoint brun (calls : list bool) (c : C) (eof : bool) (evs : list bevent) : C * bool * list bres :=
    match calls with
    | [] => (c, eof, [])
    | tz :: calls' =>
        let '(c1, e1, evs1, r) := breceive tz c eof evs in
        let '(c2, e2, rs) := brun calls' c1 e1 evs1 in
        (c2, e2, r :: rs)
    end.

  Definition bdata_of (evs : list bevent) : list bytes :=
    flat_map (fun e => match e with BData b _ => [b] | _ => [] end) evs.
  Definition patient (chunks : list bytes) : list bevent := map (fun b => BData b false) chunks.
End BlockRecv.

(* an instance for the correspondence run: fixed-size records of [size] bytes (FixedSizePacketSerializer-like,
   identity codec) consumed by the copying StreamDataConsumer: state = buffered bytes *)
Definition fx_next (size : nat) (buf : bytes) (chunk : option bytes) : bytes * option bytes :=
  let data := match chunk with Some ch => buf ++ ch | None => buf end in
  if Nat.leb size (length data) then (skipn size data, Some (firstn size data)) else (data, None).

Definition brun_fixed (size bufsize : nat) (calls : list bool) (evs : list bevent) :=
  brun (fx_next size) bufsize calls [] false evs.
