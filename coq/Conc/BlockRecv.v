(* The blocking receive loop of lowlevel/api_sync/endpoints/stream.py (_DataReceiverImpl.receive; the buffered variant
   has the same control flow with recv_into) over an arbitrary consumer.  No proofs here.
     consumer  : any deterministic machine  next : C -> option bytes -> C * option R
                 (None = StopIteration, Some r = a packet or a parse error: both end the call)
     transport : an oracle, one event per transport.recv(bufsize, timeout) call:
                 BData chunk expired  -- a chunk; [expired]: the recomputed timeout is 0 after this call
                 BEof                 -- b""          BTimeout -- recv raised TimeoutError                      *)
From EN Require Import Lib.Bytes Frame.Framer Stream.Consumer.

Inductive bevent := BData (b : bytes) (expired : bool) | BEof | BTimeout.

Section BlockRecv.
  Context {C R : Type}.
  Variable next : C -> option bytes -> C * option R.
  Variable bufsize : nat.

  Inductive bres := BPacket (r : R) | BTimedOut | BClosed | BStuck.

  Definition nilb (b : bytes) : bool := match b with [] => true | _ => false end.

  (* while not self._eof_reached: ...   [tz]: timeout == 0 *)
  Fixpoint bloop (evs : list bevent) (tz : bool) (c : C) (eof : bool) : C * bool * list bevent * bres :=
    if eof then (c, eof, evs, BClosed) else
    match evs with
    | [] => (c, eof, [], BStuck)                                        (* the oracle has no more answers *)
    | BTimeout :: evs' => (c, eof, evs', BTimedOut)                     (* TimeoutError out of transport.recv *)
    | BEof :: evs' => (c, true, evs', BClosed)
    | BData b expired :: evs' =>
        if nilb b then (c, true, evs', BClosed) else
        match next c (Some b) with
        | (c', Some r) => (c', eof, evs', BPacket r)
        | (c', None) =>
            if tz then
              if Nat.ltb (length b) bufsize then (c', eof, evs', BTimedOut)   (* short read with timeout 0: break *)
              else bloop evs' true c' eof
            else bloop evs' expired c' eof                               (* timeout = recompute_timeout(timeout) *)
        end
    end.

  (* receiver.receive(timeout) *)
  Definition breceive (tz : bool) (c : C) (eof : bool) (evs : list bevent) : C * bool * list bevent * bres :=
    match next c None with
    | (c', Some r) => (c', eof, evs, BPacket r)
    | (c', None) => bloop evs tz c' eof
    end.

  (* a history of calls *)
  Fixpoint brun (calls : list bool) (c : C) (eof : bool) (evs : list bevent) : C * bool * list bres :=
    match calls with
    | [] => (c, eof, [])
    | tz :: calls' =>
        let '(c1, e1, evs1, r) := breceive tz c eof evs in
        let '(c2, e2, rs) := brun calls' c1 e1 evs1 in
        (c2, e2, r :: rs)
    end.

  Definition bdata_of (evs : list bevent) : list bytes :=
    flat_map (fun e => match e with BData b _ => [b] | _ => [] end) evs.
  Definition patient (chunks : list bytes) : list bevent := map (fun b => BData b false) chunks.
End BlockRecv.

(* an instance for the correspondence run: fixed-size records of [size] bytes (FixedSizePacketSerializer-like,
   identity codec) consumed by the copying StreamDataConsumer: state = buffered bytes *)
Definition fx_next (size : nat) (buf : bytes) (chunk : option bytes) : bytes * option bytes :=
  let data := match chunk with Some ch => buf ++ ch | None => buf end in
  if Nat.leb size (length data) then (skipn size data, Some (firstn size data)) else (data, None).

Definition brun_fixed (size bufsize : nat) (calls : list bool) (evs : list bevent) :=
  brun (fx_next size) bufsize calls [] false evs.

(* ---- the buffer-filling blocking receiver: _BufferedReceiverImpl.receive of lowlevel/api_sync/endpoints/stream.py.
   The consumer is used through three functions (as in Conc/SockEndpoint.v, repeated here to keep this file
   independent): next(None) | get_write_buffer() -> exported state and size of the view (None = RuntimeError) |
   next(n) after the transport wrote the n bytes [d] into the view.  One oracle event per transport.recv_into(buffer,
   timeout) call; a chunk longer than the view makes the script meaningless (BStuck). *)
Section BlockRecvBuffered.
  Context {C R : Type}.
  Variable bdrain : C -> C * option R.
  Variable broom : C -> option (C * nat).
  Variable bfeedn : C -> bytes -> C * option R.

  Fixpoint bloopb (evs : list bevent) (tz : bool) (c : C) (eof : bool) : C * bool * list bevent * @bres R :=
    if eof then (c, eof, evs, BClosed) else
    match broom c with
    | None => (c, eof, evs, BStuck)
    | Some (c1, room) =>
        match evs with
        | [] => (c1, eof, [], BStuck)
        | BTimeout :: evs' => (c1, eof, evs', BTimedOut)          (* TimeoutError out of transport.recv_into *)
        | BEof :: evs' => (c1, true, evs', BClosed)
        | BData b expired :: evs' =>
            if nilb b then (c1, true, evs', BClosed)
            else if Nat.ltb room (length b) then (c1, eof, evs', BStuck)
            else
              match bfeedn c1 b with
              | (c', Some r) => (c', eof, evs', BPacket r)
              | (c', None) =>
                  if tz then
                    if Nat.ltb (length b) room then (c', eof, evs', BTimedOut)   (* nbytes < bufsize: break *)
                    else bloopb evs' true c' eof
                  else bloopb evs' expired c' eof
              end
        end
    end.

  Definition breceiveb (tz : bool) (c : C) (eof : bool) (evs : list bevent) : C * bool * list bevent * @bres R :=
    match bdrain c with
    | (c', Some r) => (c', eof, evs, BPacket r)
    | (c', None) => bloopb evs tz c' eof
    end.

  Fixpoint brunb (calls : list bool) (c : C) (eof : bool) (evs : list bevent) : C * bool * list (@bres R) :=
    match calls with
    | [] => (c, eof, [])
    | tz :: calls' =>
        let '(c1, e1, evs1, r) := breceiveb tz c eof evs in
        let '(c2, e2, rs) := brunb calls' c1 e1 evs1 in
        (c2, e2, r :: rs)
    end.
End BlockRecvBuffered.

(* BufferedStreamDataConsumer seen through those three functions *)
Definition nres_opt {P} (r : nres P) : option (nres P) := match r with RStop => None | _ => Some r end.

Definition bufc_drain {P} (F : bframer P) (sizehint : nat) (c : bcstate F) : bcstate F * option (nres P) :=
  let '(c', r) := bcnext F sizehint c None in (c', nres_opt r).
Definition bufc_room {P} (F : bframer P) (sizehint : nat) (c : bcstate F) : option (bcstate F * nat) :=
  match bc_get_write_buffer F sizehint c with
  | (c1, Some (_, len)) => Some (c1, len)
  | (_, None) => None
  end.
Definition bufc_feed {P} (F : bframer P) (sizehint : nat) (c : bcstate F) (d : bytes) : bcstate F * option (nres P) :=
  let '(c', r) := bcnext F sizehint (bc_fill F c d) (Some (length d)) in (c', nres_opt r).
