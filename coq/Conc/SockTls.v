(* AsyncTLSStreamTransport.recv / recv_into (and the handshake: the same retry loop) over the repaired protocol:
   lowlevel/api_async/transports/tls.py  _retry_ssl_method + _IncomingDataReader.readinto, as they are now:
       while True:
           try: result = ssl_object_method(args...)
           except SSLWantReadError:   n = await transport.recv_into(256 KiB buffer)       # the only await of a receive
                                      read_bio.write(buffer[:n])  /  read_bio.write_eof() if n == 0
           except SSLError: ... raise
           else: return result              # no checkpoint between taking the plaintext and returning it
   (the write BIO is not pending while receiving; one reader at a time: the transport's receive lock).
   The SSL object is abstract: any state machine with read(n), BIO write and BIO end-of-file.  No proofs here. *)
From EN Require Import Lib.Bytes Conc.SockReader.

Inductive sslans := SOk (p : bytes) | SWantRead | SEnd | SFail.
   (* plaintext (empty for a finished handshake) | SSLWantReadError | SSLZeroReturnError / SSL EOF: recv returns b"" |
      any other SSLError *)

Inductive tresult := TPlain (p : bytes) | TEnd | TCancelled | TError (e : errk) | TSslError | TCrash.
Inductive tlabel := TRecv (n : nat) | TSock (l : label).

Section Tls.
  Context {S : Type}.
  Variable ssl_read : S -> nat -> S * sslans.
  Variable bio_write : S -> bytes -> S.
  Variable bio_eof : S -> S.
  Variable rbuf : nat.                       (* _IncomingDataReader.max_size *)

  Record tstate := tmk {
    tk : st;                                 (* protocol + reader task + loop (step true) *)
    tssl : S;
    tin : option nat;                        (* the retry loop is suspended in transport.recv_into; argument of read *)
    tfed : bytes;                            (* history: everything written into the read BIO *)
    ttaken : bytes;                          (* history: everything SSLObject.read() returned *)
    tres : list tresult                      (* outcome of every recv / handshake so far *)
  }.

  Definition tinit (ssl : S) : tstate := tmk init ssl None [] [] [].

  (* one turn of the loop, the SSL object having been fed or not *)
  Definition tretry (s : st) (ssl : S) (n : nat) (fed taken : bytes) (res : list tresult) : tstate :=
    match ssl_read ssl n with
    | (ssl', SOk p) => tmk s ssl' None fed (taken ++ p) (res ++ [TPlain p])
    | (ssl', SEnd) => tmk s ssl' None fed taken (res ++ [TEnd])
    | (ssl', SFail) => tmk s (bio_eof ssl') None fed taken (res ++ [TSslError])
    | (ssl', SWantRead) =>
        match call s (OInto rbuf) with
        | (s', ONone) => tmk s' ssl' (Some n) fed taken res
        | (s', ORes (RError e)) => tmk s' (bio_eof ssl') None fed taken (res ++ [TError e])
        | (s', _) => tmk s' ssl' None fed taken (res ++ [TCrash])
        end
    end.

  Definition trecv (ts : tstate) (n : nat) : tstate :=
    match tin ts with
    | Some _ => ts                                       (* the receive lock: one reader at a time *)
    | None => tretry (tk ts) (tssl ts) n (tfed ts) (ttaken ts) (tres ts)
    end.

  Definition twake (ts : tstate) : tstate :=
    match wake true (tk ts) with
    | (s', ORes r) =>
        match tin ts with
        | Some n =>
            match r with
            | RBytes [] => tretry s' (bio_eof (tssl ts)) n (tfed ts) (ttaken ts) (tres ts)
            | RBytes b => tretry s' (bio_write (tssl ts) b) n (tfed ts ++ b) (ttaken ts) (tres ts)
            | RCancelled => tmk s' (tssl ts) None (tfed ts) (ttaken ts) (tres ts ++ [TCancelled])
            | RError e => tmk s' (bio_eof (tssl ts)) None (tfed ts) (ttaken ts) (tres ts ++ [TError e])
            | RBusy => tmk s' (tssl ts) None (tfed ts) (ttaken ts) (tres ts ++ [TCrash])
            end
        | None => tmk s' (tssl ts) None (tfed ts) (ttaken ts) (tres ts)
        end
    | (s', _) => tmk s' (tssl ts) (tin ts) (tfed ts) (ttaken ts) (tres ts)
    end.

  Definition tstep (ts : tstate) (l : tlabel) : tstate :=
    match l with
    | TRecv n => trecv ts n
    | TSock LWake => twake ts
    | TSock (LRecv _) | TSock (LRecvInto _) => ts          (* only the TLS transport talks to the lower transport *)
    | TSock l' => tmk (fst (step true (tk ts) l')) (tssl ts) (tin ts) (tfed ts) (ttaken ts) (tres ts)
    end.

  Fixpoint trun (ts : tstate) (ls : list tlabel) : tstate :=
    match ls with
    | [] => ts
    | l :: ls' => trun (tstep ts l) ls'
    end.

  (* the plaintext handed to the callers *)
  Definition plain_out (ts : tstate) : bytes :=
    flat_map (fun r => match r with TPlain p => p | _ => [] end) (tres ts).
End Tls.
Arguments tk {S}. Arguments tssl {S}. Arguments tin {S}. Arguments tfed {S}. Arguments ttaken {S}. Arguments tres {S}.

(* the SSL object as a recorded oracle: the answers OpenSSL gave, in order (correspondence run) *)
Definition oracle_read (o : list sslans) (n : nat) : list sslans * sslans :=
  match o with
  | [] => ([], SFail)
  | a :: o' => (o', a)
  end.
