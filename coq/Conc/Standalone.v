(* C18 -- the standalone (threaded) wrapper BaseStandaloneNetworkServerImpl as a thread-level transition system.

   Shared state: __is_closed, the __is_shutdown threading.Event, __close_lock, __bootstrap_lock (holder thread),
   whether __threads_portal/__server are set and whether that portal is still alive, and an abstraction of the embedded
   asynchronous server: a run is in progress / its stop has been requested (the asynchronous state machine itself is
   Conc/Lifecycle.v).  Every thread executes one call; a step of a thread is one non-blocking segment of Python
   statements (a blocking acquire / wait / portal call starts a new segment), which is the granularity at which the
   GIL lets threads interleave.  Connected clients are not represented (server_close is taken to end the run).

   The ORDER in which serve_forever and server_close take the two locks, and whether serve_forever tests __is_closed
   under the close lock, are data regenerated from the source (Gen/ParamsC18.v: serve_first_lock, close_first_lock,
   serve_closed_check_under_lock); the theorems of Proofs/C18_threads.v are re-checked against them.
     serve_forever : Vc lock-free part before the first lock | V0 wants its first lock (as found: close lock, then the
                     __is_closed test) | V1 has it, wants the other lock (as found: bootstrap lock, then the "already
                     running" test) | V2 start-up window: both locks held,
                     event cleared, server and portal being created | V4 serving (locks released) | V5 run over, portal
                     dead, wants the bootstrap lock to reset the fields and set the event
     shutdown      : H0 wants bootstrap lock | H1 holds it, portal.run_coroutine(server.shutdown) in flight |
                     H2 g lock released, waiting for the event (as found: the one shared event; with
                     standalone_shutdown_guarded: the event of run g, the run seen under the lock)
     server_close  : C0 wants close lock | C1 wants bootstrap lock | C2 both held, portal call in flight
     is_serving    : Q0 wants bootstrap lock                                                                      *)
From Coq Require Import List Bool Arith Lia.
From EN Require Import Gen.ParamsC18.
Import ListNotations.

Inductive tpc := Vc | V0 | V1 | V2 | V4 | V5 | H0 | H1 | H2 (g : nat) | C0 | C1 | C2 | Q0.
Inductive tkind := KServe | KShutdown | KClose | KQuery.
Inductive tout := TOk | TAlreadyRunning | TClosed.

Record tst := mkt {
  t_closed : bool;
  t_shut : bool;              (* the threading.Event __is_shutdown is set *)
  close_l : option nat;
  boot_l : option nat;
  portal : bool;              (* __threads_portal / __server are not None *)
  alive : bool;               (* that portal still accepts calls *)
  arun : bool;                (* the asynchronous serve_forever is in progress *)
  astop : bool;               (* its stop has been requested (shutdown / server_close) *)
  inflight : nat;             (* portal calls not completed yet *)
  tgen : nat; tfin : nat;     (* ghost: runs started / finished *)
  thr : list (nat * tpc);
  next_t : nat
}.

Definition tinit : tst := mkt false true None None false false false false 0 0 0 [] 0.

Inductive tlabel := TSpawn (k : tkind) | TStep (id : nat) | TAsyncEnd.

Fixpoint ttake (id : nat) (l : list (nat * tpc)) : option (tpc * list (nat * tpc)) :=
  match l with
  | [] => None
  | (i, x) :: l' =>
      if Nat.eqb i id then Some (x, l')
      else match ttake id l' with Some (y, r) => Some (y, (i, x) :: r) | None => None end
  end.

Definition free (o : option nat) : bool := match o with None => true | Some _ => false end.


Definition with_thr (s : tst) (t : list (nat * tpc)) : tst :=
  mkt (t_closed s) (t_shut s) (close_l s) (boot_l s) (portal s) (alive s) (arun s) (astop s) (inflight s) (tgen s) (tfin s) t (next_t s).

Definition lock_of (s : tst) (l : lockid) : option nat := match l with LClose => close_l s | LBoot => boot_l s end.
Definition other_lock (l : lockid) : lockid := match l with LClose => LBoot | LBoot => LClose end.
Definition take_lock (s : tst) (l : lockid) (id : nat) : tst :=
  match l with
  | LClose => mkt (t_closed s) (t_shut s) (Some id) (boot_l s) (portal s) (alive s) (arun s) (astop s) (inflight s) (tgen s) (tfin s) (thr s) (next_t s)
  | LBoot => mkt (t_closed s) (t_shut s) (close_l s) (Some id) (portal s) (alive s) (arun s) (astop s) (inflight s) (tgen s) (tfin s) (thr s) (next_t s)
  end.
Definition release_both (s : tst) : tst :=
  mkt (t_closed s) (t_shut s) None None (portal s) (alive s) (arun s) (astop s) (inflight s) (tgen s) (tfin s) (thr s) (next_t s).
(* the test serve_forever performs right after taking lock l: None = passes *)
Definition serve_check (s : tst) (l : lockid) : option tout :=
  match l with
  | LClose => if serve_closed_check_under_lock && t_closed s then Some TClosed else None
  | LBoot => if t_shut s then None else Some TAlreadyRunning
  end.

(* one segment of thread [id] currently at [pc]; [rest] = the other threads *)
Definition seg (s : tst) (id : nat) (pc : tpc) (rest : list (nat * tpc)) : option (tst * list (nat * tout)) :=
  let go (s' : tst) (pc' : tpc) := Some (with_thr s' (rest ++ [(id, pc')]), []) in
  let fin (s' : tst) (o : tout) := Some (with_thr s' rest, [(id, o)]) in
  match pc with
  | Vc =>
      (* statements of serve_forever before its first lock: a lock-free __is_closed test if the source has one there *)
      if negb serve_closed_check_under_lock && t_closed s then fin s TClosed else go s V0
  | V0 =>
      let l := serve_first_lock in
      if free (lock_of s l) then
        let s1 := take_lock s l id in
        match serve_check s1 l with
        | Some o => fin s o                      (* the lock just taken is released again *)
        | None => go s1 V1
        end
      else None
  | V1 =>
      let l := other_lock serve_first_lock in
      if free (lock_of s l) then
        let s1 := take_lock s l id in
        match serve_check s1 l with
        | Some o => fin (release_both s1) o      (* this thread holds both locks: released *)
        | None => (* both tests passed: a new run starts (event of the run created, unset) *)
            go (mkt (t_closed s1) false (close_l s1) (boot_l s1) (portal s1) (alive s1) (arun s1) (astop s1) (inflight s1)
                    (S (tgen s1)) (tfin s1) (thr s1) (next_t s1)) V2
        end
      else None
  | V2 => (* server and portal exist: release the locks, the asynchronous serve_forever starts *)
      go (mkt (t_closed s) (t_shut s) None None true true true false (inflight s) (tgen s) (tfin s) (thr s) (next_t s)) V4
  | V4 => (* the run is over and every portal call has been answered: the portal shuts, the server is closed *)
      if negb (arun s) && Nat.eqb (inflight s) 0
      then go (mkt (t_closed s) (t_shut s) (close_l s) (boot_l s) (portal s) false false (astop s) 0 (tgen s) (tfin s) (thr s) (next_t s)) V5
      else None
  | V5 => (* reacquire the bootstrap lock, reset_values, is_shutdown.set(), release *)
      if free (boot_l s)
      then fin (mkt (t_closed s) true (close_l s) None false false false false (inflight s) (tgen s) (S (tfin s)) (thr s) (next_t s)) TOk
      else None
  | H0 =>
      if free (boot_l s) then
        if portal s then
          if alive s
          then go (mkt (t_closed s) (t_shut s) (close_l s) (Some id) (portal s) (alive s) (arun s) true (S (inflight s)) (tgen s) (tfin s) (thr s) (next_t s)) H1
          else go s (H2 (tgen s))            (* RuntimeError from the dead portal is suppressed *)
        else go s (H2 (tgen s))
      else None
  | H1 => (* server.shutdown() returns once the asynchronous run is over *)
      if negb (arun s)
      then go (mkt (t_closed s) (t_shut s) (close_l s) None (portal s) (alive s) (arun s) (astop s) (pred (inflight s)) (tgen s) (tfin s) (thr s) (next_t s)) (H2 (tgen s))
      else None
  | H2 g =>
      (* as found: `self.__is_shutdown.wait()` on the one shared event, read AFTER the lock was released;
         guarded: the event object of run g captured under the lock (set iff that run has finished) *)
      if (if standalone_shutdown_guarded then Nat.leb g (tfin s) else t_shut s) then fin s TOk else None
  | C0 =>
      let l := close_first_lock in
      if free (lock_of s l) then go (take_lock s l id) C1 else None
  | C1 =>
      let l := other_lock close_first_lock in
      if free (lock_of s l) then
        let s1 := take_lock s l id in
        if portal s1 && alive s1
        then go (mkt (t_closed s1) (t_shut s1) (close_l s1) (boot_l s1) (portal s1) (alive s1) (arun s1) true (S (inflight s1)) (tgen s1) (tfin s1) (thr s1) (next_t s1)) C2
        else fin (release_both (mkt true (t_shut s1) (close_l s1) (boot_l s1) (portal s1) (alive s1) (arun s1) (astop s1) (inflight s1) (tgen s1) (tfin s1) (thr s1) (next_t s1))) TOk
      else None
  | C2 => (* server.server_close() always completes (Lifecycle.no_deadlock) *)
      fin (mkt true (t_shut s) None None (portal s) (alive s) (arun s) (astop s) (pred (inflight s)) (tgen s) (tfin s) (thr s) (next_t s)) TOk
  | Q0 => if free (boot_l s) then fin s TOk else None
  end.

Definition first_pc (k : tkind) : tpc :=
  match k with KServe => Vc | KShutdown => H0 | KClose => C0 | KQuery => Q0 end.

Definition tstep (s : tst) (l : tlabel) : option (tst * list (nat * tout)) :=
  match l with
  | TSpawn k =>
      Some (mkt (t_closed s) (t_shut s) (close_l s) (boot_l s) (portal s) (alive s) (arun s) (astop s) (inflight s)
                (tgen s) (tfin s) (thr s ++ [(next_t s, first_pc k)]) (S (next_t s)), [])
  | TStep id =>
      match ttake id (thr s) with
      | Some (pc, rest) => seg s id pc rest
      | None => None
      end
  | TAsyncEnd =>
      if arun s && astop s
      then Some (mkt (t_closed s) (t_shut s) (close_l s) (boot_l s) (portal s) (alive s) false (astop s) (inflight s) (tgen s) (tfin s) (thr s) (next_t s), [])
      else None
  end.

Inductive treachable : tst -> Prop :=
| tr_init : treachable tinit
| tr_step : forall s l s' o, treachable s -> tstep s l = Some (s', o) -> treachable s'.

Fixpoint trun (s : tst) (ls : list tlabel) : option tst :=
  match ls with
  | [] => Some s
  | l :: ls' => match tstep s l with Some (s', _) => trun s' ls' | None => None end
  end.
