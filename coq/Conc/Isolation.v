(* C17 -- the chain of exception filters around one client, as an executable decision model.

   TCP (innermost first), for an exception leaving a request-handler hook:
     servers/misc.py  build_lowlevel_stream_server_handler.handler
        request_handler_exit_stack : [disconnect_client]  (pushed once on_connection has completed)
            disconnect_client = try: on_disconnection except* ConnectionError: warn           [tcp_disconnect_hook]
     servers/async_tcp.py  __client_initializer  (except BaseException: raise)  + its exit stack
            [_bind_server; __suppress_and_log_remaining_exception; linger | aclosing; log; _on_disconnect]
            __suppress_and_log_remaining_exception = try: try: yield except* ClientClosedError ... except* ConnectionError
                                                     except Exception                          [tcp_suppress]
     lowlevel/api_async/servers/stream.py  __client_coroutine : task_exit_stack [aclose_forcefully(transport); ...]
     (TLS) transports/tls.py tls_handler_wrapper : handshake failure -> aclose_forcefully + error handler  [tls_wrap]
     backend/_asyncio/stream/listener.py client_connection_task : connect failure                  [listener_connect]
   The handler task is a child of the server's only task group: an exception that leaves it cancels every sibling.

   UDP: servers/async_udp.py _ClientContext.__aexit__ (a `match` statement)                         [udp_aexit]
        lowlevel/api_async/servers/datagram.py __client_coroutine: try/finally -> mark_done -> state None.

   Every table in brackets comes from Gen/ParamsC17.v, regenerated from the source by harness/c17.py. *)
From Coq Require Import List Bool ZArith.
From EN Require Import Conc.ExcKinds Gen.ParamsC17.
Import ListNotations.
Open Scope Z_scope.

(* ---------- matching ---------- *)
Definition leaf_matches (cs : list cls) (k : leaf) : bool := existsb (isinst k) cs.
Definition leaf_is_exception (k : leaf) : bool := isinst k C_Exception.
Definition group_is_exc (g : list leaf) : bool := forallb leaf_is_exception g.
(* isinstance(<the group object itself>, one of cs) *)
Definition groupobj_matches (cs : list cls) (g : list leaf) : bool :=
  existsb (if group_is_exc g then isinst_eg else isinst_beg) cs.
Definition plain_matches (cs : list cls) (e : exc) : bool :=
  match e with Naked k => leaf_matches cs k | Group g => groupobj_matches cs g end.

Definition exc_is_exception (e : exc) : bool :=
  match e with Naked k => leaf_is_exception k | Group g => group_is_exc g end.

(* result of one handler body on the exception it caught: what it re-raises, what it logs *)
Definition apply_action (a : action) (e : exc) : option exc * list Z :=
  match a with
  | ASwallow l => (None, if Z.eqb l 0 then [] else [l])
  | AReraise => (Some e, [])
  | AReraiseUnless c => if plain_matches [c] e then (None, []) else (Some e, [])
  end.

Record fres := { f_exc : option exc; f_logs : list Z; f_closed : bool }.

(* ---------- try / except ---------- *)
Fixpoint plain_run (cs : list clause) (e : exc) : fres :=
  match cs with
  | [] => {| f_exc := Some e; f_logs := []; f_closed := false |}
  | c :: cs' =>
      if plain_matches (c_classes c) e
      then let '(r, lg) := apply_action (c_action c) e in {| f_exc := r; f_logs := lg; f_closed := c_closes c |}
      else plain_run cs' e
  end.

(* ---------- try / except*  on a group: BaseExceptionGroup.split, clause by clause ---------- *)
Definition leaves_of (o : option exc) : list leaf :=
  match o with None => [] | Some (Naked k) => [k] | Some (Group g) => g end.

Fixpoint star_group (cs : list clause) (rest reraised : list leaf) (logs : list Z) : list leaf * list leaf * list Z :=
  match cs with
  | [] => (rest, reraised, logs)
  | c :: cs' =>
      match rest with
      | [] => (rest, reraised, logs)
      | _ =>
          let whole := groupobj_matches (c_classes c) rest in
          let m := if whole then rest else filter (leaf_matches (c_classes c)) rest in
          let r := if whole then [] else filter (fun k => negb (leaf_matches (c_classes c) k)) rest in
          match m with
          | [] => star_group cs' rest reraised logs
          | _ => let '(x, lg) := apply_action (c_action c) (Group m) in
                 star_group cs' r (reraised ++ leaves_of x) (logs ++ lg)
          end
      end
  end.

(* a naked exception is matched directly (and handed to the body wrapped in a group) *)
Fixpoint star_naked (cs : list clause) (k : leaf) : fres :=
  match cs with
  | [] => {| f_exc := Some (Naked k); f_logs := []; f_closed := false |}
  | c :: cs' =>
      if leaf_matches (c_classes c) k
      then let '(r, lg) := apply_action (c_action c) (Group [k]) in {| f_exc := r; f_logs := lg; f_closed := c_closes c |}
      else star_naked cs' k
  end.

Definition star_run (cs : list clause) (e : exc) : fres :=
  match e with
  | Naked k => star_naked cs k
  | Group g =>
      let '(rest, rr, lg) := star_group cs g [] [] in
      {| f_exc := match rr ++ rest with [] => None | l => Some (Group l) end; f_logs := lg; f_closed := false |}
  end.

Definition layer_run (l : layer) (e : exc) : fres :=
  match l with LStar cs => star_run cs e | LPlain cs => plain_run cs e end.

(* nested try statements, innermost first *)
Fixpoint layers_run (ls : list layer) (e : exc) : fres :=
  match ls with
  | [] => {| f_exc := Some e; f_logs := []; f_closed := false |}
  | l :: ls' =>
      let r := layer_run l e in
      match f_exc r with
      | None => r
      | Some e' => let r' := layers_run ls' e' in
                   {| f_exc := f_exc r'; f_logs := f_logs r ++ f_logs r'; f_closed := f_closed r || f_closed r' |}
      end
  end.

(* ---------- UDP: the match statement of _ClientContext.__aexit__ ---------- *)
Definition mres_apply (r : mres) (orig rest : exc) : option exc * list Z :=
  match r with
  | MSuppress l => (None, if Z.eqb l 0 then [] else [l])
  | MPropagate => (Some orig, [])
  | MRaiseRest => (Some rest, [])
  end.

Fixpoint inner_match (cases : list (cls * mres)) (dflt : mres) (rest : exc) : mres :=
  match cases with
  | [] => dflt
  | (c, r) :: cs => if plain_matches [c] rest then r else inner_match cs dflt rest
  end.

Fixpoint match_run (cases : list mcase) (e : exc) : option exc * list Z :=
  match cases with
  | [] => (Some e, [])                      (* no case matched: __aexit__ returns None -> propagates *)
  | MClass c r :: cs => if plain_matches [c] e then mres_apply r e e else match_run cs e
  | MDefault r :: _ => mres_apply r e e
  | MGroupSplit cg csplit lsplit rnone inner dflt :: cs =>
      match e with
      | Group g =>
          if groupobj_matches [cg] g then
            let whole := groupobj_matches [csplit] g in
            let m := if whole then g else filter (leaf_matches [csplit]) g in
            let r := if whole then [] else filter (fun k => negb (leaf_matches [csplit] k)) g in
            let lg1 := match m with [] => [] | _ => if Z.eqb lsplit 0 then [] else [lsplit] end in
            match r with
            | [] => let '(x, lg) := mres_apply rnone e e in (x, lg1 ++ lg)
            | _ => let '(x, lg) := mres_apply (inner_match inner dflt (Group r)) e (Group r) in (x, lg1 ++ lg)
            end
          else match_run cs e
      | Naked _ => match_run cs e            (* a naked exception is never a BaseExceptionGroup *)
      end
  end.

(* ---------- hook positions ---------- *)
Inductive position :=
| PConnCoro        (* on_connection is a coroutine and raises *)
| PConnGenBefore   (* on_connection is an async generator, raises before its first yield *)
| PConnGenAfter    (* ... after a yield (a request was received) *)
| PHandleBefore    (* handle() raises before its first yield *)
| PHandleAfter     (* handle() raises after receiving a request *)
| PThrownParse     (* handle() raises while handling a parse error thrown in at its yield *)
| PThrownTimeout   (* handle() raises while handling a TimeoutError thrown in at its yield *)
| PSecondGen       (* the second handle() generator of the same client raises before its first yield *)
| PSecondYield     (* handle() raises after its second yield *)
| PDisconnect      (* on_disconnection raises after an ordinary disconnect *)
| PConnGenPeerLeft (* the peer leaves while an async-generator on_connection() waits at its yield (no exception of the handler) *)
| PDelay (d : delay) (* handle() yields d as the delay for its second request; when that raises (expiry or unusable value) it
                        raises e1 while handling the error thrown in, otherwise it raises e1 after the request *)
| PThrownPipelined. (* like PThrownParse, but the malformed frame arrived in the same chunk as the previous (valid) request:
                      the request receiver finds it already buffered when handle() yields again *)

Definition all_positions : list position :=
  [PConnCoro; PConnGenBefore; PConnGenAfter; PHandleBefore; PHandleAfter; PThrownParse; PThrownTimeout;
   PSecondGen; PSecondYield; PDisconnect; PThrownPipelined; PConnGenPeerLeft] ++ map PDelay all_delays.

Definition pos_code (p : position) : Z :=
  match p with
  | PConnCoro => 0 | PConnGenBefore => 1 | PConnGenAfter => 2 | PHandleBefore => 3 | PHandleAfter => 4
  | PThrownParse => 5 | PThrownTimeout => 6 | PSecondGen => 7 | PSecondYield => 8 | PDisconnect => 9
  | PThrownPipelined => 10 | PConnGenPeerLeft => 11 | PDelay d => 20 + delay_code d
  end.
Definition pos_of_code (z : Z) : option position :=
  match z with
  | 0 => Some PConnCoro | 1 => Some PConnGenBefore | 2 => Some PConnGenAfter | 3 => Some PHandleBefore
  | 4 => Some PHandleAfter | 5 => Some PThrownParse | 6 => Some PThrownTimeout | 7 => Some PSecondGen
  | 8 => Some PSecondYield | 9 => Some PDisconnect | 10 => Some PThrownPipelined | 11 => Some PConnGenPeerLeft
  | _ => match delay_of_code (z - 20) with Some d => Some (PDelay d) | None => None end
  end.

(* has on_connection completed when the fault happens? *)
Definition pos_connected (p : position) : bool :=
  match p with PConnCoro | PConnGenBefore | PConnGenAfter | PConnGenPeerLeft => false | _ => true end.

(* hook log of the scenario up to the fault: 1 on_connection entered, 2 a handle() generator started,
   3 a request delivered to a hook, 5 an error thrown into handle(); 4 = on_disconnection entered is appended by the
   model.  (This is the script the driver plays, not a decision of the code.) *)
Definition pos_hooks (p : position) : list Z :=
  match p with
  | PConnCoro | PConnGenBefore => [1]
  | PConnGenAfter => [1; 3]
  | PHandleBefore => [1; 2]
  | PHandleAfter => [1; 2; 3]
  | PThrownParse | PThrownTimeout => [1; 2; 5]
  | PSecondGen => [1; 2; 3; 2]
  | PSecondYield => [1; 2; 3; 3]
  | PDisconnect => [1; 2; 3; 2]
  | PThrownPipelined => [1; 2; 3; 5]
  | PConnGenPeerLeft => [1]
  | PDelay d => match delay_error d with None => [1; 2; 3; 3] | Some _ => [1; 2; 3; 5] end
  end.

Record outcome := {
  o_raises : option exc;   (* what leaves the client task (None = normal completion) *)
  o_closed : bool;         (* the failing client's connection is closed *)
  o_hooks : list Z;
  o_logs : list Z;
  o_disc_called : bool     (* on_disconnection was entered *)
}.

Definition is_item (a b : stack_item) : bool :=
  match a, b with
  | SBind, SBind | SSuppress, SSuppress | SLinger, SLinger | SAclosing, SAclosing
  | SLogDisconnected, SLogDisconnected | SOnDisconnect, SOnDisconnect => true
  | _, _ => false
  end.

(* ---------- TCP: an established connection, fault e1 at position p, optional second fault e2 raised by
   on_disconnection (for PDisconnect e1 IS the on_disconnection fault) ---------- *)
Definition tcp_client_task_main (tls : flavour) (p : position) (e1 : exc) (e2 : option exc) : outcome :=
  let connected := pos_connected p in
  let raised0 := match p with PDisconnect | PConnGenPeerLeft => None | _ => Some e1 end in
  let disc_exc := match p with PDisconnect => Some e1 | _ => e2 end in
  (* request_handler_exit_stack: disconnect_client is there iff it was pushed before the fault *)
  let run_disc := if misc_disconnect_after_connection then connected else true in
  let '(raised1, logs1) :=
    if run_disc then
      match disc_exc with
      | None => (raised0, [])
      | Some d => let r := layers_run tcp_disconnect_hook d in
                  (match f_exc r with Some x => Some x | None => raised0 end, f_logs r)
      end
    else (raised0, []) in
  (* __client_initializer: `except BaseException: ... raise` around `yield client`, then the exit stack;
     the suppressor filters what comes out of `yield client` iff it was entered before it *)
  let raised1' := if tcp_init_reraises then raised1 else None in
  let '(raised2, logs2) :=
    match raised1' with
    | None => (None, [])
    | Some x => if existsb (is_item SSuppress) (tcp_init_stack tls)
                then let r := layers_run tcp_suppress x in (f_exc r, f_logs r)
                else (Some x, [])
    end in
  {| o_raises := raised2;
     o_closed := stream_close_pushed_first;     (* aclose_forcefully(transport) is at the bottom of the task's stack *)
     o_hooks := pos_hooks p ++ (if run_disc then [4] else []);
     o_logs := logs1 ++ logs2;
     o_disc_called := run_disc |}.

(* lowlevel/api_async/servers/stream.py _RequestReceiver.next / _BufferedRequestReceiver.next: every consumer.next() call
   sits inside `try: ... except BaseException as exc: return ThrowAction(exc)`, so a parse error of a frame that is already
   buffered is THROWN INTO handle() like any other ([receiver_next_protected], regenerated).  Otherwise it leaves
   request_receiver.next(), __client_coroutine closes the handler generator (on_disconnection runs) and the parse error
   leaves the client task, outside every filter. *)
(* what leaves the client task when an exception escapes request_receiver.next(): __client_coroutine closes the handler
   generator (on_disconnection runs) and the exception goes on, outside every filter *)
Definition escape_outcome (k : leaf) : outcome :=
  {| o_raises := Some (Naked k); o_closed := stream_close_pushed_first; o_hooks := [1; 2; 3; 4];
     o_logs := []; o_disc_called := true |}.

Definition tcp_client_task (tls : flavour) (p : position) (e1 : exc) (e2 : option exc) : outcome :=
  match p with
  | PThrownPipelined =>
      if receiver_next_protected then tcp_client_task_main tls p e1 e2 else escape_outcome KParse
  | PDelay d =>
      (* the timeout scope armed with the yielded delay lives inside the same try: [tcp_wait_clauses] = the classes that
         `except ... as exc: return ThrowAction(exc)` catches around it (both receivers) *)
      match delay_error d with
      | Some k => if leaf_matches tcp_wait_clauses k then tcp_client_task_main tls p e1 e2 else escape_outcome k
      | None => tcp_client_task_main tls p e1 e2
      end
  | _ => tcp_client_task_main tls p e1 e2
  end.

(* a fault raised by an exit callback of the initializer's stack (e.g. the TLS close handshake in aclosing()):
   filtered iff the suppressor was pushed before that item *)
Fixpoint pushed_before (a b : stack_item) (st : list stack_item) : bool :=
  match st with
  | [] => false
  | x :: st' => if is_item a x then existsb (is_item b) st' else if is_item b x then false else pushed_before a b st'
  end.

Definition tcp_exit_callback_fault (tls : flavour) (item : stack_item) (e : exc) : outcome :=
  let r := if pushed_before SSuppress item (tcp_init_stack tls) then layers_run tcp_suppress e
           else {| f_exc := Some e; f_logs := []; f_closed := false |} in
  {| o_raises := f_exc r; o_closed := stream_close_pushed_first; o_hooks := [1; 2; 3; 2; 4]; o_logs := f_logs r;
     o_disc_called := true |}.

(* ---------- the final, forced close of the client task ----------
   lowlevel/api_async/servers/stream.py pushes aclose_forcefully(transport) at the bottom of the task's exit stack: what the
   transport's aclose() lets out there is outside every per-client filter.  For the asyncio socket adapter the only thing
   that can raise is the socket shutdown (transport.write_eof()), wrapped in a try whose clauses are [adapter_close]
   (regenerated).  Scenario: the handler fails with e1 after a request (the peer is still connected, so write_eof() is
   called) and the shutdown raises the naked kind k (ENOTCONN / EBADF are plain OSError, EPIPE is a ConnectionError...). *)
Definition tcp_final_close_fault (f : flavour) (e1 : exc) (k : leaf) : outcome :=
  let a := tcp_client_task f PHandleAfter e1 None in
  let r := layers_run adapter_close (Naked k) in
  {| o_raises := match f_exc r with Some x => Some x | None => o_raises a end;
     o_closed := o_closed a; o_hooks := o_hooks a; o_logs := o_logs a; o_disc_called := o_disc_called a |}.

(* ---------- set-up faults ---------- *)
Inductive setup_stage := StConnect | StHandshake.

Definition setup_task (st : setup_stage) (e : exc) : outcome :=
  let r := match st with StConnect => layers_run listener_connect e | StHandshake => layers_run tls_wrap e end in
  {| o_raises := f_exc r; o_closed := f_closed r; o_hooks := []; o_logs := []; o_disc_called := false |}.

(* ---------- UDP ---------- *)
Inductive upos := UBefore | UAfter | UThrownParse | UThrownTimeout | USecondYield | UDelay (d : delay)
  | UBurstBefore | UBurstAfter | UBurstQueued | UCrashFirst | UCrashLater.   (* three datagrams of the address arrive in a burst; each handler generator fails
                                      before its first yield / right after its request, without awaiting;
                                      UBurstQueued: four datagrams, the first generator awaits before failing (the
                                      three others are queued behind it) and those fail without awaiting;
                                      UCrashFirst / UCrashLater: protocol.build_packet_from_datagram() itself crashes (not a
                                      parse error) on the first datagram of a handler run / on a later one *)
Definition all_upos : list upos :=
  [UBefore; UAfter; UThrownParse; UThrownTimeout; USecondYield; UBurstBefore; UBurstAfter; UBurstQueued; UCrashFirst; UCrashLater] ++ map UDelay all_delays.
Definition upos_code (p : upos) : Z :=
  match p with UBefore => 0 | UAfter => 1 | UThrownParse => 2 | UThrownTimeout => 3 | USecondYield => 4
          | UDelay d => 20 + delay_code d | UBurstBefore => 5 | UBurstAfter => 6 | UBurstQueued => 7 | UCrashFirst => 8 | UCrashLater => 9 end.
Definition upos_of_code (z : Z) : option upos :=
  match z with 0 => Some UBefore | 1 => Some UAfter | 2 => Some UThrownParse | 3 => Some UThrownTimeout
          | 4 => Some USecondYield | 5 => Some UBurstBefore | 6 => Some UBurstAfter | 7 => Some UBurstQueued | 8 => Some UCrashFirst | 9 => Some UCrashLater
          | _ => match delay_of_code (z - 20) with Some d => Some (UDelay d) | None => None end end.
Definition upos_hooks (p : upos) : list Z :=
  match p with
  | UBefore => [2] | UAfter => [2; 3] | UThrownParse | UThrownTimeout => [2; 3; 5] | USecondYield => [2; 3; 3]
  | UDelay d => match delay_error d with None => [2; 3; 3] | Some _ => [2; 3; 5] end
  | UBurstBefore => [2; 2; 2] | UBurstAfter => [2; 3; 2; 3; 2; 3] | UBurstQueued => [2; 3; 2; 3; 2; 3; 2; 3]
  | UCrashFirst => [2; 5] | UCrashLater => [2; 3; 5]
  end.

Inductive cstate := CNone | CRunning.

Record uoutcome := {
  u_raises : option exc;
  u_state : cstate;        (* _ClientData.state of the failing address afterwards *)
  u_fresh : bool;          (* its next datagram starts a fresh handle() generator and is answered *)
  u_hooks : list Z;
  u_logs : list Z
}.

Definition udp_client_task_main (p : upos) (e : exc) : uoutcome :=
  let '(r, lg) := match_run udp_aexit e in
  let st := match r with
            | None => CNone
            | Some _ => if udp_done_in_finally && udp_done_marks_first then CNone else CRunning
            end in
  let fresh := match r, st with None, CNone => true | _, _ => false end in
  {| u_raises := r; u_state := st; u_fresh := fresh;
     (* in a burst every one of the three generators fails the same way -- unless the first failure already escapes *)
     u_hooks := match r, p with
                | Some _, UBurstBefore => [2]
                | Some _, (UBurstAfter | UBurstQueued) => [2; 3]
                | _, _ => upos_hooks p ++ (if fresh then [2; 3] else [])
                end;
     u_logs := match r, p with
               | None, (UBurstBefore | UBurstAfter) => lg ++ lg ++ lg
               | None, UBurstQueued => lg ++ lg ++ lg ++ lg
               | _, _ => lg
               end |}.

(* datagram.py __client_coroutine_inner_loop: "arm the yielded delay, pop and parse the next datagram" sits in a try whose
   handler turns what it catches into a ThrowAction ([udp_wait_clauses] = the classes it names); anything else leaves
   __client_coroutine (its finally still marks the client done) and the server's task group *)
Definition udp_client_task (p : upos) (e : exc) : uoutcome :=
  match p with
  | UDelay d =>
      match delay_error d with
      | Some k =>
          if leaf_matches udp_wait_clauses k then udp_client_task_main p e
          else {| u_raises := Some (Naked k);
                  u_state := if udp_done_in_finally && udp_done_marks_first then CNone else CRunning;
                  u_fresh := false; u_hooks := [2; 3]; u_logs := [] |}
      | None => udp_client_task_main p e
      end
  | UCrashFirst =>
      (* the first datagram of a run is parsed right after the generator's first step, outside the loop's try: only what
         __parse_datagram itself turns into a ThrowAction reaches the handler ([udp_first_parse_protected]) *)
      if udp_first_parse_protected then udp_client_task_main p e
      else {| u_raises := Some (Naked KGeneric);
              u_state := if udp_done_in_finally && udp_done_marks_first then CNone else CRunning;
              u_fresh := false; u_hooks := [2]; u_logs := [] |}
  | UCrashLater =>
      (* later datagrams are parsed inside the same try as "arm the delay, pop" *)
      if leaf_matches udp_wait_clauses KGeneric then udp_client_task_main p e
      else {| u_raises := Some (Naked KGeneric);
              u_state := if udp_done_in_finally && udp_done_marks_first then CNone else CRunning;
              u_fresh := false; u_hooks := [2; 3]; u_logs := [] |}
  | _ => udp_client_task_main p e
  end.

(* ---------- finite domains used by the theorems ---------- *)
Fixpoint sublists {X} (l : list X) : list (list X) :=
  match l with
  | [] => [[]]
  | x :: l' => let s := sublists l' in map (cons x) s ++ s
  end.

Definition exception_leaves : list leaf := filter leaf_is_exception all_leaves.

(* canonical form of a group: the leaves of [all_leaves] that occur in it *)
Definition canon (g : list leaf) : list leaf := filter (fun k => existsb (leaf_eqb k) g) all_leaves.
Definition canon_exc (e : exc) : exc := match e with Naked k => Naked k | Group g => Group (canon g) end.

Definition all_canon_excs : list exc := map Naked all_leaves ++ map Group (sublists all_leaves).
