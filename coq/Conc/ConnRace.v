(* C19 -- executable model of lowlevel/api_async/backend/_common/dns_resolver.py:
     _create_connection_impl            (cc_advance / cc_resume: a resumable machine, one suspension per connect)
     _staggered_race_connection_impl    (labelled transition system [step] over host task + one child task per address)
     _prioritize_ipv6_over_ipv4, _interleave_addrinfos
   Sockets are resources identified by the id of the address they were created for; [r_open] is the set of open ones.
   No proofs here (Proofs/C19_proofs.v). *)
From Coq Require Import ZArith List Bool Arith Lia.
Import ListNotations.
From EN Require Import Gen.ParamsC19.

(* ------------------------------------------------------------------ addresses and scripts *)
Inductive conn_kind := CkSuspend | CkOk | CkFail | CkCrash.
(* what connect_socket does when called: suspend (outcome decided later by a label), return, raise OSError,
   raise another exception *)

Record acfg := { a_id : nat; a_fam : Z; a_create : bool (* socket() succeeds *); a_conn : conn_kind }.
Definition lcfg := (Z * list nat)%type.      (* local address: family, ids of the sockets for which bind() fails *)

Definition remove_id (x : nat) (l : list nat) : list nat := filter (fun y => negb (Nat.eqb x y)) l.

(* ------------------------------------------------------------------ the bind loop (for ... else) *)
Inductive bind_res := BindOk | BindErrs (n : nat) | BindNoMatch.

Fixpoint bind_loop (id : nat) (fam : Z) (ls : list lcfg) (errs : nat) : bind_res :=
  match ls with
  | [] => match errs with 0 => BindNoMatch | S _ => BindErrs errs end
  | (lf, fails) :: ls' =>
      if Z.eqb lf fam
      then (if existsb (Nat.eqb id) fails then bind_loop id fam ls' (S errs) else BindOk)
      else bind_loop id fam ls' errs
  end.

Definition bind_all (locals : option (list lcfg)) (a : acfg) : bind_res :=
  match locals with None => BindOk | Some ls => bind_loop (a_id a) (a_fam a) ls 0 end.

(* ------------------------------------------------------------------ _create_connection_impl *)
Inductive cc_out := OutSock (id : nat) | OutErrs (n : nat) | OutCancel | OutCrash.
Inductive cc_st := CcWait (cur : acfg) (rest : list acfg) (errs : nat) | CcDone (o : cc_out).

(* run the for-loop from the head of [l] until a connect suspends or the function exits *)
Fixpoint cc_advance (locals : option (list lcfg)) (l : list acfg) (errs : nat) (open : list nat) : cc_st * list nat :=
  match l with
  | [] => (CcDone (OutErrs errs), open)                          (* raise ExceptionGroup(errors) *)
  | a :: rest =>
      if negb (a_create a) then cc_advance locals rest (S errs) open            (* socket() raised OSError *)
      else
        match bind_all locals a with
        | BindErrs n => cc_advance locals rest (errs + n) open                  (* socket.close(); errors.extend *)
        | BindNoMatch => cc_advance locals rest (S errs) open                   (* raise OSError -> except OSError: close *)
        | BindOk =>
            match a_conn a with
            | CkSuspend => (CcWait a rest errs, a_id a :: open)
            | CkOk => (CcDone (OutSock (a_id a)), a_id a :: open)
            | CkFail => cc_advance locals rest (S errs) open                    (* except OSError: socket.close() *)
            | CkCrash => (CcDone OutCrash, open)                                (* except BaseException: socket.close(); raise *)
            end
        end
  end.

Inductive resume := ROk | RFail | RCrash | RCancel.

Definition cc_resume (locals : option (list lcfg)) (cur : acfg) (rest : list acfg) (errs : nat) (r : resume)
           (open : list nat) : cc_st * list nat :=
  match r with
  | ROk => (CcDone (OutSock (a_id cur)), open)
  | RFail => cc_advance locals rest (S errs) (remove_id (a_id cur) open)
  | RCrash => (CcDone OutCrash, remove_id (a_id cur) open)
  | RCancel => (CcDone OutCancel, remove_id (a_id cur) open)
  end.

(* the sequential function driven by a list of resume values (one per suspension) *)
Fixpoint cc_drive (locals : option (list lcfg)) (st : cc_st) (open : list nat) (rs : list resume) : cc_st * list nat :=
  match st, rs with
  | CcWait cur rest errs, r :: rs' =>
      let '(st', open') := cc_resume locals cur rest errs r open in cc_drive locals st' open' rs'
  | _, _ => (st, open)
  end.

(* ------------------------------------------------------------------ reordering *)
Definition insert_at {A} (n : nat) (x : A) (l : list A) : list A := firstn n l ++ x :: skipn n l.

Fixpoint prioritize_go (l : list acfg) (v6 v4 : bool) (acc : list acfg) : list acfg :=
  match l with
  | [] => acc
  | a :: l' =>
      if Z.eqb (a_fam a) AF_INET6 && negb v6 then prioritize_go l' true v4 (insert_at 0 a acc)
      else if Z.eqb (a_fam a) AF_INET && negb v4 && v6 then prioritize_go l' v6 true (insert_at 1 a acc)
      else prioritize_go l' v6 v4 (acc ++ [a])
  end.
Definition prioritize (l : list acfg) : list acfg := prioritize_go l false false [].

Fixpoint group_add (a : acfg) (gs : list (Z * list acfg)) : list (Z * list acfg) :=
  match gs with
  | [] => [(a_fam a, [a])]
  | (f, l) :: gs' => if Z.eqb f (a_fam a) then (f, l ++ [a]) :: gs' else (f, l) :: group_add a gs'
  end.
Definition groups (l : list acfg) : list (Z * list acfg) := fold_left (fun gs a => group_add a gs) l [].

Definition heads {A} (ls : list (list A)) : list A :=
  flat_map (fun l => match l with [] => [] | x :: _ => [x] end) ls.

(* chain.from_iterable(zip_longest of the lists) without the None fillers *)
Fixpoint round_robin {A} (fuel : nat) (ls : list (list A)) : list A :=
  match fuel with
  | 0 => []
  | S f => match heads ls with
           | [] => []
           | hs => hs ++ round_robin f (map (@tl A) ls)
           end
  end.
Definition interleave (l : list acfg) : list acfg := round_robin (length l) (map snd (groups l)).

Definition reorder (l : list acfg) : list acfg := interleave (prioritize l).

(* ------------------------------------------------------------------ the race *)
Inductive tstate :=
| TNone                      (* task not created yet *)
| TNew (c : bool)            (* created, first step not run; c = cancellation requested (TaskGroup abort) *)
| TConn (c : bool)           (* suspended in connect_socket with its socket open *)
| TFin.

Inductive hstate := HInit | HWait (k : nat) | HJoin | HAbort | HDone.

Inductive outcome := ResSock (id : nat) | ResErrs (n : nat) | ResCancelled | ResCrash.

Record rstate := {
  r_att : list tstate;
  r_open : list nat;
  r_created : list nat;        (* creation order (observable only) *)
  r_winner : option nat;
  r_nerr : nat;
  r_scope : bool;              (* connection_scope.cancel() called *)
  r_caller : bool;             (* cancellation of the caller requested *)
  r_crashed : bool;            (* a child raised something that is not an OSError *)
  r_host : hstate;
  r_result : option outcome
}.

Record rcfg := { c_addrs : list acfg (* already reordered *); c_locals : option (list lcfg); c_delay : bool }.

Definition init (c : rcfg) : rstate :=
  {| r_att := map (fun _ => TNone) (c_addrs c); r_open := []; r_created := []; r_winner := None; r_nerr := 0;
     r_scope := false; r_caller := false; r_crashed := false; r_host := HInit; r_result := None |}.

Inductive label :=
| LHostStart                     (* first step of the host: spawn attempt 0 and wait *)
| LHostNext (timer : bool)       (* woken in "await done.wait()" by the event (false) or by the stagger delay (true) *)
| LHostCancel                    (* CancelledError delivered to the host: the task group cancels every child *)
| LHostFinish (swallow : bool)   (* every child finished: leave the task group and the scope *)
| LChildStart (i : nat)
| LChildSkip (i : nat)           (* cancelled before its first step: the coroutine never runs *)
| LConnOk (i : nat) | LConnFail (i : nat) | LConnCrash (i : nat) | LConnCancel (i : nat)
| LCancelCaller.

Definition set_att (s : rstate) (att : list tstate) : rstate :=
  {| r_att := att; r_open := r_open s; r_created := r_created s; r_winner := r_winner s; r_nerr := r_nerr s;
     r_scope := r_scope s; r_caller := r_caller s; r_crashed := r_crashed s; r_host := r_host s;
     r_result := r_result s |}.
Definition set_host (s : rstate) (h : hstate) : rstate :=
  {| r_att := r_att s; r_open := r_open s; r_created := r_created s; r_winner := r_winner s; r_nerr := r_nerr s;
     r_scope := r_scope s; r_caller := r_caller s; r_crashed := r_crashed s; r_host := h;
     r_result := r_result s |}.

Fixpoint upd {A} (l : list A) (i : nat) (x : A) : list A :=
  match l, i with
  | [], _ => []
  | _ :: l', 0 => x :: l'
  | y :: l', S i' => y :: upd l' i' x
  end.

Definition pending_cancel (s : rstate) : bool := r_scope s || r_caller s || r_crashed s.

Definition child_done (t : tstate) : bool := match t with TNone | TFin => true | _ => false end.
Definition all_children_done (s : rstate) : bool := forallb child_done (r_att s).

Definition cancel_child (t : tstate) : tstate :=
  match t with TNew _ => TNew true | TConn _ => TConn true | t => t end.

(* what try_connect does with the outcome of _create_connection_impl([addr]) ; the attempt becomes TFin *)
Definition child_finish (s : rstate) (i : nat) (o : cc_out) (open : list nat) (created : list nat) : rstate :=
  let att := upd (r_att s) i TFin in
  match o with
  | OutSock id =>
      match r_winner s with
      | None =>      (* winner = socket; connection_scope.cancel() *)
          {| r_att := att; r_open := open; r_created := created; r_winner := Some id; r_nerr := r_nerr s;
             r_scope := true; r_caller := r_caller s; r_crashed := r_crashed s; r_host := r_host s;
             r_result := r_result s |}
      | Some _ =>    (* socket.close() *)
          {| r_att := att; r_open := remove_id id open; r_created := created; r_winner := r_winner s;
             r_nerr := r_nerr s; r_scope := r_scope s; r_caller := r_caller s; r_crashed := r_crashed s;
             r_host := r_host s; r_result := r_result s |}
      end
  | OutErrs n =>
      {| r_att := att; r_open := open; r_created := created; r_winner := r_winner s; r_nerr := r_nerr s + n;
         r_scope := r_scope s; r_caller := r_caller s; r_crashed := r_crashed s; r_host := r_host s;
         r_result := r_result s |}
  | OutCancel =>
      {| r_att := att; r_open := open; r_created := created; r_winner := r_winner s; r_nerr := r_nerr s;
         r_scope := r_scope s; r_caller := r_caller s; r_crashed := r_crashed s; r_host := r_host s;
         r_result := r_result s |}
  | OutCrash =>
      {| r_att := att; r_open := open; r_created := created; r_winner := r_winner s; r_nerr := r_nerr s;
         r_scope := r_scope s; r_caller := r_caller s; r_crashed := true; r_host := r_host s;
         r_result := r_result s |}
  end.

Definition created_by (a : acfg) (locals : option (list lcfg)) : bool := a_create a.

Definition child_resume (c : rcfg) (s : rstate) (i : nat) (r : resume) : option rstate :=
  match nth_error (c_addrs c) i with
  | None => None
  | Some a =>
      match cc_resume (c_locals c) a [] 0 r (r_open s) with
      | (CcDone o, open) => Some (child_finish s i o open (r_created s))
      | (CcWait _ _ _, _) => None      (* impossible: the list of a child has one address *)
      end
  end.

Definition finish (s : rstate) (res : outcome) (open : list nat) : rstate :=
  {| r_att := r_att s; r_open := open; r_created := r_created s; r_winner := r_winner s; r_nerr := r_nerr s;
     r_scope := r_scope s; r_caller := r_caller s; r_crashed := r_crashed s; r_host := HDone;
     r_result := Some res |}.

Definition close_winner (s : rstate) : list nat :=
  match r_winner s with Some w => remove_id w (r_open s) | None => r_open s end.

Definition spawn_next (c : rcfg) (s : rstate) (k : nat) : rstate :=
  (* k = index of the attempt to start; past the end: leave the for loop and join the task group *)
  if k <? length (c_addrs c) then set_host (set_att s (upd (r_att s) k (TNew false))) (HWait k)
  else set_host s HJoin.

Definition step (c : rcfg) (s : rstate) (l : label) : option rstate :=
  match l with
  | LCancelCaller =>
      match r_host s with
      | HDone => None
      | _ => Some {| r_att := r_att s; r_open := r_open s; r_created := r_created s; r_winner := r_winner s;
                     r_nerr := r_nerr s; r_scope := r_scope s; r_caller := true; r_crashed := r_crashed s;
                     r_host := r_host s; r_result := r_result s |}
      end
  | LHostStart =>
      match r_host s with
      | HInit => if r_caller s then None else Some (spawn_next c s 0)
      | _ => None
      end
  | LHostNext timer =>
      match r_host s with
      | HWait k =>
          let ok := if timer then c_delay c
                    else match nth_error (r_att s) k with Some TFin => true | _ => false end in
          if ok then Some (spawn_next c s (S k)) else None
      | _ => None
      end
  | LHostCancel =>
      if pending_cancel s then
        match r_host s with
        | HInit => Some (finish s ResCancelled (r_open s))       (* cancelled before the coroutine started *)
        | HWait _ | HJoin => Some (set_host (set_att s (map cancel_child (r_att s))) HAbort)
        | _ => None
        end
      else None
  | LHostFinish swallow =>
      if all_children_done s then
        match r_host s with
        | HJoin =>      (* the task group is left without a CancelledError having been delivered *)
            if r_crashed s then Some (finish s ResCrash (close_winner s))
            else match r_winner s with
                 | None => Some (finish s (ResErrs (r_nerr s)) (r_open s))    (* raise BaseExceptionGroup(errors) *)
                 | Some w => Some (finish s (ResSock w) (r_open s))
                 end
        | HAbort =>
            if r_crashed s then Some (finish s ResCrash (close_winner s))
            else if swallow then
                   (if r_scope s then
                      match r_winner s with
                      | Some w => Some (finish s (ResSock w) (r_open s))
                      | None => Some (finish s (ResErrs (r_nerr s)) (r_open s))
                      end
                    else None)
                 else (if r_caller s then Some (finish s ResCancelled (close_winner s)) else None)
        | _ => None
        end
      else None
  | LChildStart i =>
      match nth_error (r_att s) i, nth_error (c_addrs c) i with
      | Some (TNew false), Some a =>
          let created := if a_create a then r_created s ++ [a_id a] else r_created s in
          match cc_advance (c_locals c) [a] 0 (r_open s) with
          | (CcWait _ _ _, open) =>
              Some {| r_att := upd (r_att s) i (TConn false); r_open := open; r_created := created;
                      r_winner := r_winner s; r_nerr := r_nerr s; r_scope := r_scope s; r_caller := r_caller s;
                      r_crashed := r_crashed s; r_host := r_host s; r_result := r_result s |}
          | (CcDone o, open) => Some (child_finish s i o open created)
          end
      | _, _ => None
      end
  | LChildSkip i =>
      match nth_error (r_att s) i with
      | Some (TNew true) => Some (set_att s (upd (r_att s) i TFin))
      | _ => None
      end
  | LConnOk i =>
      match nth_error (r_att s) i with Some (TConn false) => child_resume c s i ROk | _ => None end
  | LConnFail i =>
      match nth_error (r_att s) i with Some (TConn false) => child_resume c s i RFail | _ => None end
  | LConnCrash i =>
      match nth_error (r_att s) i with Some (TConn false) => child_resume c s i RCrash | _ => None end
  | LConnCancel i =>
      match nth_error (r_att s) i with Some (TConn true) => child_resume c s i RCancel | _ => None end
  end.

Fixpoint exec (c : rcfg) (s : rstate) (tr : list label) : option rstate :=
  match tr with
  | [] => Some s
  | l :: tr' => match step c s l with Some s' => exec c s' tr' | None => None end
  end.
