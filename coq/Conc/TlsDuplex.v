(* C08 — the COMPOSED system: two TLS transports (each = the multi-task pump of Conc/TlsPump.v driving an ideal SSL
   object of Conc/IdealTls.v) joined by a network made of two FIFO byte queues.  The network fragments arbitrarily
   (a recv_into may return any non-empty prefix, down to one byte, of what is in flight) and delays arbitrarily (bytes
   stay in flight, a send_all completes, a lock is taken ... whenever the trace says so).  Every interleaving of the
   tasks of both sides is a trace.  No proofs here.

   Not in the composed system (they are covered for arbitrary oracles by cipher_only / C09): failures and end-of-file
   of the network, cancellation, unwrap(). *)
From EN Require Import Lib.Bytes Conc.TlsBase Conc.TlsPump Conc.IdealTls.

Section Duplex.
Variable fl : flags.
Variable E D : byte -> byte.
Variable M : nat.
Notation sys_step := (sys_step fl).

Record endpoint := {
  e_ideal : ideal;          (* the SSL object, including the incoming BIO *)
  e_sys : sys;              (* the pump: outgoing BIO, write backlog, locks, tasks *)
  e_written : bytes;        (* ghost: all plaintext handed to send_all so far, in order *)
  e_got : bytes             (* ghost: all plaintext returned by recv so far, in order *)
}.

Inductive clabel :=
| CSpawn (m : meth) (n : nat) (data : bytes)   (* the application calls wrap / recv(n) / send_all(data) *)
| CSsl (t : nat)                               (* task t calls its SSL-object method; the ideal layer answers *)
| CGo (t : nat)                                (* task t takes the lock it waits for *)
| CSent (t : nat)                              (* task t's send_all returns *)
| CRcvd (t : nat) (k : nat).                   (* task t's recv_into returns the first k bytes in flight, 1 <= k *)

(* effects of the pump's actions: send_all puts the payload in flight; the BIO writes reach the SSL object *)
Fixpoint apply_acts (i : ideal) (nout : bytes) (acts : list (nat * act)) : ideal * bytes :=
  match acts with
  | [] => (i, nout)
  | (_, a) :: rest =>
      match a with
      | ASend w => apply_acts i (nout ++ w) rest
      | AFeed d => apply_acts (feed i d) nout rest
      | AReof => apply_acts (feed_eof i) nout rest
      | _ => apply_acts i nout rest
      end
  end.

Definition pump (e : endpoint) (i : ideal) (written got : bytes) (nin nout : bytes) (l : slab)
  : option (endpoint * bytes * bytes) :=
  match sys_step (e_sys e) l with
  | None => None
  | Some (y, acts) =>
      let '(i', nout') := apply_acts i nout acts in
      Some ({| e_ideal := i'; e_sys := y; e_written := written; e_got := got |}, nin, nout')
  end.

(* one transition of one endpoint; nin = bytes in flight towards it, nout = bytes in flight away from it *)
Definition ep_step (e : endpoint) (nin nout : bytes) (l : clabel) : option (endpoint * bytes * bytes) :=
  match l with
  | CSpawn m n data =>
      match m with
      | MUnwrap => None
      | MWrite => pump e (e_ideal e) (e_written e ++ data) (e_got e) nin nout (SSpawn m n [data])
      | _ => pump e (e_ideal e) (e_written e) (e_got e) nin nout (SSpawn m n [])
      end
  | CSsl t =>
      match nth_error (y_tasks (e_sys e)) t with
      | None => None
      | Some tk =>
          let sh := y_sh (e_sys e) in
          let m := t_meth tk in
          let n := t_buf tk in
          let '(i', out, wd) := call E D M (e_ideal e) m n (hd [] (deque sh)) in
          let got' := match m with MRead => read_data D (e_ideal e) n | _ => [] end in
          pump e i' (e_written e) (e_got e ++ got') nin nout
               (SStep t (LSsl {| a_meth := m; a_arg := expected_arg m n sh; a_out := out; a_wdelta := wd |}))
      end
  | CGo t => pump e (e_ideal e) (e_written e) (e_got e) nin nout (SStep t LGo)
  | CSent t => pump e (e_ideal e) (e_written e) (e_got e) nin nout (SStep t (LT TSent))
  | CRcvd t k =>
      if Nat.leb 1 k && Nat.leb k (length nin) then
        pump e (e_ideal e) (e_written e) (e_got e) (skipn k nin) nout (SStep t (LT (TRcvd (firstn k nin))))
      else None
  end.

(* the whole system: A is the TLS client, B the TLS server *)
Record duplex := { dA : endpoint; dB : endpoint; nAB : bytes; nBA : bytes }.

Definition ep0 (client : bool) : endpoint :=
  {| e_ideal := ideal0 client; e_sys := sys0; e_written := []; e_got := [] |}.
Definition duplex0 : duplex := {| dA := ep0 true; dB := ep0 false; nAB := []; nBA := [] |}.

Definition dstep (c : duplex) (l : bool * clabel) : option duplex :=
  let '(side, cl) := l in
  if side then
    match ep_step (dA c) (nBA c) (nAB c) cl with
    | Some (a', nin', nout') => Some {| dA := a'; dB := dB c; nAB := nout'; nBA := nin' |}
    | None => None
    end
  else
    match ep_step (dB c) (nAB c) (nBA c) cl with
    | Some (b', nin', nout') => Some {| dA := dA c; dB := b'; nAB := nin'; nBA := nout' |}
    | None => None
    end.

Fixpoint dexec (c : duplex) (ls : list (bool * clabel)) : option duplex :=
  match ls with
  | [] => Some c
  | l :: ls' => match dstep c l with Some c' => dexec c' ls' | None => None end
  end.

End Duplex.
