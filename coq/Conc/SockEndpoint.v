(* The asynchronous receive loop (lowlevel/api_async/endpoints/stream.py  _DataReceiverImpl.receive /
   _BufferedReceiverImpl.receive; servers/stream.py _RequestReceiver.next / _BufferedRequestReceiver.next have the same
   loop) composed with the SockReader LTS: the consumer task calls recv_packet(), which drains the consumer and then
   alternates  "ask the consumer how much to read -> await transport.recv / recv_into -> feed the consumer"  until an
   event (packet or parse error) comes out, the stream ends, or the await raises (cancellation, connection error).
   Everything the loop, the transport and the canceller do stays an adversary label of the SockReader LTS.
   No proofs here. *)
From EN Require Import Lib.Bytes Frame.Framer Stream.Consumer Stream.Endpoint Conc.SockReader.

(* a consumer as the loop uses it: next(None) | how many bytes to ask for (get_write_buffer() / max_recv_size;
   None = RuntimeError) | next(received bytes) *)
Record smachine (P C : Type) := {
  sdrain : C -> C * nres P;
  sroom : C -> option (C * nat);
  sfeed : C -> bytes -> C * nres P
}.
Arguments sdrain {P C}. Arguments sroom {P C}. Arguments sfeed {P C}.

(* the same consumer in the vocabulary of Stream/Endpoint.v (one transport read while [avail] is available) *)
Definition to_machine {P C} (S : smachine P C) : machine P C :=
  {| mdrain := sdrain S;
     mtake := fun c avail =>
       match sroom S c with
       | None => None
       | Some (c1, room) =>
           let d := firstn room avail in
           let '(c3, r) := sfeed S c1 d in
           Some (c3, r, length d, room)
       end |}.

Definition copy_smachine {P} (F : framer P) (bufsize : nat) : smachine P (cstate F) :=
  {| sdrain := fun c => cnext F c None;
     sroom := fun c => Some (c, bufsize);
     sfeed := fun c d => cnext F c (Some d) |}.

Definition buf_smachine {P} (F : bframer P) (sizehint : nat) : smachine P (bcstate F) :=
  {| sdrain := fun c => bcnext F sizehint c None;
     sroom := fun c => match bc_get_write_buffer F sizehint c with
                       | (c1, Some (_, len)) => Some (c1, len)
                       | (_, None) => None
                       end;
     sfeed := fun c d => bcnext F sizehint (bc_fill F c d) (Some (length d)) |}.

Inductive eresult (P : Type) :=
| EEvent (r : nres P)       (* recv_packet returned a packet / raised StreamProtocolParseError *)
| ECancelled                (* CancelledError (a timeout scope turns it into TimeoutError / swallows it) *)
| EAborted                  (* ConnectionAbortedError: end of stream *)
| EError (e : errk)         (* the connection error *)
| ECrash.                   (* RuntimeError out of the consumer, or a state the proofs show unreachable *)
Arguments EEvent {P}. Arguments ECancelled {P}. Arguments EAborted {P}. Arguments EError {P}. Arguments ECrash {P}.

Inductive elabel := ERecvPacket | ESock (l : label).

Section Endpoint.
  Context {P C : Type}.
  Variable S : smachine P C.
  Variable into : bool.            (* the transport call the receiver uses: recv_into (buffered) or recv (copying) *)
  Variable latching : bool.        (* endpoints keep an _eof_reached latch; the server request receivers do not *)

  Record estate := emk {
    sk : st;                       (* protocol + reader task + loop (fixed protocol: step true) *)
    ec : C;                        (* the consumer object *)
    einrecv : bool;                (* the task is inside `await transport.recv...` issued by recv_packet *)
    elatch : bool;                 (* _eof_reached *)
    eres : list (eresult P)        (* outcome of every recv_packet call so far *)
  }.

  Definition einit (c : C) : estate := emk init c false false [].

  Definition finish_call (es : estate) (s : st) (c : C) (r : eresult P) : estate :=
    emk s c false (elatch es) (eres es ++ [r]).

  (* top of the while loop: ask the consumer for room, call the transport *)
  Definition ehead (es : estate) (s : st) (c : C) : estate :=
    match sroom S c with
    | None => finish_call es s c ECrash
    | Some (c1, room) =>
        match call s (if into then OInto room else ORecv room) with
        | (s', ONone) => emk s' c1 true (elatch es) (eres es)
        | (s', ORes (RBytes [])) => emk s' c1 false true (eres es ++ [EAborted])   (* zero-size read: `if not chunk` *)
        | (s', ORes (RError e)) => finish_call es s' c1 (EError e)
        | (s', _) => finish_call es s' c1 ECrash
        end
    end.

  (* recv_packet() up to its first suspension *)
  Definition erecv_packet (es : estate) : estate :=
    if einrecv es then es                       (* the endpoint's receive guard: one receive at a time *)
    else
      match sdrain S (ec es) with
      | (c', RStop) =>
          if latching && elatch es then finish_call es (sk es) c' EAborted
          else ehead es (sk es) c'
      | (c', r) => finish_call es (sk es) c' (EEvent r)
      end.

  (* the loop runs one ready callback; if that completes the transport call, the receive loop goes on *)
  Definition ewake (es : estate) : estate :=
    match wake true (sk es) with
    | (s', ORes r) =>
        if einrecv es then
          match r with
          | RBytes [] => emk s' (ec es) false true (eres es ++ [EAborted])
          | RBytes b =>
              match sfeed S (ec es) b with
              | (c2, RStop) => ehead (emk s' c2 false (elatch es) (eres es)) s' c2
              | (c2, r') => finish_call es s' c2 (EEvent r')
              end
          | RCancelled => finish_call es s' (ec es) ECancelled
          | RError e => finish_call es s' (ec es) (EError e)
          | RBusy => finish_call es s' (ec es) ECrash
          end
        else emk s' (ec es) false (elatch es) (eres es)
    | (s', _) => emk s' (ec es) (einrecv es) (elatch es) (eres es)
    end.

  Definition estep (es : estate) (l : elabel) : estate :=
    match l with
    | ERecvPacket => erecv_packet es
    | ESock LWake => ewake es
    | ESock (LRecv _) | ESock (LRecvInto _) => es          (* only recv_packet talks to the transport *)
    | ESock l' => emk (fst (step true (sk es) l')) (ec es) (einrecv es) (elatch es) (eres es)
    end.

  Fixpoint erun (es : estate) (ls : list elabel) : estate :=
    match ls with
    | [] => es
    | l :: ls' => erun (estep es l) ls'
    end.

  (* the packets and parse errors handed out, in order *)
  Definition events (es : estate) : list (nres P) :=
    flat_map (fun r => match r with EEvent e => [e] | _ => [] end) (eres es).
End Endpoint.
Arguments sk {P C}. Arguments ec {P C}. Arguments einrecv {P C}. Arguments elatch {P C}. Arguments eres {P C}.
