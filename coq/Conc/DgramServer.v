(* AsyncDatagramServer.serve (lowlevel/api_async/servers/datagram.py) as an executable labelled transition system.

   One [client] record per address = one _ClientData (state None/PENDING/RUNNING, datagram queue) together with the
   control state of the (at most one, see Props/C16.v) client coroutine of that address and ghost history.
   The map address -> client is total: an address that was never seen, or whose _ClientData was dropped from the
   WeakValueDictionary, is the default client (state None, empty queue) -- dropping loses nothing exactly because of
   the invariant state_none_implies_queue_empty.

   Tasks and atomicity.  Python tasks only interleave at awaits.  [cur s = Some a] says that the handler generator of
   address a currently has control inside a running task step (the adversary must choose what it does next);
   scheduler/environment labels are only enabled when [cur s = None].  Scheduling is otherwise unconstrained (any
   runnable task may take the next step), except that handler tasks take their FIRST step in the order in which the
   listener started them (documented requirement on AsyncDatagramListener.serve; asyncio's ready queue is FIFO).

   No proofs here. *)
From EN Require Import Lib.Bytes.

Definition addr := nat.
Definition dgram := bytes.

(* _ClientData.state *)
Inductive tstate := TNone | TPending | TRunning.

(* where the client coroutine of an address is:
   PIdle     no coroutine frame
   PGen0 d   __client_coroutine_inner_loop has popped d with pop_datagram_no_wait and is inside
             `await anext(generator)`: the generator has control and has not yet reached its first yield
   PGen      the generator has control after having received a request or an exception (inside action.asend)
   PWait t   the generator is suspended at a yield; the coroutine is in `pop_datagram()` under timeout t *)
Inductive pcs := PIdle | PGen0 (d : dgram) | PGen | PWait (t : option Z).

Record client := {
  st : tstate;
  queue : list dgram;                (* _datagram_queue *)
  pc : pcs;
  gsusp : bool;                      (* the generator is awaiting something of its own (user code suspended) *)
  hsusp : nat;                       (* handler tasks suspended inside push_datagram (acquiring the condition) *)
  (* ghost *)
  arrived : list dgram;              (* datagrams of this address in the order the listener received them *)
  hist : list (dgram * bool);        (* datagrams taken from the queue, in order; true = handed to a generator (as
                                        request), false = discarded: its generator returned before the first yield *)
  gens : nat;                        (* generators created so far *)
  nactive : nat                      (* client coroutine frames alive now *)
}.

Definition client0 : client :=
  {| st := TNone; queue := []; pc := PIdle; gsusp := false; hsusp := 0; arrived := []; hist := []; gens := 0; nactive := 0 |}.

Definition set_st (c : client) v := {| st := v; queue := queue c; pc := pc c; gsusp := gsusp c; hsusp := hsusp c;
  arrived := arrived c; hist := hist c; gens := gens c; nactive := nactive c |}.
Definition set_queue (c : client) v := {| st := st c; queue := v; pc := pc c; gsusp := gsusp c; hsusp := hsusp c;
  arrived := arrived c; hist := hist c; gens := gens c; nactive := nactive c |}.
Definition set_pc (c : client) v := {| st := st c; queue := queue c; pc := v; gsusp := gsusp c; hsusp := hsusp c;
  arrived := arrived c; hist := hist c; gens := gens c; nactive := nactive c |}.
Definition set_gsusp (c : client) v := {| st := st c; queue := queue c; pc := pc c; gsusp := v; hsusp := hsusp c;
  arrived := arrived c; hist := hist c; gens := gens c; nactive := nactive c |}.
Definition set_hsusp (c : client) v := {| st := st c; queue := queue c; pc := pc c; gsusp := gsusp c; hsusp := v;
  arrived := arrived c; hist := hist c; gens := gens c; nactive := nactive c |}.
Definition set_arrived (c : client) v := {| st := st c; queue := queue c; pc := pc c; gsusp := gsusp c; hsusp := hsusp c;
  arrived := v; hist := hist c; gens := gens c; nactive := nactive c |}.
Definition set_hist (c : client) v := {| st := st c; queue := queue c; pc := pc c; gsusp := gsusp c; hsusp := hsusp c;
  arrived := arrived c; hist := v; gens := gens c; nactive := nactive c |}.
Definition set_gens (c : client) v := {| st := st c; queue := queue c; pc := pc c; gsusp := gsusp c; hsusp := hsusp c;
  arrived := arrived c; hist := hist c; gens := v; nactive := nactive c |}.
Definition set_nactive (c : client) v := {| st := st c; queue := queue c; pc := pc c; gsusp := gsusp c; hsusp := hsusp c;
  arrived := arrived c; hist := hist c; gens := gens c; nactive := v |}.

Inductive label :=
| Arrive (a : addr) (d : dgram)   (* the listener receives d from a and starts a handler task (not yet run) *)
| HStart (susp : bool)            (* the oldest handler task not yet run takes its first step; susp: acquiring the
                                     condition in push_datagram suspends it (only possible when state is not None) *)
| HResume (a : addr)              (* a handler suspended in push_datagram continues *)
| TaskStart (a : addr)            (* the task started by the task-done hook takes its first step *)
| GSuspend (a : addr)             (* the generator that has control awaits something (releases the CPU) *)
| GResume (a : addr)              (* ... and is resumed *)
| GYield (a : addr) (t : option Z)(* the generator that has control yields (timeout t) *)
| GReturn (a : addr)              (* ... returns *)
| GRaise (a : addr)               (* ... raises (swallowed by the high-level wrapper: the low-level generator ends) *)
| GCancel (a : addr) (restart : bool)
                                  (* ... ends with the backend's cancellation exception although the server keeps
                                     running (e.g. the handler awaited a future that was cancelled).  restart says whether
                                     the task-done hook still restarts a task for a non-empty queue: true for the
                                     original code (= GRaise); false for the code that passes
                                     restart_if_queue_not_empty=False when the coroutine ended with the cancelled
                                     exception (recorded from the implementation on every run) *)
| PopWake (a : addr)              (* the coroutine waiting in pop_datagram gets a datagram *)
| Timeout (a : addr).             (* ... or its timeout fires: TimeoutError is thrown into the generator *)

Inductive obs :=
| OHStart (a : addr) (d : dgram)
| OGenNew (a : addr)
| ORecv (a : addr) (d : dgram)
| OThrow (a : addr)
| OCrash.

Record state := {
  cl : addr -> client;
  spawned : list (addr * dgram);     (* handler tasks started by the listener whose first step has not run, FIFO *)
  cur : option addr;
  err : bool                         (* handle_inconsistent_state_error() / popleft on an empty queue happened *)
}.

Definition state0 : state := {| cl := fun _ => client0; spawned := []; cur := None; err := false |}.

Definition upd (m : addr -> client) (a : addr) (c : client) : addr -> client :=
  fun b => if Nat.eqb b a then c else m b.

(* result of the part of a label that concerns one client *)
Inductive lres :=
| NotEnabled
| CrashR
| Ok (c : client) (o : list obs) (cpu : bool).   (* cpu: the generator of this address has control afterwards *)

(* __client_coroutine up to the point where the generator gets control:
   mark_running(); generator = datagram_received_cb(ctx); datagram = pop_datagram_no_wait(); await anext(generator) *)
Definition client_coroutine (a : addr) (c : client) : lres :=
  match st c with
  | TPending =>
      let c1 := set_nactive (set_gens (set_st c TRunning) (S (gens c))) (S (nactive c)) in
      match queue c1 with
      | d :: q => Ok (set_pc (set_queue c1 q) (PGen0 d)) [OGenNew a] true
      | [] => CrashR
      end
  | _ => CrashR                     (* mark_running: inconsistent state *)
  end.

(* handler(), after push_datagram returned nb = len(queue):
   if client_data.state is None and nb > 0: mark_pending(); await __client_coroutine(...)   (same task) *)
Definition handler_check (a : addr) (c : client) : lres :=
  match st c, queue c with
  | TNone, _ :: _ => client_coroutine a (set_st c TPending)
  | _, _ => Ok c [] false
  end.

(* handler(): first step.  push_datagram appends BEFORE any await *)
Definition l_hstart (a : addr) (d : dgram) (susp : bool) (c : client) : lres :=
  let c1 := set_queue c (queue c ++ [d]) in
  match st c with
  | TNone => handler_check a c1
  | _ => if susp then Ok (set_hsusp c1 (S (hsusp c1))) [] false else handler_check a c1
  end.

Definition l_hresume (a : addr) (c : client) : lres :=
  match hsusp c with
  | 0 => NotEnabled
  | S n => handler_check a (set_hsusp c n)
  end.

Definition l_taskstart (a : addr) (c : client) : lres :=
  match st c with
  | TPending => client_coroutine a c
  | _ => NotEnabled
  end.

(* the generator ended: inner loop returns, `finally: __on_client_coroutine_task_done`:
   mark_done(); if not queue_is_empty(): mark_pending(); task_group.start_soon(__client_coroutine) *)
Definition finish (c : client) : lres :=
  match st c with
  | TRunning =>
      let c1 := set_nactive (set_pc (set_st c TNone) PIdle) (pred (nactive c)) in
      match queue c1 with
      | [] => Ok c1 [] false
      | _ :: _ => Ok (set_st c1 TPending) [] false
      end
  | _ => CrashR                     (* mark_done: inconsistent state *)
  end.

(* the hook when the coroutine ended with the cancelled exception and the code does not restart then:
   mark_done(); return *)
Definition finish_nr (c : client) : lres :=
  match st c with
  | TRunning => Ok (set_nactive (set_pc (set_st c TNone) PIdle) (pred (nactive c))) [] false
  | _ => CrashR
  end.

Definition l_gsuspend (c : client) : lres :=
  match pc c with
  | PGen0 _ | PGen => Ok (set_gsusp c true) [] false
  | _ => NotEnabled
  end.

Definition l_gresume (c : client) : lres :=
  match pc c, gsusp c with
  | PGen0 _, true | PGen, true => Ok (set_gsusp c false) [] true
  | _, _ => NotEnabled
  end.

Definition l_gyield (a : addr) (t : option Z) (c : client) : lres :=
  match pc c with
  | PGen0 d => Ok (set_hist (set_pc c PGen) (hist c ++ [(d, true)])) [ORecv a d] true
  | PGen => Ok (set_pc c (PWait t)) [] false
  | _ => NotEnabled
  end.

Definition l_gfinish (c : client) : lres :=
  match pc c with
  | PGen0 d => finish (set_hist c (hist c ++ [(d, false)]))
  | PGen => finish c
  | _ => NotEnabled
  end.

Definition l_gcancel (c : client) : lres :=
  match pc c with
  | PGen0 d => finish_nr (set_hist c (hist c ++ [(d, false)]))
  | PGen => finish_nr c
  | _ => NotEnabled
  end.

Definition l_popwake (a : addr) (c : client) : lres :=
  match pc c, queue c with
  | PWait _, d :: q => Ok (set_hist (set_pc (set_queue c q) PGen) (hist c ++ [(d, true)])) [ORecv a d] true
  | _, _ => NotEnabled
  end.

Definition l_timeout (a : addr) (c : client) : lres :=
  match pc c with
  | PWait (Some _) => Ok (set_pc c PGen) [OThrow a] true
  | _ => NotEnabled
  end.

Definition commit (s : state) (sp : list (addr * dgram)) (a : addr) (pre : list obs) (r : lres) : option (state * list obs) :=
  match r with
  | NotEnabled => None
  | CrashR => Some ({| cl := cl s; spawned := sp; cur := None; err := true |}, pre ++ [OCrash])
  | Ok c o cpu => Some ({| cl := upd (cl s) a c; spawned := sp; cur := if cpu then Some a else None; err := false |}, pre ++ o)
  end.

Definition on_cpu (s : state) (a : addr) : bool :=
  match cur s with Some b => Nat.eqb a b | None => false end.
Definition cpu_free (s : state) : bool :=
  match cur s with Some _ => false | None => true end.

Definition step (s : state) (l : label) : option (state * list obs) :=
  if err s then None else
  match l with
  | Arrive a d =>
      if cpu_free s then
        commit s (spawned s ++ [(a, d)]) a [] (Ok (set_arrived (cl s a) (arrived (cl s a) ++ [d])) [] false)
      else None
  | HStart susp =>
      if cpu_free s then
        match spawned s with
        | (a, d) :: sp => commit s sp a [OHStart a d] (l_hstart a d susp (cl s a))
        | [] => None
        end
      else None
  | HResume a => if cpu_free s then commit s (spawned s) a [] (l_hresume a (cl s a)) else None
  | TaskStart a => if cpu_free s then commit s (spawned s) a [] (l_taskstart a (cl s a)) else None
  | GResume a => if cpu_free s then commit s (spawned s) a [] (l_gresume (cl s a)) else None
  | PopWake a => if cpu_free s then commit s (spawned s) a [] (l_popwake a (cl s a)) else None
  | Timeout a => if cpu_free s then commit s (spawned s) a [] (l_timeout a (cl s a)) else None
  | GSuspend a => if on_cpu s a then commit s (spawned s) a [] (l_gsuspend (cl s a)) else None
  | GYield a t => if on_cpu s a then commit s (spawned s) a [] (l_gyield a t (cl s a)) else None
  | GReturn a | GRaise a => if on_cpu s a then commit s (spawned s) a [] (l_gfinish (cl s a)) else None
  | GCancel a r =>
      if on_cpu s a then commit s (spawned s) a [] (if r then l_gfinish (cl s a) else l_gcancel (cl s a)) else None
  end.

(* label sequences covered by the theorems: the hook restarts whenever the queue is non-empty *)
Definition ok_label (l : label) : Prop := match l with GCancel _ false => False | _ => True end.

(* run a label sequence; stops at the first label that is not enabled, returning its index *)
Fixpoint steps (s : state) (ls : list label) : option state :=
  match ls with
  | [] => Some s
  | l :: ls' => match step s l with Some (s', _) => steps s' ls' | None => None end
  end.

Fixpoint exec (n : nat) (s : state) (ls : list label) (acc : list obs) : state * list obs * option nat :=
  match ls with
  | [] => (s, acc, None)
  | l :: ls' =>
      match step s l with
      | Some (s', o) => exec (S n) s' ls' (acc ++ o)
      | None => (s, acc, Some n)
      end
  end.

(* run a label sequence collecting the observations; None if some label is not enabled *)
Fixpoint trace (s : state) (ls : list label) : option (state * list obs) :=
  match ls with
  | [] => Some (s, [])
  | l :: ls' =>
      match step s l with
      | Some (s', o) =>
          match trace s' ls' with
          | Some (s'', o') => Some (s'', o ++ o')
          | None => None
          end
      | None => None
      end
  end.

(* the address a label is about (HStart: the address of the oldest handler task not yet run) *)
Definition label_addr (s : state) (l : label) : option addr :=
  match l with
  | Arrive a _ | HResume a | TaskStart a | GSuspend a | GResume a | GYield a _ | GReturn a | GRaise a
  | GCancel a _ | PopWake a | Timeout a => Some a
  | HStart _ => match spawned s with (a, _) :: _ => Some a | [] => None end
  end.

(* datagrams of address a in a label sequence, in arrival order *)
Fixpoint arrivals (a : addr) (ls : list label) : list dgram :=
  match ls with
  | [] => []
  | Arrive b d :: ls' => if Nat.eqb b a then d :: arrivals a ls' else arrivals a ls'
  | _ :: ls' => arrivals a ls'
  end.

(* requests observed by the generators of address a *)
Fixpoint received (a : addr) (os : list obs) : list dgram :=
  match os with
  | [] => []
  | ORecv b d :: os' => if Nat.eqb b a then d :: received a os' else received a os'
  | _ :: os' => received a os'
  end.

(* labels that do not require any client other than a to make progress (used by the progress theorem): a's own
   generator/coroutine moves, first steps of handler tasks, and other generators merely suspending *)
Definition polite (a : addr) (l : label) : Prop :=
  match l with
  | GSuspend _ | HStart false => True
  | GYield b None | GResume b | PopWake b | TaskStart b => b = a
  | _ => False
  end.

(* the datagrams handed to the generators of a client, in order *)
Definition delivered (c : client) : list dgram := map fst (filter snd (hist c)).
Definition discarded (c : client) : list dgram := map fst (filter (fun x => negb (snd x)) (hist c)).
Definition held (c : client) : list dgram := match pc c with PGen0 d => [d] | _ => [] end.
Definition proj (a : addr) (sp : list (addr * dgram)) : list dgram :=
  map snd (filter (fun x => Nat.eqb (fst x) a) sp).
