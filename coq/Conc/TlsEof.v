(* C09 — what the TLS transports report at the end of a stream.
   Asynchronous: AsyncTLSStreamTransport.wrap / recv / recv_into / send_all / aclose on top of the pump (Conc/TlsPump.v).
   Blocking: SSLStreamTransport.__init__ / recv_noblock(_into) / send_noblock / close on top of _try_ssl_method and the
   selector retry loop, including the suppress_ragged_eofs filter of the stdlib's SSLSocket.read.
   The except-clause tables come from Gen/ParamsC09.v (regenerated from /repo on every run).  No proofs here. *)
From EN Require Import Lib.Bytes Conc.TlsBase Conc.TlsPump Gen.ParamsC09.

(* ---- _utils.is_ssl_eof_error ---- *)
Definition pat_matches (x : exc) (p : eofpat) : bool :=
  match p with
  | PIsInstance c => isinstance x c
  | PIsInstanceStrerror c => isinstance x c && has_eof_strerror x
  end.
Definition is_ssl_eof_error (x : exc) : bool := existsb (pat_matches x) ssl_eof_patterns.

(* ---- what an API call reports ---- *)
Inductive xres := XR (x : exc) | XTimeout | XCancelled.
Inductive apires := Ret (v : nat) | Raise (x : xres) | Desync.

(* try: ... except C1: h1 except C2: h2 ...   applied to an exception x raised by the body *)
Fixpoint handle (hs : list (exc_class * hact)) (std : bool) (x : exc) : apires :=
  match hs with
  | [] => Raise (XR x)
  | (c, h) :: hs' =>
      if isinstance x c then
        match h with
        | HReturnEof => Ret 0
        | HEofGuardRaise => if is_ssl_eof_error x && negb std then Ret 0 else Raise (XR x)
        end
      else handle hs' std x
  end.

Definition raise_of (r : result) : apires :=
  match r with
  | ROk v => Ret v
  | RSsl e => Raise (XR (XSsl e))
  | ROSErr => Raise (XR XOSError)
  | ROther => Raise (XR XOther)
  | RCancel true => Raise XTimeout
  | RCancel false => Raise XCancelled
  | RDesync => Desync
  end.

(* recv / recv_into: the decision on the final outcome of the pumped ssl_object.read *)
Definition recv_result_with (hs : list (exc_class * hact)) (std : bool) (r : result) : apires :=
  match r with
  | RSsl e => handle hs std (XSsl e)
  | ROSErr => handle hs std XOSError
  | ROther => handle hs std XOther
  | _ => raise_of r
  end.
Definition recv_result := recv_result_with recv_handlers.
Definition recv_into_result := recv_result_with recv_into_handlers.

(* ---- the asynchronous transport, one task ---- *)
Section AsyncTransport.
Variable fl : flags.
Notation run_method := (run_method fl).

Record tstate := { sh : shared; closing : bool; tr_closing : bool }.
Definition tstate0 : tstate := {| sh := shared0; closing := false; tr_closing := false |}.

Inductive op := OWrap | ORecv (n : nat) | ORecvInto (n : nat) | OSend (chunks : list bytes) | OClose.
Inductive obs := OAct (a : act) | ORes (r : apires).

Definition acts (l : list act) : list obs := map OAct l.

Definition run_op (std : bool) (o : op) (st : tstate) (answers : list ans) : tstate * list obs * list ans :=
  match o with
  | OWrap =>
      let '(s, r, a, rest) := run_method MHandshake 0 (sh st) answers in
      match r with
      | ROk _ => ({| sh := s; closing := closing st; tr_closing := tr_closing st |}, acts a ++ [ORes (Ret 0)], rest)
      | RDesync => ({| sh := s; closing := closing st; tr_closing := tr_closing st |}, acts a ++ [ORes Desync], rest)
      | _ => ({| sh := s; closing := true; tr_closing := true |}, acts a ++ [OAct AClose; ORes (raise_of r)], rest)
      end
  | ORecv n =>
      let '(s, r, a, rest) := run_method MRead n (sh st) answers in
      ({| sh := s; closing := closing st; tr_closing := tr_closing st |}, acts a ++ [ORes (recv_result std r)], rest)
  | ORecvInto n =>
      let '(s, r, a, rest) := run_method MRead (match n with 0 => 1024 | _ => n end) (sh st) answers in
      ({| sh := s; closing := closing st; tr_closing := tr_closing st |}, acts a ++ [ORes (recv_into_result std r)], rest)
  | OSend chunks =>
      if closing st then (st, [ORes (Raise (XR XOSError))], answers)
      else
        let s0 := set_deque (sh st) (deque (sh st) ++ chunks) in
        let '(s, r, a, rest) := run_method MWrite 0 s0 answers in
        let res := match r with
                   | ROk _ => Ret 0
                   | RSsl EZeroReturn => if flush_zero_return_is_reset then Raise (XR XOSError) else raise_of r
                   | _ => raise_of r
                   end in
        ({| sh := s; closing := closing st; tr_closing := tr_closing st |}, acts a ++ [ORes res], rest)
  | OClose =>
      if closing st then (st, [ORes (Ret 0)], answers)
      else if (if aclose_unwrap_if_std then std else true) && negb (tr_closing st) then
        let '(s, r, a, rest) := run_method MUnwrap 0 (sh st) answers in
        let fin := {| sh := set_deque s []; closing := true; tr_closing := true |} in
        let swallowed (x : exc) := existsb (isinstance x) aclose_unwrap_swallows in
        let graceful := (fin, acts a ++ [OAct AReof; OAct AWeof; OAct AClose; ORes (Ret 0)], rest) in
        let forceful (res : apires) := (fin, acts a ++ [OAct AClose; ORes res], rest) in
        (* unwrap() failed with an SSLError after the pump had written EOF to both BIOs; with the fix the close_notify
           it may have produced is still sent (under the send lock, OSError suppressed) *)
        let late_flush :=
          match wbio s, rest with
          | (_ :: _) as w, AT TSent :: rest' | (_ :: _) as w, AT TSendErr :: rest' =>
              ({| sh := set_deque (set_wbio s []) []; closing := true; tr_closing := true |},
               acts a ++ [OAct (ASend w); OAct AReof; OAct AWeof; OAct AClose; ORes (Ret 0)], rest')
          | (_ :: _) as w, AT (TCancel true) :: rest' =>
              ({| sh := set_deque (set_wbio s []) []; closing := true; tr_closing := true |},
               acts a ++ [OAct (ASend w); OAct AClose; ORes (Ret 0)], rest')
          | (_ :: _) as w, AT (TCancel false) :: rest' =>
              ({| sh := set_deque (set_wbio s []) []; closing := true; tr_closing := true |},
               acts a ++ [OAct (ASend w); OAct AClose; ORes (Raise XCancelled)], rest')
          | (_ :: _) as w, _ => (fin, acts a ++ [OAct (ASend w); ORes Desync], rest)
          | [], _ => graceful
          end in
        match r with
        | ROk _ => graceful
        | RSsl e =>
            if swallowed (XSsl e) then (if f_close_flush fl && negb (send_lock s) then late_flush else graceful)
            else forceful (raise_of r)
        | ROSErr => if swallowed XOSError then graceful else forceful (raise_of r)
        | ROther => forceful (raise_of r)
        | RCancel true => forceful (Ret 0)            (* move_on_after(shutdown_timeout) catches its own cancellation *)
        | RCancel false => forceful (raise_of r)
        | RDesync => (fin, acts a ++ [ORes Desync], rest)
        end
      else
        ({| sh := set_deque (sh st) []; closing := true; tr_closing := true |}, [OAct AClose; ORes (Ret 0)], answers)
  end.

Fixpoint run_ops (std : bool) (ops : list op) (st : tstate) (answers : list ans) : list obs * list ans :=
  match ops with
  | [] => ([], answers)
  | o :: ops' =>
      let '(st1, obs1, rest) := run_op std o st answers in
      let '(obs2, rest') := run_ops std ops' st1 rest in
      (obs1 ++ obs2, rest')
  end.

End AsyncTransport.

(* ---- the blocking transport ---- *)
(* one answer of the SSL socket: method called, how it ended.  raw = recorded below the stdlib's SSLSocket.read, so its
   suppress_ragged_eofs filter is applied here. *)
Record sans := { s_meth : meth; s_out : sslout }.

Inductive sact := SWaitRead | SWaitWrite | SSockClose | SDesync.
Inductive sobs := SAct (a : sact) | SRes (r : apires).

(* ssl.SSLSocket.read:  except SSLError as x: if x.args[0] == SSL_ERROR_EOF and self.suppress_ragged_eofs: return b'' *)
Definition stdlib_read_filter (suppress : bool) (m : meth) (o : sslout) : sslout :=
  match m, o with
  | MRead, SErr ESslEof => if suppress then SOk 0 else o
  | _, _ => o
  end.

Inductive tryres := TVal (v : nat) | TBlockRead | TBlockWrite | TExc (x : exc).

(* SSLStreamTransport._try_ssl_method *)
Definition try_ssl_method (o : sslout) : tryres :=
  match exc_of o with
  | None => match o with SOk v => TVal v | _ => TVal 0 end
  | Some x =>
      if existsb (isinstance x) sync_wouldblock_read then TBlockRead
      else if existsb (isinstance x) sync_wouldblock_write then TBlockWrite
      else TExc x
  end.

(* _retry(lambda: noblock_call) over the recorded answers; an exhausted script while waiting = the selector timed out *)
Fixpoint sync_retry (raw : bool) (std : bool) (m : meth) (hs : list (exc_class * hact)) (answers : list sans)
  : list sobs * apires * list sans :=
  match answers with
  | [] => ([SAct SDesync], Desync, [])
  | a :: rest =>
      if negb (meth_eqb (s_meth a) m) then ([SAct SDesync], Desync, rest)
      else
        let o := if raw then stdlib_read_filter (suppress_ragged_eofs std) m (s_out a) else s_out a in
        match try_ssl_method o with
        | TVal v => ([], Ret v, rest)
        | TExc x => ([], handle hs std x, rest)
        | TBlockRead =>
            match rest with
            | [] => ([SAct SWaitRead], Raise XTimeout, [])
            | _ => let '(ob, r, rest') := sync_retry raw std m hs rest in (SAct SWaitRead :: ob, r, rest')
            end
        | TBlockWrite =>
            match rest with
            | [] => ([SAct SWaitWrite], Raise XTimeout, [])
            | _ => let '(ob, r, rest') := sync_retry raw std m hs rest in (SAct SWaitWrite :: ob, r, rest')
            end
        end
  end.

Definition is_desync (r : apires) : bool := match r with Desync => true | _ => false end.

(* is the raised exception swallowed by `except (OSError, ValueError)` in close()?  TimeoutError is an OSError. *)
Definition sync_close_swallowed (r : apires) : bool :=
  match r with
  | Raise (XR x) => existsb (isinstance x) sync_close_swallows
  | Raise XTimeout => existsb (exc_class_eqb COSError) sync_close_swallows
  | _ => false
  end.

Record sstate := { s_closed : bool }.

Definition sync_op (raw std : bool) (o : op) (st : sstate) (answers : list sans) : sstate * list sobs * list sans :=
  match o with
  | OWrap =>
      let '(ob, r, rest) := sync_retry raw std MHandshake [] answers in
      match r with
      | Ret _ => (st, ob ++ [SRes (Ret 0)], rest)
      | Desync => (st, ob ++ [SRes Desync], rest)
      | _ => ({| s_closed := true |}, ob ++ [SAct SSockClose; SRes r], rest)
      end
  | ORecv _ =>
      let '(ob, r, rest) := sync_retry raw std MRead sync_recv_handlers answers in (st, ob ++ [SRes r], rest)
  | ORecvInto _ =>
      let '(ob, r, rest) := sync_retry raw std MRead sync_recv_into_handlers answers in (st, ob ++ [SRes r], rest)
  | OSend _ =>
      let '(ob, r, rest) := sync_retry raw std MWrite [] answers in
      let r' := match r with
                | Raise (XR (XSsl EZeroReturn)) => Raise (XR XOSError)
                | _ => r
                end in
      (st, ob ++ [SRes r'], rest)
  | OClose =>
      if (if sync_close_unwrap_if_std then std else true) && negb (s_closed st) then
        let '(ob, r, rest) := sync_retry raw std MUnwrap [] answers in
        let res := match r with
                   | Ret _ => Ret 0
                   | Desync => Desync
                   | _ => if sync_close_swallowed r then Ret 0 else r
                   end in
        ({| s_closed := true |}, ob ++ [SAct SSockClose; SRes res], rest)
      else ({| s_closed := true |}, [SAct SSockClose; SRes (Ret 0)], answers)
  end.

Fixpoint sync_ops (raw std : bool) (ops : list op) (st : sstate) (answers : list sans) : list sobs * list sans :=
  match ops with
  | [] => ([], answers)
  | o :: ops' =>
      let '(st1, ob1, rest) := sync_op raw std o st answers in
      let '(ob2, rest') := sync_ops raw std ops' st1 rest in
      (ob1 ++ ob2, rest')
  end.
