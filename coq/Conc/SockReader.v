(* Executable labelled transition system of
     easynetwork/lowlevel/api_async/backend/_asyncio/stream/socket.py : StreamReaderBufferedProtocol
   (get_buffer, buffer_updated, eof_received, connection_lost, receive_data, receive_data_into, _wait_for_data)
   together with the part of asyncio the property C10 is about:
     - one reader task (the consumer) that calls receive_data(k) / receive_data_into(buffer of k bytes);
     - Task.cancel(): a task waiting on a *pending* future cancels that future (its wake-up is scheduled);
       a task whose awaited future is already done (or that sits in a bare `yield`) only gets _must_cancel,
       and the value it would have received is replaced by CancelledError when it is woken up;
     - the ready queue of the loop: callbacks scheduled during an iteration ([nxt]) only run in the next one ([cur]),
       in FIFO order.  [LTurn] ends the iteration, [LWake] runs the next ready callback.
   Everything else the loop does (read events, EOF, connection loss, the cancellation request itself) is an
   adversary label that may occur at any point, so "all label sequences" covers every order of
   {data callback, cancellation request, wake-up} within and across iterations.

   [fixed = false] is the code as it is in /repo; [fixed = true] is the code with meta/fixes/C10_F4.diff applied
   (get_buffer() stops handing out the buffer of a cancelled reader; a reader woken up by a cancellation although
   its waiter holds a byte count parks those bytes in front of the protocol's own buffer).

   Not modelled: read flow control (pause_reading at the 192 KiB high-water mark) and a full internal buffer
   (256 KiB): the cases keep the fill level far below both; the driver fails if pause_reading() is ever called.
   No proofs in this file. *)
From EN Require Import Lib.Bytes.

Inductive errk := EEnv | EReset.        (* exception given to connection_lost() | ECONNRESET made up by it *)
Inductive wstate := WPending | WRes (r : option nat) | WCancelled | WExc (e : errk).   (* __read_waiter future *)
Inductive op := ORecv (k : nat) | OInto (k : nat).     (* receive_data(k) | receive_data_into(buffer of k bytes) *)
Inductive pc := PIdle | PWait (o : op) | PYield (o : op).
   (* reader task: not in a receive | suspended at `await self.__read_waiter` | suspended at `await coro_yield()` *)
Inductive item := IStep.                                (* a scheduled step of the reader task *)

Inductive label :=
| LRecv (k : nat) | LRecvInto (k : nat)                 (* the consumer calls a receive (runs up to its first await) *)
| LData (b : bytes) | LEof | LLost (exc : bool)         (* transport callbacks *)
| LCancel                                               (* somebody calls task.cancel() on the reader task *)
| LWake | LTurn.                                        (* loop: run next ready callback | start next iteration *)

Inductive res := RBytes (b : bytes) | RCancelled | RError (e : errk) | RBusy.
Inductive obs :=
| ONone | ODisabled
| ORes (r : res)                                        (* outcome of a receive (reader task or foreign caller) *)
| OData (n : nat) (room_ext : option nat) (fill : nat). (* bytes accepted; size of the external view if it was used;
                                                           internal fill level before *)

Record st := mk {
  ibuf : bytes;              (* __buffer[:__buffer_nbytes_written] *)
  ext : option nat;          (* __external_buffer_view (its size) *)
  extdata : bytes;           (* bytes the loop wrote into the caller's buffer that the caller has not been told about yet *)
  waiter : option wstate;    (* __read_waiter *)
  eof : bool;                (* __eof_reached *)
  lost : bool;               (* __connection_lost *)
  lost_exc : option errk;    (* __connection_lost_exception *)
  tpc : pc;                  (* where the reader task is *)
  must_cancel : bool;        (* Task._must_cancel *)
  cur : list item;           (* ready callbacks of the running iteration *)
  nxt : list item;           (* callbacks scheduled for the next iteration *)
  delivered : bytes;         (* history: every byte written through get_buffer()/buffer_updated() *)
  returned : bytes           (* history: every byte handed to the consumer by a receive that returned *)
}.

Definition init : st :=
  mk [] None [] None false false None PIdle false [] [] [] [].

Definition set_ibuf s v := mk v (ext s) (extdata s) (waiter s) (eof s) (lost s) (lost_exc s) (tpc s) (must_cancel s) (cur s) (nxt s) (delivered s) (returned s).
Definition set_ext s v := mk (ibuf s) v (extdata s) (waiter s) (eof s) (lost s) (lost_exc s) (tpc s) (must_cancel s) (cur s) (nxt s) (delivered s) (returned s).
Definition set_extdata s v := mk (ibuf s) (ext s) v (waiter s) (eof s) (lost s) (lost_exc s) (tpc s) (must_cancel s) (cur s) (nxt s) (delivered s) (returned s).
Definition set_waiter s v := mk (ibuf s) (ext s) (extdata s) v (eof s) (lost s) (lost_exc s) (tpc s) (must_cancel s) (cur s) (nxt s) (delivered s) (returned s).
Definition set_eof s v := mk (ibuf s) (ext s) (extdata s) (waiter s) v (lost s) (lost_exc s) (tpc s) (must_cancel s) (cur s) (nxt s) (delivered s) (returned s).
Definition set_lost s v := mk (ibuf s) (ext s) (extdata s) (waiter s) (eof s) v (lost_exc s) (tpc s) (must_cancel s) (cur s) (nxt s) (delivered s) (returned s).
Definition set_lost_exc s v := mk (ibuf s) (ext s) (extdata s) (waiter s) (eof s) (lost s) v (tpc s) (must_cancel s) (cur s) (nxt s) (delivered s) (returned s).
Definition set_tpc s v := mk (ibuf s) (ext s) (extdata s) (waiter s) (eof s) (lost s) (lost_exc s) v (must_cancel s) (cur s) (nxt s) (delivered s) (returned s).
Definition set_must_cancel s v := mk (ibuf s) (ext s) (extdata s) (waiter s) (eof s) (lost s) (lost_exc s) (tpc s) v (cur s) (nxt s) (delivered s) (returned s).
Definition set_cur s v := mk (ibuf s) (ext s) (extdata s) (waiter s) (eof s) (lost s) (lost_exc s) (tpc s) (must_cancel s) v (nxt s) (delivered s) (returned s).
Definition set_nxt s v := mk (ibuf s) (ext s) (extdata s) (waiter s) (eof s) (lost s) (lost_exc s) (tpc s) (must_cancel s) (cur s) v (delivered s) (returned s).
Definition set_delivered s v := mk (ibuf s) (ext s) (extdata s) (waiter s) (eof s) (lost s) (lost_exc s) (tpc s) (must_cancel s) (cur s) (nxt s) v (returned s).
Definition set_returned s v := mk (ibuf s) (ext s) (extdata s) (waiter s) (eof s) (lost s) (lost_exc s) (tpc s) (must_cancel s) (cur s) (nxt s) (delivered s) v.

Definition op_size (o : op) : nat := match o with ORecv k => k | OInto k => k end.
Definition is_nil {X} (l : list X) : bool := match l with [] => true | _ => false end.
Definition is_pending (w : option wstate) : bool := match w with Some WPending => true | _ => false end.
Definition is_idle (p : pc) : bool := match p with PIdle => true | _ => false end.
Definition is_waiting (p : pc) : bool := match p with PWait _ => true | _ => false end.

(* a future the task awaits becomes done: Future.__schedule_callbacks -> loop.call_soon(task.__wakeup) *)
Definition schedule_wakeup (s : st) : st :=
  if is_waiting (tpc s) then set_nxt s (nxt s ++ [IStep]) else s.

(* _wakeup_read_waiter(exc) / _read_waiter_fut: only a waiter that is not done yet is touched *)
Definition wakeup_read_waiter (s : st) (e : option errk) : st :=
  if is_pending (waiter s)
  then schedule_wakeup (set_waiter s (Some (match e with None => WRes None | Some k => WExc k end)))
  else s.

(* receive_data / receive_data_into up to the first suspension, called by the reader task (tpc = PIdle) or, while the
   reader task is inside a receive, by some other task ("foreign" caller, which can only fail or return at once). *)
Definition call (s : st) (o : op) : st * obs :=
  match lost_exc s with
  | Some e => (s, ORes (RError e))                                   (* _check_for_connection_lost() *)
  | None =>
      if Nat.eqb (op_size o) 0 then (s, ORes (RBytes []))            (* bufsize == 0 / empty buffer *)
      else
        match waiter s with
        | Some _ => (s, ORes RBusy)                                  (* RuntimeError: another coroutine is waiting *)
        | None =>
            if negb (is_idle (tpc s)) then (s, ODisabled)            (* unreachable: see inv_idle *)
            else if negb (is_nil (ibuf s)) || eof s then
              (* self.__read_waiter.set_result(None); await coro_yield() *)
              (set_nxt (set_tpc (set_waiter s (Some (WRes None))) (PYield o)) (nxt s ++ [IStep]), ONone)
            else
              (* self.__external_buffer_view = external_buffer; await self.__read_waiter *)
              (set_tpc (set_ext (set_waiter s (Some WPending))
                                (match o with OInto k => Some k | ORecv _ => None end))
                       (PWait o), ONone)
        end
  end.

(* a read event: get_buffer(-1), sock.recv_into(buf) writes min(len(buf), len(b)) bytes, buffer_updated(n) *)
Definition data (fixed : bool) (s : st) (b : bytes) : st * obs :=
  if lost s || eof s || is_nil b then (s, ODisabled)                 (* the asserts of buffer_updated / n > 0 *)
  else
    let use_ext := match ext s with
                   | Some _ => if fixed then is_pending (waiter s) else true
                   | None => false
                   end in
    match ext s, use_ext with
    | Some cap, true =>
        let d := firstn cap b in
        let s1 := set_delivered (set_ext s None) (delivered s ++ d) in
        (* self._read_waiter_fut(lambda waiter: waiter.set_result(nbytes)) *)
        let s2 := if is_pending (waiter s1)
                  then schedule_wakeup (set_extdata (set_waiter s1 (Some (WRes (Some (length d))))) d)
                  else s1 (* waiter done (cancelled): nobody is told about the bytes in the caller's buffer *) in
        (s2, OData (length d) (Some cap) (length (ibuf s)))
    | _, _ =>
        let s1 := set_delivered (set_ibuf (set_ext s None) (ibuf s ++ b)) (delivered s ++ b) in
        (wakeup_read_waiter s1 None, OData (length b) None (length (ibuf s)))
    end.

Definition eof_received (s : st) : st * obs :=
  if lost s then (s, ODisabled)
  else (wakeup_read_waiter (set_eof (set_ext s None) true) None, ONone).

Definition connection_lost (s : st) (exc : bool) : st * obs :=
  if lost s then (s, ONone)                                          (* already called, bail out *)
  else
    let e := if exc then Some EEnv else if is_nil (ibuf s) then None else Some EReset in
    let s1 := set_lost s true in
    let s2 := set_lost_exc s1 e in
    let s3 := match e with None => set_eof s2 true | Some _ => s2 end in
    let s4 := set_ibuf s3 [] in                                      (* the protocol's buffer is dropped *)
    (wakeup_read_waiter s4 e, ONone).

(* task.cancel() on the reader task *)
Definition cancel (s : st) : st * obs :=
  match tpc s with
  | PIdle => (s, ODisabled)
  | PWait _ =>
      if is_pending (waiter s)
      then (schedule_wakeup (set_waiter s (Some WCancelled)), ONone)  (* self._fut_waiter.cancel() succeeded *)
      else (set_must_cancel s true, ONone)
  | PYield _ => (set_must_cancel s true, ONone)
  end.

(* the tail of receive_data / receive_data_into once _wait_for_data returned [v] (waiter and view already cleared) *)
Definition finish (s : st) (o : op) (v : option nat) : st * obs :=
  let s := set_tpc s PIdle in
  match v with
  | Some _ =>                                                         (* receive_data_into: return nbytes_written *)
      (set_returned (set_extdata s []) (returned s ++ extdata s), ORes (RBytes (extdata s)))
  | None =>
      match lost_exc s with
      | Some e => (s, ORes (RError e))                                (* _check_for_connection_lost() *)
      | None =>
          let d := firstn (op_size o) (ibuf s) in
          (set_returned (set_ibuf s (skipn (op_size o) (ibuf s))) (returned s ++ d), ORes (RBytes d))
      end
  end.

(* the fix: keep the bytes of a reader that is woken up by a cancellation although its waiter holds a byte count *)
Definition park (s : st) : st :=
  match waiter s with
  | Some (WRes (Some _)) =>
      if lost s
      then set_extdata (match lost_exc s with None => set_lost_exc s (Some EReset) | Some _ => s end) []
      else set_extdata (set_ibuf s (extdata s ++ ibuf s)) []
  | _ => set_extdata s []
  end.

(* the reader task runs: Task.__step / Task.__wakeup *)
Definition resume (fixed : bool) (s : st) : st * obs :=
  match tpc s with
  | PIdle => (s, ONone)
  | PYield o =>
      if must_cancel s
      then (set_tpc (set_waiter (set_must_cancel s false) None) PIdle, ORes RCancelled)
      else finish (set_waiter s None) o None
  | PWait o =>
      let cancelled := must_cancel s || match waiter s with Some WCancelled => true | _ => false end in
      if cancelled then
        let s1 := if fixed then park s else set_extdata s [] in
        (set_tpc (set_waiter (set_ext (set_must_cancel s1 false) None) None) PIdle, ORes RCancelled)
      else
        match waiter s with
        | Some (WExc e) => (set_tpc (set_waiter (set_ext s None) None) PIdle, ORes (RError e))
        | Some (WRes v) => finish (set_waiter (set_ext s None) None) o v
        | _ => (s, ONone)                                             (* unreachable: a step is only scheduled when done *)
        end
  end.

Definition wake (fixed : bool) (s : st) : st * obs :=
  match cur s with
  | [] => (s, ODisabled)
  | IStep :: q => resume fixed (set_cur s q)
  end.

Definition turn (s : st) : st * obs :=
  match cur s with
  | [] => (set_nxt (set_cur s (nxt s)) [], ONone)
  | _ => (s, ODisabled)                                               (* an iteration runs all its callbacks first *)
  end.

Definition step (fixed : bool) (s : st) (l : label) : st * obs :=
  match l with
  | LRecv k => call s (ORecv k)
  | LRecvInto k => call s (OInto k)
  | LData b => data fixed s b
  | LEof => eof_received s
  | LLost exc => connection_lost s exc
  | LCancel => cancel s
  | LWake => wake fixed s
  | LTurn => turn s
  end.

Fixpoint exec (fixed : bool) (s : st) (ls : list label) : st * list obs :=
  match ls with
  | [] => (s, [])
  | l :: ls' =>
      let '(s1, o) := step fixed s l in
      let '(s2, os) := exec fixed s1 ls' in
      (s2, o :: os)
  end.

Definition run_labels (fixed : bool) (ls : list label) : st := fst (exec fixed init ls).

(* bytes that are still on their way to the consumer *)
Definition parked (s : st) : bytes := extdata s ++ ibuf s.
