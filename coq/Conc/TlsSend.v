(* Executable model of the send path of AsyncTLSStreamTransport under concurrent senders.  No proofs here.

     send_all(data): self._data_deque.append(data); await self.__flush_data_to_send()
     send_all_from_iterable(chunks): self._data_deque.extend(chunks); await self.__flush_data_to_send()
                                     (ALL the chunks of the packet enter the backlog before the first await)
     __flush_data_to_send -> _retry_ssl_method(__write_all_to_ssl_object, ssl_object, deque):
         result = method(args)             SYNCHRONOUS: the whole backlog is written to the SSL object, whose ciphertext
                                           records accumulate in the write BIO (wbio), in the order of the writes
         async with self.__transport_send_lock:          (a FairLock / the backend's fair lock)
             if self._write_bio.pending: await self._transport.send_all(self._write_bio.read())
         return result

   OpenSSL is ideal here: one write = one record carrying exactly the plaintext; reading the BIO takes all pending
   records.  A record is represented by its plaintext.  (SSLWantRead/Write and SSL errors during a write belong to
   C08/C09; after the handshake a write completes.)

   Task program = list of packets sent one after the other; a packet is the list of its chunks (one chunk: send_all).
   Labels:  TStart t   task t starts
            TResume t  t, parked on the send lock, is handed the lock
            TWrite t   the underlying transport.send_all of t returns
            TFail t    the underlying transport.send_all of t raises
            TCancel t  CancelledError delivered to t at its current await                                         *)
From Coq Require Import List Arith Bool ZArith.
From EN Require Import Lib.Bytes Conc.FairLock.
Import ListNotations.

Inductive xstate :=
| XNew (prog : list (list bytes))
| XRun
| XWait (rest : list (list bytes)) (* wrote to the SSL object, waits for the transport send lock *)
| XFlush (rest : list (list bytes)) (* holds the lock, suspended in transport.send_all *)
| XRdWait                          (* a reader (recv): found ciphertext pending, waits for the send lock to flush it *)
| XRdFlush                         (* a reader flushing under the send lock *)
| XRecv                            (* a reader parked in transport.recv_into (no data ever comes in these scripts) *)
| XDone (code : Z).

Record tls := mkTls {
  x_lock : fl;
  x_wbio : list bytes;             (* records written to the SSL object, not yet read from the write BIO *)
  x_calls : list bytes;            (* payload (plaintext of the records) of each transport.send_all call, newest first *)
  x_tasks : list xstate;
  x_writes : list bytes;           (* ghost: every write to the SSL object, newest first *)
  x_crashed : bool;
  x_readers : list tid             (* the tasks that call recv() instead of sending *)
}.

Definition tls_init (progs : list (list (list bytes))) (readers : list tid) : tls :=
  mkTls fl_init [] [] (map XNew progs) [] false readers.

Fixpoint updx {X} (n : nat) (x : X) (l : list X) : list X :=
  match l, n with
  | [], _ => []
  | _ :: r, 0 => x :: r
  | y :: r, S k => y :: updx k x r
  end.

Definition x_set (t : tid) (x : xstate) (s : tls) : tls :=
  mkTls (x_lock s) (x_wbio s) (x_calls s) (updx t x (x_tasks s)) (x_writes s) (x_crashed s) (x_readers s).
Definition x_with_lock (l : fl) (s : tls) : tls :=
  mkTls l (x_wbio s) (x_calls s) (x_tasks s) (x_writes s) (x_crashed s) (x_readers s).

Definition x_unlock (t : tid) (s : tls) : tls :=
  match fl_release t (x_lock s) with
  | Some l => x_with_lock l s
  | None => mkTls (x_lock s) (x_wbio s) (x_calls s) (x_tasks s) (x_writes s) true (x_readers s)
  end.

(* ssl_object.write(data): one record into the write BIO *)
Definition ssl_write (d : bytes) (s : tls) : tls :=
  mkTls (x_lock s) (x_wbio s ++ [d]) (x_calls s) (x_tasks s) (d :: x_writes s) (x_crashed s) (x_readers s).

(* the whole backlog of one packet, chunk after chunk, synchronously *)
Definition ssl_write_all (p : list bytes) (s : tls) : tls := fold_left (fun s d => ssl_write d s) p s.

(* lock held by t: `if self._write_bio.pending: await transport.send_all(self._write_bio.read())`.
   Returns the state and whether t is now suspended in the transport. *)
Definition flush (s : tls) : tls * bool :=
  match x_wbio s with
  | [] => (s, false)
  | b => (mkTls (x_lock s) [] (concat b :: x_calls s) (x_tasks s) (x_writes s) (x_crashed s) (x_readers s), true)
  end.

(* t holds the lock; k = the rest of its program once this send_all returned *)
Definition after_lock (t : tid) (rest : list (list bytes)) (k : tls -> tls) (s : tls) : tls :=
  let '(s1, susp) := flush s in
  if susp then x_set t (XFlush rest) s1 else k (x_unlock t s1).

Fixpoint x_run_task (t : tid) (prog : list (list bytes)) (s : tls) {struct prog} : tls :=
  match prog with
  | [] => x_set t (XDone 10) s
  | d :: rest =>
      let s1 := ssl_write_all d s in
      let '(l, got) := fl_acquire t (x_lock s1) in
      if got then after_lock t rest (x_run_task t rest) (x_with_lock l s1)
      else x_set t (XWait rest) (x_with_lock l s1)
  end.

(* recv(): ssl_object.read raises SSLWantReadError; `if self._write_bio.pending: async with send_lock: if pending: flush`;
   then it waits for incoming data under the receive lock *)
Definition rd_after_lock (t : tid) (s : tls) : tls :=
  let '(s1, susp) := flush s in
  if susp then x_set t XRdFlush s1 else x_set t XRecv (x_unlock t s1).

Definition rd_enter (t : tid) (s : tls) : tls :=
  match x_wbio s with
  | [] => x_set t XRecv s
  | _ => let '(l, got) := fl_acquire t (x_lock s) in
         if got then rd_after_lock t (x_with_lock l s) else x_set t XRdWait (x_with_lock l s)
  end.

Inductive xlabel := TStart (t : tid) | TResume (t : tid) | TWrite (t : tid) | TFail (t : tid) | TCancel (t : tid).

Definition x_next (s : tls) (l : xlabel) : option tls :=
  match l with
  | TStart t =>
      match nth_error (x_tasks s) t with
      | Some (XNew prog) =>
          if mem_tid t (x_readers s) then Some (rd_enter t (x_set t XRun s))
          else Some (x_run_task t prog (x_set t XRun s))
      | _ => None
      end
  | TResume t =>
      match nth_error (x_tasks s) t with
      | Some (XWait rest) =>
          match fl_resume t (x_lock s) with
          | Some l => Some (after_lock t rest (x_run_task t rest) (x_with_lock l (x_set t XRun s)))
          | None => None
          end
      | Some XRdWait =>
          match fl_resume t (x_lock s) with
          | Some l => Some (rd_after_lock t (x_with_lock l (x_set t XRun s)))
          | None => None
          end
      | _ => None
      end
  | TWrite t =>
      match nth_error (x_tasks s) t with
      | Some (XFlush rest) => Some (x_run_task t rest (x_unlock t (x_set t XRun s)))
      | Some XRdFlush => Some (x_set t XRecv (x_unlock t s))
      | _ => None
      end
  | TFail t =>
      match nth_error (x_tasks s) t with
      | Some (XFlush _) => Some (x_set t (XDone 13) (x_unlock t s))
      | _ => None
      end
  | TCancel t =>
      match nth_error (x_tasks s) t with
      | Some (XNew _) => Some (x_set t (XDone 11) s)
      | Some (XWait _) =>
          match fl_cancel t (x_lock s) with
          | Some l => Some (x_set t (XDone 11) (x_with_lock l s))
          | None => None
          end
      | Some (XFlush _) => Some (x_set t (XDone 11) (x_unlock t s))
      | Some XRdWait =>
          match fl_cancel t (x_lock s) with
          | Some l => Some (x_set t (XDone 11) (x_with_lock l s))
          | None => None
          end
      | Some XRdFlush => Some (x_set t (XDone 11) (x_unlock t s))
      | Some XRecv => Some (x_set t (XDone 11) s)
      | _ => None
      end
  end.

Definition x_step (s : tls) (l : xlabel) : option (tls * list bytes) :=
  match x_next s l with
  | Some s' => Some (s', firstn (length (x_calls s') - length (x_calls s)) (x_calls s'))
  | None => None
  end.

Fixpoint x_run (s : tls) (ls : list xlabel) : option tls :=
  match ls with
  | [] => Some s
  | l :: ls' => match x_next s l with Some s' => x_run s' ls' | None => None end
  end.
