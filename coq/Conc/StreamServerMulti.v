(* Several client connections of one stream server.

   The server state is a finite map (a list indexed by the connection id) from connections to the state of their client
   task; the task of Conc/StreamServer.v is cut at the handler generator's yield (one step = first anext, or one iteration
   of the `while not transport.is_closing()` loop: request receiver, then asend/athrow into the generator).  A server label
   is the id of the connection whose task runs next; tasks share nothing but the event loop.  No proofs here. *)
From EN Require Import Lib.Bytes Frame.Framer Stream.Consumer Stream.Endpoint Conc.StreamServer.

Section Multi.
  Context {P C : Type}.
  Variable M : machine P C.

  Inductive conn :=
  | CNew (oc : nat) (acts0 : list hact) (c : C) (o : speer)                         (* accepted, task not started yet *)
  | CRun (fuel : nat) (ph : hphase) (t : option nat) (c : C) (o : speer) (now : nat) (u : @ustate P)
                                                                                      (* suspended at the generator's yield *)
  | CDone (f : @final P).                                                             (* task ended *)

  Definition conn_step (cn : conn) : conn :=
    match cn with
    | CNew oc acts0 c o =>
        let u0 := {| acts := acts0; closed := false; ulog := []; wire := [] |} in
        match hstart oc u0 with
        | (u1, HYielded ph t) => CRun (S (S (length acts0))) ph t c o 0 u1
        | (u1, HFinished) => CDone (finish u1 None o 0)
        | (u1, HRaised x) => CDone (finish u1 (Some x) o 0)
        end
    | CRun 0 ph t c o now u => CDone (finish u (Some XCrash) o now)
    | CRun (S f) ph t c o now u =>
        if closed u then CDone (finish (hclose ph u) None o now)
        else
          let '(c', o', now', a) := rq_next M t c o now in
          match a with
          | NStop => CDone (finish_ true (hclose ph u) None o' now')
          | NSend p =>
              match hresume ph (UReq p) now' u with
              | (u1, HYielded ph' t') => CRun f ph' t' c' o' now' u1
              | (u1, HFinished) => CDone (finish u1 None o' now')
              | (u1, HRaised x) => CDone (finish u1 (Some x) o' now')
              end
          | NThrow x =>
              match hresume ph (UErr x) now' u with
              | (u1, HYielded ph' t') => CRun f ph' t' c' o' now' u1
              | (u1, HFinished) => CDone (finish u1 None o' now')
              | (u1, HRaised x') => CDone (finish u1 (Some x') o' now')
              end
          end
    | CDone f => CDone f
    end.

  Fixpoint conn_iter (n : nat) (cn : conn) : conn :=
    match n with 0 => cn | S n' => conn_iter n' (conn_step cn) end.

  (* the server: connection [a] runs one step *)
  Fixpoint supdate (s : list conn) (a : nat) : list conn :=
    match s, a with
    | [], _ => []
    | cn :: s', 0 => conn_step cn :: s'
    | cn :: s', S a' => cn :: supdate s' a'
    end.

  Fixpoint srun (s : list conn) (sch : list nat) : list conn :=
    match sch with
    | [] => s
    | a :: sch' => srun (supdate s a) sch'
    end.
  (* the listener accepted these connections: (on_connection kind, handler strategy, fresh consumer, peer) *)
  Definition accept (l : list (nat * list hact * C * speer)) : list conn :=
    map (fun x => match x with (oc, acts0, c, o) => CNew oc acts0 c o end) l.
End Multi.
