(* C08/C09 — AsyncTLSStreamTransport._retry_ssl_method ("the pump"), __write_all_to_ssl_object and
   _IncomingDataReader.readinto as a step machine.  The SSL object and the wrapped transport are oracles: every call
   on them is answered by a label.  No proofs here.

     while True:
         try: result = ssl_object_method(args)
         except SSLWantReadError:
             try:
                 async with send_lock:
                     if write_bio.pending: await transport.send_all(write_bio.read())
                 async with recv_lock:
                     await incoming_reader.readinto(read_bio)        # EOF -> read_bio.write_eof()
             except OSError: read_bio.write_eof(); write_bio.write_eof(); raise
         except SSLWantWriteError:
             async with send_lock: await transport.send_all(write_bio.read())
         except SSLError: read_bio.write_eof(); write_bio.write_eof(); raise
         else:
             async with send_lock:
                 if write_bio.pending: await transport.send_all(write_bio.read())
             return result                                                                                   *)
From EN Require Import Lib.Bytes Conc.TlsBase.

(* one answer of the SSL object: which method was called, with which size argument, how it ended and what it appended
   to the outgoing BIO *)
Record sslans := { a_meth : meth; a_arg : nat; a_out : sslout; a_wdelta : bytes }.

(* answers of the wrapped transport / the scheduler at an await *)
Inductive tans :=
| TRcvd (data : bytes)        (* recv_into returned len data (> 0) bytes; [] = end of stream *)
| TRecvErr                    (* recv_into raised OSError *)
| TSent                       (* send_all returned *)
| TSendErr                    (* send_all raised OSError *)
| TCancel (by_timeout : bool). (* a cancellation is delivered at the current await *)

Inductive lab := LSsl (a : sslans) | LGo | LT (t : tans).

(* visible actions *)
Inductive act :=
| ASend (payload : bytes)     (* transport.send_all(payload) starts *)
| ARecv                       (* transport.recv_into starts *)
| AFeed (data : bytes)        (* read_bio.write(data) *)
| AReof | AWeof               (* read_bio.write_eof() / write_bio.write_eof() *)
| AClose                      (* transport.aclose() *)
| ADesync.                    (* the label does not fit what the code would do here (model rejects the trace) *)

Inductive result := ROk (v : nat) | RSsl (e : sslerr) | ROSErr | ROther | RCancel (by_timeout : bool) | RDesync.

(* where the pump goes after a flush.  KRead carries the value of the feed counter seen right after the SSL call
   (only used when the regenerated flag recheck_after_recv_lock is set, i.e. with meta/fixes/C08_lost_wakeup.diff) *)
Inductive cont := KRead (snap : nat) | KLoop | KRet (v : nat).

Inductive pc :=
| PCall                 (* top of the loop: the method is about to be called *)
| PFlush (k : cont)     (* wants the send lock *)
| PSending (k : cont)   (* holds the send lock, send_all in flight *)
| PRecvWait (snap : nat) (* wants the recv lock *)
| PRecving              (* holds the recv lock, recv_into in flight *)
| PEnd (r : result).

(* state shared by all tasks of one transport *)
Record shared := {
  wbio : bytes;                (* ciphertext pending in the outgoing BIO *)
  deque : list bytes;          (* _data_deque: plaintext write backlog *)
  send_lock : bool;            (* held *)
  recv_lock : bool;
  feeds : nat                  (* number of completed readinto() calls (_IncomingDataReader.feed_count) *)
}.

Definition set_wbio (s : shared) (w : bytes) := {| wbio := w; deque := deque s; send_lock := send_lock s; recv_lock := recv_lock s; feeds := feeds s |}.
Definition set_deque (s : shared) (d : list bytes) := {| wbio := wbio s; deque := d; send_lock := send_lock s; recv_lock := recv_lock s; feeds := feeds s |}.
Definition set_send_lock (s : shared) (b : bool) := {| wbio := wbio s; deque := deque s; send_lock := b; recv_lock := recv_lock s; feeds := feeds s |}.
Definition set_recv_lock (s : shared) (b : bool) := {| wbio := wbio s; deque := deque s; send_lock := send_lock s; recv_lock := b; feeds := feeds s |}.
Definition set_feeds (s : shared) (n : nat) := {| wbio := wbio s; deque := deque s; send_lock := send_lock s; recv_lock := recv_lock s; feeds := n |}.

(* Two facts about the code under test are regenerated from /repo's AST on every run (Gen/ParamsC08.v) and passed
   to the model as a parameter; every theorem is proved for all their values:
     f_recheck  : with meta/fixes/C08_lost_wakeup.diff the WANT_READ branch, once it holds the recv lock, re-checks whether
                  another task fed the SSL object in the meantime;
     f_skiplock : with meta/fixes/C08_send_lock_only_if_pending.diff the send lock is taken only when the outgoing BIO
                  is not empty;
     f_close_flush : with meta/fixes/C09_close_notify_after_failed_unwrap.diff aclose() still sends what unwrap() left in
                  the outgoing BIO when unwrap() failed with an SSLError (used by Conc/TlsEof.v only);
     f_lazyread : with meta/fixes/C08_read_result_without_checkpoint.diff a successful ssl_object.read() returns at once:
                  no flush point (no checkpoint) between the read and the return, whatever is pending in the outgoing BIO. *)
Record flags := { f_recheck : bool; f_skiplock : bool; f_close_flush : bool; f_lazyread : bool }.

Section Flags.
Variable fl : flags.
Notation recheck_after_recv_lock := (f_recheck fl).
Notation send_lock_only_if_pending := (f_skiplock fl).

(* where a task goes when it reaches a flush point.  Unpatched code always queues on the send lock (PFlush); with
   meta/fixes/C08_send_lock_only_if_pending.diff (regenerated flag send_lock_only_if_pending) it takes the lock only if
   the outgoing BIO is not empty — otherwise it goes on at once, without a checkpoint.  WANT_WRITE always flushes. *)
Definition wbio_empty (s : shared) : bool := match wbio s with [] => true | _ => false end.
Definition flush_pc (s : shared) (k : cont) : pc :=
  match k with
  | KLoop => PFlush KLoop
  | KRead n => if send_lock_only_if_pending && wbio_empty s then PRecvWait n else PFlush k
  | KRet v => if send_lock_only_if_pending && wbio_empty s then PEnd (ROk v) else PFlush k
  end.

(* where a task goes when its SSL method has returned v: the flush point of the success branch -- except, with
   meta/fixes/C08_read_result_without_checkpoint.diff, after a read: decrypted bytes cannot be read again, so the call
   returns without a checkpoint and leaves the outgoing BIO to the task that filled it / to the next operation. *)
Definition done_pc (m : meth) (s : shared) (v : nat) : pc :=
  if f_lazyread fl && meth_eqb m MRead then PEnd (ROk v) else flush_pc s (KRet v).

(* entering the method: __write_all_to_ssl_object with an empty backlog returns without touching the SSL object *)
Definition pcall (m : meth) (s : shared) : pc :=
  match m, deque s with
  | MWrite, [] => flush_pc s (KRet 0)
  | _, _ => PCall
  end.

(* the size argument the code passes to the SSL object *)
Definition expected_arg (m : meth) (bufsize : nat) (s : shared) : nat :=
  match m with
  | MRead => bufsize
  | MWrite => match deque s with d :: _ => length d | [] => 0 end
  | _ => 0
  end.

Definition after_flush (m : meth) (s : shared) (k : cont) : pc :=
  match k with
  | KRead n => PRecvWait n
  | KLoop => pcall m s
  | KRet v => PEnd (ROk v)
  end.

(* LGo = the task acquires the lock it is waiting for (asyncio.Lock.acquire does not suspend when the lock is free):
   send lock: `if write_bio.pending: await send_all(write_bio.read())` (unconditional in the WANT_WRITE branch);
   recv lock: `await incoming_reader.readinto(read_bio)` — with the lost-wakeup fix only if nobody fed the SSL object
   since this task's SSL call (otherwise the lock is released at once and the SSL method is retried) *)
Definition go (m : meth) (s : shared) (p : pc) : option (shared * pc * list act) :=
  match p with
  | PFlush k =>
      if send_lock s then None
      else
        let must := match k with KLoop => true | _ => false end in
        match wbio s, must with
        | [], false => Some (s, after_flush m s k, [])
        | w, _ => Some (set_send_lock (set_wbio s []) true, PSending k, [ASend w])
        end
  | PRecvWait n =>
      if recv_lock s then None
      else if recheck_after_recv_lock && negb (Nat.eqb (feeds s) n) then Some (s, pcall m s, [])
      else Some (set_recv_lock s true, PRecving, [ARecv])
  | _ => None
  end.

Definition step (m : meth) (bufsize : nat) (s : shared) (p : pc) (l : lab) : option (shared * pc * list act) :=
  match p, l with
  | PCall, LSsl a =>
      if negb (meth_eqb (a_meth a) m && Nat.eqb (a_arg a) (expected_arg m bufsize s)) then
        Some (s, PEnd RDesync, [ADesync])
      else
        let s1 := set_wbio s (wbio s ++ a_wdelta a) in
        match a_out a with
        | SOk v =>
            match m with
            | MWrite =>
                let d' := match deque s1 with
                          | d :: rest => if Nat.ltb v (length d) then skipn v d :: rest else rest
                          | [] => []
                          end in
                let s2 := set_deque s1 d' in
                match d' with
                | [] => Some (s2, flush_pc s2 (KRet 0), [])
                | _ => Some (s2, PCall, [])
                end
            | _ => Some (s1, done_pc m s1 v, [])
            end
        | SWantRead => Some (s1, flush_pc s1 (KRead (feeds s1)), [])
        | SWantWrite => Some (s1, PFlush KLoop, [])
        | SErr e => Some (s1, PEnd (RSsl e), [AReof; AWeof])
        | SOSErr => Some (s1, PEnd ROSErr, [])
        | SOther => Some (s1, PEnd ROther, [])
        end
  | PFlush _, LGo | PRecvWait _, LGo => go m s p
  | PFlush _, LT (TCancel b) | PRecvWait _, LT (TCancel b) => Some (s, PEnd (RCancel b), [])
  | PSending k, LT TSent =>
      let s1 := set_send_lock s false in Some (s1, after_flush m s1 k, [])
  | PSending k, LT TSendErr =>
      let s1 := set_send_lock s false in
      match k with
      | KRead _ => Some (s1, PEnd ROSErr, [AReof; AWeof])
      | _ => Some (s1, PEnd ROSErr, [])
      end
  | PSending k, LT (TCancel b) => Some (set_send_lock s false, PEnd (RCancel b), [])
  | PRecving, LT (TRcvd d) =>
      let s1 := set_feeds (set_recv_lock s false) (S (feeds s)) in
      match d with
      | [] => Some (s1, pcall m s1, [AReof])
      | _ => Some (s1, pcall m s1, [AFeed d])
      end
  | PRecving, LT TRecvErr => Some (set_recv_lock s false, PEnd ROSErr, [AReof; AWeof])
  | PRecving, LT (TCancel b) => Some (set_recv_lock s false, PEnd (RCancel b), [])
  | _, _ => None
  end.

(* ---- a single task driven by a merged answer list (no contention: LGo is taken as soon as it is enabled) ---- *)

Inductive ans := AS (a : sslans) | AT (t : tans).

(* without contention every lock is taken at once: at most a skipped flush followed by the read (or the return) *)
Fixpoint settle_n (fuel : nat) (m : meth) (s : shared) (p : pc) : shared * pc * list act :=
  match fuel with
  | 0 => (s, p, [])
  | S f =>
      match go m s p with
      | Some (s1, p1, a1) => let '(s2, p2, a2) := settle_n f m s1 p1 in (s2, p2, a1 ++ a2)
      | None => (s, p, [])
      end
  end.
Definition settle := settle_n 3.

(* run the pump of one method over the answers; returns the state, the result, the actions and the unused answers *)
Fixpoint retry (m : meth) (bufsize : nat) (s : shared) (p : pc) (answers : list ans) : shared * result * list act * list ans :=
  match p with
  | PEnd r => (s, r, [], answers)
  | _ =>
      match answers with
      | [] => (s, RDesync, [ADesync], [])
      | a :: rest =>
          let l := match a with AS x => LSsl x | AT t => LT t end in
          match step m bufsize s p l with
          | None => (s, RDesync, [ADesync], rest)
          | Some (s1, p1, acts1) =>
              let '(s2, p2, acts2) := settle m s1 p1 in
              let '(s3, r, acts3, rest') := retry m bufsize s2 p2 rest in
              (s3, r, acts1 ++ acts2 ++ acts3, rest')
          end
      end
  end.

Definition start (m : meth) (s : shared) : shared * pc * list act := settle m s (pcall m s).

Definition run_method (m : meth) (bufsize : nat) (s : shared) (answers : list ans) : shared * result * list act * list ans :=
  let '(s1, p1, acts1) := start m s in
  let '(s2, r, acts2, rest) := retry m bufsize s1 p1 answers in
  (s2, r, acts1 ++ acts2, rest).

Definition shared0 : shared := {| wbio := []; deque := []; send_lock := false; recv_lock := false; feeds := 0 |}.

(* ---- several tasks on one transport (full duplex): the trace is a list of labels, each addressed to one task ---- *)

Record task := { t_meth : meth; t_buf : nat; t_pc : pc }.
Record sys := { y_sh : shared; y_tasks : list task }.

Inductive slab :=
| SSpawn (m : meth) (bufsize : nat) (chunks : list bytes)   (* a task enters _retry_ssl_method(m); send: the data is queued *)
| SStep (t : nat) (l : lab).

Definition sys0 : sys := {| y_sh := shared0; y_tasks := [] |}.

Fixpoint set_nth {X} (n : nat) (x : X) (l : list X) : list X :=
  match l, n with
  | [], _ => []
  | _ :: l', 0 => x :: l'
  | y :: l', S n' => y :: set_nth n' x l'
  end.

Definition sys_step (y : sys) (l : slab) : option (sys * list (nat * act)) :=
  match l with
  | SSpawn m b chunks =>
      let s1 := match m with MWrite => set_deque (y_sh y) (deque (y_sh y) ++ chunks) | _ => y_sh y end in
      Some ({| y_sh := s1; y_tasks := y_tasks y ++ [{| t_meth := m; t_buf := b; t_pc := pcall m s1 |}] |}, [])
  | SStep t lb =>
      match nth_error (y_tasks y) t with
      | None => None
      | Some tk =>
          match step (t_meth tk) (t_buf tk) (y_sh y) (t_pc tk) lb with
          | None => None
          | Some (s1, p1, a) =>
              Some ({| y_sh := s1; y_tasks := set_nth t {| t_meth := t_meth tk; t_buf := t_buf tk; t_pc := p1 |} (y_tasks y) |},
                    map (fun x => (t, x)) a)
          end
      end
  end.

(* run a whole trace; a label the model cannot take ends the run with a desync marker *)
Fixpoint sys_run (y : sys) (ls : list slab) : sys * list (nat * act) :=
  match ls with
  | [] => (y, [])
  | l :: ls' =>
      match sys_step y l with
      | None => (y, [(0, ADesync)])
      | Some (y1, a1) => let '(y2, a2) := sys_run y1 ls' in (y2, a1 ++ a2)
      end
  end.

End Flags.
