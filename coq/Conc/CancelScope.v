(* Executable model of the asyncio cancel-scope machinery of EasyNetwork
   (lowlevel/api_async/backend/_asyncio/tasks.py: CancelScope, TaskUtils.cancel_shielded_*; backend/abc.py:
   _timeout_scope) on top of a model of one CPython 3.12.1 asyncio task, its futures, the FIFO ready queue and the
   timer heap (heapq, cancelled handles stay in the heap) with a virtual integer clock.

   One task runs a program (inductive type [prog]); an external controller issues task.cancel() from timers or from
   handles injected into the ready queue of a given loop iteration.  The machine is small-step ([step]); every
   definition is total and proof-free.  Ghost counters (g_ext, g_leak, g_floor, g_abort) are instrumentation only: no
   behaviour reads them.  Task-group children are NOT modelled. *)
From Coq Require Import ZArith List Bool Arith Lia.
Import ListNotations.

Definition msg := option nat.   (* CancelledError message: None, or "Cancelled by cancel scope <sid>" *)
Definition msg_eqb (a b : msg) : bool :=
  match a, b with
  | None, None => true
  | Some x, Some y => Nat.eqb x y
  | _, _ => false
  end.

Inductive exn := ECancel (m : msg) | ETimeout | EAssert.   (* EAssert: any other exception (class code 3) *)

Inductive skind := KMoveOn | KTimeout.          (* move_on_after / open_cancel_scope  vs  timeout() *)
Inductive ckind := CCancel | CTimeout | CAll.   (* what a try/except of the program catches *)

Inductive prog :=
| PSkip
| PSeq (p q : prog)
| PSleep (id d : nat)                 (* await backend.sleep(d); d = 0 is a bare yield *)
| PFail (id d : nat)                  (* await a future that FAILS (set_exception, not a cancellation) after d ticks *)
| PCheckpoint (id : nat)              (* await backend.coro_yield() *)
| PShYield (id : nat)                 (* await backend.cancel_shielded_coro_yield() *)
| PBlock (d : nat)                    (* synchronous work: the clock advances by d, nothing is yielded *)
| PScope (id : nat) (kind : skind) (pre : bool) (delay : option nat) (body : prog)
                                      (* with move_on_after(delay)/timeout(delay)/open_cancel_scope(): body;
                                         pre = scope.cancel() called before __enter__ *)
| PShield (id : nat) (body : prog)    (* await backend.ignore_cancellation(body()) *)
| PCancel (k : nat)                   (* k-th enclosing scope (0 = innermost) .cancel() *)
| PResched (k : nat) (d : option nat) (* k-th enclosing scope .reschedule(now + d) / (inf) *)
| PCatch (id : nat) (c : ckind) (body : prog).   (* try: body  except <c>: pass *)

Inductive event :=
| EvStart (id t : nat)                           (* blocking statement / scope body / shield started *)
| EvDone (id t : nat)                            (* blocking statement / shield completed normally *)
| EvExit (id t : nat) (called caught : bool) (cnt : nat) (swallow : bool) (exc : nat)
      (* CancelScope.__exit__ returned: cancel_called(), cancelled_caught(), task.cancelling(), return value,
         class of the exception it was given (0 none, 1 CancelledError, 2 TimeoutError, 3 other) *)
| EvCatch (id t : nat) (exc : nat)               (* an except clause of the program caught exc *)
| EvExt (t n : nat) (sh : bool)                  (* the controller's task.cancel() returned True at time t; n = number of
                                                    active scopes whose cancel() had already been called at that moment;
                                                    sh = the task was inside ignore_cancellation / a shielded yield *)
| EvCancel (id t : nat)                          (* the program called cancel() on the scope opened by statement id *)
| EvResched (id t : nat) (dl : option nat)       (* ... called reschedule(dl) on it (None = math.inf) *)
| EvActor (id t : nat).                          (* another task called cancel() on the scope opened by statement id *)

Definition exn_code (e : exn) : nat := match e with ECancel _ => 1 | ETimeout => 2 | EAssert => 3 end.
Definition oexn_code (e : option exn) : nat := match e with None => 0 | Some e => exn_code e end.

(* ---- coroutine frames *)
Inductive wait := WYield (id : nat) | WShYield (id : nat) | WSleep (id f h : nat).
Inductive shwait := ShRun | ShNone | ShFut (inner outer : nat).
Inductive frame :=
| FStart (p : prog)                     (* coroutine created, not started *)
| FSeq (q : prog)
| FScope (id : nat) (kind : skind) (sid : nat)
| FShield (id : nat) (w : shwait) (last : option msg) (y : bool)
      (* cancel_shielded_await driving the frames above it; y = the inner coroutine has yielded at least once
         (the fast path returns / re-raises without _check_pending_cancellation) *)
| FCatch (id : nat) (c : ckind)
| FWait (w : wait).

(* ---- futures, handles, timers, scopes *)
Inductive fstate := FPend | FRes | FCanc (m : msg) | FExc.   (* FExc: done with an exception *)
Inductive cb := CbWake | CbInner (outer : nat) | CbOuter (inner : nat).
Definition cb_eqb (a b : cb) : bool :=
  match a, b with
  | CbWake, CbWake => true
  | CbInner x, CbInner y => Nat.eqb x y
  | CbOuter x, CbOuter y => Nat.eqb x y
  | _, _ => false
  end.
Record fut := mkFut { f_st : fstate; f_cbs : list cb }.

Inductive hkind :=
| HStep                       (* task.__step() after a bare yield / task creation *)
| HFutCb (f : nat) (c : cb)   (* a future's done callback *)
| HSetRes (f : nat)           (* futures._set_result_unless_cancelled (asyncio.sleep's timer) *)
| HSetExc (f : nat)           (* the timer of a failing future: set_exception unless done *)
| HScopeCancel (s : nat)      (* CancelScope.cancel from the timeout handle *)
| HDeliver (s : nat)          (* CancelScope.__deliver_cancellation *)
| HDelayedCancel (m : msg)    (* CancelScope.__cancel_task_unless_done(task, msg) *)
| HDelayedPop                 (* __delayed_task_cancel_dict.pop(task, None) *)
| HExt                        (* the controller's task.cancel() *)
| HActor (k : nat).           (* a step of ANOTHER task that calls cancel() on the host's k-th enclosing active scope *)
Record handle := mkH { h_id : nat; h_kind : hkind; h_canc : bool }.
Record timer := mkT { tm_when : nat; tm_h : handle }.

Inductive sstate := SCreated | SEntered | SExited.
Record scope := mkScope {
  s_host : bool;            (* __host_task is not None *)
  s_hostc : nat;            (* __host_task_cancelling *)
  s_calls : nat;            (* __host_task_cancel_calls *)
  s_state : sstate;
  s_called : bool;          (* __cancel_called *)
  s_caught : bool;          (* __cancelled_caught *)
  s_deadline : option nat;  (* None = math.inf *)
  s_th : option nat;        (* __timeout_handle *)
  s_ch : option nat }.      (* __cancel_handle *)

Inductive ctl := CExec (p : prog) | CRet | CRaise (e : exn).
Inductive mode := MRun (c : ctl) | MLoop | MDone (r : option exn) | MDead.

Record state := mkState {
  time : nat;
  ready : list handle;
  heap : list timer;
  nexth : nat;
  futs : list fut;
  scopes : list scope;
  sstack : list nat;
  t_waiter : option nat;
  t_must : bool;
  t_msg : msg;
  t_cnt : nat;
  delayed : option (nat * msg);
  md : mode;
  frames : list frame;
  todo : nat;
  iter : nat;
  spin : nat;
  spinK : nat;
  ctrl : list (nat * bool * nat);
  trace : list event;
  g_ext : nat;
  g_leak : nat;
  g_floor : nat;
  g_abort : bool;
  fixF : bool;
  fallbackF : bool;
  g_late : bool;
  g_shbroken : bool;
  g_owed : bool;
  g_lost : bool }.

Definition set_time (st : state) (v : nat) : state :=
  {| time := v; ready := ready st; heap := heap st; nexth := nexth st; futs := futs st; scopes := scopes st; sstack := sstack st; t_waiter := t_waiter st; t_must := t_must st; t_msg := t_msg st; t_cnt := t_cnt st; delayed := delayed st; md := md st; frames := frames st; todo := todo st; iter := iter st; spin := spin st; spinK := spinK st; ctrl := ctrl st; trace := trace st; g_ext := g_ext st; g_leak := g_leak st; g_floor := g_floor st; g_abort := g_abort st; fixF := fixF st; fallbackF := fallbackF st; g_late := g_late st; g_shbroken := g_shbroken st; g_owed := g_owed st; g_lost := g_lost st |}.
Definition set_ready (st : state) (v : list handle) : state :=
  {| time := time st; ready := v; heap := heap st; nexth := nexth st; futs := futs st; scopes := scopes st; sstack := sstack st; t_waiter := t_waiter st; t_must := t_must st; t_msg := t_msg st; t_cnt := t_cnt st; delayed := delayed st; md := md st; frames := frames st; todo := todo st; iter := iter st; spin := spin st; spinK := spinK st; ctrl := ctrl st; trace := trace st; g_ext := g_ext st; g_leak := g_leak st; g_floor := g_floor st; g_abort := g_abort st; fixF := fixF st; fallbackF := fallbackF st; g_late := g_late st; g_shbroken := g_shbroken st; g_owed := g_owed st; g_lost := g_lost st |}.
Definition set_heap (st : state) (v : list timer) : state :=
  {| time := time st; ready := ready st; heap := v; nexth := nexth st; futs := futs st; scopes := scopes st; sstack := sstack st; t_waiter := t_waiter st; t_must := t_must st; t_msg := t_msg st; t_cnt := t_cnt st; delayed := delayed st; md := md st; frames := frames st; todo := todo st; iter := iter st; spin := spin st; spinK := spinK st; ctrl := ctrl st; trace := trace st; g_ext := g_ext st; g_leak := g_leak st; g_floor := g_floor st; g_abort := g_abort st; fixF := fixF st; fallbackF := fallbackF st; g_late := g_late st; g_shbroken := g_shbroken st; g_owed := g_owed st; g_lost := g_lost st |}.
Definition set_nexth (st : state) (v : nat) : state :=
  {| time := time st; ready := ready st; heap := heap st; nexth := v; futs := futs st; scopes := scopes st; sstack := sstack st; t_waiter := t_waiter st; t_must := t_must st; t_msg := t_msg st; t_cnt := t_cnt st; delayed := delayed st; md := md st; frames := frames st; todo := todo st; iter := iter st; spin := spin st; spinK := spinK st; ctrl := ctrl st; trace := trace st; g_ext := g_ext st; g_leak := g_leak st; g_floor := g_floor st; g_abort := g_abort st; fixF := fixF st; fallbackF := fallbackF st; g_late := g_late st; g_shbroken := g_shbroken st; g_owed := g_owed st; g_lost := g_lost st |}.
Definition set_futs (st : state) (v : list fut) : state :=
  {| time := time st; ready := ready st; heap := heap st; nexth := nexth st; futs := v; scopes := scopes st; sstack := sstack st; t_waiter := t_waiter st; t_must := t_must st; t_msg := t_msg st; t_cnt := t_cnt st; delayed := delayed st; md := md st; frames := frames st; todo := todo st; iter := iter st; spin := spin st; spinK := spinK st; ctrl := ctrl st; trace := trace st; g_ext := g_ext st; g_leak := g_leak st; g_floor := g_floor st; g_abort := g_abort st; fixF := fixF st; fallbackF := fallbackF st; g_late := g_late st; g_shbroken := g_shbroken st; g_owed := g_owed st; g_lost := g_lost st |}.
Definition set_scopes (st : state) (v : list scope) : state :=
  {| time := time st; ready := ready st; heap := heap st; nexth := nexth st; futs := futs st; scopes := v; sstack := sstack st; t_waiter := t_waiter st; t_must := t_must st; t_msg := t_msg st; t_cnt := t_cnt st; delayed := delayed st; md := md st; frames := frames st; todo := todo st; iter := iter st; spin := spin st; spinK := spinK st; ctrl := ctrl st; trace := trace st; g_ext := g_ext st; g_leak := g_leak st; g_floor := g_floor st; g_abort := g_abort st; fixF := fixF st; fallbackF := fallbackF st; g_late := g_late st; g_shbroken := g_shbroken st; g_owed := g_owed st; g_lost := g_lost st |}.
Definition set_sstack (st : state) (v : list nat) : state :=
  {| time := time st; ready := ready st; heap := heap st; nexth := nexth st; futs := futs st; scopes := scopes st; sstack := v; t_waiter := t_waiter st; t_must := t_must st; t_msg := t_msg st; t_cnt := t_cnt st; delayed := delayed st; md := md st; frames := frames st; todo := todo st; iter := iter st; spin := spin st; spinK := spinK st; ctrl := ctrl st; trace := trace st; g_ext := g_ext st; g_leak := g_leak st; g_floor := g_floor st; g_abort := g_abort st; fixF := fixF st; fallbackF := fallbackF st; g_late := g_late st; g_shbroken := g_shbroken st; g_owed := g_owed st; g_lost := g_lost st |}.
Definition set_t_waiter (st : state) (v : option nat) : state :=
  {| time := time st; ready := ready st; heap := heap st; nexth := nexth st; futs := futs st; scopes := scopes st; sstack := sstack st; t_waiter := v; t_must := t_must st; t_msg := t_msg st; t_cnt := t_cnt st; delayed := delayed st; md := md st; frames := frames st; todo := todo st; iter := iter st; spin := spin st; spinK := spinK st; ctrl := ctrl st; trace := trace st; g_ext := g_ext st; g_leak := g_leak st; g_floor := g_floor st; g_abort := g_abort st; fixF := fixF st; fallbackF := fallbackF st; g_late := g_late st; g_shbroken := g_shbroken st; g_owed := g_owed st; g_lost := g_lost st |}.
Definition set_t_must (st : state) (v : bool) : state :=
  {| time := time st; ready := ready st; heap := heap st; nexth := nexth st; futs := futs st; scopes := scopes st; sstack := sstack st; t_waiter := t_waiter st; t_must := v; t_msg := t_msg st; t_cnt := t_cnt st; delayed := delayed st; md := md st; frames := frames st; todo := todo st; iter := iter st; spin := spin st; spinK := spinK st; ctrl := ctrl st; trace := trace st; g_ext := g_ext st; g_leak := g_leak st; g_floor := g_floor st; g_abort := g_abort st; fixF := fixF st; fallbackF := fallbackF st; g_late := g_late st; g_shbroken := g_shbroken st; g_owed := g_owed st; g_lost := g_lost st |}.
Definition set_t_msg (st : state) (v : msg) : state :=
  {| time := time st; ready := ready st; heap := heap st; nexth := nexth st; futs := futs st; scopes := scopes st; sstack := sstack st; t_waiter := t_waiter st; t_must := t_must st; t_msg := v; t_cnt := t_cnt st; delayed := delayed st; md := md st; frames := frames st; todo := todo st; iter := iter st; spin := spin st; spinK := spinK st; ctrl := ctrl st; trace := trace st; g_ext := g_ext st; g_leak := g_leak st; g_floor := g_floor st; g_abort := g_abort st; fixF := fixF st; fallbackF := fallbackF st; g_late := g_late st; g_shbroken := g_shbroken st; g_owed := g_owed st; g_lost := g_lost st |}.
Definition set_t_cnt (st : state) (v : nat) : state :=
  {| time := time st; ready := ready st; heap := heap st; nexth := nexth st; futs := futs st; scopes := scopes st; sstack := sstack st; t_waiter := t_waiter st; t_must := t_must st; t_msg := t_msg st; t_cnt := v; delayed := delayed st; md := md st; frames := frames st; todo := todo st; iter := iter st; spin := spin st; spinK := spinK st; ctrl := ctrl st; trace := trace st; g_ext := g_ext st; g_leak := g_leak st; g_floor := g_floor st; g_abort := g_abort st; fixF := fixF st; fallbackF := fallbackF st; g_late := g_late st; g_shbroken := g_shbroken st; g_owed := g_owed st; g_lost := g_lost st |}.
Definition set_delayed (st : state) (v : option (nat * msg)) : state :=
  {| time := time st; ready := ready st; heap := heap st; nexth := nexth st; futs := futs st; scopes := scopes st; sstack := sstack st; t_waiter := t_waiter st; t_must := t_must st; t_msg := t_msg st; t_cnt := t_cnt st; delayed := v; md := md st; frames := frames st; todo := todo st; iter := iter st; spin := spin st; spinK := spinK st; ctrl := ctrl st; trace := trace st; g_ext := g_ext st; g_leak := g_leak st; g_floor := g_floor st; g_abort := g_abort st; fixF := fixF st; fallbackF := fallbackF st; g_late := g_late st; g_shbroken := g_shbroken st; g_owed := g_owed st; g_lost := g_lost st |}.
Definition set_md (st : state) (v : mode) : state :=
  {| time := time st; ready := ready st; heap := heap st; nexth := nexth st; futs := futs st; scopes := scopes st; sstack := sstack st; t_waiter := t_waiter st; t_must := t_must st; t_msg := t_msg st; t_cnt := t_cnt st; delayed := delayed st; md := v; frames := frames st; todo := todo st; iter := iter st; spin := spin st; spinK := spinK st; ctrl := ctrl st; trace := trace st; g_ext := g_ext st; g_leak := g_leak st; g_floor := g_floor st; g_abort := g_abort st; fixF := fixF st; fallbackF := fallbackF st; g_late := g_late st; g_shbroken := g_shbroken st; g_owed := g_owed st; g_lost := g_lost st |}.
Definition set_frames (st : state) (v : list frame) : state :=
  {| time := time st; ready := ready st; heap := heap st; nexth := nexth st; futs := futs st; scopes := scopes st; sstack := sstack st; t_waiter := t_waiter st; t_must := t_must st; t_msg := t_msg st; t_cnt := t_cnt st; delayed := delayed st; md := md st; frames := v; todo := todo st; iter := iter st; spin := spin st; spinK := spinK st; ctrl := ctrl st; trace := trace st; g_ext := g_ext st; g_leak := g_leak st; g_floor := g_floor st; g_abort := g_abort st; fixF := fixF st; fallbackF := fallbackF st; g_late := g_late st; g_shbroken := g_shbroken st; g_owed := g_owed st; g_lost := g_lost st |}.
Definition set_todo (st : state) (v : nat) : state :=
  {| time := time st; ready := ready st; heap := heap st; nexth := nexth st; futs := futs st; scopes := scopes st; sstack := sstack st; t_waiter := t_waiter st; t_must := t_must st; t_msg := t_msg st; t_cnt := t_cnt st; delayed := delayed st; md := md st; frames := frames st; todo := v; iter := iter st; spin := spin st; spinK := spinK st; ctrl := ctrl st; trace := trace st; g_ext := g_ext st; g_leak := g_leak st; g_floor := g_floor st; g_abort := g_abort st; fixF := fixF st; fallbackF := fallbackF st; g_late := g_late st; g_shbroken := g_shbroken st; g_owed := g_owed st; g_lost := g_lost st |}.
Definition set_iter (st : state) (v : nat) : state :=
  {| time := time st; ready := ready st; heap := heap st; nexth := nexth st; futs := futs st; scopes := scopes st; sstack := sstack st; t_waiter := t_waiter st; t_must := t_must st; t_msg := t_msg st; t_cnt := t_cnt st; delayed := delayed st; md := md st; frames := frames st; todo := todo st; iter := v; spin := spin st; spinK := spinK st; ctrl := ctrl st; trace := trace st; g_ext := g_ext st; g_leak := g_leak st; g_floor := g_floor st; g_abort := g_abort st; fixF := fixF st; fallbackF := fallbackF st; g_late := g_late st; g_shbroken := g_shbroken st; g_owed := g_owed st; g_lost := g_lost st |}.
Definition set_spin (st : state) (v : nat) : state :=
  {| time := time st; ready := ready st; heap := heap st; nexth := nexth st; futs := futs st; scopes := scopes st; sstack := sstack st; t_waiter := t_waiter st; t_must := t_must st; t_msg := t_msg st; t_cnt := t_cnt st; delayed := delayed st; md := md st; frames := frames st; todo := todo st; iter := iter st; spin := v; spinK := spinK st; ctrl := ctrl st; trace := trace st; g_ext := g_ext st; g_leak := g_leak st; g_floor := g_floor st; g_abort := g_abort st; fixF := fixF st; fallbackF := fallbackF st; g_late := g_late st; g_shbroken := g_shbroken st; g_owed := g_owed st; g_lost := g_lost st |}.
Definition set_spinK (st : state) (v : nat) : state :=
  {| time := time st; ready := ready st; heap := heap st; nexth := nexth st; futs := futs st; scopes := scopes st; sstack := sstack st; t_waiter := t_waiter st; t_must := t_must st; t_msg := t_msg st; t_cnt := t_cnt st; delayed := delayed st; md := md st; frames := frames st; todo := todo st; iter := iter st; spin := spin st; spinK := v; ctrl := ctrl st; trace := trace st; g_ext := g_ext st; g_leak := g_leak st; g_floor := g_floor st; g_abort := g_abort st; fixF := fixF st; fallbackF := fallbackF st; g_late := g_late st; g_shbroken := g_shbroken st; g_owed := g_owed st; g_lost := g_lost st |}.
Definition set_ctrl (st : state) (v : list (nat * bool * nat)) : state :=
  {| time := time st; ready := ready st; heap := heap st; nexth := nexth st; futs := futs st; scopes := scopes st; sstack := sstack st; t_waiter := t_waiter st; t_must := t_must st; t_msg := t_msg st; t_cnt := t_cnt st; delayed := delayed st; md := md st; frames := frames st; todo := todo st; iter := iter st; spin := spin st; spinK := spinK st; ctrl := v; trace := trace st; g_ext := g_ext st; g_leak := g_leak st; g_floor := g_floor st; g_abort := g_abort st; fixF := fixF st; fallbackF := fallbackF st; g_late := g_late st; g_shbroken := g_shbroken st; g_owed := g_owed st; g_lost := g_lost st |}.
Definition set_trace (st : state) (v : list event) : state :=
  {| time := time st; ready := ready st; heap := heap st; nexth := nexth st; futs := futs st; scopes := scopes st; sstack := sstack st; t_waiter := t_waiter st; t_must := t_must st; t_msg := t_msg st; t_cnt := t_cnt st; delayed := delayed st; md := md st; frames := frames st; todo := todo st; iter := iter st; spin := spin st; spinK := spinK st; ctrl := ctrl st; trace := v; g_ext := g_ext st; g_leak := g_leak st; g_floor := g_floor st; g_abort := g_abort st; fixF := fixF st; fallbackF := fallbackF st; g_late := g_late st; g_shbroken := g_shbroken st; g_owed := g_owed st; g_lost := g_lost st |}.
Definition set_g_ext (st : state) (v : nat) : state :=
  {| time := time st; ready := ready st; heap := heap st; nexth := nexth st; futs := futs st; scopes := scopes st; sstack := sstack st; t_waiter := t_waiter st; t_must := t_must st; t_msg := t_msg st; t_cnt := t_cnt st; delayed := delayed st; md := md st; frames := frames st; todo := todo st; iter := iter st; spin := spin st; spinK := spinK st; ctrl := ctrl st; trace := trace st; g_ext := v; g_leak := g_leak st; g_floor := g_floor st; g_abort := g_abort st; fixF := fixF st; fallbackF := fallbackF st; g_late := g_late st; g_shbroken := g_shbroken st; g_owed := g_owed st; g_lost := g_lost st |}.
Definition set_g_leak (st : state) (v : nat) : state :=
  {| time := time st; ready := ready st; heap := heap st; nexth := nexth st; futs := futs st; scopes := scopes st; sstack := sstack st; t_waiter := t_waiter st; t_must := t_must st; t_msg := t_msg st; t_cnt := t_cnt st; delayed := delayed st; md := md st; frames := frames st; todo := todo st; iter := iter st; spin := spin st; spinK := spinK st; ctrl := ctrl st; trace := trace st; g_ext := g_ext st; g_leak := v; g_floor := g_floor st; g_abort := g_abort st; fixF := fixF st; fallbackF := fallbackF st; g_late := g_late st; g_shbroken := g_shbroken st; g_owed := g_owed st; g_lost := g_lost st |}.
Definition set_g_floor (st : state) (v : nat) : state :=
  {| time := time st; ready := ready st; heap := heap st; nexth := nexth st; futs := futs st; scopes := scopes st; sstack := sstack st; t_waiter := t_waiter st; t_must := t_must st; t_msg := t_msg st; t_cnt := t_cnt st; delayed := delayed st; md := md st; frames := frames st; todo := todo st; iter := iter st; spin := spin st; spinK := spinK st; ctrl := ctrl st; trace := trace st; g_ext := g_ext st; g_leak := g_leak st; g_floor := v; g_abort := g_abort st; fixF := fixF st; fallbackF := fallbackF st; g_late := g_late st; g_shbroken := g_shbroken st; g_owed := g_owed st; g_lost := g_lost st |}.
Definition set_g_abort (st : state) (v : bool) : state :=
  {| time := time st; ready := ready st; heap := heap st; nexth := nexth st; futs := futs st; scopes := scopes st; sstack := sstack st; t_waiter := t_waiter st; t_must := t_must st; t_msg := t_msg st; t_cnt := t_cnt st; delayed := delayed st; md := md st; frames := frames st; todo := todo st; iter := iter st; spin := spin st; spinK := spinK st; ctrl := ctrl st; trace := trace st; g_ext := g_ext st; g_leak := g_leak st; g_floor := g_floor st; g_abort := v; fixF := fixF st; fallbackF := fallbackF st; g_late := g_late st; g_shbroken := g_shbroken st; g_owed := g_owed st; g_lost := g_lost st |}.
Definition set_fixF (st : state) (v : bool) : state :=
  {| time := time st; ready := ready st; heap := heap st; nexth := nexth st; futs := futs st; scopes := scopes st; sstack := sstack st; t_waiter := t_waiter st; t_must := t_must st; t_msg := t_msg st; t_cnt := t_cnt st; delayed := delayed st; md := md st; frames := frames st; todo := todo st; iter := iter st; spin := spin st; spinK := spinK st; ctrl := ctrl st; trace := trace st; g_ext := g_ext st; g_leak := g_leak st; g_floor := g_floor st; g_abort := g_abort st; fixF := v; fallbackF := fallbackF st; g_late := g_late st; g_shbroken := g_shbroken st; g_owed := g_owed st; g_lost := g_lost st |}.
Definition set_fallbackF (st : state) (v : bool) : state :=
  {| time := time st; ready := ready st; heap := heap st; nexth := nexth st; futs := futs st; scopes := scopes st; sstack := sstack st; t_waiter := t_waiter st; t_must := t_must st; t_msg := t_msg st; t_cnt := t_cnt st; delayed := delayed st; md := md st; frames := frames st; todo := todo st; iter := iter st; spin := spin st; spinK := spinK st; ctrl := ctrl st; trace := trace st; g_ext := g_ext st; g_leak := g_leak st; g_floor := g_floor st; g_abort := g_abort st; fixF := fixF st; fallbackF := v; g_late := g_late st; g_shbroken := g_shbroken st; g_owed := g_owed st; g_lost := g_lost st |}.
Definition set_g_late (st : state) (v : bool) : state :=
  {| time := time st; ready := ready st; heap := heap st; nexth := nexth st; futs := futs st; scopes := scopes st; sstack := sstack st; t_waiter := t_waiter st; t_must := t_must st; t_msg := t_msg st; t_cnt := t_cnt st; delayed := delayed st; md := md st; frames := frames st; todo := todo st; iter := iter st; spin := spin st; spinK := spinK st; ctrl := ctrl st; trace := trace st; g_ext := g_ext st; g_leak := g_leak st; g_floor := g_floor st; g_abort := g_abort st; fixF := fixF st; fallbackF := fallbackF st; g_late := v; g_shbroken := g_shbroken st; g_owed := g_owed st; g_lost := g_lost st |}.
Definition set_g_shbroken (st : state) (v : bool) : state :=
  {| time := time st; ready := ready st; heap := heap st; nexth := nexth st; futs := futs st; scopes := scopes st; sstack := sstack st; t_waiter := t_waiter st; t_must := t_must st; t_msg := t_msg st; t_cnt := t_cnt st; delayed := delayed st; md := md st; frames := frames st; todo := todo st; iter := iter st; spin := spin st; spinK := spinK st; ctrl := ctrl st; trace := trace st; g_ext := g_ext st; g_leak := g_leak st; g_floor := g_floor st; g_abort := g_abort st; fixF := fixF st; fallbackF := fallbackF st; g_late := g_late st; g_shbroken := v; g_owed := g_owed st; g_lost := g_lost st |}.
Definition set_g_owed (st : state) (v : bool) : state :=
  {| time := time st; ready := ready st; heap := heap st; nexth := nexth st; futs := futs st; scopes := scopes st; sstack := sstack st; t_waiter := t_waiter st; t_must := t_must st; t_msg := t_msg st; t_cnt := t_cnt st; delayed := delayed st; md := md st; frames := frames st; todo := todo st; iter := iter st; spin := spin st; spinK := spinK st; ctrl := ctrl st; trace := trace st; g_ext := g_ext st; g_leak := g_leak st; g_floor := g_floor st; g_abort := g_abort st; fixF := fixF st; fallbackF := fallbackF st; g_late := g_late st; g_shbroken := g_shbroken st; g_owed := v; g_lost := g_lost st |}.
Definition set_g_lost (st : state) (v : bool) : state :=
  {| time := time st; ready := ready st; heap := heap st; nexth := nexth st; futs := futs st; scopes := scopes st; sstack := sstack st; t_waiter := t_waiter st; t_must := t_must st; t_msg := t_msg st; t_cnt := t_cnt st; delayed := delayed st; md := md st; frames := frames st; todo := todo st; iter := iter st; spin := spin st; spinK := spinK st; ctrl := ctrl st; trace := trace st; g_ext := g_ext st; g_leak := g_leak st; g_floor := g_floor st; g_abort := g_abort st; fixF := fixF st; fallbackF := fallbackF st; g_late := g_late st; g_shbroken := g_shbroken st; g_owed := g_owed st; g_lost := v |}.

(* ================= generic helpers ================= *)
Fixpoint upd {A} (l : list A) (i : nat) (x : A) : list A :=
  match l, i with
  | [], _ => []
  | _ :: t, 0 => x :: t
  | h :: t, S i => h :: upd t i x
  end.

Definition dummy_h : handle := mkH 0 HDelayedPop true.
Definition dummy_t : timer := mkT 0 dummy_h.
Definition dummy_f : fut := mkFut FRes [].
Definition dummy_s : scope := mkScope false 0 0 SExited false false None None None.

Definition get_fut (st : state) (f : nat) : fut := nth f (futs st) dummy_f.
Definition get_scope (st : state) (s : nat) : scope := nth s (scopes st) dummy_s.
Definition put_fut (st : state) (f : nat) (x : fut) : state := set_futs st (upd (futs st) f x).
Definition put_scope (st : state) (s : nat) (x : scope) : state := set_scopes st (upd (scopes st) s x).

Definition emit (st : state) (e : event) : state := set_trace st (e :: trace st).

(* ================= heapq (exactly CPython's algorithm; only `<` on _when is used) ================= *)
Definition tlt (a b : timer) : bool := tm_when a <? tm_when b.

Fixpoint siftdown (fuel : nat) (hp : list timer) (startpos pos : nat) (newitem : timer) : list timer :=
  match fuel with
  | 0 => upd hp pos newitem
  | S fu =>
      if startpos <? pos then
        let parentpos := (pos - 1) / 2 in
        let parent := nth parentpos hp dummy_t in
        if tlt newitem parent then siftdown fu (upd hp pos parent) startpos parentpos newitem
        else upd hp pos newitem
      else upd hp pos newitem
  end.

Definition heappush (hp : list timer) (item : timer) : list timer :=
  let hp' := hp ++ [item] in siftdown (length hp') hp' 0 (length hp) item.

Fixpoint siftup_loop (fuel : nat) (hp : list timer) (pos endpos : nat) : list timer * nat :=
  match fuel with
  | 0 => (hp, pos)
  | S fu =>
      let childpos := 2 * pos + 1 in
      if childpos <? endpos then
        let rightpos := childpos + 1 in
        let c := if (rightpos <? endpos) && negb (tlt (nth childpos hp dummy_t) (nth rightpos hp dummy_t))
                 then rightpos else childpos in
        siftup_loop fu (upd hp pos (nth c hp dummy_t)) c endpos
      else (hp, pos)
  end.

Definition siftup (hp : list timer) (pos : nat) : list timer :=
  let newitem := nth pos hp dummy_t in
  let '(hp', p) := siftup_loop (length hp) hp pos (length hp) in
  siftdown (length hp) hp' pos p newitem.

Definition heappop (hp : list timer) : option (timer * list timer) :=
  match rev hp with
  | [] => None
  | lastelt :: r =>
      match rev r with
      | [] => Some (lastelt, [])
      | top :: rest => Some (top, siftup (lastelt :: rest) 0)
      end
  end.

(* ================= handles ================= *)
Definition mark_h (hid : nat) (h : handle) : handle :=
  if Nat.eqb (h_id h) hid then mkH (h_id h) (h_kind h) true else h.
Definition mark_t (hid : nat) (t : timer) : timer := mkT (tm_when t) (mark_h hid (tm_h t)).

(* Handle.cancel(): the handle stays where it is (ready queue or heap) and is skipped when reached *)
Definition cancel_handle (st : state) (hid : nat) : state :=
  set_heap (set_ready st (map (mark_h hid) (ready st))) (map (mark_t hid) (heap st)).
Definition cancel_ohandle (st : state) (h : option nat) : state :=
  match h with Some hid => cancel_handle st hid | None => st end.

(* loop.call_soon *)
Definition call_soon (st : state) (k : hkind) : state * nat :=
  let hid := nexth st in
  (set_nexth (set_ready st (ready st ++ [mkH hid k false])) (S hid), hid).
(* loop.call_at *)
Definition call_at (st : state) (when : nat) (k : hkind) : state * nat :=
  let hid := nexth st in
  (set_nexth (set_heap st (heappush (heap st) (mkT when (mkH hid k false)))) (S hid), hid).

(* ================= futures ================= *)
Definition fut_pending (st : state) (f : nat) : bool :=
  match f_st (get_fut st f) with FPend => true | _ => false end.
Definition fut_done (st : state) (f : nat) : bool := negb (fut_pending st f).

Definition new_fut (st : state) : state * nat :=
  let f := length (futs st) in (set_futs st (futs st ++ [mkFut FPend []]), f).

Definition add_cb (st : state) (f : nat) (c : cb) : state :=
  let x := get_fut st f in put_fut st f (mkFut (f_st x) (f_cbs x ++ [c])).

Definition remove_cb (st : state) (f : nat) (c : cb) : state :=
  let x := get_fut st f in put_fut st f (mkFut (f_st x) (filter (fun c' => negb (cb_eqb c c')) (f_cbs x))).

Fixpoint schedule_cbs (st : state) (f : nat) (cbs : list cb) : state :=
  match cbs with
  | [] => st
  | c :: cbs' => schedule_cbs (fst (call_soon st (HFutCb f c))) f cbs'
  end.

(* Future.cancel(msg) / Future.set_result: no-ops (False) unless pending *)
Definition fut_finish (st : state) (f : nat) (s : fstate) : state * bool :=
  let x := get_fut st f in
  match f_st x with
  | FPend => (schedule_cbs (put_fut st f (mkFut s [])) f (f_cbs x), true)
  | _ => (st, false)
  end.
Definition fut_cancel (st : state) (f : nat) (m : msg) : state * bool := fut_finish st f (FCanc m).
Definition fut_set_result (st : state) (f : nat) : state := fst (fut_finish st f FRes).

(* asyncio.shield(inner) for a pending inner future *)
Definition mk_shield (st : state) (inner : nat) : state * nat :=
  let '(st, outer) := new_fut st in
  let st := add_cb st inner (CbInner outer) in
  let st := add_cb st outer (CbOuter inner) in
  (st, outer).

(* ================= the task ================= *)
Definition task_done (st : state) : bool :=
  match md st with MDone _ => true | _ => false end.
Definition task_is_current (st : state) : bool :=
  match md st with MRun _ => true | _ => false end.

(* Task.cancel(msg) *)
Definition task_cancel (st : state) (m : msg) : state :=
  if task_done st then st else
  let st := set_t_cnt st (S (t_cnt st)) in
  let '(st, ok) := match t_waiter st with
                   | Some f => fut_cancel st f m
                   | None => (st, false)
                   end in
  if ok then st else set_t_msg (set_t_must st true) m.

(* Task.uncancel() *)
Definition task_uncancel (st : state) : state :=
  match t_cnt st with
  | 0 => set_g_floor st (S (g_floor st))
  | S n => set_t_cnt st n
  end.

(* ================= CancelScope ================= *)
Definition upd_scope (st : state) (k : nat) (f : scope -> scope) : state := put_scope st k (f (get_scope st k)).
Definition sc_set_ch (ch : option nat) (s : scope) : scope :=
  mkScope (s_host s) (s_hostc s) (s_calls s) (s_state s) (s_called s) (s_caught s) (s_deadline s) (s_th s) ch.
Definition sc_set_th (th : option nat) (s : scope) : scope :=
  mkScope (s_host s) (s_hostc s) (s_calls s) (s_state s) (s_called s) (s_caught s) (s_deadline s) th (s_ch s).
Definition sc_inc_calls (s : scope) : scope :=
  mkScope (s_host s) (s_hostc s) (S (s_calls s)) (s_state s) (s_called s) (s_caught s) (s_deadline s) (s_th s) (s_ch s).
Definition sc_set_called (s : scope) : scope :=
  mkScope (s_host s) (s_hostc s) (s_calls s) (s_state s) true (s_caught s) (s_deadline s) None (s_ch s).
Definition sc_set_deadline (dl : option nat) (s : scope) : scope :=
  mkScope (s_host s) (s_hostc s) (s_calls s) (s_state s) (s_called s) (s_caught s) dl None (s_ch s).

(* the tail of __deliver_cancellation: re-arm for the next loop turn, or stop *)
Definition deliver_arm (st : state) (k : nat) (retry : bool) : state :=
  if retry then upd_scope (fst (call_soon st (HDeliver k))) k (sc_set_ch (Some (nexth st)))
  else upd_scope st k (sc_set_ch None).
(* host_task.cancel(msg=self.__cancellation_id()); self.__host_task_cancel_calls += 1 *)
Definition deliver_issue (st : state) (k : nat) : state :=
  upd_scope (task_cancel st (Some k)) k sc_inc_calls.

Definition deliver (st : state) (k : nat) : state :=
  if negb (s_host (get_scope st k)) then st else
  match delayed st with
  | Some (_, m) => deliver_arm st k (msg_eqb m (Some k))
  | None =>
      if negb (t_must st) && negb (task_is_current st) then deliver_arm (deliver_issue st k) k true
      else deliver_arm st k true
  end.

Definition scope_cancel (st : state) (k : nat) : state :=
  if s_called (get_scope st k) then st else
  deliver (upd_scope (cancel_ohandle st (s_th (get_scope st k))) k sc_set_called) k.

Definition setup_timeout (st : state) (k : nat) : state :=
  match s_deadline (get_scope st k) with
  | None => st
  | Some dl =>
      if dl <=? time st then scope_cancel st k
      else upd_scope (fst (call_at st dl (HScopeCancel k))) k (sc_set_th (Some (nexth st)))
  end.

Definition scope_reschedule (st : state) (k : nat) (when : option nat) : state :=
  let s := get_scope st k in
  let st' := upd_scope (cancel_ohandle st (s_th s)) k (sc_set_deadline when) in
  match s_state s with
  | SEntered => if s_called s then st' else setup_timeout st' k
  | _ => st'
  end.

(* CancelScope(deadline=...) [+ cancel() before entering] + __enter__ *)
Definition scope_enter (st : state) (pre : bool) (deadline : option nat) : state * nat :=
  let k := length (scopes st) in
  let st := set_scopes st (scopes st ++ [mkScope true (t_cnt st) 0 SEntered pre false deadline None None]) in
  let st := set_sstack st (k :: sstack st) in
  (if pre then deliver st k else setup_timeout st k, k).

(* the while loop of __uncancel_task: (calls left, new cancelling(), uncancels that hit zero, returned True) *)
Fixpoint uncancel_loop (calls cnt hostc floor : nat) : nat * nat * nat * bool :=
  match calls with
  | 0 => (0, cnt, floor, false)
  | S c =>
      let '(cnt', floor') := match cnt with 0 => (0, S floor) | S n => (n, floor) end in
      if cnt' <=? hostc then (c, cnt', floor', true) else uncancel_loop c cnt' hostc floor'
  end.

(* _check_pending_cancellation *)
Fixpoint first_called (st : state) (stack : list nat) : option nat :=
  match stack with
  | [] => None
  | k :: rest => if s_called (get_scope st k) then Some k else first_called st rest
  end.
Definition check_pending (st : state) : state :=
  match first_called st (sstack st) with
  | Some k => match s_ch (get_scope st k) with None => deliver st k | Some _ => st end
  | None => st
  end.

(* the `if self.__cancel_called:` part of __exit__ that looks at the exception:
   (state, __host_task_cancel_calls left, __cancelled_caught) *)
Definition exit_called (st : state) (k : nat) (s : scope) (exc : option exn) : state * nat * bool :=
  match exc with
  | Some (ECancel m) =>
      let '(calls, cnt, floor, hit) := uncancel_loop (s_calls s) (t_cnt st) (s_hostc s) (g_floor st) in
      (set_g_floor (set_t_cnt st cnt) floor, calls,
       if hit then true else fallbackF st && msg_eqb (Some k) m)   (* `return self.__cancellation_id() in exc.args` *)
  | Some _ => (st, s_calls s, false)
  | None => (st, s_calls s, s_caught s)
  end.
(* ... and the part that drops a delayed cancellation carrying this scope's id *)
Definition exit_drop_delayed (st : state) (k : nat) : state :=
  match delayed st with
  | Some (h, m) => if msg_eqb m (Some k) then cancel_handle (set_delayed st None) h else st
  | None => st
  end.

(* Proposed repair of finding C13-F1 (meta/fixes/C13_uncancel_leftover.diff), present in the code iff fixF:
     while self.__host_task_cancel_calls: self.__host_task_cancel_calls -= 1; host_task.uncancel()
   inside `if self.__cancel_called:` after the cancelled_caught computation.  Returns the calls still not taken back. *)
Definition exit_takeback (st : state) (called : bool) (calls : nat) : state * nat :=
  if fixF st && called then
    (set_g_floor (set_t_cnt st (t_cnt st - calls)) (g_floor st + (calls - t_cnt st)), 0)
  else (st, calls).

(* CancelScope.__exit__(exc); returns the state and the return value (cancelled_caught).
   `if self.__state is not ENTERED: raise RuntimeError` -- __host_task is set exactly while the state is ENTERED; the
   branch is unreachable for the programs of this language (flagged by g_abort). *)
Definition scope_exit (st : state) (k : nat) (exc : option exn) : state * bool :=
  let s := get_scope st k in
  if negb (s_host s) then (set_g_abort st true, false) else
  let st := cancel_ohandle (cancel_ohandle st (s_th s)) (s_ch s) in
  let st := set_sstack st (tl (sstack st)) in
  let r := if s_called s then exit_called st k s exc else (st, s_calls s, s_caught s) in
  let st := if s_called s then exit_drop_delayed (fst (fst r)) k else fst (fst r) in
  let caught := snd r in
  let '(st, calls) := exit_takeback st (s_called s) (snd (fst r)) in
  let st := put_scope st k (mkScope false (s_hostc s) calls SExited (s_called s) caught (s_deadline s) None None) in
  let st := set_g_leak st (g_leak st + calls) in
  (check_pending st, caught).

(* CancelScope._reschedule_delayed_task_cancel; false = AssertionError("called too many times") *)
Definition reschedule_delayed (st : state) (m : msg) : state * bool :=
  match delayed st with
  | Some _ => (st, false)
  | None =>
      let '(st, h) := call_soon st (HDelayedCancel m) in
      let st := set_delayed st (Some (h, m)) in
      (fst (call_soon st HDelayedPop), true)
  end.

(* ================= yielding and resuming through cancel_shielded_await drivers ================= *)
Inductive yv := YNone | YFut (f : nat).
Inductive resume := RDeliver (v : option exn) | RYield (y : yv) | RAbort.

(* a value yielded by the innermost coroutine travels outwards through every enclosing shield driver *)
Fixpoint yield_out (k : list frame) (y : yv) (st : state) : state * list frame * yv :=
  match k with
  | [] => (st, [], y)
  | FShield id _ last _ :: k' =>
      match y with
      | YNone =>
          let '(st, k'', y') := yield_out k' YNone st in (st, FShield id ShNone last true :: k'', y')
      | YFut f =>
          let '(st, o) := mk_shield st f in
          let '(st, k'', y') := yield_out k' (YFut o) st in (st, FShield id (ShFut f o) last true :: k'', y')
      end
  | fr :: k' =>
      let '(st, k'', y') := yield_out k' y st in (st, fr :: k'', y')
  end.

Definition cancel_msg_of (v : option exn) (last : option msg) : option msg :=
  match v with Some (ECancel m) => Some m | _ => last end.

(* the tail of one turn of the driver's loop: re-issue the swallowed cancellation, then resume the inner coroutine with
   coroutine.send(None) (thr = None) or coroutine.throw(exc_to_throw) *)
Definition shield_proceed (st : state) (id : nat) (last : option msg) (outer : list frame) (thr : option exn)
                          : state * list frame * resume :=
  match last with
  | Some m =>
      let '(st, ok) := reschedule_delayed st m in
      if ok then (st, FShield id ShRun None true :: outer, RDeliver thr)
      else (set_g_abort st true, outer, RAbort)
  | None => (st, FShield id ShRun None true :: outer, RDeliver thr)
  end.

(* exc_to_throw when the awaited inner future is done: its exception, if it failed *)
Definition fut_exc (st : state) (f : nat) : option exn :=
  match f_st (get_fut st f) with FExc => Some EAssert | _ => None end.

(* what one driver does when its own yield point is resumed with v *)
Definition shield_resume (st : state) (id : nat) (w : shwait) (last : option msg) (v : option exn)
                         (outer : list frame) : state * list frame * resume :=
  let last := cancel_msg_of v last in
  match w with
  | ShFut f _ =>
      match v with
      | Some ETimeout | Some EAssert =>
          (* `yield from asyncio.shield(to_yield)` raised something else than CancelledError (the inner future
             failed): the generic handler makes it exc_to_throw *)
          shield_proceed st id last outer v
      | _ =>
          if fut_done st f then shield_proceed st id last outer (fut_exc st f)    (* to_yield.result() *)
          else let '(st, o) := mk_shield st f in
               let '(st, outer', y') := yield_out outer (YFut o) st in
               (st, FShield id (ShFut f o) last true :: outer', RYield y')
      end
  | _ => shield_proceed st id last outer (match v with Some (ECancel _) => None | _ => v end)
  end.

(* Task.__step(v): the value enters at the outermost suspended driver and works its way inwards *)
Fixpoint resume_in (k : list frame) (v : option exn) (st : state) : state * list frame * resume :=
  match k with
  | [] => (st, [], RDeliver v)
  | fr :: k' =>
      let '(st, k'', r) := resume_in k' v st in
      match r with
      | RDeliver v' =>
          match fr with
          | FShield id w last _ => shield_resume st id w last v' k''
          | _ => (st, fr :: k'', RDeliver v')
          end
      | RYield y => (st, fr :: k'', RYield y)
      | RAbort => (st, k'', RAbort)
      end
  end.

(* what Task.__step does with the value the coroutine yielded *)
Definition task_yield (st : state) (y : yv) : state :=
  match y with
  | YNone => fst (call_soon st HStep)
  | YFut f =>
      let st := add_cb st f CbWake in
      let st := set_t_waiter st (Some f) in
      if t_must st then
        let '(st, ok) := fut_cancel st f (t_msg st) in
        if ok then set_t_must st false else st
      else st
  end.

(* the running coroutine awaits: push the wait frame, yield outwards, hand the value to the task *)
Definition do_yield (st : state) (w : wait) (y : yv) : state :=
  let '(st, k, y') := yield_out (FWait w :: frames st) y st in
  let st := set_frames st k in
  set_md (task_yield st y') MLoop.

(* ================= one statement ================= *)
Definition nth_scope (st : state) (k : nat) : option nat := nth_error (sstack st) k.

Definition catches (c : ckind) (e : exn) : bool :=
  match c, e with
  | CAll, _ => true
  | CCancel, ECancel _ => true
  | CTimeout, ETimeout => true
  | _, _ => false
  end.

Definition push (st : state) (f : frame) : state := set_frames st (f :: frames st).

(* the statement id of the frame that opened scope sid *)
Fixpoint scope_node (k : list frame) (sid : nat) : nat :=
  match k with
  | [] => 0
  | FScope id _ s :: k' => if Nat.eqb s sid then id else scope_node k' sid
  | _ :: k' => scope_node k' sid
  end.

Definition exec (st : state) (p : prog) : state :=
  match p with
  | PSkip => set_md st (MRun CRet)
  | PSeq p q => set_md (push st (FSeq q)) (MRun (CExec p))
  | PSleep id 0 => do_yield (emit st (EvStart id (time st))) (WYield id) YNone
  | PSleep id d =>
      let st := emit st (EvStart id (time st)) in
      let '(st, f) := new_fut st in
      let '(st, h) := call_at st (time st + d) (HSetRes f) in
      do_yield st (WSleep id f h) (YFut f)
  | PFail id d =>
      let st := emit st (EvStart id (time st)) in
      let '(st, f) := new_fut st in
      let '(st, h) := call_at st (time st + d) (HSetExc f) in
      do_yield st (WSleep id f h) (YFut f)
  | PCheckpoint id => do_yield (emit st (EvStart id (time st))) (WYield id) YNone
  | PShYield id => do_yield (emit st (EvStart id (time st))) (WShYield id) YNone
  | PBlock d => set_md (set_time st (time st + d)) (MRun CRet)
  | PScope id kind pre delay body =>
      let dl := match delay with Some d => Some (time st + d) | None => None end in
      let '(st, sid) := scope_enter st pre dl in
      let st := emit st (EvStart id (time st)) in
      set_md (push st (FScope id kind sid)) (MRun (CExec body))
  | PShield id body =>
      let st := emit st (EvStart id (time st)) in
      set_md (push st (FShield id ShRun None false)) (MRun (CExec body))
  | PCancel k =>
      let st := match nth_scope st k with
                | Some sid => emit (scope_cancel st sid) (EvCancel (scope_node (frames st) sid) (time st))
                | None => st
                end in
      set_md st (MRun CRet)
  | PResched k d =>
      let when := match d with Some d => Some (time st + d) | None => None end in
      let st := match nth_scope st k with
                | Some sid => emit (scope_reschedule st sid when) (EvResched (scope_node (frames st) sid) (time st) when)
                | None => st
                end in
      set_md st (MRun CRet)
  | PCatch id c body => set_md (push st (FCatch id c)) (MRun (CExec body))
  end.

Definition finish (st : state) (r : option exn) : state :=
  (* Task.__step_run_and_handle_result: StopIteration with _must_cancel set cancels the task *)
  match r with
  | None => if t_must st then set_md (set_t_must st false) (MDone (Some (ECancel (t_msg st))))
            else set_md st (MDone None)
  | Some e => set_md st (MDone (Some e))
  end.

(* a frame receives the normal completion of what was above it *)
Definition ret (st : state) : state :=
  match frames st with
  | [] => finish st None
  | fr :: k =>
      let st := set_frames st k in
      match fr with
      | FStart p => set_md st (MRun (CExec p))
      | FSeq q => set_md st (MRun (CExec q))
      | FScope id kind sid =>
          let '(st, sw) := scope_exit st sid None in
          let s := get_scope st sid in
          let st := emit st (EvExit id (time st) (s_called s) (s_caught s) (t_cnt st) sw 0) in
          match kind with
          | KTimeout => if s_caught s then set_md st (MRun (CRaise ETimeout)) else set_md st (MRun CRet)
          | KMoveOn => set_md st (MRun CRet)
          end
      | FShield id _ _ y =>
          let st := if y then check_pending st else st in
          set_md (emit st (EvDone id (time st))) (MRun CRet)
      | FCatch _ _ => set_md st (MRun CRet)
      | FWait _ => set_md st (MRun CRet)
      end
  end.

(* a frame receives an exception from what was above it *)
Definition raise_ (st : state) (e : exn) : state :=
  match frames st with
  | [] => finish st (Some e)
  | fr :: k =>
      let st := set_frames st k in
      match fr with
      | FScope id kind sid =>
          let '(st, sw) := scope_exit st sid (Some e) in
          let s := get_scope st sid in
          let st := emit st (EvExit id (time st) (s_called s) (s_caught s) (t_cnt st) sw (exn_code e)) in
          match kind with
          | KTimeout => if s_caught s then set_md st (MRun (CRaise ETimeout)) else set_md st (MRun (CRaise e))
          | KMoveOn => if sw then set_md st (MRun CRet) else set_md st (MRun (CRaise e))
          end
      | FShield id _ _ y => set_md (if y then check_pending st else st) (MRun (CRaise e))
      | FCatch id c =>
          if catches c e then set_md (emit st (EvCatch id (time st) (exn_code e))) (MRun CRet)
          else set_md st (MRun (CRaise e))
      | _ => set_md st (MRun (CRaise e))
      end
  end.

(* the innermost await point receives the value of the resumption *)
Definition wake (st : state) (w : wait) (v : option exn) : state :=
  match w, v with
  | WYield id, None => set_md (emit st (EvDone id (time st))) (MRun CRet)
  | WYield _, Some e => set_md st (MRun (CRaise e))
  | WSleep id _ h, None => set_md (emit (cancel_handle st h) (EvDone id (time st))) (MRun CRet)
  | WSleep _ _ h, Some e => set_md (cancel_handle st h) (MRun (CRaise e))
  | WShYield id, Some (ECancel m) =>
      let '(st, ok) := reschedule_delayed st m in
      if ok then set_md (emit st (EvDone id (time st))) (MRun CRet)
      else set_md (set_g_abort st true) (MRun (CRaise EAssert))
  | WShYield id, None => set_md (emit st (EvDone id (time st))) (MRun CRet)
  | WShYield _, Some e => set_md st (MRun (CRaise e))
  end.

(* Instrumentation only (nothing reads these flags): what kind of resumption reaches the innermost await point.
     g_shbroken: an exception was delivered to a coroutine driven by cancel_shielded_await;
     g_late:     an await point outside every shield resumed normally although an enclosing scope had cancel_called;
     g_owed:     a controller cancellation was accepted while the task was inside a shield / shielded yield and has
                 not been delivered since;
     g_lost:     an await point outside every shield resumed normally while such a cancellation was owed. *)
Definition is_shield (f : frame) : bool := match f with FShield _ _ _ _ => true | _ => false end.
Definition observe_resumption (st : state) (k : list frame) (v : option exn) : state :=
  let shielded := existsb is_shield k in
  let shy := match k with FWait (WShYield _) :: _ => true | _ => false end in
  if shielded then (match v with Some _ => set_g_shbroken st true | None => st end)
  else if shy then st
  else match v with
       | None =>
           let st := match first_called st (sstack st) with Some _ => set_g_late st true | None => st end in
           if g_owed st then set_g_lost st true else st
       | Some (ECancel None) => set_g_owed st false      (* a foreign cancellation reaches the program *)
       | Some _ => st
       end.

(* Task.__step(exc) / Task.__wakeup *)
Definition task_step (st : state) (v : option exn) : state :=
  let '(st, v) :=
    if t_must st then
      (set_t_must st false, match v with Some (ECancel m) => Some (ECancel m) | _ => Some (ECancel (t_msg st)) end)
    else (st, v) in
  let st := set_t_waiter st None in
  let st := set_md st (MRun CRet) in       (* the task is the current task from here on *)
  let '(st, k, r) := resume_in (frames st) v st in
  let st := set_frames st k in
  match r with
  | RYield y => set_md (task_yield st y) MLoop
  | RAbort => set_md st (MRun (CRaise EAssert))
  | RDeliver v' =>
      let st := observe_resumption st k v' in
      match k with
      | FWait w :: k' => wake (set_frames st k') w v'
      | FStart p :: k' =>
          match v' with
          | None => set_md (set_frames st k') (MRun (CExec p))
          | Some e => set_md (set_frames st k') (MRun (CRaise e))
          end
      | _ => set_md st MDead
      end
  end.

(* ================= handles ================= *)
Definition run_cb (st : state) (f : nat) (c : cb) : state :=
  match c with
  | CbWake =>
      task_step st (match f_st (get_fut st f) with FCanc m => Some (ECancel m) | FExc => Some EAssert | _ => None end)
  | CbInner outer =>
      match f_st (get_fut st outer) with
      | FCanc _ => st
      | _ => match f_st (get_fut st f) with
             | FCanc _ => fst (fut_cancel st outer None)
             | FExc => fst (fut_finish st outer FExc)
             | _ => fut_set_result st outer
             end
      end
  | CbOuter inner =>
      if fut_done st inner then st else remove_cb st inner (CbInner f)
  end.

(* the controller's task.cancel() is accepted: count it, log it, and note (instrumentation) whether the task is inside
   ignore_cancellation / a shielded yield at that moment, i.e. whether the request will have to be re-delivered *)
Definition in_shield (st : state) : bool :=
  existsb is_shield (frames st) || match frames st with FWait (WShYield _) :: _ => true | _ => false end.
Definition note_ext (st : state) : state :=
  let st := emit (set_g_ext st (S (g_ext st)))
                 (EvExt (time st) (length (filter (fun k => s_called (get_scope st k)) (sstack st))) (in_shield st)) in
  if in_shield st then set_g_owed st true else st.

Definition run_handle (st : state) (k : hkind) : state :=
  match k with
  | HStep => task_step st None
  | HFutCb f c => run_cb st f c
  | HSetRes f => match f_st (get_fut st f) with FCanc _ => st | _ => fut_set_result st f end
  | HSetExc f => fst (fut_finish st f FExc)
  | HScopeCancel s => scope_cancel st s
  | HDeliver s => deliver st s
  | HDelayedCancel m => if task_done st then st else task_cancel (task_uncancel st) m
  | HDelayedPop => set_delayed st None
  | HExt => if task_done st then st else task_cancel (note_ext st) None
  | HActor k =>
      (* asyncio.current_task() is that other task: neither None nor the host task *)
      match nth_scope st k with
      | Some sid => emit (scope_cancel st sid) (EvActor (scope_node (frames st) sid) (time st))
      | None => st
      end
  end.

(* ================= BaseEventLoop._run_once ================= *)
Fixpoint drop_cancelled_heads (fuel : nat) (hp : list timer) : list timer :=
  match fuel with
  | 0 => hp
  | S fu =>
      match hp with
      | t :: _ => if h_canc (tm_h t) then
                    match heappop hp with Some (_, hp') => drop_cancelled_heads fu hp' | None => hp end
                  else hp
      | [] => hp
      end
  end.

Fixpoint move_due (fuel : nat) (now : nat) (hp : list timer) (rd : list handle) : list timer * list handle :=
  match fuel with
  | 0 => (hp, rd)
  | S fu =>
      match hp with
      | t :: _ => if tm_when t <=? now then
                    match heappop hp with
                    | Some (t', hp') => move_due fu now hp' (rd ++ [tm_h t'])
                    | None => (hp, rd)
                    end
                  else (hp, rd)
      | [] => (hp, rd)
      end
  end.

Fixpoint inject (it : nat) (c : list (nat * bool * nat)) (rd : list handle) (nh : nat) : list handle * nat :=
  match c with
  | [] => (rd, nh)
  | (n, front, act) :: c' =>
      if Nat.eqb n it then
        let h := mkH nh (match act with 0 => HExt | S k => HActor k end) false in
        inject it c' (if front then h :: rd else rd ++ [h]) (S nh)
      else inject it c' rd nh
  end.

Definition begin_iter (st : state) : state :=
  let it := S (iter st) in
  let st := set_iter st it in
  let '(rd, nh) := inject it (ctrl st) (ready st) (nexth st) in
  let st := set_nexth (set_ready st rd) nh in
  let hp := drop_cancelled_heads (length (heap st)) (heap st) in
  let st := set_heap st hp in
  match ready st, hp with
  | [], [] => set_md st MDead                        (* select(None): the loop would block forever *)
  | _, _ =>
      let st :=
        match ready st with
        | [] => match hp with
                | t :: _ => set_spin (set_time st (Nat.max (time st) (tm_when t))) 0
                | [] => st
                end
        | _ :: _ =>
            (* busy iteration: after spinK consecutive ones the clock has reached the next timer *)
            let sp := S (spin st) in
            match hp with
            | t :: _ => if negb (Nat.eqb (spinK st) 0) && (spinK st <=? sp)
                        then set_spin (set_time st (Nat.max (time st) (tm_when t))) 0
                        else set_spin st sp
            | [] => set_spin st sp
            end
        end in
      let '(hp', rd') := move_due (length hp) (time st) hp (ready st) in
      let st := set_ready (set_heap st hp') rd' in
      set_todo st (length rd')
  end.

Definition run_next (st : state) : state :=
  match ready st with
  | [] => st
  | h :: rd =>
      let st := set_ready st rd in
      if h_canc h then st else run_handle st (h_kind h)
  end.

Definition step (st : state) : state :=
  match md st with
  | MDone _ | MDead => st
  | MRun (CExec p) => exec st p
  | MRun CRet => ret st
  | MRun (CRaise e) => raise_ st e
  | MLoop =>
      match todo st with
      | 0 => begin_iter st
      | S n => run_next (set_todo st n)
      end
  end.

Fixpoint run_steps (fuel : nat) (st : state) : state :=
  match fuel with
  | 0 => st
  | S fu => match md st with
            | MDone _ | MDead => st
            | _ => run_steps fu (step st)
            end
  end.

Fixpoint push_timers (ts : list nat) (st : state) : state :=
  match ts with
  | [] => st
  | t :: ts' => push_timers ts' (fst (call_at st t HExt))
  end.

(* loop.create_task(program()); controller timers call_at(t, task.cancel) registered right after, in order *)
Definition init (fx fb : bool) (p : prog) (timers : list nat) (turns : list (nat * bool * nat)) (k : nat) : state :=
  let st := mkState 0 [mkH 0 HStep false] [] 1 [] [] [] None false None 0 None MLoop [FStart p] 0 0 0 k turns []
                    0 0 0 false fx fb false false false false in
  push_timers timers st.

(* ================= observation functions used in the statements of the theorems ================= *)
(* cancel requests a scope has issued and not yet taken back with task.uncancel(): only while it is active *)
Definition owed (s : scope) : nat := if s_host s then s_calls s else 0.
Fixpoint owed_sum (l : list scope) : nat := match l with [] => 0 | s :: l' => owed s + owed_sum l' end.
