(* Executable model of lowlevel/api_async/backend/_common/fair_lock.py (class FairLock).  No proofs here.

   Code state        : _locked (bool), _waiters (deque of events; each event has its "set" flag).
   Ghost state       : who holds the lock, arrival tickets, the order in which tickets acquired, cancelled tickets.
                       The code-state transitions never read the ghost fields; the ghost fields only restrict which
                       labels are *enabled* (a task is sequential: it calls acquire() only when it neither waits nor
                       holds; release() is called by a holder -- `async with lock`).

   One label = one atomic piece of FairLock code between two awaits:
     FAcquire t : task t calls acquire(): fast path (takes the lock) or parks a fresh, unset event at the back.
     FResume  t : t's `await waiter.wait()` returns (its event is set): `_waiters.remove(waiter)`, `_locked = True`.
     FCancel  t : t's `await waiter.wait()` raises (cancellation delivered, whether or not the event was set meanwhile):
                  `_waiters.remove(waiter)`; `if not self._locked: self._wake_up_first()`; re-raise.
     FRelease t : holder t calls release(): `_locked = False; _wake_up_first()`.                                  *)
From Coq Require Import List Arith Bool.
Import ListNotations.

Definition tid := nat.

Record waiter := mkW { w_tid : tid; w_ticket : nat; w_set : bool }.

Record fl := mkFL {
  fl_locked : bool;
  fl_waiters : list waiter;
  (* ghost *)
  fl_holders : list tid;
  fl_next : nat;
  fl_acq : list nat;
  fl_cancelled : list nat
}.

Definition fl_init : fl := mkFL false [] [] 0 [] [].

(* def _wake_up_first(self): if not self._waiters: return ; self._waiters[0].set() *)
Definition wake_up_first (ws : list waiter) : list waiter :=
  match ws with
  | [] => []
  | w :: r => mkW (w_tid w) (w_ticket w) true :: r
  end.

Definition is_tid (t : tid) (w : waiter) : bool := Nat.eqb (w_tid w) t.
Definition find_waiter (t : tid) (ws : list waiter) : option waiter := find (is_tid t) ws.
Definition remove_waiter (t : tid) (ws : list waiter) : list waiter := filter (fun w => negb (is_tid t w)) ws.
Definition mem_tid (t : tid) (l : list tid) : bool := existsb (Nat.eqb t) l.
Definition remove_tid (t : tid) (l : list tid) : list tid := filter (fun x => negb (Nat.eqb t x)) l.
Definition is_nil {X} (l : list X) : bool := match l with [] => true | _ => false end.

Definition fl_waiting (t : tid) (s : fl) : bool := existsb (is_tid t) (fl_waiters s).
Definition fl_idle (t : tid) (s : fl) : bool := negb (fl_waiting t s) && negb (mem_tid t (fl_holders s)).

(* acquire(): returns the new state and whether the lock was taken on the fast path *)
Definition fl_acquire (t : tid) (s : fl) : fl * bool :=
  if fl_locked s || negb (is_nil (fl_waiters s)) then
    (mkFL (fl_locked s) (fl_waiters s ++ [mkW t (fl_next s) false]) (fl_holders s) (S (fl_next s))
          (fl_acq s) (fl_cancelled s), false)
  else
    (mkFL true (fl_waiters s) (t :: fl_holders s) (S (fl_next s)) (fl_acq s ++ [fl_next s]) (fl_cancelled s), true).

Definition fl_resume (t : tid) (s : fl) : option fl :=
  match find_waiter t (fl_waiters s) with
  | Some w =>
      if w_set w then
        Some (mkFL true (remove_waiter t (fl_waiters s)) (t :: fl_holders s) (fl_next s)
                   (fl_acq s ++ [w_ticket w]) (fl_cancelled s))
      else None
  | None => None
  end.

Definition fl_cancel (t : tid) (s : fl) : option fl :=
  match find_waiter t (fl_waiters s) with
  | Some w =>
      let ws := remove_waiter t (fl_waiters s) in
      Some (mkFL (fl_locked s) (if fl_locked s then ws else wake_up_first ws) (fl_holders s) (fl_next s)
                 (fl_acq s) (fl_cancelled s ++ [w_ticket w]))
  | None => None
  end.

(* release(): None = RuntimeError("Lock not acquired") *)
Definition fl_release (t : tid) (s : fl) : option fl :=
  if fl_locked s then
    Some (mkFL false (wake_up_first (fl_waiters s)) (remove_tid t (fl_holders s)) (fl_next s)
               (fl_acq s) (fl_cancelled s))
  else None.

Inductive flabel := FAcquire (t : tid) | FResume (t : tid) | FCancel (t : tid) | FRelease (t : tid).
Inductive fobs := OAcquired (t : tid) | OParked (t : tid) | OCancelled (t : tid) | OReleased (t : tid).

Definition fl_step (s : fl) (l : flabel) : option (fl * list fobs) :=
  match l with
  | FAcquire t =>
      if fl_idle t s then
        let '(s', got) := fl_acquire t s in Some (s', [if got then OAcquired t else OParked t])
      else None
  | FResume t => option_map (fun s' => (s', [OAcquired t])) (fl_resume t s)
  | FCancel t => option_map (fun s' => (s', [OCancelled t])) (fl_cancel t s)
  | FRelease t =>
      if mem_tid t (fl_holders s) then option_map (fun s' => (s', [OReleased t])) (fl_release t s) else None
  end.

(* reachable states: any label sequence from the initial state *)
Fixpoint fl_run (s : fl) (ls : list flabel) : option fl :=
  match ls with
  | [] => Some s
  | l :: ls' => match fl_step s l with Some (s', _) => fl_run s' ls' | None => None end
  end.
