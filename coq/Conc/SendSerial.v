(* Executable model of N concurrent senders on one client object.  No proofs here.

   Transcribes, between two consecutive awaits,
     AsyncTCPNetworkClient.send_packet   : async with self.__send_lock: endpoint = await self.__ensure_connected();
                                             await endpoint.send_packet(packet)
     _ConnectedClientAPI.send_packet     : async with self.__send_lock: if self.__closing: raise ...;
                                             await self.__client.send_packet(packet)
     AsyncStreamEndpoint.send_packet /
     ConnectedStreamClient.send_packet   : with self.__send_guard: await transport.send_all_from_iterable(chunks)
   on top of Conc.FairLock (the send lock) and Conc.Guard (ResourceGuard).

   A packet is the list of pieces the transport puts on the wire one at a time; after each piece the transport
   suspends the calling task (the harness' in-memory transport does exactly this; a real transport does it whenever
   the kernel accepts only part of the data).  A packet with no piece is a send that never suspends.

   A task runs a program: a list of packets sent one after the other (`for p in prog: await client.send_packet(p)`);
   an exception ends the task.

   Labels (one atomic piece of code between awaits each):
     SStart  t : task t starts running its program
     SResume t : t, parked on the lock, is resumed with the lock handed to it
     SWrite  t : the transport suspension of holder t ends normally (next piece is written, or the send returns)
     SFail   t : the transport suspension of t raises a connection error
     SCancel t : CancelledError is delivered to t at its current await (not yet started / lock wait / transport)
     SFutCancel t : task.cancel() reaches t while it is parked on the lock (matters for asyncio.Lock only)       *)
From Coq Require Import List Arith Bool ZArith.
From EN Require Import Lib.Bytes Conc.FairLock Conc.AsyncioLock Conc.Guard.
Import ListNotations.

Definition packet := list bytes.
Definition pkt_bytes (p : packet) : bytes := concat p.

Definition c_ok : Z := 10.
Definition c_cancelled : Z := 11.
Definition c_busy : Z := 12.
Definition c_error : Z := 13.

Inductive tstate :=
| TNew (prog : list packet)
| TRun                                         (* executing right now (only inside a step) *)
| TWait (cur : packet) (rest : list packet)
| TSend (todo : list bytes) (rest : list packet)
| TDone (code : Z).

Inductive segst := SgActive | SgComplete | SgAborted.
(* ghost: one entry per send that got hold of the transport, newest first *)
Record seg := mkSeg { sg_owner : tid; sg_pkt : packet; sg_written : nat; sg_st : segst }.
Definition seg_bytes (g : seg) : bytes := concat (firstn (sg_written g) (sg_pkt g)).

(* which send lock the client object uses: none (AsyncStreamEndpoint used directly), the FairLock of /repo, or CPython's
   asyncio.Lock (what the asyncio backend returns from create_fair_lock()) *)
Inductive lkind := LNone | LFair | LAsyncio.

Record st := mkSt {
  s_lk : lkind;
  s_lock : fl;
  s_alock : al;
  s_guard : guard;
  s_tasks : list tstate;
  s_wire : bytes;            (* what the peer has received so far *)
  s_segs : list seg;         (* ghost *)
  s_crashed : bool           (* RuntimeError("Lock not acquired") / AssertionError of the guard: never, see Props *)
}.

Definition st_init (k : lkind) (progs : list (list packet)) : st :=
  mkSt k fl_init al_init guard_init (map TNew progs) [] [] false.

Definition with_lock (l : fl) (s : st) : st :=
  mkSt (s_lk s) l (s_alock s) (s_guard s) (s_tasks s) (s_wire s) (s_segs s) (s_crashed s).
Definition with_guard (g : guard) (s : st) : st :=
  mkSt (s_lk s) (s_lock s) (s_alock s) g (s_tasks s) (s_wire s) (s_segs s) (s_crashed s).
Definition with_tasks (ts : list tstate) (s : st) : st :=
  mkSt (s_lk s) (s_lock s) (s_alock s) (s_guard s) ts (s_wire s) (s_segs s) (s_crashed s).
Definition with_wire (w : bytes) (sg : list seg) (s : st) : st :=
  mkSt (s_lk s) (s_lock s) (s_alock s) (s_guard s) (s_tasks s) w sg (s_crashed s).
Definition crash (s : st) : st :=
  mkSt (s_lk s) (s_lock s) (s_alock s) (s_guard s) (s_tasks s) (s_wire s) (s_segs s) true.
Definition with_alock (l : al) (s : st) : st :=
  mkSt (s_lk s) (s_lock s) l (s_guard s) (s_tasks s) (s_wire s) (s_segs s) (s_crashed s).

Fixpoint upd {X} (n : nat) (x : X) (l : list X) : list X :=
  match l, n with
  | [], _ => []
  | _ :: r, 0 => x :: r
  | y :: r, S k => y :: upd k x r
  end.

Definition set_task (t : tid) (ts : tstate) (s : st) : st := with_tasks (upd t ts (s_tasks s)) s.
Definition get_task (t : tid) (s : st) : option tstate := nth_error (s_tasks s) t.

(* __aexit__ of the send lock *)
Definition unlock (t : tid) (s : st) : st :=
  match s_lk s with
  | LNone => s
  | LFair => match fl_release t (s_lock s) with Some l => with_lock l s | None => crash s end
  | LAsyncio => match al_release t (s_alock s) with Some l => with_alock l s | None => crash s end
  end.

(* __aenter__ of the send lock: the new state and whether the lock was obtained without waiting *)
Definition acquire (t : tid) (s : st) : st * bool :=
  match s_lk s with
  | LNone => (s, true)
  | LFair => let '(l, got) := fl_acquire t (s_lock s) in (with_lock l s, got)
  | LAsyncio => let '(l, got) := al_acquire t (s_alock s) in (with_alock l s, got)
  end.

(* the parked task is handed the lock / leaves the queue with CancelledError / its future is cancelled *)
Definition lk_resume (t : tid) (s : st) : option st :=
  match s_lk s with
  | LNone => None
  | LFair => option_map (fun l => with_lock l s) (fl_resume t (s_lock s))
  | LAsyncio => option_map (fun l => with_alock l s) (al_resume t (s_alock s))
  end.
Definition lk_cancel (t : tid) (s : st) : option st :=
  match s_lk s with
  | LNone => None
  | LFair => option_map (fun l => with_lock l s) (fl_cancel t (s_lock s))
  | LAsyncio => option_map (fun l => with_alock l s) (al_cancel t (s_alock s))
  end.
Definition lk_futcancel (t : tid) (s : st) : option st :=
  match s_lk s with
  | LAsyncio => option_map (fun l => with_alock l s) (al_futcancel t (s_alock s))
  | _ => Some s
  end.

(* __exit__ of the send guard *)
Definition gexit (s : st) : st :=
  match guard_exit (s_guard s) with Some g => with_guard g s | None => crash s end.

Definition seg_wrote (sgs : list seg) : list seg :=
  match sgs with
  | [] => []
  | g :: r => mkSeg (sg_owner g) (sg_pkt g) (S (sg_written g)) (sg_st g) :: r
  end.
Definition seg_close (c : segst) (sgs : list seg) : list seg :=
  match sgs with
  | [] => []
  | g :: r => mkSeg (sg_owner g) (sg_pkt g) (sg_written g) c :: r
  end.

Definition write_piece (pc : bytes) (s : st) : st := with_wire (s_wire s ++ pc) (seg_wrote (s_segs s)) s.
Definition open_seg (t : tid) (p : packet) (s : st) : st := with_wire (s_wire s) (mkSeg t p 0 SgActive :: s_segs s) s.
Definition close_seg (c : segst) (s : st) : st := with_wire (s_wire s) (seg_close c (s_segs s)) s.

(* the send returned normally: leave the guard, release the lock *)
Definition finish_send (t : tid) (s : st) : st := unlock t (gexit (close_seg SgComplete s)).
(* the send raised (cancellation or transport error) *)
Definition abort_send (t : tid) (code : Z) (s : st) : st :=
  set_task t (TDone code) (unlock t (gexit (close_seg SgAborted s))).

(* body of send_packet once the lock is held (or without lock); k = what the task does after a normal return *)
Definition send_body (t : tid) (p : packet) (rest : list packet) (k : st -> st) (s : st) : st :=
  match guard_enter (s_guard s) with
  | None => set_task t (TDone c_busy) (unlock t s)                   (* BusyResourceError leaves through the lock *)
  | Some g =>
      let s1 := open_seg t p (with_guard g s) in
      match p with
      | [] => k (finish_send t s1)
      | pc :: more => set_task t (TSend more rest) (write_piece pc s1)
      end
  end.

Fixpoint run_task (t : tid) (prog : list packet) (s : st) {struct prog} : st :=
  match prog with
  | [] => set_task t (TDone c_ok) s
  | p :: rest =>
      let '(s1, got) := acquire t s in
      if got then send_body t p rest (run_task t rest) s1 else set_task t (TWait p rest) s1
  end.

Inductive slabel := SStart (t : tid) | SResume (t : tid) | SWrite (t : tid) | SFail (t : tid) | SCancel (t : tid)
                | SFutCancel (t : tid).

Definition s_next (s : st) (l : slabel) : option st :=
  match l with
  | SStart t =>
      match get_task t s with
      | Some (TNew prog) => Some (run_task t prog (set_task t TRun s))
      | _ => None
      end
  | SResume t =>
      match get_task t s with
      | Some (TWait p rest) =>
          match lk_resume t (set_task t TRun s) with
          | Some s1 => Some (send_body t p rest (run_task t rest) s1)
          | None => None
          end
      | _ => None
      end
  | SWrite t =>
      match get_task t s with
      | Some (TSend [] rest) => Some (run_task t rest (finish_send t (set_task t TRun s)))
      | Some (TSend (pc :: more) rest) => Some (set_task t (TSend more rest) (write_piece pc s))
      | _ => None
      end
  | SFail t =>
      match get_task t s with
      | Some (TSend _ _) => Some (abort_send t c_error s)
      | _ => None
      end
  | SCancel t =>
      match get_task t s with
      | Some (TNew _) => Some (set_task t (TDone c_cancelled) s)
      | Some (TWait _ _) =>
          match lk_cancel t s with
          | Some s1 => Some (set_task t (TDone c_cancelled) s1)
          | None => None
          end
      | Some (TSend _ _) => Some (abort_send t c_cancelled s)
      | _ => None
      end
  | SFutCancel t =>
      (* task.cancel() reaches a task parked on the lock: asyncio.Lock's waiter future is cancelled at once (the
         other locks do not look at it); the task's CancelledError (SCancel) comes later *)
      match get_task t s with
      | Some (TWait _ _) => lk_futcancel t s
      | _ => None
      end
  end.

(* observations of one step: the bytes that reached the wire, and the tasks that finished with their code *)
Inductive sobs := OWire (b : bytes) | ODone (t : tid) (code : Z).

Fixpoint newly_done (n : nat) (old new : list tstate) : list sobs :=
  match old, new with
  | o :: old', TDone c :: new' =>
      match o with
      | TDone _ => newly_done (S n) old' new'
      | _ => ODone n c :: newly_done (S n) old' new'
      end
  | _ :: old', _ :: new' => newly_done (S n) old' new'
  | _, _ => []
  end.

Definition s_step (s : st) (l : slabel) : option (st * list sobs) :=
  match s_next s l with
  | Some s' =>
      let w := skipn (length (s_wire s)) (s_wire s') in
      Some (s', (match w with [] => [] | _ => [OWire w] end) ++ newly_done 0 (s_tasks s) (s_tasks s'))
  | None => None
  end.

Fixpoint s_run (s : st) (ls : list slabel) : option st :=
  match ls with
  | [] => Some s
  | l :: ls' => match s_next s l with Some s' => s_run s' ls' | None => None end
  end.
