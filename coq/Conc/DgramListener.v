(* The asyncio datagram listener across serve() restarts (backend/_asyncio/datagram/listener.py
   DatagramListenerProtocol.datagram_received / serve, _DatagramListenerServeContext.handle):
     datagram_received(d, a):  serve context set ? task_group.start_soon(handler, d, a) : delayed_queue.append((d, a))
     serve(handler, tg):       set the context; flush: while delayed_queue: handle each popleft()-ed (d, a)   (no await);
                               then wait (shielded) until cancelled / connection lost; finally: context = None
   No proofs here. *)
From EN Require Import Lib.Bytes.

Record lstate := {
  serving : bool;                          (* a serve() call is in progress (context set) *)
  backlog : list (nat * bytes);            (* __delayed_datagrams_queue *)
  dispatched : list (nat * bytes)          (* ghost: every handler task ever started, in order *)
}.

Definition lstate0 : lstate := {| serving := false; backlog := []; dispatched := [] |}.

Inductive llabel :=
| LArrive (a : nat) (d : bytes)            (* the transport delivers a datagram *)
| LServe                                   (* serve() is awaited (again) *)
| LCancel.                                 (* the running serve() call is cancelled *)

Definition lstep (s : lstate) (l : llabel) : option lstate :=
  match l with
  | LArrive a d =>
      if serving s then Some {| serving := true; backlog := backlog s; dispatched := dispatched s ++ [(a, d)] |}
      else Some {| serving := false; backlog := backlog s ++ [(a, d)]; dispatched := dispatched s |}
  | LServe =>
      if serving s then None               (* RuntimeError: serve() awaited twice *)
      else Some {| serving := true; backlog := []; dispatched := dispatched s ++ backlog s |}
  | LCancel =>
      if serving s then Some {| serving := false; backlog := backlog s; dispatched := dispatched s |} else None
  end.

Fixpoint lsteps (s : lstate) (ls : list llabel) : option lstate :=
  match ls with
  | [] => Some s
  | l :: r => match lstep s l with Some s' => lsteps s' r | None => None end
  end.

Fixpoint larrivals (ls : list llabel) : list (nat * bytes) :=
  match ls with
  | [] => []
  | LArrive a d :: r => (a, d) :: larrivals r
  | _ :: r => larrivals r
  end.
