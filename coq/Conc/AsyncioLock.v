(* Executable model of CPython 3.12's asyncio.Lock (Lib/asyncio/locks.py), the lock the asyncio backend of /repo hands out
   for create_lock() AND create_fair_lock().  No proofs here.

     acquire():  if (not self._locked and (self._waiters is None or all(w.cancelled() for w in self._waiters))):
                     self._locked = True; return True
                 fut = loop.create_future(); self._waiters.append(fut)
                 try:
                     try: await fut
                     finally: self._waiters.remove(fut)
                 except CancelledError:
                     if not self._locked: self._wake_up_first()
                     raise
                 self._locked = True; return True
     release():  if self._locked: self._locked = False; self._wake_up_first()  else: raise RuntimeError
     _wake_up_first(): fut = first waiter (if any); if not fut.done(): fut.set_result(True)

   A waiter future is pending, woken (result set) or cancelled.  task.cancel() on a task parked on a pending future
   cancels the future AT ONCE (ALFutCancel); the task's except-branch runs later (ALCancel).  task.cancel() on a task
   whose future is already woken leaves the future alone: the task still gets CancelledError at its await (ALCancel on a
   woken waiter).  A newcomer takes a free lock when every queued future is cancelled: that is how this lock differs
   from FairLock.  Ghost state as in Conc.FairLock (holders, tickets = arrival ranks, acquisition log).              *)
From Coq Require Import List Arith Bool.
From EN Require Import Conc.FairLock.
Import ListNotations.

Inductive wst := WPending | WWoken | WCancelled.

Record awaiter := mkAW { aw_tid : tid; aw_ticket : nat; aw_st : wst }.

Record al := mkAL {
  al_locked : bool;
  al_waiters : list awaiter;
  (* ghost *)
  al_holders : list tid;
  al_next : nat;
  al_acq : list nat;
  al_gone : list nat        (* tickets of the waiters that left the queue with CancelledError *)
}.

Definition al_init : al := mkAL false [] [] 0 [] [].

Definition is_pending (w : awaiter) : bool := match aw_st w with WPending => true | _ => false end.
Definition is_woken (w : awaiter) : bool := match aw_st w with WWoken => true | _ => false end.
Definition is_cancelled (w : awaiter) : bool := match aw_st w with WCancelled => true | _ => false end.
Definition set_st (x : wst) (w : awaiter) : awaiter := mkAW (aw_tid w) (aw_ticket w) x.

Definition al_wake_first (ws : list awaiter) : list awaiter :=
  match ws with
  | [] => []
  | w :: r => if is_pending w then set_st WWoken w :: r else ws
  end.

Definition aw_is (t : tid) (w : awaiter) : bool := Nat.eqb (aw_tid w) t.
Definition al_find (t : tid) (ws : list awaiter) : option awaiter := find (aw_is t) ws.
Definition al_remove (t : tid) (ws : list awaiter) : list awaiter := filter (fun w => negb (aw_is t w)) ws.
Definition al_waiting (t : tid) (s : al) : bool := existsb (aw_is t) (al_waiters s).
Definition al_idle (t : tid) (s : al) : bool := negb (al_waiting t s) && negb (mem_tid t (al_holders s)).

Definition al_acquire (t : tid) (s : al) : al * bool :=
  if negb (al_locked s) && forallb is_cancelled (al_waiters s) then
    (mkAL true (al_waiters s) (t :: al_holders s) (S (al_next s)) (al_acq s ++ [al_next s]) (al_gone s), true)
  else
    (mkAL (al_locked s) (al_waiters s ++ [mkAW t (al_next s) WPending]) (al_holders s) (S (al_next s))
          (al_acq s) (al_gone s), false).

(* fut.cancel() on the pending future of t *)
Definition al_futcancel (t : tid) (s : al) : option al :=
  match al_find t (al_waiters s) with
  | Some w =>
      if is_pending w then
        Some (mkAL (al_locked s) (map (fun x => if aw_is t x then set_st WCancelled x else x) (al_waiters s))
                   (al_holders s) (al_next s) (al_acq s) (al_gone s))
      else None
  | None => None
  end.

Definition al_resume (t : tid) (s : al) : option al :=
  match al_find t (al_waiters s) with
  | Some w =>
      if is_woken w then
        Some (mkAL true (al_remove t (al_waiters s)) (t :: al_holders s) (al_next s) (al_acq s ++ [aw_ticket w]) (al_gone s))
      else None
  | None => None
  end.

(* CancelledError at `await fut`: the future is cancelled, or it is woken and the task was cancelled afterwards *)
Definition al_cancel (t : tid) (s : al) : option al :=
  match al_find t (al_waiters s) with
  | Some w =>
      if is_pending w then None
      else
        let ws := al_remove t (al_waiters s) in
        Some (mkAL (al_locked s) (if al_locked s then ws else al_wake_first ws) (al_holders s) (al_next s)
                   (al_acq s) (al_gone s ++ [aw_ticket w]))
  | None => None
  end.

Definition al_release (t : tid) (s : al) : option al :=
  if al_locked s then
    Some (mkAL false (al_wake_first (al_waiters s)) (remove_tid t (al_holders s)) (al_next s) (al_acq s) (al_gone s))
  else None.

Inductive alabel := ALAcquire (t : tid) | ALFutCancel (t : tid) | ALResume (t : tid) | ALCancel (t : tid) | ALRelease (t : tid).

Definition al_step (s : al) (l : alabel) : option (al * list fobs) :=
  match l with
  | ALAcquire t =>
      if al_idle t s then let '(s', got) := al_acquire t s in Some (s', [if got then OAcquired t else OParked t]) else None
  | ALFutCancel t => option_map (fun s' => (s', [])) (al_futcancel t s)
  | ALResume t => option_map (fun s' => (s', [OAcquired t])) (al_resume t s)
  | ALCancel t => option_map (fun s' => (s', [OCancelled t])) (al_cancel t s)
  | ALRelease t =>
      if mem_tid t (al_holders s) then option_map (fun s' => (s', [OReleased t])) (al_release t s) else None
  end.

Fixpoint al_run (s : al) (ls : list alabel) : option al :=
  match ls with
  | [] => Some s
  | l :: ls' => match al_step s l with Some (s', _) => al_run s' ls' | None => None end
  end.
