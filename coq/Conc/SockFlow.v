(* Read flow control of StreamReaderBufferedProtocol (_maybe_pause_transport / _maybe_resume_transport, the
   high/low-water marks of _compute_read_buffer_limits, the finite internal buffer) as a layer over Conc/SockReader.v:
     - a read event fills at most the free part of the protocol's buffer (get_buffer() = view[nbytes_written:]);
       the buffer is max_size long, longer once the F4 fix had to grow it for parked bytes;
     - after bytes went into the protocol's buffer (buffer_updated, or the fix parking a cancelled reader's bytes):
       transport.pause_reading() if the fill level reached the high-water mark;
     - after receive_data / receive_data_into took bytes out of the protocol's buffer: transport.resume_reading() if
       paused and the fill level is at or below the low-water mark;
     - connection_lost() forgets the transport: no pause/resume call after it;
     - a paused transport delivers no read event (data, EOF): asyncio contract.
   No proofs here. *)
From EN Require Import Lib.Bytes Conc.SockReader.

Record fparams := { fmax : nat; fhigh : nat; flo : nat }.     (* max_size, high-water, low-water *)
Record fstate := fmk {
  fs : st;
  fpaused : bool;       (* the transport has been told to pause reading *)
  fcap : nat            (* len(self.__buffer): max_size, more once the fix had to grow it for parked bytes *)
}.

Definition finit (p : fparams) : fstate := fmk init false (fmax p).

(* which buffer get_buffer() hands out *)
Definition uses_ext (fixed : bool) (s : st) : bool :=
  match ext s with
  | Some _ => if fixed then is_pending (waiter s) else true
  | None => false
  end.

(* the wake-up about to happen returns through the protocol's own buffer (and so calls _maybe_resume_transport) *)
Definition internal_return (s : st) : bool :=
  match tpc s with
  | PYield _ => negb (must_cancel s)
  | PWait _ => negb (must_cancel s) && match waiter s with Some (WRes None) => true | _ => false end
  | PIdle => false
  end.

Definition maybe_pause (p : fparams) (s : st) (paused : bool) : bool :=
  paused || (Nat.leb (fhigh p) (length (ibuf s)) && negb (lost s)).
Definition maybe_resume (p : fparams) (s : st) (paused : bool) : bool :=
  if paused && negb (lost s) && Nat.leb (length (ibuf s)) (flo p) then false else paused.

Definition fstep (fixed : bool) (p : fparams) (f : fstate) (l : label) : fstate * obs :=
  match l with
  | LData b =>
      if fpaused f then (f, ODisabled)
      else if uses_ext fixed (fs f) then
        let '(s', o) := data fixed (fs f) b in (fmk s' (fpaused f) (fcap f), o)
      else
        let room := fcap f - length (ibuf (fs f)) in
        let '(s', o) := data fixed (fs f) (firstn room b) in
        match o with
        | OData n _ fill => (fmk s' (maybe_pause p s' (fpaused f)) (fcap f), OData n (Some room) fill)
        | _ => (fmk s' (fpaused f) (fcap f), o)
        end
  | LEof =>
      if fpaused f then (f, ODisabled)
      else let '(s', o) := eof_received (fs f) in (fmk s' (fpaused f) (fcap f), o)
  | LLost exc =>
      (* __read_paused is cleared, but nothing is called on the transport any more: [fpaused] is what the transport
         was last told, which is what an observer sees *)
      let '(s', o) := connection_lost (fs f) exc in (fmk s' (fpaused f) (fcap f), o)
  | LWake =>
      let '(s', o) := wake fixed (fs f) in
      let p1 := if Nat.ltb (length (ibuf (fs f))) (length (ibuf s')) then maybe_pause p s' (fpaused f) else fpaused f in
      let returned_internal := match cur (fs f), o with
                               | IStep :: _, ORes (RBytes _) => internal_return (fs f)
                               | _, _ => false
                               end in
      (fmk s' (if returned_internal then maybe_resume p s' p1 else p1) (Nat.max (fcap f) (length (ibuf s'))), o)
  | _ =>
      let '(s', o) := step fixed (fs f) l in (fmk s' (fpaused f) (fcap f), o)
  end.

Fixpoint fexec (fixed : bool) (p : fparams) (f : fstate) (ls : list label) : fstate * list (obs * bool) :=
  match ls with
  | [] => (f, [])
  | l :: ls' =>
      let '(f1, o) := fstep fixed p f l in
      let '(f2, os) := fexec fixed p f1 ls' in
      (f2, (o, fpaused f1) :: os)
  end.

Definition frun (fixed : bool) (p : fparams) (ls : list label) : fstate := fst (fexec fixed p (finit p) ls).
