(* Two threads calling TCPNetworkClient.recv_packet(timeout=None) on ONE blocking client.

   Transcribes clients/tcp.py  TCPNetworkClient.recv_packet:
       with lock_with_timeout(self.__receive_lock.get(), timeout) as timeout:      (timeout None: `with lock:`)
           endpoint = self.__endpoint ; [closed check] ; with self.__convert_socket_error():
               return endpoint.recv_packet(timeout=timeout)
   over the receive loop of Stream/Endpoint.v, cut at its scheduling points: a thread is observed only when it is
   quiescent — not in a call, waiting for the receive lock, or parked inside transport.recv()/recv_into() (every transport
   call parks until the scheduler serves it).  The lock is explicit ([t_lock]); the endpoint state (consumer, _eof_reached)
   and the transport oracle are shared by the two threads.

   Label = the thread the scheduler lets run ([Step tid]): an idle thread with calls left starts its next call (takes the lock
   or starts waiting for it), a parked thread gets its transport call served and runs to its next quiescent point, a
   waiting thread stays where it is.  When a call returns, the lock is released and the other thread, if it waits for the
   lock, takes it and runs to its next quiescent point (with two threads the wake-up order of threading.Lock is not a choice).
   No proofs here. *)
From EN Require Import Lib.Bytes Frame.Framer Stream.Consumer Stream.Endpoint.

Section RecvLock.
  Context {P C : Type}.
  Variable M : machine P C.

  (* one iteration of `while not self._eof_reached:` with timeout = math.inf (blocking endpoint) *)
  Inductive rstep_res :=
  | RDone (c : C) (eof : bool) (o : oracle) (r : rres P)
  | RCont (c : C) (o : oracle).

  Definition rstep_none (c : C) (o : oracle) : rstep_res :=
    match o with
    | [] => RDone c true [] RecvAborted
    | TEof :: o' => RDone c true o' RecvAborted
    | TRaise k :: o' => RDone c false o' (RecvRaised k)
    | TWouldTimeout :: o' => RCont c o'
    | TData [] _ :: o' => RDone c true o' RecvAborted
    | TData ch _ :: o' =>
        match mtake M c ch with
        | None => RDone c false o RecvCrash
        | Some (c', r, n, _) =>
            let o'' := if Nat.ltb n (length ch) then TData (skipn n ch) 0 :: o' else o' in
            match r with
            | RStop => RCont c' o''
            | _ => RDone c' false o'' (of_nres r)
            end
        end
    end.

  (* where a thread is; n = calls it still has to start *)
  Inductive tpc := TIdle (n : nat) | TBlocked (n : nat) | TParked (n : nat).

  Record tstate := {
    t_a : tpc; t_b : tpc;                 (* thread false, thread true *)
    t_lock : option bool;                 (* holder of the receive lock *)
    t_c : C; t_eof : bool;                (* the endpoint: consumer, _eof_reached *)
    t_o : oracle;                         (* the transport *)
    t_log : list (bool * rres P);         (* returned calls, most recent first *)
    t_try : list bool                     (* threads whose recv_packet(timeout=0) timed out on the lock, most recent first *)
  }.

  Definition tget (s : tstate) (i : bool) : tpc := if i then t_b s else t_a s.
  Definition tset (s : tstate) (i : bool) (p : tpc) : tstate :=
    {| t_a := if i then t_a s else p; t_b := if i then p else t_b s; t_lock := t_lock s;
       t_c := t_c s; t_eof := t_eof s; t_o := t_o s; t_log := t_log s; t_try := t_try s |}.
  Definition tshared (s : tstate) (c : C) (eof : bool) (o : oracle) : tstate :=
    {| t_a := t_a s; t_b := t_b s; t_lock := t_lock s; t_c := c; t_eof := eof; t_o := o; t_log := t_log s; t_try := t_try s |}.
  Definition tlock (s : tstate) (l : option bool) : tstate :=
    {| t_a := t_a s; t_b := t_b s; t_lock := l; t_c := t_c s; t_eof := t_eof s; t_o := t_o s; t_log := t_log s; t_try := t_try s |}.
  Definition tlogr (s : tstate) (i : bool) (r : rres P) : tstate :=
    {| t_a := t_a s; t_b := t_b s; t_lock := t_lock s; t_c := t_c s; t_eof := t_eof s; t_o := t_o s;
       t_log := (i, r) :: t_log s; t_try := t_try s |}.

  (* thread i (n calls left after this one) has just taken the lock: the consumer is drained first, then the latch *)
  Definition tenter_body (s : tstate) (i : bool) (n : nat) : tstate * bool (* returned? *) :=
    match mdrain M (t_c s) with
    | (c', RStop) =>
        if t_eof s then (tset (tlogr (tlock (tshared s c' true (t_o s)) None) i RecvAborted) i (TIdle n), true)
        else (tset (tshared s c' false (t_o s)) i (TParked n), false)
    | (c', r) => (tset (tlogr (tlock (tshared s c' (t_eof s) (t_o s)) None) i (of_nres r)) i (TIdle n), true)
    end.

  (* the other thread takes the released lock if it was waiting for it *)
  Definition twake (s : tstate) (j : bool) : tstate :=
    match tget s j with
    | TBlocked m => fst (tenter_body (tlock s (Some j)) j m)
    | _ => s
    end.

  Definition tstep (s : tstate) (i : bool) : tstate :=
    match tget s i with
    | TIdle 0 => s
    | TIdle (S n) =>
        match t_lock s with
        | Some _ => tset s i (TBlocked n)
        | None => fst (tenter_body (tlock s (Some i)) i n)     (* nobody can be waiting while the lock is free *)
        end
    | TBlocked _ => s
    | TParked n =>
        match rstep_none (t_c s) (t_o s) with
        | RCont c' o' => tshared s c' false o'
        | RDone c' eof' o' r =>
            twake (tset (tlogr (tlock (tshared s c' eof' o') None) i r) i (TIdle n)) (negb i)
        end
    end.

  (* the timed branch of lock_with_timeout: a thread that is not in a call makes an extra recv_packet(timeout=0) while
     the other thread holds the receive lock: `lock.acquire(blocking=False)` fails and `timeout == 0` raises TimeoutError
     before anything else is touched.  (With the lock free the label does nothing here: that call is an ordinary one.) *)
  Definition ttry (s : tstate) (i : bool) : tstate :=
    match tget s i, t_lock s with
    | TIdle _, Some _ =>
        {| t_a := t_a s; t_b := t_b s; t_lock := t_lock s; t_c := t_c s; t_eof := t_eof s; t_o := t_o s;
           t_log := t_log s; t_try := i :: t_try s |}
    | _, _ => s
    end.

  Inductive tlabel := LRun (i : bool) | LTry (i : bool).
  Definition tstep_l (s : tstate) (l : tlabel) : tstate :=
    match l with LRun i => tstep s i | LTry i => ttry s i end.

  Fixpoint trun_l (s : tstate) (sch : list tlabel) : tstate :=
    match sch with
    | [] => s
    | l :: sch' => trun_l (tstep_l s l) sch'
    end.

  Fixpoint trun_l_obs (s : tstate) (sch : list tlabel) : list (tpc * tpc) * tstate :=
    match sch with
    | [] => ([], s)
    | l :: sch' =>
        let s' := tstep_l s l in
        let '(obs, s'') := trun_l_obs s' sch' in ((t_a s', t_b s') :: obs, s'')
    end.

  Fixpoint trun (s : tstate) (sch : list bool) : tstate :=
    match sch with
    | [] => s
    | i :: sch' => trun (tstep s i) sch'
    end.

  (* the same with the statuses after every step, as the harness observes them *)
  Fixpoint trun_obs (s : tstate) (sch : list bool) : list (tpc * tpc) * tstate :=
    match sch with
    | [] => ([], s)
    | i :: sch' =>
        let s' := tstep s i in
        let '(obs, s'') := trun_obs s' sch' in ((t_a s', t_b s') :: obs, s'')
    end.

  Definition tinit (c0 : C) (o : oracle) (na nb : nat) : tstate :=
    {| t_a := TIdle na; t_b := TIdle nb; t_lock := None; t_c := c0; t_eof := false; t_o := o; t_log := []; t_try := [] |}.
End RecvLock.
