(* C08/C09 — an IDEAL TLS record layer, defined (not assumed).  It answers the same calls as the SSL object of
   Conc/TlsPump.v: do_handshake / read / write / unwrap, consuming the incoming BIO and producing bytes for the outgoing
   BIO.  Records are  type :: length :: E(payload) ; E is an abstract byte-wise bijection with inverse D (Section
   variables); handshake flights are records of type 22 with fixed payloads; application data travels in records of
   type 23 with at most M payload bytes; the close notification is an empty record of type 21.  read returns plaintext
   only from complete records, otherwise WantRead — or SSLEOFError if the incoming BIO is at end-of-file (so WantRead
   always means "the incoming BIO holds no complete record"); a record the ideal peer never sends is a protocol error.
   No proofs here.  OpenSSL's conformance to this layer is in the trusted base (validated by the C08/C09 runs). *)
From EN Require Import Lib.Bytes Conc.TlsBase.

Section Ideal.
Variable E D : byte -> byte.     (* "encryption" / "decryption" of one byte *)
Variable M : nat.                (* maximum payload of a data record, > 0 *)

Definition T_ALERT : byte := 21%N.
Definition T_HS : byte := 22%N.
Definition T_DATA : byte := 23%N.

Definition enc (t : byte) (payload : bytes) : bytes :=
  t :: N.of_nat (length payload) :: map E payload.

(* first complete record of a buffer: (type, decrypted payload, rest) *)
Definition parse1 (buf : bytes) : option (byte * bytes * bytes) :=
  match buf with
  | t :: l :: tl =>
      let n := N.to_nat l in
      if Nat.leb n (length tl) then Some (t, map D (firstn n tl), skipn n tl) else None
  | _ => None
  end.

(* write: the plaintext is cut into records of at most M bytes (fuel = length of the plaintext is enough) *)
Fixpoint enc_data (fuel : nat) (p : bytes) : bytes :=
  match fuel with
  | 0 => []
  | S f =>
      match p with
      | [] => []
      | _ => enc T_DATA (firstn (Nat.max 1 M) p) ++ enc_data f (skipn (Nat.max 1 M) p)
      end
  end.

Definition close_notify : bytes := enc T_ALERT [].

Record ideal := {
  i_client : bool;
  i_stage : nat;           (* 0 = nothing sent/received, 1 = first flight done, 2 = established *)
  i_rbio : bytes;          (* incoming BIO *)
  i_reof : bool;           (* incoming BIO at end-of-file *)
  i_plain : bytes;         (* decrypted, not yet returned to the application *)
  i_got_cn : bool;         (* the peer's close notification has been processed *)
  i_sent_cn : bool         (* our close notification has been produced *)
}.

Definition ideal0 (client : bool) : ideal :=
  {| i_client := client; i_stage := 0; i_rbio := []; i_reof := false; i_plain := []; i_got_cn := false; i_sent_cn := false |}.

Definition upd (s : ideal) stage rbio plain got sent : ideal :=
  {| i_client := i_client s; i_stage := stage; i_rbio := rbio; i_reof := i_reof s; i_plain := plain;
     i_got_cn := got; i_sent_cn := sent |}.

(* the BIO operations of the pump *)
Definition feed (s : ideal) (data : bytes) : ideal :=
  upd s (i_stage s) (i_rbio s ++ data) (i_plain s) (i_got_cn s) (i_sent_cn s).
Definition feed_eof (s : ideal) : ideal :=
  {| i_client := i_client s; i_stage := i_stage s; i_rbio := i_rbio s; i_reof := true; i_plain := i_plain s;
     i_got_cn := i_got_cn s; i_sent_cn := i_sent_cn s |}.

Definition starved (s : ideal) : sslout := if i_reof s then SErr ESslEof else SWantRead.

Definition CH : bytes := [1%N].   Definition SH : bytes := [2%N].   Definition FIN : bytes := [3%N].

(* the head record of the incoming BIO if it is a complete HANDSHAKE record (a handshake never swallows data) *)
Definition parse_hs (buf : bytes) : option (option bytes) :=      (* None: incomplete; Some None: wrong type; Some (Some rest) *)
  match parse1 buf with
  | None => None
  | Some (t, _, rest) => if N.eqb t T_HS then Some (Some rest) else Some None
  end.

(* one call; returns the new state, the outcome and the bytes appended to the outgoing BIO *)
Definition do_handshake (s : ideal) : ideal * sslout * bytes :=
  let keep stage rbio := upd s stage rbio (i_plain s) (i_got_cn s) (i_sent_cn s) in
  let need (stage' : nat) (out : sslout) (flight : bytes) :=
    match parse_hs (i_rbio s) with
    | None => (s, starved s, [])
    | Some None => (s, SErr ESslOther, [])
    | Some (Some rest) => (keep stage' rest, out, flight)
    end in
  match i_stage s, i_client s with
  | 0, true => (keep 1 (i_rbio s), SWantRead, enc T_HS CH)
  | 0, false => need 1 SWantRead (enc T_HS SH)
  | 1, true => need 2 (SOk 0) (enc T_HS FIN)
  | 1, false => need 2 (SOk 0) []
  | _, _ => (s, SOk 0, [])
  end.

Definition read (s : ideal) (n : nat) : ideal * sslout * bytes :=
  if negb (Nat.eqb (i_stage s) 2) then (s, SErr ESslOther, [])
  else
    match i_plain s with
    | _ :: _ =>
        (upd s 2 (i_rbio s) (skipn n (i_plain s)) (i_got_cn s) (i_sent_cn s), SOk (length (firstn n (i_plain s))), [])
    | [] =>
        if i_got_cn s then (s, SOk 0, [])
        else
          match parse1 (i_rbio s) with
          | None => (s, starved s, [])
          | Some (t, p, rest) =>
              if N.eqb t T_DATA then
                match p with
                | [] => (s, SErr ESslOther, [])          (* the ideal writer never produces an empty record *)
                | _ => (upd s 2 rest (skipn n p) false (i_sent_cn s), SOk (length (firstn n p)), [])
                end
              else if N.eqb t T_ALERT then (upd s 2 rest [] true (i_sent_cn s), SOk 0, [])
              else (s, SErr ESslOther, [])               (* no handshake record after the handshake *)
          end
    end.

(* the plaintext returned by a read (the model of the pump only carries its length) *)
Definition read_data (s : ideal) (n : nat) : bytes :=
  if negb (Nat.eqb (i_stage s) 2) then []
  else
    match i_plain s with
    | _ :: _ => firstn n (i_plain s)
    | [] =>
        if i_got_cn s then []
        else match parse1 (i_rbio s) with
             | Some (t, p, _) => if N.eqb t T_DATA then firstn n p else []
             | None => []
             end
    end.

Definition write (s : ideal) (p : bytes) : ideal * sslout * bytes :=
  if negb (Nat.eqb (i_stage s) 2) then (s, SErr ESslOther, [])
  else if i_sent_cn s then (s, SErr ESslOther, [])
  else (s, SOk (length p), enc_data (length p) p).

Definition unwrap (s : ideal) : ideal * sslout * bytes :=
  if negb (Nat.eqb (i_stage s) 2) then (s, SErr ESslOther, [])
  else
    let out := if i_sent_cn s then [] else close_notify in
    if i_got_cn s then (upd s 2 (i_rbio s) (i_plain s) true true, SOk 0, out)
    else
      match parse1 (i_rbio s) with
      | None => (upd s 2 (i_rbio s) (i_plain s) false true, starved s, out)
      | Some (t, _, rest) =>
          if N.eqb t T_ALERT then (upd s 2 rest (i_plain s) true true, SOk 0, out)
          else (upd s 2 rest (i_plain s) false true, SWantRead, out)
      end.

Definition call (s : ideal) (m : meth) (n : nat) (data : bytes) : ideal * sslout * bytes :=
  match m with
  | MHandshake => do_handshake s
  | MRead => read s n
  | MWrite => write s data
  | MUnwrap => unwrap s
  end.

(* reading to the end: the outcomes of successive read(n) calls until one is not a data read (fuel bounds the calls) *)
Fixpoint drain (fuel : nat) (s : ideal) (n : nat) : list sslout :=
  match fuel with
  | 0 => []
  | S f =>
      let '(s', o, _) := read s n in
      match o with
      | SOk (S _) => o :: drain f s' n
      | SWantRead => if i_reof s' then o :: drain f s' n else [o]
      | _ => [o]
      end
  end.

End Ideal.
