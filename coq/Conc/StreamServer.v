(* One client connection of the stream server.

   Transcribes  lowlevel/api_async/servers/stream.py   AsyncStreamServer.__client_coroutine,
                                                       _RequestReceiver.next / _BufferedRequestReceiver.next
                lowlevel/_asyncgen.py                  SendAction / ThrowAction (GeneratorExit special case)
                servers/misc.py                        build_lowlevel_stream_server_handler
   over the consumer machines of Stream/Endpoint.v (copy_machine / buf_machine).

   The request handler is an adversary: every time user code runs (a generator starts, or is resumed with a request or
   with a thrown error) it performs the next action of the list [acts]:
     AYield t        yield t                         (continue this generator; for a thrown error: it was caught)
     AReturn         return                          (generator finishes; handle() is re-created if the client is open)
     ACloseReturn    await client.aclose(); return
     ACloseYield t   await client.aclose(); yield t
     ARaise          raise (after a request: a handler error; after a thrown error: that error is not caught)
   An exhausted list answers ACloseReturn.  A received request is echoed with client.send_packet unless the client is
   closed (the wire).

   The peer is a time line of items carrying their absolute arrival time (ticks of the virtual clock):
     SData chunk at | SEof at | SRaise k at   (k = 0: ConnectionError, accepted by disconnect_error_filter ; else other OSError)
   Time only passes while the receiver waits for the transport.  No proofs here. *)
From EN Require Import Lib.Bytes Frame.Framer Stream.Consumer Stream.Endpoint.

Inductive sitem := SData (chunk : bytes) (at_ : nat) | SEof (at_ : nat) | SRaise (k : nat) (at_ : nat).
Definition speer := list sitem.
Definition sitem_at (i : sitem) : nat := match i with SData _ a => a | SEof a => a | SRaise _ a => a end.
Definition sitem_size (i : sitem) : nat := match i with SData ch _ => S (length ch) | _ => 1 end.
Definition speer_size (o : speer) : nat := fold_right (fun i n => sitem_size i + n) 0 o.

(* exceptions travelling through the generators *)
Inductive xkind := XHandler | XParse (e : err) | XTimeout | XOS (k : nat) | XCrash.

Inductive hact := AYield (t : option nat) | AReturn | ACloseReturn | ACloseYield (t : option nat) | ARaise.

Section Server.
  Context {P C : Type}.
  Variable M : machine P C.

  (* what a user generator is resumed with *)
  Inductive uev := UReq (p : P) | UErr (x : xkind).

  (* everything user code observes, in order *)
  Inductive event :=
  | EOnConn                              (* on_connection() called *)
  | EStart (g : nat)                     (* generator g runs for the first time *)
  | EGot (g : nat) (ev : uev) (now : nat)(* generator g resumed at its yield with a request / a thrown error, at time now *)
  | EEnd (g : nat)                       (* generator g finished by itself (return / raise) *)
  | EClosed (g : nat)                    (* GeneratorExit delivered to generator g at its yield *)
  | EOnDisc.                             (* on_disconnection() called *)

  (* ------------------------------------------------------------------ request receiver *)
  Inductive nact := NSend (p : P) | NThrow (x : xkind) | NStop.

  Definition nact_of (r : nres P) : nact :=
    match r with RPkt p => NSend p | RErr e => NThrow (XParse e) | RStop => NThrow XCrash | RCrash => NThrow XCrash end.

  (* the `while True` loop once the first consumer.next(None) raised StopIteration; [dl] = deadline of the timeout scope *)
  Fixpoint rq_loop (fuel : nat) (dl : option nat) (c : C) (o : speer) (now : nat) : C * speer * nat * nact :=
    match fuel with
    | 0 => (c, o, now, NThrow XCrash)
    | S f =>
        match o with
        | [] => (c, [], now, NStop)
        | it :: o' =>
            let T := sitem_at it in
            let timed_out := match dl with Some d => Nat.ltb now T && Nat.leb d T | None => false end in
            if timed_out then (c, o, match dl with Some d => Nat.max now d | None => now end, NThrow XTimeout)
            else
              let now' := Nat.max now T in
              match it with
              | SEof _ => (c, o', now', NStop)
              | SRaise 0 _ => (c, o', now', NStop)
              | SRaise k _ => (c, o', now', NThrow (XOS k))
              | SData [] _ => (c, o', now', NStop)
              | SData ch _ =>
                  match mtake M c ch with
                  | None => (c, o, now', NThrow XCrash)
                  | Some (c', r, n, _) =>
                      let o'' := if Nat.ltb n (length ch) then SData (skipn n ch) T :: o' else o' in
                      match r with
                      | RStop => rq_loop f dl c' o'' now'
                      | _ => (c', o'', now', nact_of r)
                      end
                  end
              end
        end
    end.

  (* _RequestReceiver.next(timeout) *)
  Definition rq_next (t : option nat) (c : C) (o : speer) (now : nat) : C * speer * nat * nact :=
    match mdrain M c with
    | (c', RStop) => rq_loop (S (speer_size o)) (option_map (fun d => now + d) t) c' o now
    | (c', r) => (c', o, now, nact_of r)
    end.

  (* ------------------------------------------------------------------ user code *)
  Record ustate := {
    acts : list hact;
    closed : bool;          (* client.aclose() called by the handler = transport.is_closing() = client.is_closing() *)
    ulog : list event;      (* most recent first *)
    wire : list P           (* echoed requests, most recent first *)
  }.

  Definition ulogev (e : event) (u : ustate) : ustate :=
    {| acts := acts u; closed := closed u; ulog := e :: ulog u; wire := wire u |}.
  Definition uclose (u : ustate) : ustate :=
    {| acts := acts u; closed := true; ulog := ulog u; wire := wire u |}.
  Definition usend (p : P) (u : ustate) : ustate :=
    if closed u then u else {| acts := acts u; closed := closed u; ulog := ulog u; wire := p :: wire u |}.

  Inductive ures := UYield (t : option nat) | UDone | URaise (x : xkind).

  Definition pop_act (u : ustate) : hact * ustate :=
    match acts u with
    | [] => (ACloseReturn, u)
    | a :: r => (a, {| acts := r; closed := closed u; ulog := ulog u; wire := wire u |})
    end.

  (* user code of generator g runs until its next yield / its end *)
  Definition do_act (g : nat) (thrown : option xkind) (u : ustate) : ustate * ures :=
    let '(a, u1) := pop_act u in
    match a with
    | AYield t => (u1, UYield t)
    | AReturn => (ulogev (EEnd g) u1, UDone)
    | ACloseReturn => (ulogev (EEnd g) (uclose u1), UDone)
    | ACloseYield t => (uclose u1, UYield t)
    | ARaise => (ulogev (EEnd g) u1, URaise (match thrown with Some x => x | None => XHandler end))
    end.

  Definition ustart (g : nat) (u : ustate) : ustate * ures := do_act g None (ulogev (EStart g) u).

  Definition uresume (g : nat) (ev : uev) (now : nat) (u : ustate) : ustate * ures :=
    let u1 := ulogev (EGot g ev now) u in
    match ev with
    | UReq p => do_act g None (usend p u1)
    | UErr x => do_act g (Some x) u1
    end.

  (* ------------------------------------------------------------------ the generator built by build_lowlevel_stream_server_handler *)
  Inductive hphase := HOnConn (g : nat) | HHandle (g : nat).     (* where it is suspended, with the active user generator *)
  Inductive hres := HYielded (ph : hphase) (t : option nat) | HFinished | HRaised (x : xkind).

  (* `while not client_is_closing(): request_handler_generator = new_request_handler(client); anext(...)`:
     on_disconnection is on the exit stack from here on *)
  Definition handle_loop (g : nat) (u : ustate) : ustate * hres :=
    if closed u then (ulogev EOnDisc u, HFinished)
    else
      match ustart g u with
      | (u1, UYield t) => (u1, HYielded (HHandle g) t)
      | (u1, UDone) => (ulogev EOnDisc u1, HFinished)
      | (u1, URaise x) => (ulogev EOnDisc u1, HRaised x)
      end.

  (* first anext(): on_connection is a coroutine (oc = 0), a coroutine that closes the client (oc = 2), or a generator (oc = 1) *)
  Definition hstart (oc : nat) (u : ustate) : ustate * hres :=
    let u0 := ulogev EOnConn u in
    match oc with
    | 0 => handle_loop 0 u0
    | 1 =>
        match ustart 0 u0 with
        | (u1, UYield t) => (u1, HYielded (HOnConn 0) t)
        | (u1, UDone) => handle_loop 1 u1
        | (u1, URaise x) => (u1, HRaised x)          (* on_disconnection not registered yet *)
        end
    | _ => handle_loop 0 (uclose u0)
    end.

  Definition phase_gen (ph : hphase) : nat := match ph with HOnConn g => g | HHandle g => g end.

  (* asend(request) / athrow(error) into the suspended generator *)
  Definition hresume (ph : hphase) (ev : uev) (now : nat) (u : ustate) : ustate * hres :=
    let g := phase_gen ph in
    match uresume g ev now u with
    | (u1, UYield t) => (u1, HYielded ph t)
    | (u1, UDone) => handle_loop (S g) u1
    | (u1, URaise x) =>
        match ph with
        | HOnConn _ => (u1, HRaised x)
        | HHandle _ => (ulogev EOnDisc u1, HRaised x)
        end
    end.

  (* aclose() of the suspended generator: GeneratorExit at `yield timeout` -> ThrowAction -> aclose of the user generator *)
  Definition hclose (ph : hphase) (u : ustate) : ustate :=
    let u1 := ulogev (EClosed (phase_gen ph)) u in
    match ph with
    | HOnConn _ => u1
    | HHandle _ => ulogev EOnDisc u1
    end.

  (* ------------------------------------------------------------------ __client_coroutine *)
  Record final := {
    f_user : ustate;
    f_outcome : option xkind;   (* None = the task returned normally *)
    f_closed : bool;            (* transport closed when the task ends *)
    f_peer : speer;             (* what the task did not read *)
    f_now : nat;
    f_eof : bool                (* ghost: the task ended because the peer closed (receiver raised StopAsyncIteration) *)
  }.

  (* the task's exit stack: consumer.clear, aclose_forcefully(transport) *)
  Definition finish_ (eof : bool) (u : ustate) (x : option xkind) (o : speer) (now : nat) : final :=
    {| f_user := u; f_outcome := x; f_closed := true; f_peer := o; f_now := now; f_eof := eof |}.
  Definition finish := finish_ false.

  Fixpoint client_loop (fuel : nat) (ph : hphase) (t : option nat) (c : C) (o : speer) (now : nat) (u : ustate) : final :=
    match fuel with
    | 0 => finish u (Some XCrash) o now
    | S f =>
        if closed u then finish (hclose ph u) None o now        (* while not transport.is_closing() ; finally aclose *)
        else
          let '(c', o', now', a) := rq_next t c o now in
          match a with
          | NStop => finish_ true (hclose ph u) None o' now'
          | NSend p =>
              match hresume ph (UReq p) now' u with
              | (u1, HYielded ph' t') => client_loop f ph' t' c' o' now' u1
              | (u1, HFinished) => finish u1 None o' now'
              | (u1, HRaised x) => finish u1 (Some x) o' now'
              end
          | NThrow x =>
              match hresume ph (UErr x) now' u with
              | (u1, HYielded ph' t') => client_loop f ph' t' c' o' now' u1
              | (u1, HFinished) => finish u1 None o' now'
              | (u1, HRaised x') => finish u1 (Some x') o' now'
              end
          end
    end.

  Definition client_coroutine (oc : nat) (acts0 : list hact) (c : C) (o : speer) : final :=
    let u0 := {| acts := acts0; closed := false; ulog := []; wire := [] |} in
    match hstart oc u0 with
    | (u1, HYielded ph t) => client_loop (S (S (length acts0))) ph t c o 0 u1
    | (u1, HFinished) => finish u1 None o 0
    | (u1, HRaised x) => finish u1 (Some x) o 0
    end.
End Server.
