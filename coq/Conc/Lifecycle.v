(* C18 -- server lifecycle (servers/_base.py BaseAsyncNetworkServerImpl) as an executable labelled transition system.

   State = the private fields of the server + the pending lifecycle calls, each at one of its suspension points:
     serve_forever : SAct   inside server_activate(): factory scope open, awaiting coro_yield()/servers_factory()
                     SInit  close guard held, awaiting initialize_service() / task_group.start()
                     SMain  `await sleep_forever()` inside the run scope (server is up)
                     SWait  leaving: run scope reset, task group cancelled its children and waits for them
                     SQuit  children gone, server tasks cleared: the service's own exit stack (service_quit) runs;
                            the event of the run is set only after it
     server_close  : waiting for __server_close_lock (asyncio.Lock: one holder, FIFO waiters = [cwait])
                     CTasks lock + guard held, server tasks cancelled, waiting for them
                     CListeners  closing the listeners (each aclose() yields)
     shutdown      : waiting for the __is_shutdown event of run g
   The first segment of a call (up to its first suspension) is atomic: asyncio runs it without interleaving.
   Labels: new calls, client connects / disconnects, completions of awaited things (factory, service_init, cancelled
   tasks ending) -- any of them may happen at any time, so "all interleavings" = all label sequences.
   Ghost fields: [gen]/[fin] count runs started / finished; call ids.                                                 *)
From Coq Require Import List Bool Arith ZArith Lia.
From EN Require Import Gen.ParamsC18.
Import ListNotations.

Inductive outcome := OOk | OAlreadyRunning | OClosed | OBusy
  | OFail     (* serve_forever ends with the error of the listeners factory (e.g. OSError: address in use) *)
  | OCrash.   (* serve_forever ends with ExceptionGroup[RuntimeError('TaskGroup ... is shutting down')]: defect, see notes *)
Inductive spc := SAct | SInit | SMain | SWait | SQuit.
Inductive cpc := CTasks | CListeners.
Inductive lstate := LEmpty | LOpen | LClosing.          (* self.__servers: [] / listening / aclose() started *)
Inductive tstate := TNone | TRun | TCancelling | TDone.  (* self.__server_tasks: [] / running / cancel requested / done *)
Inductive gowner := GServe | GClose.                     (* who holds __server_close_guard *)

Record st := mk {
  closed : bool;            (* __servers_factory_cb is None *)
  lst : lstate;
  ev : bool;                (* current __is_shutdown event is set *)
  gen : nat; fin : nat;
  scope : option bool;      (* __server_run_scope : None | Some cancel_called *)
  fscope : option bool;     (* __servers_factory_scope *)
  guard : option gowner;
  stask : tstate;
  active : nat;             (* __active_tasks *)
  clients : nat;            (* connected clients (each holds _bind_server()) *)
  dying : nat;              (* client tasks cancelled by the task group, not finished yet *)
  udpq : bool;              (* UDP only: some address has a suspended handler AND a queued datagram *)
  serves : list (nat * spc);
  closer : option (nat * cpc);  (* holder of __server_close_lock and where it is *)
  cwait : list nat;             (* server_close calls queued on the lock, FIFO *)
  waiters : list (nat * nat);   (* shutdown call id, run waited for *)
  next_id : nat
}.

Definition init : st :=
  mk false LEmpty true 0 0 None None None TNone 0 0 0 false [] None [] [] 0.

Inductive obs :=
| Ret (id : nat) (o : outcome)
| Serving (is_serving is_listening : bool).

Inductive label :=
| LCallServe | LCallClose | LCallShutdown
| LConnect | LDisconnect | LQuery
| LUdpQueue            (* UDP: a datagram arrives for an address whose handler is suspended on an earlier one *)
| LFactoryDone (id : nat) | LFactoryFail (id : nat) | LInitDone (id : nat) | LWake (id : nat)
| LChildrenDone (id : nat) | LServeExit (id : nat)
| LTaskDone | LClientGone
| LCloseLock | LCloseTasks | LCloseFinish
| LShutdownWake (id : nat).

Definition is_external (l : label) : bool :=
  match l with LCallServe | LCallClose | LCallShutdown | LConnect | LDisconnect | LQuery | LUdpQueue => true | _ => false end.

(* ---- field updates ---- *)
Definition set_serves (s : st) v := mk (closed s) (lst s) (ev s) (gen s) (fin s) (scope s) (fscope s) (guard s) (stask s) (active s) (clients s) (dying s) (udpq s) v (closer s) (cwait s) (waiters s) (next_id s).
Definition set_closer (s : st) v := mk (closed s) (lst s) (ev s) (gen s) (fin s) (scope s) (fscope s) (guard s) (stask s) (active s) (clients s) (dying s) (udpq s) (serves s) v (cwait s) (waiters s) (next_id s).
Definition set_cwait (s : st) v := mk (closed s) (lst s) (ev s) (gen s) (fin s) (scope s) (fscope s) (guard s) (stask s) (active s) (clients s) (dying s) (udpq s) (serves s) (closer s) v (waiters s) (next_id s).
Definition set_waiters (s : st) v := mk (closed s) (lst s) (ev s) (gen s) (fin s) (scope s) (fscope s) (guard s) (stask s) (active s) (clients s) (dying s) (udpq s) (serves s) (closer s) (cwait s) v (next_id s).
Definition set_scope (s : st) v := mk (closed s) (lst s) (ev s) (gen s) (fin s) v (fscope s) (guard s) (stask s) (active s) (clients s) (dying s) (udpq s) (serves s) (closer s) (cwait s) (waiters s) (next_id s).
Definition set_fscope (s : st) v := mk (closed s) (lst s) (ev s) (gen s) (fin s) (scope s) v (guard s) (stask s) (active s) (clients s) (dying s) (udpq s) (serves s) (closer s) (cwait s) (waiters s) (next_id s).
Definition set_guard (s : st) v := mk (closed s) (lst s) (ev s) (gen s) (fin s) (scope s) (fscope s) v (stask s) (active s) (clients s) (dying s) (udpq s) (serves s) (closer s) (cwait s) (waiters s) (next_id s).
Definition set_stask (s : st) v := mk (closed s) (lst s) (ev s) (gen s) (fin s) (scope s) (fscope s) (guard s) v (active s) (clients s) (dying s) (udpq s) (serves s) (closer s) (cwait s) (waiters s) (next_id s).
Definition set_lst (s : st) v := mk (closed s) v (ev s) (gen s) (fin s) (scope s) (fscope s) (guard s) (stask s) (active s) (clients s) (dying s) (udpq s) (serves s) (closer s) (cwait s) (waiters s) (next_id s).
Definition set_closed (s : st) v := mk v (lst s) (ev s) (gen s) (fin s) (scope s) (fscope s) (guard s) (stask s) (active s) (clients s) (dying s) (udpq s) (serves s) (closer s) (cwait s) (waiters s) (next_id s).
Definition set_active (s : st) v := mk (closed s) (lst s) (ev s) (gen s) (fin s) (scope s) (fscope s) (guard s) (stask s) v (clients s) (dying s) (udpq s) (serves s) (closer s) (cwait s) (waiters s) (next_id s).
Definition set_udpq (s : st) v := mk (closed s) (lst s) (ev s) (gen s) (fin s) (scope s) (fscope s) (guard s) (stask s) (active s) (clients s) (dying s) v (serves s) (closer s) (cwait s) (waiters s) (next_id s).
Definition set_clients (s : st) c d := mk (closed s) (lst s) (ev s) (gen s) (fin s) (scope s) (fscope s) (guard s) (stask s) (active s) c d (udpq s) (serves s) (closer s) (cwait s) (waiters s) (next_id s).
Definition bump_id (s : st) := mk (closed s) (lst s) (ev s) (gen s) (fin s) (scope s) (fscope s) (guard s) (stask s) (active s) (clients s) (dying s) (udpq s) (serves s) (closer s) (cwait s) (waiters s) (S (next_id s)).
(* a run starts: new (unset) event, run scope entered *)
Definition begin_run (s : st) := mk (closed s) (lst s) false (S (gen s)) (fin s) (Some false) (fscope s) (guard s) (stask s) (active s) (clients s) (dying s) (udpq s) (serves s) (closer s) (cwait s) (waiters s) (next_id s).
(* a run ends: reset_scope, is_shutdown.set() *)
Definition end_run (s : st) := mk (closed s) (lst s) true (gen s) (S (fin s)) None (fscope s) (guard s) (stask s) (active s) (clients s) (dying s) (udpq s) (serves s) (closer s) (cwait s) (waiters s) (next_id s).

(* remove the first entry with this id *)
Fixpoint take {X} (id : nat) (l : list (nat * X)) : option (X * list (nat * X)) :=
  match l with
  | [] => None
  | (i, x) :: l' =>
      if Nat.eqb i id then Some (x, l')
      else match take id l' with Some (y, r) => Some (y, (i, x) :: r) | None => None end
  end.

(* __detach_server *)
Definition detach (s : st) : st :=
  let a := pred (active s) in
  let s1 := set_active s a in
  match a, scope s1 with
  | 0, Some _ => set_scope s1 (Some true)
  | _, _ => s1
  end.

Definition is_serving (s : st) : bool :=
  match stask s, lst s with (TRun | TCancelling), LOpen => true | _, _ => false end.
Definition is_listening (s : st) : bool := match lst s with LOpen => true | _ => false end.

Definition cancel_scope_if_any (s : st) : st :=
  match scope s with Some _ => set_scope s (Some true) | None => s end.

(* body of server_close once the lock is acquired *)
Definition start_close (s : st) (id : nat) : st * list obs :=
  match guard s with
  | Some _ => (s, [Ret id OBusy])       (* ResourceGuard: BusyResourceError; lock released again, nothing changed *)
  | None =>
      let s := set_guard s (Some GClose) in
      let s := match fscope s with Some _ => set_fscope s (Some true) | None => s end in
      let s := set_closed s true in
      let s := match stask s with TRun => set_stask s TCancelling | _ => s end in
      (set_closer s (Some (id, CTasks)), [])
  end.

(* `with self.__server_close_guard:` of serve_forever, after activation *)
Definition enter_setup (s : st) (id : nat) : st * list obs :=
  match guard s with
  | Some _ => (end_run s, [Ret id OBusy])
  | None => (set_serves (set_guard s (Some GServe)) (serves s ++ [(id, SInit)]), [])
  end.

Definition step (s : st) (l : label) : option (st * list obs) :=
  match l with
  | LCallServe =>
      let id := next_id s in
      let s := bump_id s in
      if negb (ev s) then Some (s, [Ret id OAlreadyRunning])
      else
        let s := begin_run s in
        if closed s then Some (end_run s, [Ret id OClosed])
        else match lst s with
             | LEmpty => Some (set_serves (set_fscope s (Some false)) (serves s ++ [(id, SAct)]), [])
             | _ => Some (enter_setup s id)
             end
  | LFactoryDone id =>
      match take id (serves s) with
      | Some (SAct, rest) =>
          let s := set_serves s rest in
          match fscope s, scope s with
          | Some true, _ => Some (end_run (set_fscope s None), [Ret id OClosed])    (* cancelled by server_close *)
          | _, Some true => Some (end_run (set_fscope s None), [Ret id OOk])        (* cancelled by shutdown *)
          | _, _ => Some (enter_setup (set_lst (set_fscope s None) LOpen) id)
          end
      | _ => None
      end
  | LInitDone id =>
      match take id (serves s) with
      | Some (SInit, rest) =>
          let s := set_guard (set_serves s rest) None in
          match scope s with
          | Some true => Some (end_run s, [Ret id OOk])
          | _ => Some (set_serves (set_active (set_stask s TRun) 1) (rest ++ [(id, SMain)]), [])
          end
      | _ => None
      end
  | LWake id =>
      match take id (serves s), scope s with
      | Some (SMain, rest), Some true =>
          let s := set_scope (set_serves s (rest ++ [(id, SWait)])) None in
          let s := match stask s with TRun => set_stask s TCancelling | _ => s end in
          Some (set_clients s 0 (dying s + clients s), [])
      | _, _ => None
      end
  | LFactoryFail id =>
      (* the listeners factory raises (bind error): server_activate's finally resets the factory scope, the error leaves
         serve_forever through its exit stack (event set) *)
      match take id (serves s) with
      | Some (SAct, rest) => Some (end_run (set_fscope (set_serves s rest) None), [Ret id OFail])
      | _ => None
      end
  | LChildrenDone id =>
      match take id (serves s), stask s, dying s with
      | Some (SWait, rest), (TNone | TDone), 0 =>
          Some (set_stask (set_serves s (rest ++ [(id, SQuit)])) TNone, [])
      | _, _, _ => None
      end
  | LServeExit id =>
      match take id (serves s) with
      | Some (SQuit, rest) =>
          (* datagram.py __on_client_coroutine_task_done runs in the finally of the cancelled client task, finds the
             queue non-empty and calls start_soon on the task group that is shutting down -> RuntimeError -> the
             group re-raises it out of serve_forever.  [udp_restart_guarded] (Gen/ParamsC18.v, regenerated from the
             source) says whether that restart is skipped for a cancelled client task. *)
          Some (end_run (set_udpq (set_serves s rest) false), [Ret id (if udpq s && negb udp_restart_guarded then OCrash else OOk)])
      | _ => None
      end
  | LTaskDone =>
      match stask s with
      | TCancelling => Some (detach (set_stask s TDone), [])
      | _ => None
      end
  | LClientGone =>
      match dying s with
      | S d => Some (detach (set_clients s (clients s) d), [])
      | 0 => None
      end
  | LConnect =>
      match stask s, lst s with
      | TRun, LOpen => Some (set_active (set_clients s (S (clients s)) (dying s)) (S (active s)), [])
      | _, _ => None
      end
  | LDisconnect =>
      match clients s with
      | S c => Some (detach (set_clients s c (dying s)), [])
      | 0 => None
      end
  | LQuery => Some (s, [Serving (is_serving s) (is_listening s)])
  | LUdpQueue =>
      match stask s, lst s with
      | TRun, LOpen => Some (set_udpq s true, [])
      | _, _ => None
      end
  | LCallClose =>
      let id := next_id s in
      let s := bump_id s in
      match closer s with
      | Some _ => Some (set_cwait s (cwait s ++ [id]), [])
      | None => Some (start_close s id)
      end
  | LCloseLock =>
      match cwait s, closer s with
      | id :: rest, None => Some (start_close (set_cwait s rest) id)
      | _, _ => None
      end
  | LCloseTasks =>
      match closer s, stask s with
      | Some (id, CTasks), (TNone | TDone) =>
          let s := set_closer s (Some (id, CListeners)) in
          Some (match lst s with LOpen => set_lst s LClosing | _ => s end, [])
      | _, _ => None
      end
  | LCloseFinish =>
      match closer s with
      | Some (id, CListeners) =>
          Some (set_guard (set_lst (set_closer s None) LEmpty) None, [Ret id OOk])
      | _ => None
      end
  | LCallShutdown =>
      let id := next_id s in
      let s := cancel_scope_if_any (bump_id s) in
      if ev s then Some (s, [Ret id OOk])
      else Some (set_waiters s (waiters s ++ [(id, gen s)]), [])
  | LShutdownWake id =>
      match take id (waiters s) with
      | Some (g, rest) => if Nat.leb g (fin s) then Some (set_waiters s rest, [Ret id OOk]) else None
      | None => None
      end
  end.

(* ---- reachability (any number of calls, any interleaving) ---- *)
Inductive reachable : st -> Prop :=
| r_init : reachable init
| r_step : forall s l s' o, reachable s -> step s l = Some (s', o) -> reachable s'.

(* ---- deterministic big step used by the correspondence: after every external label, run the internal
   transitions to quiescence.  Completions of awaited things that the driver gates (factory, service_init, client
   teardown) only fire when [gates] lets them. ---- *)
Record gates := { g_factory : bool; g_init : bool; g_client : bool; g_quit : bool }.   (* true = held back *)

Definition cancel_pending (o : option bool) : bool := match o with Some true => true | _ => false end.

Definition internal_candidates (s : st) (g : gates) : list label :=
  map (fun e => LShutdownWake (fst e)) (waiters s) ++
  flat_map (fun e => match snd e with
                     (* a cancelled await ends at once, whatever the awaited operation does *)
                     | SAct => if g_factory g && negb (cancel_pending (fscope s) || cancel_pending (scope s))
                               then [] else [LFactoryDone (fst e)]
                     | SInit => if g_init g && negb (cancel_pending (scope s)) then [] else [LInitDone (fst e)]
                     | SMain => [LWake (fst e)]
                     | SWait => [LChildrenDone (fst e)]
                     | SQuit => if g_quit g then [] else [LServeExit (fst e)]
                     end) (serves s) ++
  [LTaskDone] ++ (if g_client g then [] else [LClientGone]) ++
  [LCloseLock; LCloseTasks; LCloseFinish].

Fixpoint first_enabled (s : st) (ls : list label) : option (st * list obs) :=
  match ls with
  | [] => None
  | l :: ls' => match step s l with Some r => Some r | None => first_enabled s ls' end
  end.

Fixpoint settle (fuel : nat) (g : gates) (s : st) : st * list obs :=
  match fuel with
  | 0 => (s, [])
  | S f =>
      match first_enabled s (internal_candidates s g) with
      | None => (s, [])
      | Some (s', o) => let '(s'', o') := settle f g s' in (s'', o ++ o')
      end
  end.
