(* C17 -- exception kinds and except-clause tables (types only; the tables themselves are REGENERATED from /repo's
   source into Gen/ParamsC17.v on every run).

   A raised exception is either a naked leaf or an exception group, abstracted to the list of its leaves: except* /
   BaseExceptionGroup.split match leaf by leaf, and "is it an ExceptionGroup or only a BaseExceptionGroup" is decided
   by its leaves, so nesting is irrelevant for every decision modelled here (the driver also runs nested groups).
   Classes named by except clauses are numbers assigned by the translator; [isinst] (generated, by issubclass on the
   real classes) says which leaf kind is an instance of which class. *)
From Coq Require Import List Bool ZArith.
Import ListNotations.

Inductive leaf :=
| KGeneric        (* ValueError: an Exception subclass nobody names *)
| KOSError        (* OSError (EIO): not a ConnectionError *)
| KConnection     (* ConnectionResetError *)
| KClientClosed   (* easynetwork.exceptions.ClientClosedError *)
| KTimeout        (* TimeoutError *)
| KParse          (* Stream/DatagramProtocolParseError re-raised by the handler *)
| KFatal.         (* a BaseException that is not an Exception: OUTSIDE the property, kept for non-vacuity *)

Definition all_leaves : list leaf := [KGeneric; KOSError; KConnection; KClientClosed; KTimeout; KParse; KFatal].

Definition leaf_code (k : leaf) : Z :=
  match k with
  | KGeneric => 0 | KOSError => 1 | KConnection => 2 | KClientClosed => 3 | KTimeout => 4 | KParse => 5 | KFatal => 6
  end%Z.

Definition leaf_of_code (z : Z) : option leaf :=
  match z with
  | 0 => Some KGeneric | 1 => Some KOSError | 2 => Some KConnection | 3 => Some KClientClosed
  | 4 => Some KTimeout | 5 => Some KParse | 6 => Some KFatal | _ => None
  end%Z.

Definition leaf_eqb (a b : leaf) : bool := Z.eqb (leaf_code a) (leaf_code b).

Inductive exc :=
| Naked (k : leaf)
| Group (g : list leaf).

Definition cls := nat.

(* What the body of an except clause does (classified fail-closed by the translator):
   - ASwallow log   : only logging / pass                          -> the matched exception is dropped
   - AReraise       : ends with a bare [raise]
   - AReraiseUnless c : [if not isinstance(exc, c): raise]         -> dropped iff instance of c
   [closes] records that the body closes the connection first (client_socket.close() / aclose_forcefully(stream)). *)
Inductive action :=
| ASwallow (log : Z)
| AReraise
| AReraiseUnless (c : cls).

Record clause := { c_classes : list cls; c_action : action; c_closes : bool }.

(* one try statement: try/except* or try/except; a filter is a list of them, innermost first *)
Inductive layer :=
| LStar (cs : list clause)
| LPlain (cs : list clause).

(* `match exc_val:` of the UDP _ClientContext.__aexit__ *)
Inductive mres :=
| MSuppress (log : Z)      (* return True *)
| MPropagate               (* return False: the original exception continues *)
| MRaiseRest.              (* raise exc_val (the remainder of the split) *)

Inductive mcase :=
| MClass (c : cls) (r : mres)
| MGroupSplit (cgroup : cls) (csplit : cls) (log_split : Z)
              (inner_none : mres) (inner : list (cls * mres)) (inner_default : mres)
| MDefault (r : mres).

(* transport flavours of the TCP server: the per-client exit stack of __client_initializer differs per flavour *)
Inductive flavour :=
| FPlain        (* no TLS: the linger callback is registered *)
| FTlsCompat    (* TLS, ssl_standard_compatible=True: aclosing(lowlevel_client) is entered (close handshake) *)
| FTls.         (* TLS, ssl_standard_compatible=False: neither *)
Definition all_flavours : list flavour := [FPlain; FTlsCompat; FTls].

(* what a request handler may yield as the delay for its next request *)
Inductive delay := DNone | DZero | DPos | DNeg | DInf | DNan | DStr | DHuge.
Definition all_delays : list delay := [DNone; DZero; DPos; DNeg; DInf; DNan; DStr; DHuge].
Definition delay_code (d : delay) : Z :=
  match d with DNone => 0 | DZero => 1 | DPos => 2 | DNeg => 3 | DInf => 4 | DNan => 5 | DStr => 6 | DHuge => 7 end%Z.
Definition delay_of_code (z : Z) : option delay :=
  match z with
  | 0 => Some DNone | 1 => Some DZero | 2 => Some DPos | 3 => Some DNeg | 4 => Some DInf | 5 => Some DNan
  | 6 => Some DStr | 7 => Some DHuge | _ => None
  end%Z.
(* what arming / waiting with that delay raises when no request arrives: None = it simply waits (None, inf);
   0, 0.5, -1: TimeoutError; NaN: ValueError("deadline is NaN"); "abc": TypeError; 10**400: OverflowError *)
Definition delay_error (d : delay) : option leaf :=
  match d with
  | DNone | DInf => None
  | DZero | DPos | DNeg => Some KTimeout
  | DNan | DStr | DHuge => Some KGeneric
  end.

(* items of the per-client exit stack of AsyncTCPNetworkServer.__client_initializer, in push order *)
Inductive stack_item := SBind | SSuppress | SLinger | SAclosing | SLogDisconnected | SOnDisconnect.
