(* C08/C09 — vocabulary shared by the TLS models: outcome classes of one call on the SSL object, the Python exception
   classes the transports distinguish, and the shapes of the except-clause tables regenerated into Gen/ParamsC09.v. *)
From EN Require Import Lib.Bytes.

(* SSLError subclasses other than want-read / want-write, as the transports can tell them apart *)
Inductive sslerr :=
| EZeroReturn      (* ssl.SSLZeroReturnError                                           *)
| ESslEof          (* ssl.SSLEOFError                                                  *)
| ESslEofStr       (* plain ssl.SSLError whose strerror has UNEXPECTED_EOF_WHILE_READING *)
| ESyscall         (* ssl.SSLSyscallError                                              *)
| ESslOther        (* any other ssl.SSLError                                           *)
| ECert.           (* ssl.SSLCertVerificationError                                     *)

(* how one call on the SSL object ended *)
Inductive sslout :=
| SOk (v : nat)    (* returned; v = length of the returned bytes / returned int        *)
| SWantRead | SWantWrite
| SErr (e : sslerr)
| SOSErr           (* an OSError that is not an SSLError                               *)
| SOther.          (* any other exception                                              *)

Inductive meth := MHandshake | MRead | MWrite | MUnwrap.

Definition meth_eqb (a b : meth) : bool :=
  match a, b with
  | MHandshake, MHandshake | MRead, MRead | MWrite, MWrite | MUnwrap, MUnwrap => true
  | _, _ => false
  end.

(* Python exception classes named in the except clauses *)
Inductive exc_class :=
| CWantRead | CWantWrite | CZeroReturn | CSslEof | CSyscall | CCert | CSslError | COSError | CValueError | CBaseException.

Definition exc_class_eqb (a b : exc_class) : bool :=
  match a, b with
  | CWantRead, CWantRead | CWantWrite, CWantWrite | CZeroReturn, CZeroReturn | CSslEof, CSslEof
  | CSyscall, CSyscall | CCert, CCert | CSslError, CSslError | COSError, COSError | CValueError, CValueError
  | CBaseException, CBaseException => true
  | _, _ => false
  end.

(* the exact class of an outcome that is an exception (None for SOk) *)
Inductive exc := XWantRead | XWantWrite | XSsl (e : sslerr) | XOSError | XOther.

Definition exc_of (o : sslout) : option exc :=
  match o with
  | SOk _ => None
  | SWantRead => Some XWantRead
  | SWantWrite => Some XWantWrite
  | SErr e => Some (XSsl e)
  | SOSErr => Some XOSError
  | SOther => Some XOther
  end.

(* isinstance(x, c) — the class hierarchy of the stdlib ssl module (SSLError < OSError; all of the named ones < SSLError;
   SSLCertVerificationError < SSLError and ValueError) *)
Definition isinstance (x : exc) (c : exc_class) : bool :=
  match c with
  | CBaseException => true
  | COSError => match x with XOther => false | _ => true end
  | CSslError => match x with XOther | XOSError => false | _ => true end
  | CWantRead => match x with XWantRead => true | _ => false end
  | CWantWrite => match x with XWantWrite => true | _ => false end
  | CZeroReturn => match x with XSsl EZeroReturn => true | _ => false end
  | CSslEof => match x with XSsl ESslEof => true | _ => false end
  | CSyscall => match x with XSsl ESyscall => true | _ => false end
  | CCert => match x with XSsl ECert => true | _ => false end
  | CValueError => match x with XSsl ECert => true | _ => false end
  end.

(* "UNEXPECTED_EOF_WHILE_READING" in exc.strerror *)
Definition has_eof_strerror (x : exc) : bool :=
  match x with XSsl ESslEofStr => true | _ => false end.

(* shapes of handler bodies the translator recognises *)
Inductive hact :=
| HReturnEof        (* return b"" / return 0                                                     *)
| HEofGuardRaise.   (* if is_ssl_eof_error(exc): if not self._standard_compatible: return EOF ; raise *)

(* match-case patterns of is_ssl_eof_error *)
Inductive eofpat :=
| PIsInstance (c : exc_class)             (* case ssl.X():                                           *)
| PIsInstanceStrerror (c : exc_class).    (* case ssl.X() if hasattr(exc,"strerror") and "UNEXPECTED_EOF_WHILE_READING" in exc.strerror *)
