(* Blocking TCPNetworkClient / UDPNetworkClient: the lock discipline of IO/ClientLocks.v (builder-io) composed with the
   wire.  No proofs here.

   A send_packet call is a ClientLocks call of method MSend; while it is inside its body (phase PHold: it owns the send
   lock) it writes the pieces of its packet to the socket one at a time (BPiece: socket.send accepted the next piece);
   it can finish normally only when every piece is written, and abnormally (error / timeout in the body) at any point.
   recv_packet (MRecv) and the quick methods (MQuick: close, is_closed, ...) run concurrently under ClientLocks' rules.
   Ghost: one segment per send that entered its body, newest first (Conc.SendSerial.seg, owner = call id).          *)
From Coq Require Import ZArith List Bool Arith.
From EN Require Import Lib.Bytes IO.Retry IO.ClientLocks Conc.SendSerial.
Import ListNotations.

Definition aget (k : nat) (l : list (nat * list bytes)) : list bytes :=
  match List.find (fun x => Nat.eqb (fst x) k) l with Some x => snd x | None => [] end.

Record bst := mkB {
  b_c : cst;                              (* ClientLocks state: owners of the two locks, the calls and their phases *)
  b_wire : bytes;
  b_segs : list seg;                      (* ghost *)
  b_pk : list (nat * list bytes);         (* packet (pieces) of each send call *)
  b_todo : list (nat * list bytes)        (* pieces the send call still has to write *)
}.

Definition b_init : bst := mkB cst0 [] [] [] [].

Definition phase_of (k : nat) (c : cst) : option (meth * phase) :=
  match lookup k (cs c) with Some x => Some (c_m x, c_ph x) | None => None end.

Definition in_send_body (k : nat) (c : cst) : bool :=
  match phase_of k c with Some (MSend, PHold) => true | _ => false end.

Inductive blabel :=
| BLock (lb : label) (pkt : list bytes)   (* a ClientLocks label; pkt = the packet when it starts a send_packet call *)
| BPiece (k : nat).

Definition label_call (lb : label) : nat :=
  match lb with Start k _ _ => k | Grant k => k | GiveUp k => k | Finish k _ => k end.

Definition b_step (s : bst) (l : blabel) : option bst :=
  match l with
  | BLock lb pkt =>
      let k := label_call lb in
      let ok_to_finish := match lb with
                          | Finish _ true => negb (in_send_body k (b_c s)) || match aget k (b_todo s) with [] => true | _ => false end
                          | _ => true
                          end in
      if negb ok_to_finish then None else
      match step (b_c s) lb with
      | None => None
      | Some c' =>
          let pk := match lb with Start _ MSend _ => (k, pkt) :: b_pk s | _ => b_pk s end in
          if negb (in_send_body k (b_c s)) && in_send_body k c' then
            (* the send entered its body: it owns the send lock *)
            Some (mkB c' (b_wire s) (mkSeg k (aget k pk) 0 SgActive :: b_segs s) pk ((k, aget k pk) :: b_todo s))
          else if in_send_body k (b_c s) && negb (in_send_body k c') then
            (* the send left its body *)
            Some (mkB c' (b_wire s)
                      (seg_close (match lb with Finish _ true => SgComplete | _ => SgAborted end) (b_segs s)) pk (b_todo s))
          else Some (mkB c' (b_wire s) (b_segs s) pk (b_todo s))
      end
  | BPiece k =>
      if in_send_body k (b_c s) then
        match aget k (b_todo s) with
        | pc :: more => Some (mkB (b_c s) (b_wire s ++ pc) (seg_wrote (b_segs s)) (b_pk s) ((k, more) :: b_todo s))
        | [] => None
        end
      else None
  end.

Fixpoint b_run (s : bst) (ls : list blabel) : option bst :=
  match ls with
  | [] => Some s
  | l :: ls' => match b_step s l with Some s' => b_run s' ls' | None => None end
  end.
