(* Specification vocabulary for C15 (definitions only, no proofs). *)
From EN Require Import Lib.Bytes Frame.Framer Stream.Consumer Stream.Endpoint Conc.StreamServer.

(* the request bytes the peer sent before it closed / reset the connection *)
Fixpoint sstream_of (o : speer) : bytes :=
  match o with
  | [] => []
  | SData [] _ :: _ => []
  | SData ch _ :: o' => ch ++ sstream_of o'
  | SEof _ :: _ => []
  | SRaise 0 _ :: _ => []
  | SRaise _ _ :: o' => sstream_of o'
  end.

Section Spec.
  Context {P : Type}.

  (* what a resumption of a handler generator contributes to the request sequence: a request, or a parse error
     (RCrash stands for a RuntimeError of the consumer, which the decoding [spec] may also contain) *)
  Definition got_ev (ev : @uev P) : list (nres P) :=
    match ev with
    | UReq p => [RPkt p]
    | UErr (XParse e) => [RErr e]
    | UErr XCrash => [RCrash]
    | UErr _ => []
    end.

  (* requests and parse errors seen inside the handler generators, in chronological order, concatenated over all
     generators (on_connection generator, then every handle() generator); [log] is most-recent-first *)
  Fixpoint got_log (log : list (@event P)) : list (nres P) :=
    match log with
    | [] => []
    | EGot _ ev _ :: l => got_log l ++ got_ev ev
    | _ :: l => got_log l
    end.

  (* generator life cycle, checked over the chronological log: state = (active generator, next fresh id).
     A generator starts only when none is active and with a fresh id; it is resumed only while active; it ends by itself
     (EEnd) or by GeneratorExit (EClosed) only while active — hence exactly once. *)
  Definition lstep (s : option nat * nat) (e : @event P) : option (option nat * nat) :=
    let '(active, next) := s in
    match e with
    | EOnConn | EOnDisc => Some s
    | EStart g => match active with None => if Nat.eqb g next then Some (Some g, S next) else None | Some _ => None end
    | EGot g _ _ => match active with Some a => if Nat.eqb g a then Some s else None | None => None end
    | EEnd g | EClosed g => match active with Some a => if Nat.eqb g a then Some (None, next) else None | None => None end
    end.

  Fixpoint lrun (log : list (@event P)) : option (option nat * nat) :=     (* log is most-recent-first *)
    match log with
    | [] => Some (None, 0)
    | e :: l => match lrun l with Some s => lstep s e | None => None end
    end.
End Spec.

(* arrival times of the peer's items never decrease *)
Fixpoint nondecr (o : speer) : Prop :=
  match o with
  | [] => True
  | it :: o' => Forall (fun it' => sitem_at it <= sitem_at it') o' /\ nondecr o'
  end.
