(* Executable model of lowlevel/_utils.py ResourceGuard.  The state is `__held`.
     __enter__ : if self.__held: raise BusyResourceError(msg) ; self.__held = True
     __exit__  : if not self.__held: raise AssertionError(...) ; self.__held = False            *)
From Coq Require Import Bool.

Definition guard := bool.
Definition guard_init : guard := false.

(* None = BusyResourceError *)
Definition guard_enter (g : guard) : option guard := if g then None else Some true.
(* None = AssertionError("ResourceGuard released too many times") *)
Definition guard_exit (g : guard) : option guard := if g then Some false else None.
