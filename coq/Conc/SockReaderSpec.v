(* Specification vocabulary for C10 over the SockReader LTS (definitions only, no proofs). *)
From EN Require Import Lib.Bytes Conc.SockReader.

(* what the consumer got, read off the observations: the bytes of every receive that returned *)
Definition received (os : list obs) : bytes :=
  flat_map (fun o => match o with ORes (RBytes b) => b | _ => [] end) os.

(* what the loop delivered, read off labels and observations: the accepted prefix of every read event *)
Fixpoint accepted (ls : list label) (os : list obs) : bytes :=
  match ls, os with
  | LData b :: ls', OData n _ _ :: os' => firstn n b ++ accepted ls' os'
  | _ :: ls', _ :: os' => accepted ls' os'
  | _, _ => []
  end.

(* Every delivered byte is either already returned, or still on its way (caller's buffer awaiting the wake-up,
   then the protocol's buffer), in stream order; the only bytes ever dropped are a tail of the stream dropped by
   connection_lost(), and then an error is reported to every later receive. *)
Definition no_loss_at (s : st) : Prop :=
  exists tail, returned s ++ parked s ++ tail = delivered s /\ (tail <> [] -> lost_exc s <> None).

(* The two racy steps of the unrepaired protocol (F4):
   - task.cancel() while the caller's buffer holds bytes the task has not been told about yet;
   - a read event while the external view is still exported although its waiter is no longer pending. *)
Definition racyb (s : st) (l : label) : bool :=
  match l with
  | LCancel => negb (is_nil (extdata s))
  | LData b =>
      match ext s with
      | Some _ => negb (is_pending (waiter s)) && negb (lost s || eof s || is_nil b)
      | None => false
      end
  | _ => false
  end.

Fixpoint race_free (s : st) (ls : list label) : Prop :=
  match ls with
  | [] => True
  | l :: ls' => racyb s l = false /\ race_free (fst (step false s l)) ls'
  end.

Definition has_recv_into (l : label) : bool := match l with LRecvInto _ => true | _ => false end.

