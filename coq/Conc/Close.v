(* C14 -- every close path of the async API as a small program over abstract leaf transports.

   A leaf transport's aclose() is "mark closing, then m suspension points".  The environment chooses the outcome of
   every suspension point (label): it completes, raises OSError, is cancelled, or the enclosing timed scope
   (TLS shutdown_timeout / handshake_timeout) expires there.  Inside aclose_forcefully (move_on_after(0)) the first
   suspension is cancelled by the scope and no label is consumed.

   Programs are functions  env -> world -> labels -> result * world * labels  written with the control structure of
   the Python code (try/except BaseException, finally, with scope).  No proofs here (Proofs/C14_proofs.v). *)
From Coq Require Import List Bool Arith Lia.
Import ListNotations.
From EN Require Import Gen.ParamsC14.

Inductive xlabel := XStep | XRaise | XCancel | XTimeout.

Inductive res :=
| ROk
| RErr        (* OSError (incl. ssl.SSLError) *)
| RCancel     (* CancelledError from the caller / an outer scope *)
| RForced     (* CancelledError caused by the enclosing move_on_after(0) of aclose_forcefully *)
| RShutdown   (* CancelledError caused by the enclosing timed scope *)
| RTimeoutErr (* TimeoutError raised by backend.timeout() (handshake) *)
| RBusy       (* BusyResourceError from a ResourceGuard *)
| ROther.     (* any other exception (a user callback / parser generator that raises) *)

Record world := {
  w_leaf : nat -> bool;      (* closing flag of leaf transport i *)
  w_tls_closing : bool;      (* AsyncTLSStreamTransport.__closing *)
  w_tls_closed : bool;       (* AsyncTLSStreamTransport.__closed is set *)
  w_api_closing : bool;      (* _ConnectedClientAPI.__closing *)
  w_lock : bool;             (* the send lock is held by a sender suspended on a slow peer *)
  w_guard : bool;            (* ... which also holds the endpoint's send ResourceGuard *)
  w_used : nat;              (* suspension points at which a label was consumed *)
  w_flushed : nat -> bool    (* asyncio adapter leaf i: write buffer flushed, connection_lost ran, fd released *)
}.

Record env := { e_forced : bool; e_timed : bool }.

Definition M := env -> world -> list xlabel -> res * world * list xlabel.

Definition set_leaf (w : world) (i : nat) : world :=
  {| w_leaf := fun j => if Nat.eqb j i then true else w_leaf w j; w_tls_closing := w_tls_closing w;
     w_tls_closed := w_tls_closed w; w_api_closing := w_api_closing w; w_lock := w_lock w; w_guard := w_guard w;
     w_used := w_used w; w_flushed := w_flushed w |}.
Definition use (w : world) : world :=
  {| w_leaf := w_leaf w; w_tls_closing := w_tls_closing w; w_tls_closed := w_tls_closed w;
     w_api_closing := w_api_closing w; w_lock := w_lock w; w_guard := w_guard w; w_used := S (w_used w); w_flushed := w_flushed w |}.
Definition set_tls_closing (w : world) : world :=
  {| w_leaf := w_leaf w; w_tls_closing := true; w_tls_closed := w_tls_closed w;
     w_api_closing := w_api_closing w; w_lock := w_lock w; w_guard := w_guard w; w_used := w_used w; w_flushed := w_flushed w |}.
Definition set_tls_closed (w : world) : world :=
  {| w_leaf := w_leaf w; w_tls_closing := w_tls_closing w; w_tls_closed := true;
     w_api_closing := w_api_closing w; w_lock := w_lock w; w_guard := w_guard w; w_used := w_used w; w_flushed := w_flushed w |}.
Definition set_api_closing (w : world) : world :=
  {| w_leaf := w_leaf w; w_tls_closing := w_tls_closing w; w_tls_closed := w_tls_closed w;
     w_api_closing := true; w_lock := w_lock w; w_guard := w_guard w; w_used := w_used w; w_flushed := w_flushed w |}.
Definition release_sender (w : world) : world :=    (* the suspended sender finished: lock and guard are free *)
  {| w_leaf := w_leaf w; w_tls_closing := w_tls_closing w; w_tls_closed := w_tls_closed w;
     w_api_closing := w_api_closing w; w_lock := false; w_guard := false; w_used := w_used w; w_flushed := w_flushed w |}.

Definition set_flushed (w : world) (i : nat) : world :=
  {| w_leaf := w_leaf w; w_tls_closing := w_tls_closing w; w_tls_closed := w_tls_closed w;
     w_api_closing := w_api_closing w; w_lock := w_lock w; w_guard := w_guard w; w_used := w_used w;
     w_flushed := fun j => if Nat.eqb j i then true else w_flushed w j |}.

(* one suspension point *)
Definition point : M := fun e w ls =>
  if e_forced e then (RForced, w, ls)
  else match ls with
       | [] => (ROk, use w, [])
       | XStep :: ls' => (ROk, use w, ls')
       | XRaise :: ls' => (RErr, use w, ls')
       | XCancel :: ls' => (RCancel, use w, ls')
       | XTimeout :: ls' => if e_timed e then (RShutdown, use w, ls') else (ROk, use w, ls')
       end.

(* m suspension points in sequence; stops at the first that does not complete *)
Fixpoint points (m : nat) : M := fun e w ls =>
  match m with
  | 0 => (ROk, w, ls)
  | S m' => match point e w ls with
            | (ROk, w', ls') => points m' e w' ls'
            | other => other
            end
  end.

(* ------------------------------------------------------------------ transports without TLS *)
Inductive base :=
| BLeaf (i : nat) (m : nat)            (* leaf i whose first aclose() has m suspension points *)
| BStapled (s r : base)                (* AsyncStapledStreamTransport(send_transport=s, receive_transport=r) *)
| BAdapter (i : nat) (backlog : bool). (* AsyncioTransportStreamSocketAdapter over a real asyncio transport; backlog:
                                          unflushed write data and a peer that is not reading when the close starts *)

Fixpoint base_closing (b : base) (w : world) : bool :=
  match b with
  | BLeaf i _ => w_leaf w i
  | BStapled s r => base_closing s w && base_closing r w
  | BAdapter i _ => w_leaf w i
  end.

(* aclose_forcefully(t) = with move_on_after(0): await t.aclose() *)
Definition forceful (p : M) : M := fun e w ls =>
  match p {| e_forced := true; e_timed := e_timed e |} w ls with
  | (RForced, w', ls') => (ROk, w', ls')
  | other => other
  end.

Fixpoint base_aclose (b : base) : M := fun e w ls =>
  match b with
  | BLeaf i m =>
      if w_leaf w i then (ROk, w, ls)                 (* already closed: returns at once *)
      else points m e (set_leaf w i) ls               (* closing flag first *)
  | BStapled s r =>
      (* _close_stapled_transports: exit stack, send half first *)
      match base_aclose s e w ls with
      | (ROk, w1, ls1) => base_aclose r e w1 ls1
      | (x, w1, ls1) =>
          match forceful (base_aclose r) e w1 ls1 with
          | (ROk, w2, ls2) => (x, w2, ls2)            (* raise *)
          | other => other                            (* the forced close itself raised *)
          end
      end
  | BAdapter i backlog =>
      (* closing = True; transport.close(); try: await shield(close_waiter) except OSError: pass.
         Without unflushed data connection_lost runs by itself; with a backlog the waiter only completes when the
         peer has drained the data (XStep) or the connection is lost with an error (XRaise, swallowed). *)
      if w_leaf w i && (negb backlog || w_flushed w i) then (ROk, w, ls)
      else
        let w1 := set_leaf w i in
        if negb backlog || w_flushed w i then (ROk, set_flushed w1 i, ls)
        else match point e w1 ls with
             | (ROk, w2, ls2) | (RErr, w2, ls2) => (ROk, set_flushed w2 i, ls2)
             | other => other
             end
  end.

(* ------------------------------------------------------------------ TLS *)
Record tlscfg := { t_std : bool (* standard_compatible *); t_unwrap : nat (* suspension points of unwrap() *);
                   t_hs : nat (* suspension points of the handshake *);
                   t_unread : bool (* unread application data when the close starts: unwrap() writes the
                                      close_notify alert and raises SSLError at once *);
                   t_flush : nat (* suspension points of flushing that alert (send lock, send_all to a slow peer) *) }.

Definition timed (p : M) : M := fun e w ls => p {| e_forced := e_forced e; e_timed := true |} w ls.

Definition swallow_err (x : res * world * list xlabel) : res * world * list xlabel :=
  match x with (RErr, w, ls) => (ROk, w, ls) | y => y end.

(* the body of the inner try of aclose():  try: unwrap()  except SSLError: flush the pending alert (suppress OSError)
   except OSError: pass.  Every await of it -- those of the flush included -- is covered by the outer
   "except BaseException: aclose_forcefully(transport); raise". *)
Definition tls_shutdown (c : tlscfg) : M := fun e w ls =>
  if t_unread c then swallow_err (points (t_flush c) e w ls)
  else swallow_err (points (t_unwrap c) e w ls).

(* AsyncTLSStreamTransport.aclose *)
Definition tls_aclose (c : tlscfg) (b : base) : M := fun e w ls =>
  if w_tls_closing w then
    (if w_tls_closed w then (ROk, w, ls) else point e w ls)       (* await self.__closed.wait() *)
  else
    let w0 := if closing_flag_first then set_tls_closing w else w in
    let fin (x : res * world * list xlabel) : res * world * list xlabel :=     (* ExitStack: __closed.set() *)
      let '(r, w', ls') := x in (r, set_tls_closed (set_tls_closing w'), ls') in
    if t_std c && negb (base_closing b w0) then
      (* with move_on_after(shutdown_timeout): try: (try: unwrap except OSError: pass) except BaseException: ... *)
      match timed (tls_shutdown c) e w0 ls with
      | (ROk, w1, ls1) | (RErr, w1, ls1) => fin (base_aclose b e w1 ls1)
      | (x, w1, ls1) =>
          if unwrap_handler_catches_base || match x with RCancel | RForced | RShutdown => false | _ => true end then
            match forceful (base_aclose b) e w1 ls1 with
            | (ROk, w2, ls2) =>
                match x with
                | RShutdown => fin (ROk, w2, ls2)                  (* cancelled_caught(): return *)
                | _ => fin (x, w2, ls2)
                end
            | other => fin other
            end
          else
            match x with
            | RShutdown => fin (ROk, w1, ls1)
            | _ => fin (x, w1, ls1)
            end
      end
    else fin (base_aclose b e w0 ls).

(* AsyncTLSStreamTransport.wrap: the handshake under backend.timeout(handshake_timeout) *)
Definition tls_wrap (c : tlscfg) (b : base) : M := fun e w ls =>
  match timed (points (t_hs c)) e w ls with
  | (ROk, w1, ls1) => (ROk, w1, ls1)
  | (x, w1, ls1) =>
      let x' := match x with RShutdown => RTimeoutErr | y => y end in
      match forceful (base_aclose b) e (set_tls_closing w1) ls1 with
      | (ROk, w2, ls2) => (x', w2, ls2)
      | other => other
      end
  end.

Inductive tr := TPlain (b : base) | TTls (c : tlscfg) (b : base).

Definition tr_aclose (t : tr) : M :=
  match t with TPlain b => base_aclose b | TTls c b => tls_aclose c b end.
Definition tr_closing (t : tr) (w : world) : bool :=
  match t with TPlain b => base_closing b w | TTls _ _ => w_tls_closing w end.
Definition tr_base (t : tr) : base := match t with TPlain b => b | TTls _ b => b end.

Fixpoint leaves (b : base) : list nat :=
  match b with BLeaf i _ | BAdapter i _ => [i] | BStapled s r => leaves s ++ leaves r end.

(* the file descriptor behind leaf i: released with the closing flag for an in-memory leaf, with the flush for an adapter *)
Fixpoint fd_released (b : base) (w : world) (i : nat) : bool :=
  match b with
  | BLeaf j _ => w_leaf w i
  | BAdapter j _ => if Nat.eqb i j then w_flushed w i else w_leaf w i
  | BStapled s r => if existsb (Nat.eqb i) (leaves s) then fd_released s w i else fd_released r w i
  end.

Fixpoint no_backlog (b : base) : bool :=
  match b with BLeaf _ _ => true | BAdapter _ bk => negb bk | BStapled s r => no_backlog s && no_backlog r end.

(* ------------------------------------------------------------------ endpoints, clients *)
(* AsyncStreamEndpoint.aclose / ConnectedStreamClient.aclose: with self.__send_guard: await transport.aclose() *)
Definition guarded_aclose (t : tr) : M := fun e w ls =>
  if w_guard w then (RBusy, w, ls) else tr_aclose t e w ls.

(* waiting for a lock never raises OSError: that label means "the holder finished" as well *)
Definition lock_point : M := fun e w ls =>
  match ls with
  | XRaise :: ls' => point e w (XStep :: ls')
  | _ => point e w ls
  end.

(* async with self.__send_lock: ... ; the lock is free, or held by the suspended sender *)
Definition with_lock (body : M) : M := fun e w ls =>
  if w_lock w then
    match lock_point e w ls with
    | (ROk, w1, ls1) => body e (release_sender w1) ls1
    | other => other
    end
  else body e w ls.

(* AsyncTCPNetworkClient.aclose.  Unfixed code: async with self.__send_lock: await endpoint.aclose().
   Fixed code (meta/fixes/C14_F7.diff, client_forced_fallback = true): the lock is acquired explicitly and an
   interrupted acquisition force-closes the transport (no lock, no guard) before re-raising. *)
Definition client_aclose (t : tr) : M := fun e w ls =>
  if w_lock w then
    match lock_point e w ls with
    | (ROk, w1, ls1) => guarded_aclose t e (release_sender w1) ls1
    | (x, w1, ls1) =>
        if client_forced_fallback then
          match forceful (tr_aclose t) e w1 ls1 with
          | (ROk, w2, ls2) => (x, w2, ls2)
          | other => other
          end
        else (x, w1, ls1)
    end
  else guarded_aclose t e w ls.

(* _ConnectedClientAPI.aclose *)
Definition api_aclose (t : tr) : M := fun e w ls =>
  let '(x, w1, ls1) := with_lock (fun e' w' ls' => guarded_aclose t e' (set_api_closing w') ls') e w ls in
  match x with
  | RCancel | RForced | RShutdown =>          (* except CancelledError: closing = True; aclose_forcefully(client); raise *)
      match forceful (if api_fallback_bypasses_guard then tr_aclose t else guarded_aclose t) e (set_api_closing w1) ls1 with
      | (ROk, w2, ls2) => (x, w2, ls2)
      | other => other
      end
  | _ => (x, w1, ls1)
  end.

(* the exit stack of the server's client task: whatever the handler did, aclose_forcefully(transport) *)
Definition client_task_exit (handler : M) (t : tr) : M := fun e w ls =>
  match handler e w ls with
  | (x, w1, ls1) =>
      match forceful (tr_aclose t) e w1 ls1 with
      | (ROk, w2, ls2) => (x, w2, ls2)
      | other => other
      end
  end.

(* ------------------------------------------------------------------ the close paths *)
(* finally: <something that raises>: whatever p did, the new exception is what the caller sees *)
Definition then_raises (p : M) : M := fun e w ls => let '(r, w', ls') := p e w ls in (ROther, w', ls').

Inductive path :=
| PTransport (t : tr)                 (* transport.aclose() *)
| PForceful (t : tr)                  (* aclose_forcefully(transport) *)
| PWrap (c : tlscfg) (b : base)       (* AsyncTLSStreamTransport.wrap *)
| PEndpoint (t : tr)                  (* AsyncStreamEndpoint.aclose() *)
| PClient (t : tr)                    (* AsyncTCPNetworkClient.aclose() *)
| PApi (t : tr)                       (* _ConnectedClientAPI.aclose() *)
| PTaskExit (t : tr) (inner : bool)   (* client task teardown; inner: the handler called client.aclose() first *)
| PEndpointDirty (t : tr)             (* AsyncStreamEndpoint.aclose() with a half-received packet whose parser generator
                                         raises when it is closed:  try: await transport.aclose()  finally: receiver.clear() *)
| PClientDirty (t : tr)               (* the same through AsyncTCPNetworkClient.aclose() *)
| PTaskExitCbRaises (t : tr)          (* client task: client_connected_cb raises at call time; the exit stack already
                                         holds aclose_forcefully(transport) *)
| PClientConnecting (t : tr).         (* AsyncTCPNetworkClient.aclose() while the connection is still being established by
                                         a send_packet() that holds the send lock: the connector scope is cancelled FIRST,
                                         the attempt is aborted and force-closes its transport, the sender fails and
                                         releases the lock, which aclose() then takes without waiting; no endpoint exists *)

Definition path_tr (p : path) : tr :=
  match p with
  | PTransport t | PForceful t | PEndpoint t | PClient t | PApi t | PTaskExit t _ | PClientConnecting t
  | PEndpointDirty t | PClientDirty t | PTaskExitCbRaises t => t
  | PWrap c b => TTls c b
  end.

Definition run_path (p : path) : M :=
  match p with
  | PTransport t => tr_aclose t
  | PForceful t => forceful (tr_aclose t)
  | PWrap c b => tls_wrap c b
  | PEndpoint t => guarded_aclose t
  | PClient t => client_aclose t
  | PApi t => api_aclose t
  | PTaskExit t inner => client_task_exit (if inner then api_aclose t else (fun _ w ls => (ROk, w, ls))) t
  | PClientConnecting t => forceful (tr_aclose t)
  | PEndpointDirty t => then_raises (guarded_aclose t)
  | PClientDirty t => then_raises (client_aclose t)
  | PTaskExitCbRaises t => client_task_exit (fun _ w ls => (ROther, w, ls)) t
  end.

Definition env0 : env := {| e_forced := false; e_timed := false |}.

Definition world0 (lock : bool) : world :=
  {| w_leaf := fun _ => false; w_tls_closing := false; w_tls_closed := false; w_api_closing := false;
     w_lock := lock; w_guard := lock; w_used := 0; w_flushed := fun _ => false |}.

Definition all_closed (b : base) (w : world) : bool := forallb (w_leaf w) (leaves b).
