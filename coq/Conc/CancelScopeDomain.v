(* C13: the finite domain over which the *_bounded theorems are proved by complete enumeration (vm_compute + forallb_forall),
   and the predicates used in their statements.  Definitions only. *)
From Coq Require Import List Arith Bool.
From EN Require Import Conc.CancelScope.
Import ListNotations.

(* statement ids play no role in the behaviour; every statement gets id 0 *)
Definition atoms : list prog := [PSleep 0 1; PSleep 0 2; PCheckpoint 0; PCancel 0].
Definition pairs (l1 l2 : list prog) : list prog := flat_map (fun a => map (fun b => PSeq a b) l2) l1.
(* one or two atoms *)
Definition bodies0 : list prog := atoms ++ pairs atoms atoms.
Definition scopes_over (dls : list nat) (bs : list prog) : list prog :=
  flat_map (fun kind => flat_map (fun dl => map (fun b => PScope 0 kind false (Some dl) b) bs) dls) [KMoveOn; KTimeout].
(* a scope (move_on_after / timeout, deadline 1 or 2) / a shield / a try-except CancelledError around a body0, or a
   shielded yield *)
Definition items1 : list prog :=
  scopes_over [1; 2] bodies0 ++ map (fun b => PShield 0 b) bodies0 ++ map (fun b => PCatch 0 CCancel b) bodies0
  ++ [PShYield 0].
Definition inner_sel : list prog :=
  scopes_over [1; 2] [PSleep 0 2; PSeq (PSleep 0 1) (PCheckpoint 0); PSeq (PCancel 1) (PSleep 0 1)]
  ++ [PShield 0 (PSleep 0 2); PShield 0 (PSeq (PSleep 0 1) (PCheckpoint 0)); PCatch 0 CCancel (PSleep 0 2);
      PShield 0 (PScope 0 KMoveOn false (Some 1) (PSleep 0 2))].
Definition items1_small : list prog :=
  scopes_over [1; 2] atoms ++ map (fun b => PShield 0 b) atoms ++ map (fun b => PCatch 0 CCancel b) atoms
  ++ [PShYield 0].
(* an outer scope around { item ; sleep 1 } *)
Definition items2 : list prog :=
  scopes_over [1; 2] (map (fun y => PSeq y (PSleep 0 1)) (inner_sel ++ items1_small)).
Definition epilogue (x : prog) : prog := PSeq x (PSeq (PSleep 0 1) (PCheckpoint 0)).
(* 285 programs *)
Definition bounded_programs : list prog := map epilogue (items1 ++ items2).
(* no controller, or one task.cancel() at the front / back of the ready queue of loop iteration 1..12: 25 schedules *)
Definition bounded_positions : list (list (nat * bool * nat)) :=
  [] :: flat_map (fun n => [[(n, true, 0)]; [(n, false, 0)]]) (seq 1 12).
(* the three states of the code: as found, with the repair of F1, with the repairs of F1 and F2 *)
Definition bounded_flags : list (bool * bool) := [(false, true); (true, true); (true, false)].

Definition finished (st : state) : bool := match md st with MDone _ => true | _ => false end.
Definition cancelled_out (st : state) : bool := match md st with MDone (Some (ECancel _)) => true | _ => false end.
Fixpoint shield_free (p : prog) : bool :=
  match p with
  | PSeq a b => shield_free a && shield_free b
  | PScope _ _ _ _ b => shield_free b
  | PCatch _ _ b => shield_free b
  | PShield _ _ | PShYield _ => false
  | _ => true
  end.
Fixpoint catch_free (p : prog) : bool :=
  match p with
  | PSeq a b => catch_free a && catch_free b
  | PScope _ _ _ _ b => catch_free b
  | PShield _ b => catch_free b
  | PCatch _ _ _ => false
  | _ => true
  end.
(* every scope has exited *)
Definition no_active_scope (st : state) : bool := forallb (fun s => negb (s_host s)) (scopes st).
(* cancel() was never called on any scope during the run *)
Definition never_called (st : state) : bool := forallb (fun s => negb (s_called s)) (scopes st).

Definition bounded_run (fx fb : bool) (p : prog) (pos : list (nat * bool * nat)) : state :=
  run_steps 3000 (init fx fb p [] pos 2).
