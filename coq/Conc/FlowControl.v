(* Executable model of lowlevel/api_async/backend/_asyncio/_flow_control.py (class WriteFlowControl) and of the
   adapters' send = transport.write/writelines/sendto + drain().  No proofs here.

   Part 1 -- WriteFlowControl alone.  pause_writing / resume_writing / connection_lost are free labels: the class has to
   behave for every order in which a transport may call them.

     code state : __write_paused, __connection_lost, __connection_lost_exception is not None,
                  __drain_waiters (deque of futures: here future ids), transport.is_closing()
     a future's state lives with the task that awaits it (a task awaits at most one future); resume_writing /
     connection_lost walk the deque and complete the futures that are not done.

     WDrain t    : idle task t calls drain(): is_closing() -> one bare yield first; then the three exits
                   (connection lost -> raise; not paused -> return; else park a fresh future, registered in the deque
                   with its self-removing done-callback)
     WPause / WResume / WLost exc / WClosing b : protocol callbacks / transport flag
     WCancel t   : task.cancel() reaches t while it is suspended in drain()
     WCallback f : the done-callback of future f runs (`__drain_waiters.remove`)
     WWake t     : t is resumed: after the bare yield it continues drain(); after `await waiter` it returns, raises the
                   connection error, or raises CancelledError                                                          *)
From Coq Require Import List Arith Bool.
Import ListNotations.

Definition tid := nat.
Definition fid := nat.

Inductive fstate := FPending | FResult | FExc (conn : bool) | FCancelled.
(* drain() outcomes: returned / raised the exception given to connection_lost / raised OSError(connection_lost_errno) /
   CancelledError *)
Inductive dres := ROk | RConnExc | RErrno | RCancelled.

Inductive ttask := TIdle | TYield (cancelled : bool) | TParked (f : fid) (st : fstate).

Record wfc := mkW {
  w_paused : bool;
  w_lost : bool;
  w_lost_exc : bool;
  w_deque : list fid;
  w_closing : bool;
  w_tasks : list ttask;
  w_next : fid
}.

Definition wfc_init (n : nat) : wfc := mkW false false false [] false (repeat TIdle n) 0.

Definition is_pending (st : fstate) : bool := match st with FPending => true | _ => false end.
Definition mem_fid (f : fid) (l : list fid) : bool := existsb (Nat.eqb f) l.
(* deque.remove(x): removes the first occurrence *)
Fixpoint remove_fid (f : fid) (l : list fid) : list fid :=
  match l with [] => [] | x :: r => if Nat.eqb f x then r else x :: remove_fid f r end.

Fixpoint upd {X} (n : nat) (x : X) (l : list X) : list X :=
  match l, n with
  | [], _ => []
  | _ :: r, 0 => x :: r
  | y :: r, S k => y :: upd k x r
  end.

Definition set_tasks (ts : list ttask) (s : wfc) : wfc :=
  mkW (w_paused s) (w_lost s) (w_lost_exc s) (w_deque s) (w_closing s) ts (w_next s).
Definition set_task (t : tid) (x : ttask) (s : wfc) : wfc := set_tasks (upd t x (w_tasks s)) s.
Definition get_task (t : tid) (s : wfc) : option ttask := nth_error (w_tasks s) t.

(* for waiter in self.__drain_waiters: if not waiter.done(): <complete it with st> *)
Definition complete_all (dq : list fid) (st : fstate) (ts : list ttask) : list ttask :=
  map (fun x => match x with
                | TParked f FPending => if mem_fid f dq then TParked f st else x
                | _ => x
                end) ts.

(* the part of drain() after the optional yield: result, or the task is parked *)
Definition drain_body (t : tid) (s : wfc) : wfc * option dres :=
  if w_lost s then (s, Some (if w_lost_exc s then RConnExc else RErrno))
  else if negb (w_paused s) then (s, Some ROk)
  else
    let f := w_next s in
    (mkW (w_paused s) (w_lost s) (w_lost_exc s) (w_deque s ++ [f]) (w_closing s)
         (upd t (TParked f FPending) (w_tasks s)) (S f), None).

Definition wfc_drain (t : tid) (s : wfc) : wfc * option dres :=
  if w_closing s then (set_task t (TYield false) s, None) else drain_body t s.

Definition wfc_pause (s : wfc) : wfc :=
  mkW true (w_lost s) (w_lost_exc s) (w_deque s) (w_closing s) (w_tasks s) (w_next s).

Definition wfc_resume (s : wfc) : wfc :=
  mkW false (w_lost s) (w_lost_exc s) (w_deque s) (w_closing s) (complete_all (w_deque s) FResult (w_tasks s)) (w_next s).

Definition wfc_lost (exc : bool) (s : wfc) : wfc :=
  if w_lost s then s
  else mkW false true exc (w_deque s) (w_closing s) (complete_all (w_deque s) (FExc exc) (w_tasks s)) (w_next s).

Definition wfc_closing (b : bool) (s : wfc) : wfc :=
  mkW (w_paused s) (w_lost s) (w_lost_exc s) (w_deque s) b (w_tasks s) (w_next s).

Definition fut_done (f : fid) (ts : list ttask) : bool :=
  negb (existsb (fun x => match x with TParked g FPending => Nat.eqb f g | _ => false end) ts).

Definition res_of (st : fstate) : option dres :=
  match st with
  | FPending => None
  | FResult => Some ROk
  | FExc true => Some RConnExc
  | FExc false => Some RErrno
  | FCancelled => Some RCancelled
  end.

Inductive wlabel :=
| WDrain (t : tid) | WPause | WResume | WLost (exc : bool) | WClosing (b : bool)
| WCancel (t : tid) | WCallback (f : fid) | WWake (t : tid).

Inductive wobs := ODrain (t : tid) (r : dres) | OParked (t : tid).

Definition obs_of (t : tid) (r : option dres) : list wobs :=
  match r with Some x => [ODrain t x] | None => [OParked t] end.

Definition wfc_step (s : wfc) (l : wlabel) : option (wfc * list wobs) :=
  match l with
  | WDrain t =>
      match get_task t s with
      | Some TIdle => let '(s', r) := wfc_drain t s in Some (s', obs_of t r)
      | _ => None
      end
  | WPause => Some (wfc_pause s, [])
  | WResume => Some (wfc_resume s, [])
  | WLost e => Some (wfc_lost e s, [])
  | WClosing b => Some (wfc_closing b s, [])
  | WCancel t =>
      match get_task t s with
      | Some (TYield _) => Some (set_task t (TYield true) s, [])
      | Some (TParked f _) => Some (set_task t (TParked f FCancelled) s, [])
      | _ => None
      end
  | WCallback f =>
      if mem_fid f (w_deque s) && fut_done f (w_tasks s) then
        Some (mkW (w_paused s) (w_lost s) (w_lost_exc s) (remove_fid f (w_deque s)) (w_closing s) (w_tasks s) (w_next s), [])
      else None
  | WWake t =>
      match get_task t s with
      | Some (TYield true) => Some (set_task t TIdle s, [ODrain t RCancelled])
      | Some (TYield false) => let '(s', r) := drain_body t (set_task t TIdle s) in Some (s', obs_of t r)
      | Some (TParked f st) =>
          match res_of st with
          | Some r => Some (set_task t TIdle s, [ODrain t r])
          | None => None
          end
      | _ => None
      end
  end.

Fixpoint wfc_run (s : wfc) (ls : list wlabel) : option wfc :=
  match ls with
  | [] => Some s
  | l :: ls' => match wfc_step s l with Some (s', _) => wfc_run s' ls' | None => None end
  end.

(* ------------------------------------------------------------------------------------------------------------
   Part 2 -- adapter = transport + WriteFlowControl.  The transport is asyncio's (external): it is described by its
   user-space buffer (bytes not yet accepted by the kernel, tagged with the task that wrote them), its
   `_protocol_paused` flag, the water marks and whether writelines() calls _maybe_pause_protocol() (it does not on
   CPython 3.12.1).  pause_writing / resume_writing are now consequences of writes and of the kernel accepting bytes.

     ASend t n k     : t calls send_all(n bytes) = transport.write + drain; the kernel takes k bytes at once if the
                       buffer is empty
     ASendIter t n k : t calls send_all_from_iterable = transport.writelines + drain (the whole buffer is offered to
                       the kernel, which takes k bytes)
     ASendTo t n ok  : datagram: t calls sendto(n bytes) + drain; the kernel takes the datagram (ok) or would block
     AReady k        : the socket is writable: the kernel takes k more bytes of the buffer
     AKill           : the transport dies (_force_close / abort): buffer dropped, later writes dropped, is_closing()
     AClose          : transport.close(): is_closing(); dead at once if nothing is buffered
     ALost exc       : protocol.connection_lost(exc) is delivered (only once the transport is dead)
     ACancel / ACallback / AWake as in part 1                                                                     *)

Record tcfg := mkCfg { c_high : nat; c_low : nat; c_wl_pauses : bool }.

Record ad := mkAd {
  a_cfg : tcfg;
  a_buf : list (tid * nat);
  a_ppaused : bool;              (* transport._protocol_paused *)
  a_dead : bool;                 (* transport._conn_lost: writes are dropped *)
  a_w : wfc
}.

Definition ad_init (c : tcfg) (n : nat) : ad := mkAd c [] false false (wfc_init n).

Definition buf_size (b : list (tid * nat)) : nat := fold_right (fun x n => snd x + n) 0 b.
Definition bytes_of (t : tid) (b : list (tid * nat)) : nat :=
  fold_right (fun x n => (if Nat.eqb (fst x) t then snd x else 0) + n) 0 b.

(* the kernel takes k bytes from the front *)
Fixpoint take (k : nat) (b : list (tid * nat)) : list (tid * nat) :=
  match b with
  | [] => []
  | (t, n) :: r => if n <=? k then take (k - n) r else (t, n - k) :: r
  end.

Definition with_w (w : wfc) (a : ad) : ad := mkAd (a_cfg a) (a_buf a) (a_ppaused a) (a_dead a) w.

(* _maybe_pause_protocol *)
Definition maybe_pause (a : ad) : ad :=
  if (c_high (a_cfg a) <? buf_size (a_buf a)) && negb (a_ppaused a)
  then mkAd (a_cfg a) (a_buf a) true (a_dead a) (wfc_pause (a_w a)) else a.

(* _maybe_resume_protocol *)
Definition maybe_resume (a : ad) : ad :=
  if a_ppaused a && (buf_size (a_buf a) <=? c_low (a_cfg a))
  then mkAd (a_cfg a) (a_buf a) false (a_dead a) (wfc_resume (a_w a)) else a.

Definition with_buf (b : list (tid * nat)) (a : ad) : ad := mkAd (a_cfg a) b (a_ppaused a) (a_dead a) (a_w a).

(* transport.write(data) *)
Definition tr_write (t : tid) (n k : nat) (a : ad) : ad :=
  if a_dead a || (n =? 0) then a
  else match a_buf a with
       | [] => let k := Nat.min k n in
               if n - k =? 0 then a else maybe_pause (with_buf [(t, n - k)] a)
       | b => maybe_pause (with_buf (b ++ [(t, n)]) a)
       end.

(* transport.writelines(chunks): buffer.extend; _write_ready() (sendmsg: BlockingIOError = nothing taken, and then
   no _maybe_resume_protocol); [_maybe_pause_protocol() only on interpreters that have it] *)
Definition tr_writelines (t : tid) (n k : nat) (a : ad) : ad :=
  if a_dead a || (n =? 0) then a
  else let b := a_buf a ++ [(t, n)] in
       let a1 := if k =? 0 then with_buf b a else maybe_resume (with_buf (take k b) a) in
       if c_wl_pauses (a_cfg a) then maybe_pause a1 else a1.

(* DatagramTransport.sendto(data) *)
Definition tr_sendto (t : tid) (n : nat) (ok : bool) (a : ad) : ad :=
  if a_dead a || (n =? 0) then a
  else match a_buf a with
       | [] => if ok then a else maybe_pause (with_buf [(t, n)] a)
       | b => maybe_pause (with_buf (b ++ [(t, n)]) a)
       end.

Inductive alabel :=
| ASend (t : tid) (n k : nat) | ASendIter (t : tid) (n k : nat) | ASendTo (t : tid) (n : nat) (ok : bool)
| AReady (k : nat) | AKill | AClose | ALost (exc : bool)
| ACancel (t : tid) | ACallback (f : fid) | AWake (t : tid).

Definition lift (a : ad) (r : option (wfc * list wobs)) : option (ad * list wobs) :=
  match r with Some (w, o) => Some (with_w w a, o) | None => None end.

Definition set_dead (a : ad) : ad := mkAd (a_cfg a) (a_buf a) (a_ppaused a) true (a_w a).

Definition ad_step (a : ad) (l : alabel) : option (ad * list wobs) :=
  match l with
  | ASend t n k =>
      match get_task t (a_w a) with
      | Some TIdle => let a1 := tr_write t n k a in lift a1 (wfc_step (a_w a1) (WDrain t))
      | _ => None
      end
  | ASendIter t n k =>
      match get_task t (a_w a) with
      | Some TIdle => let a1 := tr_writelines t n k a in lift a1 (wfc_step (a_w a1) (WDrain t))
      | _ => None
      end
  | ASendTo t n ok =>
      match get_task t (a_w a) with
      | Some TIdle => let a1 := tr_sendto t n ok a in lift a1 (wfc_step (a_w a1) (WDrain t))
      | _ => None
      end
  | AReady k =>
      (* the socket is writable; the kernel takes k bytes.  Flushing the last byte of a closing transport delivers
         connection_lost(None) at once. *)
      match a_buf a with
      | [] => None
      | b =>
          if (0 <? k) && (k <=? buf_size b) then
            let a1 := maybe_resume (with_buf (take k b) a) in
            match a_buf a1 with
            | [] => if w_closing (a_w a1)
                    then Some (set_dead (with_w (wfc_lost false (a_w a1)) a1), [])
                    else Some (a1, [])
            | _ => Some (a1, [])
            end
          else None
      end
  | AKill =>      (* transport._force_close(exc) / abort(): buffer dropped, later writes dropped, is_closing() *)
      if a_dead a then None
      else Some (mkAd (a_cfg a) [] (a_ppaused a) true (wfc_closing true (a_w a)), [])
  | AClose =>     (* transport.close() *)
      if w_closing (a_w a) then None
      else let a1 := with_w (wfc_closing true (a_w a)) a in
           Some (match a_buf a with [] => set_dead a1 | _ => a1 end, [])
  | ALost e =>    (* protocol.connection_lost(exc), scheduled by the transport once it is dead *)
      if a_dead a && negb (w_lost (a_w a)) then Some (with_w (wfc_lost e (a_w a)) a, []) else None
  | ACancel t => lift a (wfc_step (a_w a) (WCancel t))
  | ACallback f => lift a (wfc_step (a_w a) (WCallback f))
  | AWake t => lift a (wfc_step (a_w a) (WWake t))
  end.

Fixpoint ad_run (a : ad) (ls : list alabel) : option ad :=
  match ls with
  | [] => Some a
  | l :: ls' => match ad_step a l with Some (a', _) => ad_run a' ls' | None => None end
  end.
