(* C19, client level -- AsyncTCPNetworkClient: the one-shot socket connector (cancel scope + factory), __ensure_connected
   and aclose() around the staggered race of Conc/ConnRace.v.

     wait_connected() = __ensure_connected():  if the endpoint exists: done (ClientClosedError if it is closing)
         elif the connector is set:  with connector.scope: (race; wrap_stream_socket)  -- the connector is cleared AFTER
              the await (whatever way the scope is left normally); result None (scope swallowed a cancellation) ->
              ClientClosedError; an exception leaves the connector in place
         else ClientClosedError
     aclose() = if the connector is set: connector.scope.cancel(); connector = None;  then close the endpoint if any

   The task that runs wait_connected() is the host task of the race.  Labels are chosen by the environment/scheduler;
   the theorems (Proofs/C19_client.v) hold for every label sequence. *)
From Coq Require Import ZArith List Bool Arith Lia.
Import ListNotations.
From EN Require Import Conc.ConnRace.

Inductive wout := WOk | WClosed | WCancelled | WErr | WCrash | WReenter.
(* returned | ClientClosedError | CancelledError | (group of) OSError | other exception | RuntimeError: scope entered twice *)

Inductive wstate :=
| WIdle                 (* no wait_connected() call in progress *)
| WNew                  (* the task of a call exists, its first step has not run *)
| WRace                 (* inside connector.get(): the race is running, its host is this task *)
| WWrap (id : nat).     (* the race returned socket id; suspended in wrap_stream_socket *)

Record kstate := {
  k_race : rstate;
  k_w : wstate;
  k_connector : bool;          (* self.__socket_connector is not None *)
  k_scope_used : bool;         (* the connector's scope has been entered *)
  k_scope_cancel : bool;       (* connector.scope.cancel() called *)
  k_task_cancel : bool;        (* task.cancel() of the connecting task requested *)
  k_endpoint : option nat;     (* socket owned by the endpoint *)
  k_sock_closed : bool;        (* the socket returned by the race has been closed (wrap cancelled / endpoint closed) *)
  k_aclosed : bool;            (* aclose() has run *)
  k_outs : list (wout * bool)  (* finished wait_connected() calls: outcome, aclose() had run before *)
}.

Definition kinit (c : rcfg) : kstate :=
  {| k_race := init c; k_w := WIdle; k_connector := true; k_scope_used := false; k_scope_cancel := false;
     k_task_cancel := false; k_endpoint := None; k_sock_closed := false; k_aclosed := false; k_outs := [] |}.

(* sockets of the race still open at client level *)
Definition kopen (s : kstate) : list nat := if k_sock_closed s then [] else r_open (k_race s).

Inductive klabel :=
| KWait                        (* a task calls wait_connected() *)
| KBegin                       (* its first step *)
| KRace (l : label)            (* a step of the race (not LCancelCaller: produced by KAclose / KCancelTask) *)
| KRaceDone (swallow : bool)   (* the connecting task leaves the race with its result *)
| KWrapDone                    (* wrap_stream_socket returns: endpoint created *)
| KWrapCancel (swallow : bool) (* CancelledError delivered in wrap_stream_socket: the socket is closed *)
| KAclose
| KCancelTask.

Definition set_w (s : kstate) (w : wstate) : kstate :=
  {| k_race := k_race s; k_w := w; k_connector := k_connector s; k_scope_used := k_scope_used s;
     k_scope_cancel := k_scope_cancel s; k_task_cancel := k_task_cancel s; k_endpoint := k_endpoint s;
     k_sock_closed := k_sock_closed s; k_aclosed := k_aclosed s; k_outs := k_outs s |}.

(* a call finishes with outcome o; the task is gone, so is its pending cancellation request *)
Definition finish_call (s : kstate) (o : wout) (connector : bool) (used : bool) (endpoint : option nat) (closed : bool) : kstate :=
  {| k_race := k_race s; k_w := WIdle; k_connector := connector; k_scope_used := used;
     k_scope_cancel := k_scope_cancel s; k_task_cancel := false; k_endpoint := endpoint;
     k_sock_closed := closed; k_aclosed := k_aclosed s; k_outs := k_outs s ++ [(o, k_aclosed s)] |}.

Definition cancel_race (c : rcfg) (s : kstate) : rstate :=
  match k_w s with
  | WRace => match step c (k_race s) LCancelCaller with Some r => r | None => k_race s end
  | _ => k_race s
  end.

(* leaving "with self.scope" with a CancelledError: swallowed (result None -> connector cleared, ClientClosedError)
   or propagated (connector left in place) *)
Definition leave_cancelled (s : kstate) (swallow : bool) (closed : bool) : option kstate :=
  if swallow then
    (if k_scope_cancel s then Some (finish_call s WClosed false true (k_endpoint s) closed) else None)
  else
    (if k_task_cancel s then Some (finish_call s WCancelled (k_connector s) true (k_endpoint s) closed) else None).

Definition kstep (c : rcfg) (s : kstate) (l : klabel) : option kstate :=
  match l with
  | KWait => match k_w s with WIdle => Some (set_w s WNew) | _ => None end
  | KBegin =>
      match k_w s with
      | WNew =>
          if k_task_cancel s then      (* cancelled before its first step: the coroutine never runs *)
            Some (finish_call s WCancelled (k_connector s) (k_scope_used s) (k_endpoint s) (k_sock_closed s))
          else match k_endpoint s with
               | Some _ =>
                   Some (finish_call s (if k_sock_closed s then WClosed else WOk) (k_connector s) (k_scope_used s)
                                     (k_endpoint s) (k_sock_closed s))
               | None =>
                   if k_connector s then
                     (if k_scope_used s
                      then Some (finish_call s WReenter true true None (k_sock_closed s))
                      else Some {| k_race := k_race s; k_w := WRace; k_connector := true; k_scope_used := true;
                                   k_scope_cancel := k_scope_cancel s; k_task_cancel := false;
                                   k_endpoint := None; k_sock_closed := k_sock_closed s; k_aclosed := k_aclosed s;
                                   k_outs := k_outs s |})
                   else Some (finish_call s WClosed false (k_scope_used s) None (k_sock_closed s))
               end
      | _ => None
      end
  | KRace l' =>
      match k_w s, l' with
      | _, LCancelCaller => None
      | WRace, _ =>
          match step c (k_race s) l' with
          | Some r => Some {| k_race := r; k_w := WRace; k_connector := k_connector s; k_scope_used := k_scope_used s;
                              k_scope_cancel := k_scope_cancel s; k_task_cancel := k_task_cancel s;
                              k_endpoint := k_endpoint s; k_sock_closed := k_sock_closed s; k_aclosed := k_aclosed s;
                              k_outs := k_outs s |}
          | None => None
          end
      | _, _ => None
      end
  | KRaceDone swallow =>
      match k_w s, r_result (k_race s) with
      | WRace, Some (ResSock id) => Some (set_w s (WWrap id))
      | WRace, Some (ResErrs _) => Some (finish_call s WErr (k_connector s) true (k_endpoint s) (k_sock_closed s))
      | WRace, Some ResCrash => Some (finish_call s WCrash (k_connector s) true (k_endpoint s) (k_sock_closed s))
      | WRace, Some ResCancelled => leave_cancelled s swallow (k_sock_closed s)
      | _, _ => None
      end
  | KWrapDone =>
      match k_w s with
      | WWrap id => if k_scope_cancel s then None       (* a cancelled scope always interrupts the await *)
                    else Some (finish_call s WOk false true (Some id) false)
      | _ => None
      end
  | KWrapCancel swallow =>
      match k_w s with
      | WWrap _ => leave_cancelled s swallow true
      | _ => None
      end
  | KAclose =>
      let race := if k_connector s then cancel_race c s else k_race s in
      Some {| k_race := race; k_w := k_w s; k_connector := false; k_scope_used := k_scope_used s;
              k_scope_cancel := k_scope_cancel s || k_connector s; k_task_cancel := k_task_cancel s;
              k_endpoint := k_endpoint s;
              k_sock_closed := match k_endpoint s with Some _ => true | None => k_sock_closed s end;
              k_aclosed := true; k_outs := k_outs s |}
  | KCancelTask =>
      match k_w s with
      | WIdle => None
      | _ => Some {| k_race := cancel_race c s; k_w := k_w s; k_connector := k_connector s;
                     k_scope_used := k_scope_used s; k_scope_cancel := k_scope_cancel s; k_task_cancel := true;
                     k_endpoint := k_endpoint s; k_sock_closed := k_sock_closed s; k_aclosed := k_aclosed s;
                     k_outs := k_outs s |}
      end
  end.

Fixpoint kexec (c : rcfg) (s : kstate) (tr : list klabel) : option kstate :=
  match tr with
  | [] => Some s
  | l :: tr' => match kstep c s l with Some s' => kexec c s' tr' | None => None end
  end.
