(* C17 proofs, part 2: from the finite canonical domain to ALL exception values.
   A group is any list of leaves (any length, order, repetitions).  Every decision of the model depends on a group only
   through the SET of its leaves (split/except* filter leaf by leaf, "is it an ExceptionGroup" is a forallb), so each
   layer maps set-equal groups to set-equal results with identical logs.  Hence the outcome for a group equals the
   outcome for its canonical form [canon g] (the sublist of all_leaves occurring in g), which lies in the finite
   domain enumerated in part 1.  These lemmas are generic in the regenerated tables (they never unfold them). *)
From Coq Require Import List Bool ZArith Lia.
From EN Require Import Conc.ExcKinds Gen.ParamsC17 Conc.Isolation Proofs.C17_proofs.
Import ListNotations.

Definition seq (g g' : list leaf) : Prop := forall k, In k g <-> In k g'.

Lemma seq_refl g : seq g g. Proof. intros k; tauto. Qed.
Lemma seq_nil_l g : seq [] g -> g = [].
Proof. intros H. destruct g as [|x g]; auto. exfalso. apply (H x). now left. Qed.
Lemma seq_nil_r g : seq g [] -> g = [].
Proof. intros H. destruct g as [|x g]; auto. exfalso. apply (H x). now left. Qed.
Lemma seq_app a a' b b' : seq a a' -> seq b b' -> seq (a ++ b) (a' ++ b').
Proof. intros H1 H2 k. rewrite !in_app_iff. rewrite (H1 k), (H2 k). tauto. Qed.
Lemma seq_filter f g g' : seq g g' -> seq (filter f g) (filter f g').
Proof. intros H k. rewrite !filter_In. rewrite (H k). tauto. Qed.
Lemma forallb_seq f g g' : seq g g' -> forallb f g = forallb f g'.
Proof.
  intros H. apply eq_iff_eq_true. rewrite !forallb_forall. split; intros X k Hk; apply X; apply H; auto.
Qed.
Lemma is_nil_seq (g g' : list leaf) : seq g g' -> (g = [] <-> g' = []).
Proof.
  intros H. split; intros ->; [apply seq_nil_l in H | apply seq_nil_r in H]; auto.
Qed.

Inductive sim : exc -> exc -> Prop :=
| sim_naked k : sim (Naked k) (Naked k)
| sim_group g g' : seq g g' -> sim (Group g) (Group g').

Inductive osim : option exc -> option exc -> Prop :=
| osim_none : osim None None
| osim_some e e' : sim e e' -> osim (Some e) (Some e').

Lemma sim_refl e : sim e e.
Proof. destruct e; constructor. apply seq_refl. Qed.
Lemma osim_refl o : osim o o.
Proof. destruct o; constructor. apply sim_refl. Qed.
Lemma osim_none_l o : osim o None -> o = None.
Proof. inversion 1; auto. Qed.
Lemma osim_none_iff o o' : osim o o' -> (o = None <-> o' = None).
Proof. inversion 1; subst; split; congruence. Qed.

Lemma group_is_exc_seq g g' : seq g g' -> group_is_exc g = group_is_exc g'.
Proof. apply forallb_seq. Qed.

Lemma groupobj_matches_seq cs g g' : seq g g' -> groupobj_matches cs g = groupobj_matches cs g'.
Proof. intros H. unfold groupobj_matches. now rewrite (group_is_exc_seq _ _ H). Qed.

Lemma plain_matches_sim cs e e' : sim e e' -> plain_matches cs e = plain_matches cs e'.
Proof. destruct 1; simpl; auto. now apply groupobj_matches_seq. Qed.

Lemma exc_is_exception_sim e e' : sim e e' -> exc_is_exception e = exc_is_exception e'.
Proof. destruct 1; simpl; auto. now apply group_is_exc_seq. Qed.

Lemma apply_action_sim a e e' :
  sim e e' -> osim (fst (apply_action a e)) (fst (apply_action a e')) /\ snd (apply_action a e) = snd (apply_action a e').
Proof.
  intros H. destruct a; simpl.
  - split; [constructor | reflexivity].
  - split; [now constructor | reflexivity].
  - rewrite (plain_matches_sim [c] _ _ H). destruct (plain_matches [c] e'); simpl; split; auto; now constructor.
Qed.

Lemma leaves_of_osim o o' : osim o o' -> seq (leaves_of o) (leaves_of o').
Proof. destruct 1 as [|e e' H]; simpl; [apply seq_refl|]. destruct H; [apply seq_refl | auto]. Qed.

(* ---- except* on groups ---- *)
Lemma star_group_sim cs :
  forall rest rest' rr rr' logs,
    seq rest rest' -> seq rr rr' ->
    let '(r1, q1, l1) := star_group cs rest rr logs in
    let '(r2, q2, l2) := star_group cs rest' rr' logs in
    seq r1 r2 /\ seq q1 q2 /\ l1 = l2.
Proof.
  induction cs as [|c cs IH]; intros rest rest' rr rr' logs Hr Hq; simpl.
  - split; [exact Hr | split; [exact Hq | reflexivity]].
  - destruct rest as [|x rest0] eqn:ER.
    + apply seq_nil_l in Hr. subst rest'. split; [apply seq_refl | split; [exact Hq | reflexivity]].
    + destruct rest' as [|x' rest0'] eqn:ER'.
      { apply seq_nil_r in Hr. discriminate. }
      rewrite <- ER, <- ER' in *. clear ER ER' x x' rest0 rest0'.
      rewrite (groupobj_matches_seq (c_classes c) _ _ Hr).
      set (whole := groupobj_matches (c_classes c) rest').
      set (f := leaf_matches (c_classes c)).
      assert (Hm : seq (if whole then rest else filter f rest) (if whole then rest' else filter f rest')).
      { destruct whole; auto. now apply seq_filter. }
      assert (Hn : seq (if whole then [] else filter (fun k => negb (f k)) rest)
                       (if whole then [] else filter (fun k => negb (f k)) rest')).
      { destruct whole; [apply seq_refl | now apply seq_filter]. }
      destruct (if whole then rest else filter f rest) as [|m0 ms] eqn:EM.
      * apply seq_nil_l in Hm. rewrite Hm. apply IH; auto.
      * destruct (if whole then rest' else filter f rest') as [|m0' ms'] eqn:EM'.
        { apply seq_nil_r in Hm. discriminate. }
        assert (S1 : sim (Group (m0 :: ms)) (Group (m0' :: ms'))) by now constructor.
        destruct (apply_action_sim (c_action c) _ _ S1) as [A1 A2].
        destruct (apply_action (c_action c) (Group (m0 :: ms))) as [x1 lg1].
        destruct (apply_action (c_action c) (Group (m0' :: ms'))) as [x2 lg2].
        simpl in A1, A2. subst lg2.
        apply IH; auto. apply seq_app; auto. now apply leaves_of_osim.
Qed.

Record fsim (r r' : fres) : Prop := {
  fs_exc : osim (f_exc r) (f_exc r');
  fs_logs : f_logs r = f_logs r';
  fs_closed : f_closed r = f_closed r'
}.

Lemma fsim_refl r : fsim r r.
Proof. constructor; auto. apply osim_refl. Qed.

Lemma star_run_sim cs e e' : sim e e' -> fsim (star_run cs e) (star_run cs e').
Proof.
  destruct 1 as [k|g g' H]; [apply fsim_refl|].
  unfold star_run.
  pose proof (star_group_sim cs g g' [] [] [] H (seq_refl [])) as X.
  destruct (star_group cs g [] []) as [[r1 q1] l1]. destruct (star_group cs g' [] []) as [[r2 q2] l2].
  destruct X as (A&B&C). subst l2. constructor; simpl; auto.
  assert (S : seq (q1 ++ r1) (q2 ++ r2)) by now apply seq_app.
  destruct (q1 ++ r1) as [|a l] eqn:E1.
  - apply seq_nil_l in S. rewrite S. constructor.
  - destruct (q2 ++ r2) as [|a' l'] eqn:E2.
    + apply seq_nil_r in S. discriminate.
    + constructor. now constructor.
Qed.

Lemma plain_run_sim cs e e' : sim e e' -> fsim (plain_run cs e) (plain_run cs e').
Proof.
  intros H. induction cs as [|c cs IH]; simpl.
  - constructor; simpl; auto. now constructor.
  - rewrite (plain_matches_sim (c_classes c) _ _ H). destruct (plain_matches (c_classes c) e'); auto.
    destruct (apply_action_sim (c_action c) _ _ H) as [A1 A2].
    destruct (apply_action (c_action c) e) as [x1 l1]. destruct (apply_action (c_action c) e') as [x2 l2].
    simpl in *. subst. constructor; simpl; auto.
Qed.

Lemma layer_run_sim l e e' : sim e e' -> fsim (layer_run l e) (layer_run l e').
Proof. destruct l; simpl; [apply star_run_sim | apply plain_run_sim]. Qed.

Lemma layers_run_sim ls : forall e e', sim e e' -> fsim (layers_run ls e) (layers_run ls e').
Proof.
  induction ls as [|l ls IH]; intros e e' H; simpl.
  - constructor; simpl; auto. now constructor.
  - destruct (layer_run_sim l _ _ H) as [A B C].
    destruct (f_exc (layer_run l e)) as [x|] eqn:E1; inversion A; subst.
    + destruct (IH _ _ H2) as [A' B' C']. constructor; simpl; auto; congruence.
    + constructor; simpl; auto. rewrite E1. rewrite <- H0. constructor.
Qed.

(* the regenerated tables stay folded: nothing below depends on what they contain *)
Local Opaque tcp_disconnect_hook tcp_suppress tcp_init_stack tcp_init_reraises misc_disconnect_after_connection receiver_next_protected tcp_wait_clauses udp_wait_clauses
             listener_connect tls_wrap adapter_close udp_aexit stream_close_pushed_first udp_done_in_finally udp_done_marks_first.

(* ---- TCP client task ---- *)
Lemma tcp_client_task_main_sim tls p e1 e1' e2 e2' :
  sim e1 e1' -> osim e2 e2' ->
  osim (o_raises (tcp_client_task_main tls p e1 e2)) (o_raises (tcp_client_task_main tls p e1' e2')) /\
  o_logs (tcp_client_task_main tls p e1 e2) = o_logs (tcp_client_task_main tls p e1' e2') /\
  o_hooks (tcp_client_task_main tls p e1 e2) = o_hooks (tcp_client_task_main tls p e1' e2').
Proof.
  intros H1 H2. unfold tcp_client_task_main.
  set (run_disc := if misc_disconnect_after_connection then pos_connected p else true).
  set (raised0 := match p with PDisconnect | PConnGenPeerLeft => None | _ => Some e1 end).
  set (raised0' := match p with PDisconnect | PConnGenPeerLeft => None | _ => Some e1' end).
  set (disc := match p with PDisconnect => Some e1 | _ => e2 end).
  set (disc' := match p with PDisconnect => Some e1' | _ => e2' end).
  assert (R0 : osim raised0 raised0') by (unfold raised0, raised0'; destruct p; constructor; auto).
  assert (D0 : osim disc disc') by (unfold disc, disc'; destruct p; auto; constructor; auto).
  clearbody raised0 raised0' disc disc' run_disc.
  (* first stage *)
  set (st1 := if run_disc then match disc with
                               | None => (raised0, [])
                               | Some d => let r := layers_run tcp_disconnect_hook d in
                                           (match f_exc r with Some x => Some x | None => raised0 end, f_logs r)
                               end else (raised0, @nil Z)).
  set (st1' := if run_disc then match disc' with
                               | None => (raised0', [])
                               | Some d => let r := layers_run tcp_disconnect_hook d in
                                           (match f_exc r with Some x => Some x | None => raised0' end, f_logs r)
                               end else (raised0', @nil Z)).
  assert (S1 : osim (fst st1) (fst st1') /\ snd st1 = snd st1').
  { unfold st1, st1'. destruct run_disc; simpl; auto.
    destruct D0 as [|d d' Hd]; simpl; auto.
    destruct (layers_run_sim tcp_disconnect_hook _ _ Hd) as [A B C]. split; auto.
    destruct A; auto. constructor; auto. }
  fold st1 st1'. destruct st1 as [r1 l1]. destruct st1' as [r1' l1']. simpl in S1. destruct S1 as [S1 ->].
  set (r1b := if tcp_init_reraises then r1 else None).
  set (r1b' := if tcp_init_reraises then r1' else None).
  assert (S2 : osim r1b r1b') by (unfold r1b, r1b'; destruct tcp_init_reraises; auto; constructor).
  inversion S2; subst; simpl.
  - repeat split; auto. constructor.
  - destruct (existsb (is_item SSuppress) (tcp_init_stack tls)).
    + destruct (layers_run_sim tcp_suppress _ _ H) as [A B C]. simpl. repeat split; auto. congruence.
    + simpl. repeat split; auto. now constructor.
Qed.

Lemma tcp_client_task_sim tls p e1 e1' e2 e2' :
  sim e1 e1' -> osim e2 e2' ->
  osim (o_raises (tcp_client_task tls p e1 e2)) (o_raises (tcp_client_task tls p e1' e2')) /\
  o_logs (tcp_client_task tls p e1 e2) = o_logs (tcp_client_task tls p e1' e2') /\
  o_hooks (tcp_client_task tls p e1 e2) = o_hooks (tcp_client_task tls p e1' e2').
Proof.
  intros H1 H2. unfold tcp_client_task.
  destruct p; try (apply tcp_client_task_main_sim; assumption);
    try (destruct (delay_error d) as [k|]; [destruct (leaf_matches tcp_wait_clauses k)|]);
    try destruct receiver_next_protected;
    solve [apply tcp_client_task_main_sim; assumption | simpl; repeat split; apply osim_refl].
Qed.

(* ---- canonical forms ---- *)
Lemma leaf_eqb_eq a b : leaf_eqb a b = true <-> a = b.
Proof. destruct a, b; simpl; split; intros; try reflexivity; try discriminate. Qed.

Lemma canon_seq g : seq g (canon g).
Proof.
  intros k. unfold canon. rewrite filter_In, existsb_exists. split.
  - intros H. split; [apply all_leaves_complete|]. exists k. split; auto. now apply leaf_eqb_eq.
  - intros [_ [x [Hx E]]]. apply leaf_eqb_eq in E. now subst.
Qed.

Lemma canon_sim e : sim e (canon_exc e).
Proof. destruct e; simpl; constructor. apply canon_seq. Qed.

Lemma filter_in_sublists {X} (f : X -> bool) l : In (filter f l) (sublists l).
Proof.
  induction l as [|x l IH]; simpl; [now left|].
  apply in_or_app. destruct (f x); [left; now apply in_map | now right].
Qed.

Lemma canon_in_domain e : In (canon_exc e) all_canon_excs.
Proof.
  unfold all_canon_excs. apply in_or_app. destruct e as [k|g]; unfold canon_exc.
  - left. apply in_map. apply all_leaves_complete.
  - right. apply in_map. unfold canon. apply filter_in_sublists.
Qed.

Definition ocanon (o : option exc) : option exc := match o with None => None | Some e => Some (canon_exc e) end.
Lemma ocanon_sim o : osim o (ocanon o).
Proof. destruct o; constructor. apply canon_sim. Qed.
Lemma ocanon_in_domain o : In (ocanon o) all_opt_canon.
Proof.
  unfold all_opt_canon. destruct o as [e|]; unfold ocanon.
  - apply in_cons. apply in_map. apply canon_in_domain.
  - apply in_eq.
Qed.

(* ---- the general theorems ---- *)
Theorem tcp_never_raises_general :
  forall tls p e1 e2,
    exc_is_exception e1 = true -> opt_is_exception e2 = true ->
    o_raises (tcp_client_task tls p e1 e2) = None.
Proof.
  intros tls p e1 e2 X1 X2.
  destruct (tcp_client_task_sim tls p _ _ _ _ (canon_sim e1) (ocanon_sim e2)) as [A _].
  apply (osim_none_iff _ _ A).
  apply tcp_never_raises_canon.
  - apply canon_in_domain.
  - apply ocanon_in_domain.
  - now rewrite <- (exc_is_exception_sim _ _ (canon_sim e1)).
  - destruct e2 as [e|]; simpl in *; auto. now rewrite <- (exc_is_exception_sim _ _ (canon_sim e)).
Qed.

Theorem setup_contained_general :
  forall st e, exc_is_exception e = true ->
    o_raises (setup_task st e) = None /\ o_closed (setup_task st e) = true /\ o_hooks (setup_task st e) = [].
Proof.
  intros st e X.
  destruct (setup_never_raises_canon st (canon_exc e) (canon_in_domain e)) as (A&B&C).
  { now rewrite <- (exc_is_exception_sim _ _ (canon_sim e)). }
  unfold setup_task in *. simpl in *.
  destruct st.
  - destruct (layers_run_sim listener_connect _ _ (canon_sim e)) as [F1 F2 F3].
    repeat split; auto; [apply (osim_none_iff _ _ F1); auto | congruence].
  - destruct (layers_run_sim tls_wrap _ _ (canon_sim e)) as [F1 F2 F3].
    repeat split; auto; [apply (osim_none_iff _ _ F1); auto | congruence].
Qed.

(* ---- UDP ---- *)
Lemma inner_match_sim cases dflt e e' : sim e e' -> inner_match cases dflt e = inner_match cases dflt e'.
Proof.
  intros H. induction cases as [|[c r] cs IH]; simpl; auto.
  rewrite (plain_matches_sim [c] _ _ H). destruct (plain_matches [c] e'); auto.
Qed.

Lemma mres_apply_sim r o o' x x' :
  sim o o' -> sim x x' -> osim (fst (mres_apply r o x)) (fst (mres_apply r o' x')) /\ snd (mres_apply r o x) = snd (mres_apply r o' x').
Proof. intros H1 H2. destruct r; simpl; split; auto; constructor; auto. Qed.

Lemma match_run_sim cases : forall e e', sim e e' ->
  osim (fst (match_run cases e)) (fst (match_run cases e')) /\ snd (match_run cases e) = snd (match_run cases e').
Proof.
  induction cases as [|c cs IH]; intros e e' H; cbn [match_run].
  - split; auto. now constructor.
  - destruct c as [c r|cg csplit lsplit rnone inner dflt|r]; cbn [match_run].
    + rewrite (plain_matches_sim [c] _ _ H). destruct (plain_matches [c] e'); [now apply mres_apply_sim | now apply IH].
    + destruct H as [k|g g' Hs]; [apply IH; constructor|].
      rewrite (groupobj_matches_seq [cg] _ _ Hs). destruct (groupobj_matches [cg] g'); [|apply IH; now constructor].
      rewrite (groupobj_matches_seq [csplit] _ _ Hs).
      set (whole := groupobj_matches [csplit] g').
      set (f := leaf_matches [csplit]).
      assert (Hm : seq (if whole then g else filter f g) (if whole then g' else filter f g')).
      { destruct whole; auto. now apply seq_filter. }
      assert (Hn : seq (if whole then [] else filter (fun k => negb (f k)) g)
                       (if whole then [] else filter (fun k => negb (f k)) g')).
      { destruct whole; [apply seq_refl | now apply seq_filter]. }
      assert (L1 : match (if whole then g else filter f g) with [] => [] | _ => if Z.eqb lsplit 0 then [] else [lsplit] end
                   = match (if whole then g' else filter f g') with [] => [] | _ => if Z.eqb lsplit 0 then [] else [lsplit] end).
      { destruct (if whole then g else filter f g) eqn:E1.
        - apply seq_nil_l in Hm. now rewrite Hm.
        - destruct (if whole then g' else filter f g') eqn:E2; auto. apply seq_nil_r in Hm. discriminate. }
      rewrite L1. clear L1.
      assert (SG : sim (Group g) (Group g')) by now constructor.
      destruct (if whole then [] else filter (fun k => negb (f k)) g) as [|a r0] eqn:E1.
      * apply seq_nil_l in Hn. rewrite Hn.
        destruct (mres_apply_sim rnone _ _ _ _ SG SG) as [A B].
        destruct (mres_apply rnone (Group g) (Group g)); destruct (mres_apply rnone (Group g') (Group g')); simpl in *. subst. auto.
      * destruct (if whole then [] else filter (fun k => negb (f k)) g') as [|a' r0'] eqn:E2.
        { apply seq_nil_r in Hn. discriminate. }
        assert (SR : sim (Group (a :: r0)) (Group (a' :: r0'))) by now constructor.
        rewrite (inner_match_sim inner dflt _ _ SR).
        destruct (mres_apply_sim (inner_match inner dflt (Group (a' :: r0'))) _ _ _ _ SG SR) as [A B].
        destruct (mres_apply _ (Group g) (Group (a :: r0))); destruct (mres_apply _ (Group g') (Group (a' :: r0'))); simpl in *. subst. auto.
    + now apply mres_apply_sim.
Qed.

Lemma udp_main_sim p e e' : sim e e' ->
  osim (u_raises (udp_client_task_main p e)) (u_raises (udp_client_task_main p e')) /\
  (u_raises (udp_client_task_main p e') = None ->
   u_state (udp_client_task_main p e) = u_state (udp_client_task_main p e') /\
   u_fresh (udp_client_task_main p e) = u_fresh (udp_client_task_main p e')).
Proof.
  intros H. unfold udp_client_task_main.
  destruct (match_run_sim udp_aexit _ _ H) as [M1 M2].
  destruct (match_run udp_aexit e) as [r lg]. destruct (match_run udp_aexit e') as [r' lg'].
  simpl in *. split; auto. intros ->. apply osim_none_l in M1. subst r. auto.
Qed.

Theorem udp_fresh_general :
  forall p e, exc_is_exception e = true ->
    u_raises (udp_client_task p e) = None /\ u_state (udp_client_task p e) = CNone /\ u_fresh (udp_client_task p e) = true.
Proof.
  intros p e X.
  destruct (udp_never_raises_canon p (canon_exc e) (canon_in_domain e)) as (A&B&C).
  { now rewrite <- (exc_is_exception_sim _ _ (canon_sim e)). }
  unfold udp_client_task in *.
  assert (K : forall q, u_raises (udp_client_task_main q (canon_exc e)) = None ->
                        u_state (udp_client_task_main q (canon_exc e)) = CNone ->
                        u_fresh (udp_client_task_main q (canon_exc e)) = true ->
              u_raises (udp_client_task_main q e) = None /\ u_state (udp_client_task_main q e) = CNone /\
              u_fresh (udp_client_task_main q e) = true).
  { intros q A' B' C'. destruct (udp_main_sim q _ _ (canon_sim e)) as [S1 S2]. destruct (S2 A') as [S3 S4].
    rewrite A' in S1. apply osim_none_l in S1. rewrite S1, S3, S4. auto. }
  destruct p; try (apply K; assumption).
  all: try (destruct (delay_error d) as [k|]; [destruct (leaf_matches udp_wait_clauses k)|]);
    try destruct udp_first_parse_protected; try destruct (leaf_matches udp_wait_clauses KGeneric);
    solve [apply K; assumption | simpl in *; discriminate].
Qed.

(* faults raised by an exit callback registered after the suppressor *)
Theorem exit_callback_contained_general :
  forall e, exc_is_exception e = true ->
    o_raises (tcp_exit_callback_fault FTlsCompat SAclosing e) = None /\
    o_raises (tcp_exit_callback_fault FPlain SLinger e) = None /\
    o_raises (tcp_exit_callback_fault FTlsCompat SOnDisconnect e) = None /\
    o_raises (tcp_exit_callback_fault FPlain SOnDisconnect e) = None.
Proof.
  intros e X.
  pose proof exit_cb_table as T. rewrite forallb_forall in T. specialize (T _ (canon_in_domain e)).
  unfold chk_exit_cb in T. rewrite <- (exc_is_exception_sim _ _ (canon_sim e)), X in T. simpl in T.
  repeat (apply andb_true_iff in T; destruct T as [T ?]).
  apply is_none_true in T. apply is_none_true in H. apply is_none_true in H0. apply is_none_true in H1.
  unfold tcp_exit_callback_fault in *. simpl in *.
  pose proof (layers_run_sim tcp_suppress _ _ (canon_sim e)) as [F1 _ _].
  repeat split.
  - destruct (pushed_before SSuppress SAclosing (tcp_init_stack FTlsCompat)); simpl in *; [apply (osim_none_iff _ _ F1); auto | discriminate].
  - destruct (pushed_before SSuppress SLinger (tcp_init_stack FPlain)); simpl in *; [apply (osim_none_iff _ _ F1); auto | discriminate].
  - destruct (pushed_before SSuppress SOnDisconnect (tcp_init_stack FTlsCompat)); simpl in *; [apply (osim_none_iff _ _ F1); auto | discriminate].
  - destruct (pushed_before SSuppress SOnDisconnect (tcp_init_stack FPlain)); simpl in *; [apply (osim_none_iff _ _ F1); auto | discriminate].
Qed.

Theorem final_close_contained_general :
  forall f e1 k, exc_is_exception e1 = true -> isinst k C_OSError = true ->
    o_raises (tcp_final_close_fault f e1 k) = None /\ o_closed (tcp_final_close_fault f e1 k) = true.
Proof.
  intros f e1 k X K.
  pose proof (tcp_never_raises_general f PHandleAfter e1 None X eq_refl) as A.
  pose proof (tcp_closed_always f PHandleAfter e1 None) as B.
  unfold tcp_final_close_fault. cbn [o_raises o_closed].
  rewrite (final_close_swallowed k K). split; assumption.
Qed.
