(* C08 — proofs about the pump (Conc/TlsPump.v): data-flow invariants over every trace of the multi-task system. *)
From Coq Require Import ZArith List Bool Lia ZifyBool.
From EN Require Import Lib.Bytes Conc.TlsBase Conc.TlsPump Proofs.Tls_tactics.



Section PumpFacts.
Variable fl : flags.
Notation flush_pc := (flush_pc fl).
Notation pcall := (pcall fl).
Notation after_flush := (after_flush fl).
Notation go := (go fl).
Notation step := (step fl).
Notation settle_n := (settle_n fl).
Notation settle := (settle fl).
Notation retry := (retry fl).
Notation start := (start fl).
Notation run_method := (run_method fl).
Notation sys_step := (sys_step fl).
Notation sys_run := (sys_run fl).

(* a trace all of whose labels the model accepts *)
Fixpoint sys_exec (y : sys) (ls : list slab) : option (sys * list (nat * act)) :=
  match ls with
  | [] => Some (y, [])
  | l :: ls' =>
      match sys_step y l with
      | None => None
      | Some (y1, a1) =>
          match sys_exec y1 ls' with
          | None => None
          | Some (y2, a2) => Some (y2, a1 ++ a2)
          end
      end
  end.

Definition sent1 (a : act) : bytes := match a with ASend p => p | _ => [] end.
Definition fed1 (a : act) : bytes := match a with AFeed d => d | _ => [] end.
Definition sent (l : list act) : bytes := concat (map sent1 l).       (* bytes handed to transport.send_all, in order *)
Definition fed (l : list act) : bytes := concat (map fed1 l).         (* bytes written into the incoming BIO, in order *)
Definition delta (l : lab) : bytes := match l with LSsl a => a_wdelta a | _ => [] end.
Definition rcvd (l : lab) : bytes := match l with LT (TRcvd d) => d | _ => [] end.
Definition lab_of (l : slab) : option lab := match l with SStep _ lb => Some lb | _ => None end.
(* everything the SSL object appended to the outgoing BIO / everything recv_into returned, over a trace *)
Definition produced (ls : list slab) : bytes :=
  concat (map (fun l => match lab_of l with Some lb => delta lb | None => [] end) ls).
Definition received (ls : list slab) : bytes :=
  concat (map (fun l => match lab_of l with Some lb => rcvd lb | None => [] end) ls).

Lemma sent_app : forall a b, sent (a ++ b) = sent a ++ sent b.
Proof. intros. unfold sent. rewrite map_app, concat_app. reflexivity. Qed.
Lemma fed_app : forall a b, fed (a ++ b) = fed a ++ fed b.
Proof. intros. unfold fed. rewrite map_app, concat_app. reflexivity. Qed.

Lemma go_flow : forall m s p s' p' a,
  go m s p = Some (s', p', a) -> sent a ++ wbio s' = wbio s /\ fed a = [].
Proof.
  intros m s p s' p' a H. unfold go in H.
  destruct p as [ | k | k | sn | | r]; try discriminate.
  - destruct (send_lock s); try discriminate.
    destruct (wbio s) as [| w0 w] eqn:Ew.
    + destruct k; inversion H; subst; cbn; rewrite ?Ew; auto.
    + inversion H; subst. cbn. rewrite !app_nil_r. auto.
  - fold (go m s (PRecvWait sn)) in H. go_recv H sn; inversion H; subst; cbn; auto.
Qed.

(* one step of one task: what goes to the wire comes out of the outgoing BIO; what came from the transport goes into
   the incoming BIO *)
Lemma step_flow : forall m b s p l s' p' a,
  step m b s p l = Some (s', p', a) -> ~ In ADesync a ->
  sent a ++ wbio s' = wbio s ++ delta l /\ fed a = rcvd l.
Proof.
  intros m b s p l s' p' a H Hd.
  destruct p as [ | k | k | sn | | r]; destruct l as [x | | t]; cbv beta iota delta [step] in H; try discriminate.
  - (* PCall, LSsl *)
    destruct (negb _).
    + inversion H; subst. exfalso. apply Hd. left. reflexivity.
    + cbv zeta in H. destruct (a_out x).
      * destruct m; try (inversion H; subst; cbn; rewrite ?app_nil_r; auto; fail).
        match type of H with context [match ?d with [] => Some _ | _ :: _ => Some _ end] => destruct d end;
          inversion H; subst; cbn; auto.
      * inversion H; subst; cbn; auto.
      * inversion H; subst; cbn; auto.
      * inversion H; subst; cbn; auto.
      * inversion H; subst; cbn; auto.
      * inversion H; subst; cbn; auto.
  - apply go_flow in H. destruct H as [H1 H2]. cbn. rewrite app_nil_r. auto.
  - destruct t; inversion H; subst. cbn. rewrite app_nil_r. auto.
  - destruct t as [d | | | | bt]; try discriminate; cbv zeta in H.
    + inversion H; subst. cbn. rewrite app_nil_r. auto.
    + destruct k; inversion H; subst; cbn; rewrite app_nil_r; auto.
    + inversion H; subst. cbn. rewrite app_nil_r. auto.
  - apply go_flow in H. destruct H as [H1 H2]. cbn. rewrite app_nil_r. auto.
  - destruct t; inversion H; subst. cbn. rewrite app_nil_r. auto.
  - destruct t as [d | | | | bt]; try discriminate; cbv zeta in H.
    + destruct d; inversion H; subst; cbn; rewrite ?app_nil_r; auto.
    + inversion H; subst. cbn. rewrite app_nil_r. auto.
    + inversion H; subst. cbn. rewrite app_nil_r. auto.
Qed.

Lemma map_snd_tag : forall (t : nat) (a : list act), map snd (map (fun x => (t, x)) a) = a.
Proof. intros t a. rewrite map_map. cbn. apply map_id. Qed.

Lemma sys_step_flow : forall y l y' a,
  sys_step y l = Some (y', a) -> ~ In ADesync (map snd a) ->
  sent (map snd a) ++ wbio (y_sh y') = wbio (y_sh y) ++ match lab_of l with Some lb => delta lb | None => [] end
  /\ fed (map snd a) = match lab_of l with Some lb => rcvd lb | None => [] end.
Proof.
  intros y l y' a H Hd. destruct l as [m b chunks | t lb]; cbn in H.
  - inversion H; subst. cbn. rewrite app_nil_r. destruct m; cbn; auto.
  - destruct (nth_error (y_tasks y) t) as [tk |]; try discriminate.
    destruct (step (t_meth tk) (t_buf tk) (y_sh y) (t_pc tk) lb) as [[[s1 p1] a1] |] eqn:St; try discriminate.
    inversion H; subst. rewrite map_snd_tag in *. cbn [lab_of y_sh].
    eapply step_flow; eauto.
Qed.

Lemma sys_exec_flow : forall ls y y' a,
  sys_exec y ls = Some (y', a) -> ~ In ADesync (map snd a) ->
  sent (map snd a) ++ wbio (y_sh y') = wbio (y_sh y) ++ produced ls /\ fed (map snd a) = received ls.
Proof.
  induction ls as [| l ls IH]; intros y y' a H Hd; cbn in H.
  - inversion H; subst. cbn. rewrite app_nil_r. auto.
  - destruct (sys_step y l) as [[y1 a1] |] eqn:S1; try discriminate.
    destruct (sys_exec y1 ls) as [[y2 a2] |] eqn:S2; try discriminate.
    inversion H; subst. rewrite map_app in *.
    assert (Hd1 : ~ In ADesync (map snd a1)) by (intros X; apply Hd; apply in_or_app; auto).
    assert (Hd2 : ~ In ADesync (map snd a2)) by (intros X; apply Hd; apply in_or_app; auto).
    destruct (sys_step_flow _ _ _ _ S1 Hd1) as [F1 G1].
    destruct (IH _ _ _ S2 Hd2) as [F2 G2].
    rewrite sent_app, fed_app. unfold produced, received in *. cbn [map concat].
    split.
    + rewrite <- app_assoc, F2, app_assoc, F1, <- app_assoc. reflexivity.
    + rewrite G1, G2. reflexivity.
Qed.

(* every payload handed to send_all is the whole content of the outgoing BIO at that moment, which it empties *)
Lemma step_send_is_wbio : forall m b s p l s' p' a w,
  step m b s p l = Some (s', p', a) -> In (ASend w) a -> w = wbio s /\ wbio s' = [] /\ l = LGo.
Proof.
  intros m b s p l s' p' a w H Hin.
  destruct p as [ | k | k | sn | | r]; destruct l as [x | | t]; cbv beta iota delta [step] in H; try discriminate.
  - destruct (negb _); [inversion H; subst; cbn in Hin; intuition discriminate |].
    cbv zeta in H. destruct (a_out x).
    + destruct m; try (inversion H; subst; cbn in Hin; intuition discriminate; fail).
      match type of H with context [match ?d with [] => Some _ | _ :: _ => Some _ end] => destruct d end;
        inversion H; subst; cbn in Hin; intuition discriminate.
    + inversion H; subst; cbn in Hin; intuition discriminate.
    + inversion H; subst; cbn in Hin; intuition discriminate.
    + inversion H; subst. cbn in Hin; intuition discriminate.
    + inversion H; subst; cbn in Hin; intuition discriminate.
    + inversion H; subst; cbn in Hin; intuition discriminate.
  - unfold go in H. destruct (send_lock s); try discriminate.
    destruct (wbio s) as [| w0 w'] eqn:Ew.
    + destruct k; inversion H; subst; try (cbn in Hin; intuition discriminate; fail).
      destruct Hin as [X | []]. inversion X; subst. cbn. auto.
    + inversion H; subst. destruct Hin as [X | []]. inversion X; subst. cbn. auto.
  - destruct t; inversion H; subst; cbn in Hin; intuition discriminate.
  - destruct t as [d | | | | bt]; try discriminate; cbv zeta in H.
    + inversion H; subst; cbn in Hin; intuition discriminate.
    + destruct k; inversion H; subst; cbn in Hin; intuition discriminate.
    + inversion H; subst; cbn in Hin; intuition discriminate.
  - go_recv H sn; inversion H; subst; cbn in Hin; intuition discriminate.
  - destruct t; inversion H; subst; cbn in Hin; intuition discriminate.
  - destruct t as [d | | | | bt]; try discriminate; cbv zeta in H.
    + destruct d; inversion H; subst; cbn in Hin; intuition discriminate.
    + inversion H; subst. cbn in Hin; intuition discriminate.
    + inversion H; subst; cbn in Hin; intuition discriminate.
Qed.

(* ---- no deadlock by construction of the WANT_READ branch: the flush comes before the read ---- *)

(* a task reaches "waiting to read" only from the flush point of the WANT_READ branch, either because the outgoing BIO
   was empty when it held the send lock, or after its send_all of the whole outgoing BIO returned *)
Lemma wbio_empty_true : forall s, wbio_empty s = true -> wbio s = [].
Proof. intros s H. unfold wbio_empty in H. destruct (wbio s); [reflexivity | discriminate]. Qed.

Lemma recvwait_only_after_flush : forall m b s p l s' a n,
  step m b s p l = Some (s', PRecvWait n, a) ->
  (p = PFlush (KRead n) /\ l = LGo /\ wbio s = [] /\ a = []) \/ (p = PSending (KRead n) /\ l = LT TSent) \/
  (p = PCall /\ (exists x, l = LSsl x /\ a_out x = SWantRead) /\ wbio s' = [] /\ a = []).
Proof.
  intros m b s p l s' a n H.
  destruct p as [ | k | k | sn | | r]; destruct l as [x | | t]; cbv beta iota delta [step] in H; try discriminate.
  - destruct (negb _); [inversion H |]. cbv zeta in H. destruct (a_out x) eqn:Eo; try (inversion H; fail).
    + destruct m; try (flush_cases; inversion H; fail).
      match type of H with context [match ?d with [] => Some _ | _ :: _ => Some _ end] => destruct d end;
        flush_cases; inversion H.
    + unfold flush_pc in H.
      destruct (f_skiplock fl && wbio_empty (set_wbio s (wbio s ++ a_wdelta x))) eqn:Sk; inversion H; subst.
      right; right. apply andb_prop in Sk. destruct Sk as [_ Sk]. apply wbio_empty_true in Sk.
      split; [reflexivity |]. split; [eauto |]. split; [exact Sk | reflexivity].
  - unfold go in H. destruct (send_lock s); try discriminate.
    destruct (wbio s) as [| w0 w'] eqn:Ew.
    + destruct k; cbn in H; try (inversion H; fail).
      inversion H; subst. left; auto.
    + inversion H.
  - destruct t; inversion H.
  - destruct t as [d | | | | bt]; try discriminate; cbv zeta in H.
    + destruct k; cbn in H.
      * inversion H; subst. right; left; auto.
      * unfold pcall in H. destruct m; try (inversion H; fail). destruct (deque _); flush_cases; inversion H.
      * inversion H.
    + destruct k; inversion H.
  - go_recv H sn; [unfold pcall in H; destruct m; try (inversion H; fail); destruct (deque s); flush_cases; inversion H | inversion H].
  - destruct t; inversion H.
  - destruct t as [d | | | | bt]; try discriminate; cbv zeta in H.
    destruct d; inversion H as [[H1 H2 H3]]; unfold pcall in H2; destruct m; try discriminate; destruct (deque _);
      flush_cases; discriminate.
Qed.

(* recv_into is started only from "waiting to read" *)
Lemma recv_only_from_recvwait : forall m b s p l s' p' a,
  step m b s p l = Some (s', p', a) -> In ARecv a -> (exists n, p = PRecvWait n) /\ l = LGo /\ p' = PRecving.
Proof.
  intros m b s p l s' p' a H Hin.
  destruct p as [ | k | k | sn | | r]; destruct l as [x | | t]; cbv beta iota delta [step] in H; try discriminate.
  - destruct (negb _); [inversion H; subst; cbn in Hin; intuition discriminate |].
    cbv zeta in H. destruct (a_out x).
    + destruct m; try (inversion H; subst; cbn in Hin; intuition discriminate; fail).
      match type of H with context [match ?d with [] => Some _ | _ :: _ => Some _ end] => destruct d end;
        inversion H; subst; cbn in Hin; intuition discriminate.
    + inversion H; subst; cbn in Hin; intuition discriminate.
    + inversion H; subst; cbn in Hin; intuition discriminate.
    + inversion H; subst. cbn in Hin; intuition discriminate.
    + inversion H; subst; cbn in Hin; intuition discriminate.
    + inversion H; subst; cbn in Hin; intuition discriminate.
  - unfold go in H. destruct (send_lock s); try discriminate.
    destruct (wbio s) as [| w0 w'].
    + destruct k; inversion H; subst; cbn in Hin; intuition discriminate.
    + inversion H; subst. cbn in Hin; intuition discriminate.
  - destruct t; inversion H; subst; cbn in Hin; intuition discriminate.
  - destruct t as [d | | | | bt]; try discriminate; cbv zeta in H.
    + inversion H; subst; cbn in Hin; intuition discriminate.
    + destruct k; inversion H; subst; cbn in Hin; intuition discriminate.
    + inversion H; subst; cbn in Hin; intuition discriminate.
  - go_recv H sn; inversion H; subst; [cbn in Hin; intuition discriminate | eauto].
  - destruct t; inversion H; subst; cbn in Hin; intuition discriminate.
  - destruct t as [d | | | | bt]; try discriminate; cbv zeta in H.
    + destruct d; inversion H; subst; cbn in Hin; intuition discriminate.
    + inversion H; subst. cbn in Hin; intuition discriminate.
    + inversion H; subst; cbn in Hin; intuition discriminate.
Qed.

(* WANT_READ with pending ciphertext and a free send lock: the very next thing the task does is send_all(everything
   pending) — it is not yet reading *)
Lemma wantread_flushes_first : forall m b s x,
  a_meth x = m -> a_arg x = expected_arg m b s -> a_out x = SWantRead ->
  send_lock s = false -> wbio s ++ a_wdelta x <> [] ->
  exists s1 s2,
    step m b s PCall (LSsl x) = Some (s1, PFlush (KRead (feeds s)), []) /\
    settle m s1 (PFlush (KRead (feeds s))) = (s2, PSending (KRead (feeds s)), [ASend (wbio s ++ a_wdelta x)]) /\
    wbio s2 = [].
Proof.
  intros m b s x Hm Ha Ho Hl Hne.
  exists (set_wbio s (wbio s ++ a_wdelta x)).
  exists (set_send_lock (set_wbio (set_wbio s (wbio s ++ a_wdelta x)) []) true).
  split; [| split].
  - unfold step. rewrite Hm, Ha, Ho.
    replace (meth_eqb m m) with true by (destruct m; reflexivity). rewrite Nat.eqb_refl.
    cbn [andb negb]. cbv zeta. unfold flush_pc, wbio_empty. cbn [wbio set_wbio feeds].
    destruct (wbio s ++ a_wdelta x); [congruence |]. rewrite andb_false_r. reflexivity.
  - unfold settle. cbn [settle_n go send_lock set_wbio wbio]. rewrite Hl.
    destruct (wbio s ++ a_wdelta x) as [| w0 w] eqn:Ew; [congruence |]. cbn. reflexivity.
  - reflexivity.
Qed.

End PumpFacts.
