(* Adapter on a closed / dead transport: a send never suspends for ever (any transport configuration). *)
From Coq Require Import List Arith Bool Lia.
From EN Require Import Conc.FlowControl Proofs.C20_flow Proofs.C20_adapter.
Import ListNotations.

Record D (a : ad) : Prop := mkD {
  d_w : wfc_inv (a_w a);
  d_buf : a_dead a = true -> a_buf a = [];
  d_lost : w_lost (a_w a) = true -> a_dead a = true;
  d_closing : a_dead a = true -> w_closing (a_w a) = true
}.

Lemma D_init : forall c n, D (ad_init c n).
Proof. intros. constructor; simpl; auto; try discriminate. apply wfc_inv_init. Qed.

Lemma inv_pause : forall w, wfc_inv w -> wfc_inv (wfc_pause w).
Proof. intros w I. apply (wfc_step_inv w WPause (wfc_pause w) []); auto. Qed.
Lemma inv_resume : forall w, wfc_inv w -> wfc_inv (wfc_resume w).
Proof. intros w I. apply (wfc_step_inv w WResume (wfc_resume w) []); auto. Qed.
Lemma inv_lost : forall e w, wfc_inv w -> wfc_inv (wfc_lost e w).
Proof. intros e w I. apply (wfc_step_inv w (WLost e) (wfc_lost e w) []); auto. Qed.
Lemma inv_closing : forall b w, wfc_inv w -> wfc_inv (wfc_closing b w).
Proof. intros b w I. apply (wfc_step_inv w (WClosing b) (wfc_closing b w) []); auto. Qed.

(* the transport's own bookkeeping: same buffer / dead flag, flow control paused or resumed *)
Definition tweak (a a' : ad) : Prop :=
  a_dead a' = a_dead a /\ a_cfg a' = a_cfg a /\
  (a_w a' = a_w a \/ a_w a' = wfc_pause (a_w a) \/ a_w a' = wfc_resume (a_w a) \/ a_w a' = wfc_pause (wfc_resume (a_w a))).

Lemma D_tweak : forall a a', D a -> tweak a a' -> (a_dead a = true -> a_buf a' = []) -> D a'.
Proof.
  intros a a' [Dw Db Dl Dc] [E1 [_ E3]] Hb. constructor.
  - destruct E3 as [E|[E|[E|E]]]; rewrite E; auto using inv_pause, inv_resume.
  - rewrite E1. auto.
  - rewrite E1. destruct E3 as [E|[E|[E|E]]]; rewrite E; simpl; auto.
  - rewrite E1. destruct E3 as [E|[E|[E|E]]]; rewrite E; simpl; auto.
Qed.

Lemma tweak_pause : forall a, tweak a (maybe_pause a).
Proof. intros. unfold maybe_pause, tweak. destruct (_ && _); simpl; auto. Qed.
Lemma tweak_resume : forall a, tweak a (maybe_resume a).
Proof. intros. unfold maybe_resume, tweak. destruct (_ && _); simpl; auto 6. Qed.
Lemma tweak_pause_resume : forall a, tweak a (maybe_pause (maybe_resume a)).
Proof.
  intros. unfold maybe_pause, maybe_resume, tweak. destruct (a_ppaused a && _); simpl; destruct (_ && _); simpl; auto 7.
Qed.
Lemma tweak_buf : forall a b, tweak a (with_buf b a).
Proof. intros. unfold tweak. simpl. auto. Qed.
Lemma tweak_trans_buf : forall a b a', tweak (with_buf b a) a' -> tweak a a'.
Proof. intros a b a' H. exact H. Qed.

Lemma upd_twice_eq : forall {X} (l : list X) t x y, upd t x (upd t y l) = upd t x l.
Proof. induction l as [|a l IH]; intros t x y; destruct t; simpl; auto. rewrite IH. reflexivity. Qed.

Lemma tr_write_D : forall t n k a, D a -> D (tr_write t n k a).
Proof.
  intros t n k a Da. unfold tr_write. destruct (a_dead a) eqn:Dd; simpl; auto. destruct (n =? 0); auto.
  destruct (a_buf a); [destruct (_ =? 0); auto|]; (eapply D_tweak; [exact Da|(eapply tweak_trans_buf; apply tweak_pause)|congruence]).
Qed.

Lemma tr_sendto_D : forall t n ok a, D a -> D (tr_sendto t n ok a).
Proof.
  intros t n ok a Da. unfold tr_sendto. destruct (a_dead a) eqn:Dd; simpl; auto. destruct (n =? 0); auto.
  destruct (a_buf a); [destruct ok; auto|]; (eapply D_tweak; [exact Da|(eapply tweak_trans_buf; apply tweak_pause)|congruence]).
Qed.

Lemma tr_writelines_D : forall t n k a, D a -> D (tr_writelines t n k a).
Proof.
  intros t n k a Da. unfold tr_writelines. destruct (a_dead a) eqn:Dd; simpl; auto. destruct (n =? 0); auto.
  destruct (k =? 0); destruct (c_wl_pauses (a_cfg a));
    (eapply D_tweak; [exact Da| |congruence]);
    first [(eapply tweak_trans_buf; apply tweak_pause_resume) | (eapply tweak_trans_buf; apply tweak_pause)
          | (eapply tweak_trans_buf; apply tweak_resume) | apply tweak_buf].
Qed.

Lemma quiet_closing : forall w l w' o, quiet l -> wfc_step w l = Some (w', o) -> w_closing w' = w_closing w.
Proof.
  intros w l w' o Q H. destruct l as [u| | |e|b|u|g|u]; simpl in Q; try contradiction; simpl in H.
  - unfold get_task in H. destruct (nth_error (w_tasks w) u) as [x|]; [|discriminate]. destruct x; try discriminate.
    unfold wfc_drain, drain_body in H.
    destruct (w_closing w) eqn:C; [|destruct (w_lost w); [|destruct (negb (w_paused w))]]; inversion H; subst; simpl; auto.
  - unfold get_task in H. destruct (nth_error (w_tasks w) u) as [x|]; [|discriminate].
    destruct x; try discriminate; inversion H; subst; reflexivity.
  - destruct (_ && _); [|discriminate]. inversion H; subst. reflexivity.
  - unfold get_task in H. destruct (nth_error (w_tasks w) u) as [x|]; [|discriminate]. destruct x as [|c|g st]; try discriminate.
    + destruct c; [inversion H; subst; reflexivity|]. unfold drain_body in H. simpl in H.
      destruct (w_lost w); [|destruct (negb (w_paused w))]; inversion H; subst; reflexivity.
    + destruct (res_of st); [|discriminate]. inversion H; subst. reflexivity.
Qed.

Lemma D_lift : forall a l w' o, D a -> quiet l -> wfc_step (a_w a) l = Some (w', o) -> D (with_w w' a).
Proof.
  intros a l w' o [Dw Db Dl Dc] Q H. destruct (wfc_quiet _ _ _ _ Q H) as [_ [E2 _]].
  constructor; simpl; auto.
  - eapply wfc_step_inv; eauto.
  - rewrite E2. auto.
  - rewrite (quiet_closing _ _ _ _ Q H). auto.
Qed.

Lemma D_step : forall a l a' o, D a -> ad_step a l = Some (a', o) -> D a'.
Proof.
  intros a l a' o Da H. destruct l as [t n k|t n k|t n ok|k| | |e|t|f|t]; unfold ad_step in H.
  - destruct (get_task t (a_w a)) as [[| |]|]; try discriminate.
    destruct (wfc_step (a_w (tr_write t n k a)) (WDrain t)) as [[w' o']|] eqn:S; [|discriminate]. simpl in H. inversion H; subst.
    apply (D_lift _ (WDrain t) _ _ (tr_write_D t n k a Da) I S).
  - destruct (get_task t (a_w a)) as [[| |]|]; try discriminate.
    destruct (wfc_step (a_w (tr_writelines t n k a)) (WDrain t)) as [[w' o']|] eqn:S; [|discriminate]. simpl in H. inversion H; subst.
    apply (D_lift _ (WDrain t) _ _ (tr_writelines_D t n k a Da) I S).
  - destruct (get_task t (a_w a)) as [[| |]|]; try discriminate.
    destruct (wfc_step (a_w (tr_sendto t n ok a)) (WDrain t)) as [[w' o']|] eqn:S; [|discriminate]. simpl in H. inversion H; subst.
    apply (D_lift _ (WDrain t) _ _ (tr_sendto_D t n ok a Da) I S).
  - destruct (a_buf a) as [|x r] eqn:B; [discriminate|]. destruct (_ && _); [|discriminate].
    assert (Dd : a_dead a = false).
    { destruct (a_dead a) eqn:X; auto. rewrite (d_buf a Da X) in B. discriminate. }
    assert (D1 : D (maybe_resume (with_buf (take k (x :: r)) a))).
    { eapply D_tweak; [exact Da|(eapply tweak_trans_buf; apply tweak_resume)|congruence]. }
    destruct (a_buf (maybe_resume (with_buf (take k (x :: r)) a))) eqn:B1.
    + destruct (w_closing (a_w (maybe_resume (with_buf (take k (x :: r)) a)))) eqn:C; inversion H; subst; auto.
      destruct D1 as [Dw Db Dl Dc]. constructor; simpl; auto using inv_lost.
      intros _. unfold wfc_lost. destruct (w_lost _); simpl; auto.
    + inversion H; subst; auto.
  - destruct (a_dead a) eqn:Dd; [discriminate|]. inversion H; subst. destruct Da as [Dw Db Dl Dc].
    constructor; simpl; auto using inv_closing.
  - destruct (w_closing (a_w a)) eqn:C; [discriminate|]. inversion H; subst. destruct Da as [Dw Db Dl Dc].
    destruct (a_buf a) eqn:B; constructor; simpl; auto using inv_closing; try (intros X; rewrite B; apply Db; exact X).
  - destruct (a_dead a) eqn:Dd; simpl in H; [|discriminate]. destruct (negb (w_lost (a_w a))); [|discriminate].
    inversion H; subst. destruct Da as [Dw Db Dl Dc]. constructor; simpl; auto using inv_lost.
    intros _. specialize (Dc Dd). unfold wfc_lost. destruct (w_lost (a_w a)); simpl; auto.
  - unfold lift in H. destruct (wfc_step (a_w a) (WCancel t)) as [[w' o']|] eqn:S; [|discriminate]. inversion H; subst.
    apply (D_lift _ (WCancel t) _ _ Da I S).
  - unfold lift in H. destruct (wfc_step (a_w a) (WCallback f)) as [[w' o']|] eqn:S; [|discriminate]. inversion H; subst.
    apply (D_lift _ (WCallback f) _ _ Da I S).
  - unfold lift in H. destruct (wfc_step (a_w a) (WWake t)) as [[w' o']|] eqn:S; [|discriminate]. inversion H; subst.
    apply (D_lift _ (WWake t) _ _ Da I S).
Qed.

Lemma D_run : forall ls a a', D a -> ad_run a ls = Some a' -> D a'.
Proof.
  induction ls as [|l ls IH]; simpl; intros a a' Da H.
  - inversion H; subst; auto.
  - destruct (ad_step a l) as [[a1 o]|] eqn:E; [|discriminate]. eapply IH; [|eauto]. eapply D_step; eauto.
Qed.

Definition conn_err (r : dres) : Prop := r = RConnExc \/ r = RErrno.

Lemma closed_transport_sends_fail_fast_proof :
  forall c n ls a, ad_run (ad_init c n) ls = Some a -> a_dead a = true ->
    a_buf a = [] /\
    (w_lost (a_w a) = false ->
       forall e, exists a', ad_step a (ALost e) = Some (a', []) /\
                            forall t f, task (a_w a') t <> Some (TParked f FPending)) /\
    (w_lost (a_w a) = true ->
       (forall t f, task (a_w a) t <> Some (TParked f FPending)) /\
       forall t n k, task (a_w a) t = Some TIdle ->
         exists a1 a2 r, ad_step a (ASend t n k) = Some (a1, [OParked t]) /\
                         ad_step a1 (AWake t) = Some (a2, [ODrain t r]) /\ conn_err r /\
                         task (a_w a2) t = Some TIdle /\ a_buf a2 = []).
Proof.
  intros c n ls a R Dd. assert (Da := D_run ls _ a (D_init c n) R). destruct Da as [Dw Db Dl Dc].
  split; [auto|]. split.
  - intros L e. simpl. rewrite Dd, L. simpl. eexists. split; [reflexivity|]. simpl.
    intros t f C. unfold wfc_lost in C. rewrite L in C.
    assert (I' := complete_all_inv (a_w a) (FExc e) false true e Dw ltac:(discriminate)).
    apply (i_live _ I') in C. simpl in C. destruct C. discriminate.
  - intros L. split.
    + intros t f C. apply (i_live _ Dw) in C. destruct C. congruence.
    + intros t m k Ht. specialize (Dc Dd). unfold task in Ht.
      assert (W1 : tr_write t m k a = a) by (unfold tr_write; rewrite Dd; reflexivity).
      unfold ad_step. unfold get_task. rewrite Ht, W1. simpl. unfold get_task. rewrite Ht. unfold wfc_drain. rewrite Dc.
      exists (with_w (set_task t (TYield false) (a_w a)) a). eexists. eexists. split; [reflexivity|].
      simpl. rewrite (nth_error_upd_eq _ _ _ _ Ht). unfold drain_body. simpl. rewrite L.
      split; [reflexivity|]. split.
      * unfold conn_err. destruct (w_lost_exc (a_w a)); auto.
      * split; [|simpl; auto]. unfold task. simpl. rewrite upd_twice_eq. eapply nth_error_upd_eq; eauto.
Qed.
