(* C03/C15 bridge, copying path: the relativised interface [consumer_ok_rel] holds for the real copying consumer model
   (StreamDataConsumer) over the read_until framer (AutoSeparatedPacketSerializer / line serializers), with
   G = "every frame of the stream stays inside the safe band of the limit" ([safe sep limit]),
   spec = frame-by-frame decoding [spec_events].  Built on the lead's Proofs/ReadUntil_proofs.v. *)
From Coq Require Import List Arith Bool Lia.
From EN Require Import Lib.Bytes Frame.Framer Frame.ReadUntil Stream.Consumer Stream.SpecDecode Stream.Endpoint
  Stream.EndpointSpec Proofs.Bytes_proofs Proofs.ReadUntil_proofs.
Import ListNotations.

Section RUBridge.
  Context {P : Type}.
  Variable sep : bytes.
  Variable limit : nat.
  Variable keep_end : bool.
  Variable dec : decoder P.
  Variable bufsize : nat.
  Hypothesis sep_ne : sep <> [].
  Hypothesis bufsize_pos : 0 < bufsize.

  Let sl := length sep.
  Let F := ru_framer sep limit keep_end dec.
  Definition RM := copy_machine (ru_framer sep limit keep_end dec) bufsize.

  Notation spec_ev := (spec_events sep keep_end dec).
  Definition ru_spec (d : bytes) : list (nres P) := fst (spec_events sep keep_end dec d).
  Definition ru_G (d : bytes) : Prop := safe sep limit d.

  Notation mkc' := (mkc sep limit keep_end dec).
  Notation crep' := (crep sep limit keep_end dec).
  Notation cres' := (cres sep limit keep_end dec).
  Notation fev := (frame_event sep keep_end dec).

  Let ev_step := @spec_events_step P sep limit keep_end dec sep_ne.
  Let ev_none := @spec_events_none P sep keep_end dec.
  Let ev_app := @spec_events_app P sep limit keep_end dec sep_ne.
  Let sf_app_l := @safe_app_l P sep limit keep_end dec sep_ne.
  Let sf_tail_app := @safe_tail_app P sep limit keep_end dec sep_ne.
  Let fe_app := @frame_event_app P sep limit keep_end dec.
  Let f0_nil := @find0_nil P sep limit keep_end dec sep_ne.
  Let c_nosep := @crep_nosep P sep limit keep_end dec sep_ne.

  (* [d1] = the bytes of complete frames already handed out, [w] = the rest, held by the consumer *)
  Definition ru_R (c : cstate F) (d : bytes) (k : nat) : Prop :=
    exists d1 w, d = d1 ++ w /\ snd (spec_ev d1) = [] /\ length (fst (spec_ev d1)) = k /\
                 (c = mkc' w None \/ crep' c w).
  Definition ru_D (c : cstate F) (d : bytes) : Prop :=
    exists d1 w, d = d1 ++ w /\ snd (spec_ev d1) = [] /\ crep' c w.

  Lemma sl_pos_b : 1 <= sl.
  Proof. unfold sl. destruct sep; [congruence|simpl; lia]. Qed.

  Lemma spec_nil : spec_ev [] = ([], []).
  Proof. apply ev_none. exact f0_nil. Qed.

  (* decoding of whole frames followed by anything *)
  Lemma spec_whole_app : forall d1 w, snd (spec_ev d1) = [] ->
      spec_ev (d1 ++ w) = (fst (spec_ev d1) ++ fst (spec_ev w), snd (spec_ev w)).
  Proof. intros d1 w H. rewrite ev_app. rewrite H. reflexivity. Qed.

  Lemma find0_firstn : forall w p, find0 sep w = Some p -> find0 sep (firstn (p + sl) w) = Some p.
  Proof.
    intros w p E. pose proof (find0_Some _ _ _ E) as [Hocc Hfirst].
    pose proof (occ_bound _ _ _ sep_ne Hocc) as Hb. fold sl in Hb.
    assert (Hl : length (firstn (p + sl) w) = p + sl) by (rewrite firstn_length; lia).
    apply find0_first.
    - rewrite <- (firstn_skipn (p + sl) w) in Hocc. rewrite occ_app_inv in Hocc by (fold sl; lia). exact Hocc.
    - intros j Hj. specialize (Hfirst j Hj). rewrite <- (firstn_skipn (p + sl) w) in Hfirst.
      rewrite occ_app_inv in Hfirst by (fold sl; lia). exact Hfirst.
  Qed.

  (* one complete frame at the head of w *)
  Lemma spec_one_frame : forall w p, find0 sep w = Some p -> spec_ev (firstn (p + sl) w) = ([fev w p], []).
  Proof.
    intros w p E. pose proof (find0_Some _ _ _ E) as [Hocc _].
    pose proof (occ_bound _ _ _ sep_ne Hocc) as Hb. fold sl in Hb.
    assert (Hl : length (firstn (p + sl) w) = p + sl) by (rewrite firstn_length; lia).
    rewrite (ev_step _ _ (find0_firstn _ _ E)). fold sl.
    rewrite skipn_all2 by lia. rewrite spec_nil. cbn [fst snd]. f_equal. f_equal.
    symmetry. transitivity (fev (firstn (p + sl) w ++ skipn (p + sl) w) p); [rewrite firstn_skipn; reflexivity|].
    apply fe_app. fold sl. lia.
  Qed.

  (* the loop body on the held bytes [b] (non-empty, safe), after the whole frames [d1] *)
  Lemma scan_step : forall d1 b off,
      snd (spec_ev d1) = [] -> b <> [] -> ru_inv sep limit b off -> safe sep limit b ->
      let k := length (fst (spec_ev d1)) in
      match cres' (ru_scan sep limit keep_end dec b off) with
      | (c', RStop) => length (ru_spec (d1 ++ b)) = k /\ ru_D c' (d1 ++ b)
      | (c', r) => nth_error (ru_spec (d1 ++ b)) k = Some r /\ ru_R c' (d1 ++ b) (S k)
      end.
  Proof.
    intros d1 b off Hd1 Hne Hinv Hs k. pose proof sl_pos_b as Hsl.
    unfold ru_spec. rewrite (spec_whole_app _ b Hd1). cbn [fst].
    destruct (find0 sep b) as [p|] eqn:E.
    - rewrite (ru_scan_found sep limit keep_end dec sep_ne _ _ _ Hinv E).
      destruct (safe_tail _ _ _ _ Hs E) as [Hle Hrest].
      pose proof (find0_Some _ _ _ E) as [Hocc _]. pose proof (occ_bound _ _ _ sep_ne Hocc) as Hb. fold sl in Hb.
      rewrite ru_finish_ok by exact Hle. fold sl.
      assert (Hnth : nth_error (fst (spec_ev d1) ++ fst (spec_ev b)) k = Some (fev b p)).
      { rewrite nth_error_app2 by (unfold k; lia). unfold k. rewrite Nat.sub_diag.
        rewrite (ev_step _ _ E). reflexivity. }
      assert (HR : ru_R (mkc' (skipn (p + sl) b) None) (d1 ++ b) (S k)).
      { exists (d1 ++ firstn (p + sl) b), (skipn (p + sl) b).
        split; [rewrite <- app_assoc, firstn_skipn; reflexivity|].
        rewrite (spec_whole_app _ _ Hd1), (spec_one_frame _ _ E). cbn [fst snd].
        split; [reflexivity|]. split; [rewrite app_length; simpl; unfold k; lia|]. left. reflexivity. }
      unfold frame_event in Hnth. fold sl in Hnth.
      destruct (dec (firstn (if keep_end then p + sl else p) b)); cbn [cres]; split; auto.
    - pose proof (safe_nosep_len _ _ _ Hs E) as Hbound. fold sl in Hbound.
      destruct (ru_scan_none sep limit keep_end dec sep_ne _ _ Hinv E) as [Hn _].
      destruct (Hn Hbound) as (off' & Hscan & Hinv'). rewrite Hscan. cbn [cres].
      rewrite (ev_none _ E). cbn [fst]. rewrite app_nil_r. split; [reflexivity|].
      exists d1, b. split; [reflexivity|]. split; [exact Hd1|].
      apply crep_wait; assumption.
  Qed.

  Lemma ru_ok_drain : forall c d k c' r, ru_G d -> ru_R c d k -> mdrain RM c = (c', r) ->
      match r with
      | RStop => k = length (ru_spec d) /\ ru_D c' d
      | _ => nth_error (ru_spec d) k = Some r /\ ru_R c' d (S k)
      end.
  Proof.
    intros c d k c' r HG (d1 & w & -> & Hd1 & Hk & Hc) E. cbn [RM copy_machine mdrain] in E.
    assert (Hsw : safe sep limit w).
    { pose proof (sf_tail_app _ _ HG) as H. rewrite Hd1 in H. exact H. }
    assert (Hidle : forall c0, crep' c0 w -> cnext F c0 None = (c0, RStop) ->
                    (c', r) = (c0, RStop) ->
                    match r with
                    | RStop => k = length (ru_spec (d1 ++ w)) /\ ru_D c' (d1 ++ w)
                    | _ => nth_error (ru_spec (d1 ++ w)) k = Some r /\ ru_R c' (d1 ++ w) (S k)
                    end).
    { intros c0 Hc0 _ E0. inversion E0; subst c' r. split.
      - unfold ru_spec. rewrite (spec_whole_app _ w Hd1). cbn [fst].
        rewrite (ev_none _ (c_nosep _ _ Hc0)). cbn [fst]. rewrite app_nil_r. auto.
      - exists d1, w. auto. }
    destruct Hc as [-> | Hc].
    - destruct w as [|b0 w0].
      + rewrite cnext_none_nil in E. eapply (Hidle (mkc' [] None)); [constructor|reflexivity|auto].
      + rewrite cnext_none_buf in E by discriminate.
        pose proof (scan_step d1 (b0 :: w0) 0 Hd1 ltac:(discriminate) (ru_inv_0 _ _ _) Hsw) as Hst. cbv zeta in Hst.
        rewrite E in Hst. rewrite Hk in Hst.
        destruct r; auto. destruct Hst as [Hl HD]. split; [symmetry; exact Hl|exact HD].
    - inversion Hc as [|buf off Hbne Hinv Hnf Hbound]; subst.
      + unfold mkc in E. eapply (Hidle _ Hc); [reflexivity|]. rewrite <- E. reflexivity.
      + eapply (Hidle _ Hc); [reflexivity|]. rewrite <- E. reflexivity.
  Qed.

  Lemma ru_ok_take : forall c d avail, ru_D c d -> avail <> [] -> ru_G (d ++ avail) ->
      exists c' r n room, mtake RM c avail = Some (c', r, n, room) /\
        1 <= n <= length avail /\
        match r with
        | RStop => length (ru_spec (d ++ firstn n avail)) = length (ru_spec d) /\ ru_D c' (d ++ firstn n avail)
        | _ => nth_error (ru_spec (d ++ firstn n avail)) (length (ru_spec d)) = Some r /\
               ru_R c' (d ++ firstn n avail) (S (length (ru_spec d)))
        end.
  Proof.
    intros c d avail (d1 & w & -> & Hd1 & Hc) Hav HG. cbn [RM copy_machine mtake].
    set (n := Nat.min bufsize (length avail)).
    assert (Hn : 1 <= n <= length avail) by (unfold n; destruct avail; [congruence|simpl; lia]).
    set (piece := firstn n avail).
    assert (Hpne : piece <> []).
    { intro E0. apply (f_equal (@length _)) in E0. unfold piece in E0. rewrite firstn_length in E0. simpl in E0. lia. }
    destruct (cnext_chunk sep limit keep_end dec c w piece Hc Hpne) as (off & Hinv & Hnext).
    destruct (cnext (ru_framer sep limit keep_end dec) c (Some piece)) as [c' r] eqn:En.
    exists c', r, n, bufsize.
    split; [reflexivity|]. split; [exact Hn|].
    assert (Hs : safe sep limit (w ++ piece)).
    { assert (H1 : safe sep limit (d1 ++ (w ++ piece))).
      { apply (sf_app_l _ (skipn n avail)). rewrite <- !app_assoc. unfold piece. rewrite firstn_skipn.
        rewrite <- app_assoc in HG. exact HG. }
      pose proof (sf_tail_app _ _ H1) as H. rewrite Hd1 in H. exact H. }
    assert (Hbne : w ++ piece <> []) by (destruct w; [exact Hpne|discriminate]).
    pose proof (scan_step d1 (w ++ piece) off Hd1 Hbne Hinv Hs) as Hst. cbv zeta in Hst.
    assert (Hlen : length (ru_spec (d1 ++ w)) = length (fst (spec_ev d1))).
    { unfold ru_spec. rewrite (spec_whole_app _ w Hd1). cbn [fst].
      rewrite (ev_none _ (c_nosep _ _ Hc)). cbn [fst]. rewrite app_nil_r. reflexivity. }
    rewrite Hlen. rewrite <- app_assoc.
    assert (E2 : cres' (ru_scan sep limit keep_end dec (w ++ piece) off) = (c', r)) by (rewrite <- Hnext; exact En).
    rewrite E2 in Hst. exact Hst.
  Qed.

  Theorem ru_consumer_ok_rel : consumer_ok_rel RM ru_spec ru_G ru_R ru_D.
  Proof.
    constructor.
    - intros d x H. exact (sf_app_l _ _ H).
    - intros d x. unfold ru_spec. rewrite ev_app. cbn [fst]. eexists; reflexivity.
    - intros c d (d1 & w & -> & Hd1 & Hc). exists d1, w. split; [reflexivity|]. split; [exact Hd1|].
      split; [|right; exact Hc].
      unfold ru_spec. rewrite (spec_whole_app _ w Hd1). cbn [fst].
      rewrite (ev_none _ (c_nosep _ _ Hc)). cbn [fst]. rewrite app_nil_r. reflexivity.
    - exact ru_ok_drain.
    - exact ru_ok_take.
  Qed.

  Lemma ru_R_init : ru_R (cinit F) [] 0.
  Proof.
    exists [], []. split; [reflexivity|]. rewrite spec_nil. split; [reflexivity|]. split; [reflexivity|].
    left. reflexivity.
  Qed.
End RUBridge.
