(* Blocking clients: (A) converse of builder-io's lock invariant: a call inside its body owns its lock, hence two send
   bodies never overlap; (B) composed with the wire: packets of concurrent blocking senders are contiguous. *)
From Coq Require Import ZArith List Bool Lia Arith.
From EN Require Import Lib.Bytes IO.Retry IO.ClientLocks Proofs.C11_locks Conc.SendSerial Proofs.C12_wire Conc.BlockingSend.
Import ListNotations.

(* ---- A *)
Definition inv2 (s : cst) : Prop :=
  forall k c, lookup k (cs s) = Some c -> c_ph c = PHold -> owner s (lock_of (c_m c)) = Some k.

Lemma inv2_app_plain : forall s k m ph, inv2 s -> lookup k (cs s) = None -> ph <> PHold ->
  inv2 (mk_cst (o_send s) (o_recv s) (cs s ++ [mk_call k m ph])).
Proof.
  intros s k m ph H Hf Hp k' c Hl Hh. simpl in Hl. destruct (Nat.eq_dec k' k).
  - subst. rewrite lookup_app_fresh in Hl by assumption. inversion Hl; subst. simpl in Hh. contradiction.
  - rewrite lookup_app_other in Hl by assumption. specialize (H k' c Hl Hh). destruct (lock_of (c_m c)); exact H.
Qed.

Lemma inv2_update_plain : forall s k ph, inv2 s -> ph <> PHold ->
  inv2 (mk_cst (o_send s) (o_recv s) (update k ph (cs s))).
Proof.
  intros s k ph H Hp k' c Hl Hh. simpl in Hl. destruct (Nat.eq_dec k' k).
  - subst. destruct (lookup k (cs s)) as [c0|] eqn:E.
    + rewrite (lookup_update_same k ph (cs s) c0 E) in Hl. inversion Hl; subst. simpl in Hh. contradiction.
    + exfalso. clear H. revert Hl. generalize (cs s) E. induction l as [|d r IH]; simpl; [discriminate|].
      destruct (Nat.eqb (c_id d) k) eqn:X; [discriminate|]. simpl. rewrite X. auto.
  - rewrite lookup_update_other in Hl by assumption. specialize (H k' c Hl Hh). destruct (lock_of (c_m c)); exact H.
Qed.

Lemma step_preserves_inv2 : forall s lb s', inv2 s -> step s lb = Some s' -> inv2 s'.
Proof.
  intros s lb s' Hi Hs. destruct lb as [k m T | k | k | k ok]; simpl in Hs.
  - destruct (lookup k (cs s)) eqn:Hf; [discriminate|].
    destruct (timed m && tmo_neg T).
    { inversion Hs; subst. apply inv2_app_plain; auto. discriminate. }
    destruct (is_none (owner s (lock_of m))) eqn:Hfree.
    + unfold ClientLocks.acquire in Hs. destruct (parks m).
      * inversion Hs; subst. clear Hs. intros k' c Hl Hh. rewrite cs_set in Hl. destruct (Nat.eq_dec k' k).
        -- subst. rewrite lookup_app_fresh in Hl by assumption. inversion Hl; subst. simpl. apply owner_set_same.
        -- rewrite lookup_app_other in Hl by assumption. specialize (Hi k' c Hl Hh).
           destruct (lockid_dec (lock_of (c_m c)) (lock_of m)) as [E|E].
           ++ rewrite E in Hi. rewrite Hi in Hfree. discriminate.
           ++ rewrite owner_set_other by assumption. exact Hi.
      * inversion Hs; subst. apply inv2_app_plain; auto. discriminate.
    + destruct (timed m && tmo_le0 T); inversion Hs; subst; apply inv2_app_plain; auto; discriminate.
  - destruct (lookup k (cs s)) as [c|] eqn:Hl; [|discriminate].
    destruct (c_ph c) eqn:Hp; try discriminate.
    destruct (is_none (owner s (lock_of (c_m c)))) eqn:Hfree; [|discriminate].
    unfold ClientLocks.acquire in Hs. destruct (parks (c_m c)).
    + inversion Hs; subst. clear Hs. intros k' c' Hl' Hh. rewrite cs_set in Hl'. destruct (Nat.eq_dec k' k).
      * subst. rewrite (lookup_update_same k PHold (cs s) c Hl) in Hl'. inversion Hl'; subst. simpl. apply owner_set_same.
      * rewrite lookup_update_other in Hl' by assumption. specialize (Hi k' c' Hl' Hh).
        destruct (lockid_dec (lock_of (c_m c')) (lock_of (c_m c))) as [E|E].
        -- rewrite E in Hi. rewrite Hi in Hfree. discriminate.
        -- rewrite owner_set_other by assumption. exact Hi.
    + inversion Hs; subst. apply inv2_update_plain; auto. discriminate.
  - destruct (lookup k (cs s)) as [c|] eqn:Hl; [|discriminate].
    destruct (c_ph c) as [[|]| |] eqn:Hp; try discriminate.
    inversion Hs; subst. apply inv2_update_plain; auto. discriminate.
  - destruct (lookup k (cs s)) as [c|] eqn:Hl; [|discriminate].
    destruct (c_ph c) eqn:Hp; try discriminate.
    inversion Hs; subst. clear Hs. intros k' c' Hl' Hh. rewrite cs_set in Hl'. destruct (Nat.eq_dec k' k).
    + subst. rewrite (lookup_update_same k _ (cs s) c Hl) in Hl'. inversion Hl'; subst. simpl in Hh. discriminate.
    + rewrite lookup_update_other in Hl' by assumption. assert (H1 := Hi k' c' Hl' Hh). assert (H2 := Hi k c Hl Hp).
      destruct (lockid_dec (lock_of (c_m c')) (lock_of (c_m c))) as [E|E].
      * rewrite E in H1. rewrite H1 in H2. inversion H2. congruence.
      * rewrite owner_set_other by assumption. exact H1.
Qed.

Lemma reachable_inv2 : forall s, reachable s -> inv2 s.
Proof.
  induction 1 as [|s lb s' Hr IH Hs].
  - intros k c Hl. discriminate.
  - eapply step_preserves_inv2; eassumption.
Qed.

(* two calls inside bodies guarded by the same lock are the same call *)
Lemma bodies_exclusive_proof : forall s k1 k2 c1 c2, reachable s ->
  lookup k1 (cs s) = Some c1 -> lookup k2 (cs s) = Some c2 -> c_ph c1 = PHold -> c_ph c2 = PHold ->
  lock_of (c_m c1) = lock_of (c_m c2) -> k1 = k2.
Proof.
  intros s k1 k2 c1 c2 R L1 L2 P1 P2 E. assert (I := reachable_inv2 s R).
  assert (H1 := I k1 c1 L1 P1). assert (H2 := I k2 c2 L2 P2). rewrite E in H1. rewrite H1 in H2. inversion H2. reflexivity.
Qed.

(* ---- B *)
Definition inv3 (s : cst) : Prop := forall k c, lookup k (cs s) = Some c -> c_ph c = PHold -> parks (c_m c) = true.

Lemma lookup_update_none : forall k ph l, lookup k l = None -> lookup k (update k ph l) = None.
Proof.
  induction l as [|d r IH]; simpl; intros H; auto. destruct (Nat.eqb (c_id d) k) eqn:X; [discriminate|]. simpl. rewrite X. auto.
Qed.

Lemma isb_spec : forall k c, in_send_body k c = true <-> exists x, lookup k (cs c) = Some x /\ c_m x = MSend /\ c_ph x = PHold.
Proof.
  intros k c. unfold in_send_body, phase_of. destruct (lookup k (cs c)) as [x|].
  - destruct (c_m x) eqn:M; destruct (c_ph x) eqn:P; split; intros H; try discriminate; eauto;
      destruct H as [y [E [A B]]]; inversion E; subst; congruence.
  - split; [discriminate|]. intros [x [E _]]. discriminate.
Qed.

Lemma isb_owner : forall k c, inv2 c -> in_send_body k c = true -> o_send c = Some k.
Proof. intros k c I H. apply isb_spec in H. destruct H as [x [L [M P]]]. specialize (I k x L P). rewrite M in I. exact I. Qed.

(* what one ClientLocks step does to "who is inside a send body" and to the send lock *)
Lemma step_facts : forall c lb c', inv3 c -> step c lb = Some c' ->
  let k := label_call lb in
  inv3 c' /\
  (forall u, u <> k -> lookup u (cs c') = lookup u (cs c)) /\
  ((in_send_body k c = false /\ in_send_body k c' = true /\ o_send c = None) \/
   (in_send_body k c = true /\ in_send_body k c' = false /\ o_send c' = None) \/
   (in_send_body k c = false /\ in_send_body k c' = false /\ o_send c' = o_send c)).
Proof.
  intros c lb c' I3 Hs. destruct lb as [k m T | k | k | k ok]; simpl in *.
  - destruct (lookup k (cs c)) eqn:Hf; [discriminate|].
    assert (B0 : in_send_body k c = false) by (unfold in_send_body, phase_of; rewrite Hf; reflexivity).
    assert (OT : forall ph u, u <> k -> lookup u (cs c ++ [mk_call k m ph]) = lookup u (cs c)).
    { intros. apply lookup_app_other; auto. }
    assert (I3' : forall ph o1 o2, (ph = PHold -> parks m = true) -> inv3 (mk_cst o1 o2 (cs c ++ [mk_call k m ph]))).
    { intros ph o1 o2 Hp u x Hl Hh. simpl in Hl. destruct (Nat.eq_dec u k).
      - subst. rewrite lookup_app_fresh in Hl by assumption. inversion Hl; subst. simpl in *. auto.
      - rewrite lookup_app_other in Hl by assumption. eapply I3; eauto. }
    assert (BN : forall ph o1 o2, (ph = PHold -> m <> MSend) ->
                 in_send_body k (mk_cst o1 o2 (cs c ++ [mk_call k m ph])) = false).
    { intros ph o1 o2 Hp. unfold in_send_body, phase_of. simpl. rewrite lookup_app_fresh by assumption. simpl.
      destruct m; auto. destruct ph; auto. exfalso. apply Hp; auto. }
    destruct (timed m && tmo_neg T).
    { inversion Hs; subst. split; [apply I3'; discriminate|]. split; [intros; simpl; apply OT; auto|].
      right; right. rewrite BN by discriminate. auto. }
    destruct (is_none (owner c (lock_of m))) eqn:Hfree.
    + unfold ClientLocks.acquire in Hs. destruct (parks m) eqn:Pk.
      * inversion Hs; subst. clear Hs. destruct m; simpl in *; try discriminate.
        -- split; [apply I3'; auto|]. split; [intros; simpl; apply OT; auto|]. left. split; auto. split.
           ++ unfold in_send_body, phase_of. simpl. rewrite lookup_app_fresh by assumption. reflexivity.
           ++ destruct (o_send c); [discriminate|reflexivity].
        -- split; [apply I3'; auto|]. split; [intros; simpl; apply OT; auto|]. right; right. rewrite BN by discriminate. auto.
      * inversion Hs; subst. split; [apply I3'; discriminate|]. split; [intros; simpl; apply OT; auto|].
        right; right. rewrite BN by discriminate. auto.
    + destruct (timed m && tmo_le0 T); inversion Hs; subst; (split; [apply I3'; discriminate|]); (split; [intros; simpl; apply OT; auto|]);
        right; right; rewrite BN by discriminate; auto.
  - destruct (lookup k (cs c)) as [x|] eqn:Hl; [|discriminate].
    destruct (c_ph x) eqn:Hp; try discriminate.
    destruct (is_none (owner c (lock_of (c_m x)))) eqn:Hfree; [|discriminate].
    assert (B0 : in_send_body k c = false) by (unfold in_send_body, phase_of; rewrite Hl, Hp; destruct (c_m x); reflexivity).
    assert (I3' : forall ph o1 o2, (ph = PHold -> parks (c_m x) = true) -> inv3 (mk_cst o1 o2 (update k ph (cs c)))).
    { intros ph o1 o2 Hq u y Hu Hh. simpl in Hu. destruct (Nat.eq_dec u k).
      - subst. rewrite (lookup_update_same k ph (cs c) x Hl) in Hu. inversion Hu; subst. simpl in *. auto.
      - rewrite lookup_update_other in Hu by assumption. eapply I3; eauto. }
    unfold ClientLocks.acquire in Hs. destruct (parks (c_m x)) eqn:Pk.
    + inversion Hs; subst. clear Hs. destruct (c_m x) eqn:M; simpl in *; try discriminate.
      * split; [apply I3'; auto|]. split; [intros; apply lookup_update_other; auto|]. left. split; auto. split.
        -- unfold in_send_body, phase_of. simpl. rewrite (lookup_update_same k PHold (cs c) x Hl). simpl. rewrite M. reflexivity.
        -- destruct (o_send c); [discriminate|reflexivity].
      * split; [apply I3'; auto|]. split; [intros; apply lookup_update_other; auto|]. right; right. split; auto. split; auto.
        unfold in_send_body, phase_of. simpl. rewrite (lookup_update_same k PHold (cs c) x Hl). simpl. rewrite M. reflexivity.
    + inversion Hs; subst. split; [apply I3'; discriminate|]. split; [intros; simpl; apply lookup_update_other; auto|].
      right; right. split; auto. split; auto.
      unfold in_send_body, phase_of. simpl. rewrite (lookup_update_same k _ (cs c) x Hl). simpl. destruct (c_m x); reflexivity.
  - destruct (lookup k (cs c)) as [x|] eqn:Hl; [|discriminate].
    destruct (c_ph x) as [[|]| |] eqn:Hp; try discriminate. inversion Hs; subst. split; [|split].
    + intros u y Hu Hh. simpl in Hu. destruct (Nat.eq_dec u k).
      * subst. rewrite (lookup_update_same k _ (cs c) x Hl) in Hu. inversion Hu; subst. discriminate.
      * rewrite lookup_update_other in Hu by assumption. eapply I3; eauto.
    + intros; simpl; apply lookup_update_other; auto.
    + right; right. split; [unfold in_send_body, phase_of; rewrite Hl, Hp; destruct (c_m x); reflexivity|]. split; auto.
      unfold in_send_body, phase_of. simpl. rewrite (lookup_update_same k _ (cs c) x Hl). simpl. destruct (c_m x); reflexivity.
  - destruct (lookup k (cs c)) as [x|] eqn:Hl; [|discriminate].
    destruct (c_ph x) eqn:Hp; try discriminate. inversion Hs; subst. clear Hs.
    assert (Pk := I3 k x Hl Hp). split; [|split].
    + intros u y Hu Hh. rewrite cs_set in Hu. destruct (Nat.eq_dec u k).
      * subst. rewrite (lookup_update_same k _ (cs c) x Hl) in Hu. inversion Hu; subst. discriminate.
      * rewrite lookup_update_other in Hu by assumption. eapply I3; eauto.
    + intros. rewrite cs_set. apply lookup_update_other; auto.
    + assert (BA : in_send_body k (set_owner c (lock_of (c_m x)) None (update k (PDone (if ok then 0%Z else E_CONN)) (cs c))) = false).
      { unfold in_send_body, phase_of. rewrite cs_set, (lookup_update_same k _ (cs c) x Hl). simpl. destruct (c_m x); reflexivity. }
      destruct (c_m x) eqn:M; simpl in *; try discriminate.
      * right; left. split; [unfold in_send_body, phase_of; rewrite Hl, Hp, M; reflexivity|]. split; auto.
      * right; right. split; [unfold in_send_body, phase_of; rewrite Hl, Hp, M; reflexivity|]. split; auto.
Qed.

Record BI (s : bst) : Prop := mkBI {
  bi_inv2 : inv2 (b_c s);
  bi_inv3 : inv3 (b_c s);
  bi_wire : b_wire s = concat (map seg_bytes (rev (b_segs s)));
  bi_ok : Forall seg_ok (b_segs s);
  bi_tail : Forall not_active (tl (b_segs s));
  bi_link : forall k, in_send_body k (b_c s) = true ->
            exists g r, b_segs s = g :: r /\ sg_owner g = k /\ sg_st g = SgActive /\
                        skipn (sg_written g) (sg_pkt g) = aget k (b_todo s);
  bi_idle : o_send (b_c s) = None -> Forall not_active (b_segs s)
}.

Lemma BI_init : BI b_init.
Proof.
  constructor; simpl; auto.
  - intros k c H. discriminate.
  - intros k c H. discriminate.
  - intros k H. discriminate.
Qed.

Lemma isb_other : forall c c' k u, (forall u, u <> k -> lookup u (cs c') = lookup u (cs c)) -> u <> k ->
  in_send_body u c' = in_send_body u c.
Proof. intros c c' k u H N. unfold in_send_body, phase_of. rewrite (H u N). reflexivity. Qed.

Lemma aget_cons_same : forall k v l, aget k ((k, v) :: l) = v.
Proof. intros. unfold aget. simpl. rewrite Nat.eqb_refl. reflexivity. Qed.

Lemma seg_close_props : forall c sgs g r, sgs = g :: r -> sg_st g = SgActive -> c <> SgActive ->
  Forall seg_ok sgs -> Forall not_active r ->
  (c = SgComplete -> skipn (sg_written g) (sg_pkt g) = []) ->
  concat (map seg_bytes (rev (seg_close c sgs))) = concat (map seg_bytes (rev sgs)) /\
  Forall seg_ok (seg_close c sgs) /\ Forall not_active (seg_close c sgs).
Proof.
  intros c sgs g r E A N Hok Ht Hc. subst sgs. simpl. inversion Hok; subst. destruct H1 as [Hle _]. split; [|split].
  - rewrite !map_app. unfold seg_bytes. simpl. reflexivity.
  - constructor; auto. split; simpl; auto. intros X. apply Hc in X. apply skipn_nil_ge in X. lia.
  - constructor; auto.
Qed.

Lemma BI_step : forall s l s', BI s -> b_step s l = Some s' -> BI s'.
Proof.
  intros s l s' [I2 I3 Hw Hok Ht Hl Hi] H. destruct l as [lb pkt|k]; simpl in H.
  - set (k := label_call lb) in *.
    match type of H with (if ?b then _ else _) = _ => destruct b eqn:OKF end; [discriminate|]. apply negb_false_iff in OKF.
    destruct (step (b_c s) lb) as [c'|] eqn:S; [|discriminate].
    assert (I2' := step_preserves_inv2 _ _ _ I2 S).
    destruct (step_facts _ _ _ I3 S) as [I3' [OT Cases]]. fold k in OT, Cases.
    assert (Uniq : forall u, in_send_body u c' = true -> in_send_body k c' = true -> u = k).
    { intros u A B. apply (isb_owner _ _ I2') in A. apply (isb_owner _ _ I2') in B. congruence. }
    destruct Cases as [[B0 [B1 O0]]|[[B0 [B1 O1]]|[B0 [B1 O1]]]]; rewrite B0, B1 in H; simpl in H; inversion H; subst; clear H.
    + (* the send enters its body *)
      specialize (Hi O0). constructor; simpl; auto.
      * rewrite map_app, concat_app. simpl. rewrite !app_nil_r. exact Hw.
      * constructor; auto. split; simpl; [lia|discriminate].
      * intros u Hu. assert (u = k) by (apply Uniq; auto). subst u.
        eexists. eexists. split; [reflexivity|]. simpl. rewrite aget_cons_same. auto.
      * intros X. apply (isb_owner _ _ I2') in B1. congruence.
    + (* the send leaves its body *)
      destruct (Hl k B0) as [g [r [E [Eo [Ea Ek]]]]].
      assert (NA : match lb with Finish _ true => SgComplete | _ => SgAborted end <> SgActive) by (destruct lb as [| | |? []]; discriminate).
      assert (HC : match lb with Finish _ true => SgComplete | _ => SgAborted end = SgComplete -> skipn (sg_written g) (sg_pkt g) = []).
      { intros X. destruct lb as [| | |? []]; try discriminate. rewrite B0 in OKF. simpl in OKF.
        rewrite Ek. fold k. destruct (aget k (b_todo s)); [reflexivity|discriminate]. }
      rewrite E in Ht. simpl in Ht.
      destruct (seg_close_props _ _ g r E Ea NA Hok Ht HC) as [P1 [P2 P3]].
      constructor; simpl; auto.
      * rewrite P1. exact Hw.
      * rewrite E. simpl. exact Ht.
      * intros u Hu. exfalso. destruct (Nat.eq_dec u k); [subst; congruence|].
        rewrite (isb_other _ _ k u OT n) in Hu. assert (X := isb_owner _ _ I2 Hu). assert (Y := isb_owner _ _ I2 B0). congruence.
    + (* nothing happens to the send lock *)
      constructor; simpl; auto.
      * intros u Hu. destruct (Nat.eq_dec u k); [subst; congruence|]. rewrite (isb_other _ _ k u OT n) in Hu. apply Hl; auto.
      * rewrite O1. exact Hi.
  - destruct (in_send_body k (b_c s)) eqn:B; [|discriminate].
    destruct (aget k (b_todo s)) as [|pc more] eqn:TD; [discriminate|]. inversion H; subst; clear H.
    destruct (Hl k B) as [g [r [E [Eo [Ea Ek]]]]]. rewrite TD in Ek. rewrite E in *. simpl in Ht.
    inversion Hok; subst. destruct H1 as [Hle Hc].
    constructor; simpl; auto.
    + rewrite Hw. simpl. repeat rewrite map_app, concat_app. simpl. repeat rewrite app_nil_r.
      rewrite <- app_assoc. f_equal. unfold seg_bytes. cbn [sg_written sg_pkt].
      rewrite (firstn_S_skipn _ _ _ _ Ek), concat_app. simpl. rewrite app_nil_r. reflexivity.
    + constructor; auto. split; simpl; [apply skipn_cons_lt in Ek; lia|congruence].
    + intros u Hu. assert (u = sg_owner g).
      { assert (X := isb_owner _ _ I2 Hu). assert (Y := isb_owner _ _ I2 B). congruence. }
      subst u. eexists. eexists. split; [reflexivity|]. simpl. rewrite aget_cons_same. repeat split; auto.
      eapply skipn_cons_S; eauto.
    + intros X. assert (Y := isb_owner _ _ I2 B). congruence.
Qed.

Lemma BI_run : forall ls s s', BI s -> b_run s ls = Some s' -> BI s'.
Proof.
  induction ls as [|l ls IH]; simpl; intros s s' I H.
  - inversion H; subst; auto.
  - destruct (b_step s l) as [s1|] eqn:E; [|discriminate]. eapply IH; [|eauto]. eapply BI_step; eauto.
Qed.

Lemma blocking_wire_is_concat_of_packets_proof :
  forall ls s, b_run b_init ls = Some s ->
    b_wire s = concat (map seg_bytes (rev (b_segs s))) /\
    (forall g, In g (b_segs s) -> (sg_written g <= length (sg_pkt g))%nat /\
                                  (sg_st g = SgComplete -> seg_bytes g = pkt_bytes (sg_pkt g))) /\
    Forall not_active (tl (b_segs s)) /\
    (forall k, in_send_body k (b_c s) = true -> o_send (b_c s) = Some k /\ exists g r, b_segs s = g :: r /\ sg_owner g = k) /\
    (all_complete (b_segs s) -> b_wire s = concat (map (fun g => pkt_bytes (sg_pkt g)) (rev (b_segs s)))).
Proof.
  intros ls s R. apply BI_run in R; [|apply BI_init]. destruct R as [I2 I3 Hw Hok Ht Hl Hi].
  split; [auto|]. split; [|split; [auto|split]].
  - intros g Hg. rewrite Forall_forall in Hok. destruct (Hok g Hg) as [Hle Hc]. split; auto.
    intros C. unfold seg_bytes, pkt_bytes. rewrite (Hc C), firstn_all. reflexivity.
  - intros k B. split; [apply isb_owner; auto|]. destruct (Hl k B) as [g [r [E [Eo _]]]]. eauto.
  - intros C. rewrite Hw. f_equal. apply complete_bytes; apply Forall_rev; auto.
Qed.
