(* Blocking clients: (A) converse of builder-io's lock invariant: a call inside its body owns its lock, hence two send
   bodies never overlap; (B) composed with the wire: packets of concurrent blocking senders are contiguous. *)
From Coq Require Import ZArith List Bool Lia Arith.
From EN Require Import Lib.Bytes IO.Retry IO.ClientLocks Proofs.C11_locks Conc.SendSerial Proofs.C12_wire Conc.BlockingSend.
Import ListNotations.

(* ---- A *)
Definition inv2 (s : cst) : Prop :=
  forall k c, lookup k (cs s) = Some c -> c_ph c = PHold -> owner s (lock_of (c_m c)) = Some k.

Lemma inv2_app_plain : forall s k m ph, inv2 s -> lookup k (cs s) = None -> ph <> PHold ->
  inv2 (mk_cst (o_send s) (o_recv s) (cs s ++ [mk_call k m ph])).
Proof.
  intros s k m ph H Hf Hp k' c Hl Hh. simpl in Hl. destruct (Nat.eq_dec k' k).
  - subst. rewrite lookup_app_fresh in Hl by assumption. inversion Hl; subst. simpl in Hh. contradiction.
  - rewrite lookup_app_other in Hl by assumption. specialize (H k' c Hl Hh). destruct (lock_of (c_m c)); exact H.
Qed.

Lemma inv2_update_plain : forall s k ph, inv2 s -> ph <> PHold ->
  inv2 (mk_cst (o_send s) (o_recv s) (update k ph (cs s))).
Proof.
  intros s k ph H Hp k' c Hl Hh. simpl in Hl. destruct (Nat.eq_dec k' k).
  - subst. destruct (lookup k (cs s)) as [c0|] eqn:E.
    + rewrite (lookup_update_same k ph (cs s) c0 E) in Hl. inversion Hl; subst. simpl in Hh. contradiction.
    + exfalso. clear H. revert Hl. generalize (cs s) E. induction l as [|d r IH]; simpl; [discriminate|].
      destruct (Nat.eqb (c_id d) k) eqn:X; [discriminate|]. simpl. rewrite X. auto.
  - rewrite lookup_update_other in Hl by assumption. specialize (H k' c Hl Hh). destruct (lock_of (c_m c)); exact H.
Qed.

Lemma step_preserves_inv2 : forall s lb s', inv2 s -> step s lb = Some s' -> inv2 s'.
Proof.
  intros s lb s' Hi Hs. destruct lb as [k m T | k | k | k ok]; simpl in Hs.
  - destruct (lookup k (cs s)) eqn:Hf; [discriminate|].
    destruct (timed m && tmo_neg T).
    { inversion Hs; subst. apply inv2_app_plain; auto. discriminate. }
    destruct (is_none (owner s (lock_of m))) eqn:Hfree.
    + unfold acquire in Hs. destruct (parks m).
      * inversion Hs; subst. clear Hs. intros k' c Hl Hh. rewrite cs_set in Hl. destruct (Nat.eq_dec k' k).
        -- subst. rewrite lookup_app_fresh in Hl by assumption. inversion Hl; subst. simpl. apply owner_set_same.
        -- rewrite lookup_app_other in Hl by assumption. specialize (Hi k' c Hl Hh).
           destruct (lockid_dec (lock_of (c_m c)) (lock_of m)) as [E|E].
           ++ rewrite E in Hi. rewrite Hi in Hfree. discriminate.
           ++ rewrite owner_set_other by assumption. exact Hi.
      * inversion Hs; subst. apply inv2_app_plain; auto. discriminate.
    + destruct (timed m && tmo_le0 T); inversion Hs; subst; apply inv2_app_plain; auto; discriminate.
  - destruct (lookup k (cs s)) as [c|] eqn:Hl; [|discriminate].
    destruct (c_ph c) eqn:Hp; try discriminate.
    destruct (is_none (owner s (lock_of (c_m c)))) eqn:Hfree; [|discriminate].
    unfold acquire in Hs. destruct (parks (c_m c)).
    + inversion Hs; subst. clear Hs. intros k' c' Hl' Hh. rewrite cs_set in Hl'. destruct (Nat.eq_dec k' k).
      * subst. rewrite (lookup_update_same k PHold (cs s) c Hl) in Hl'. inversion Hl'; subst. simpl. apply owner_set_same.
      * rewrite lookup_update_other in Hl' by assumption. specialize (Hi k' c' Hl' Hh).
        destruct (lockid_dec (lock_of (c_m c')) (lock_of (c_m c))) as [E|E].
        -- rewrite E in Hi. rewrite Hi in Hfree. discriminate.
        -- rewrite owner_set_other by assumption. exact Hi.
    + inversion Hs; subst. apply inv2_update_plain; auto. discriminate.
  - destruct (lookup k (cs s)) as [c|] eqn:Hl; [|discriminate].
    destruct (c_ph c) as [[|]| |] eqn:Hp; try discriminate.
    inversion Hs; subst. apply inv2_update_plain; auto. discriminate.
  - destruct (lookup k (cs s)) as [c|] eqn:Hl; [|discriminate].
    destruct (c_ph c) eqn:Hp; try discriminate.
    inversion Hs; subst. clear Hs. intros k' c' Hl' Hh. rewrite cs_set in Hl'. destruct (Nat.eq_dec k' k).
    + subst. rewrite (lookup_update_same k _ (cs s) c Hl) in Hl'. inversion Hl'; subst. simpl in Hh. discriminate.
    + rewrite lookup_update_other in Hl' by assumption. assert (H1 := Hi k' c' Hl' Hh). assert (H2 := Hi k c Hl Hp).
      destruct (lockid_dec (lock_of (c_m c')) (lock_of (c_m c))) as [E|E].
      * rewrite E in H1. rewrite H1 in H2. inversion H2. congruence.
      * rewrite owner_set_other by assumption. exact H1.
Qed.

Lemma reachable_inv2 : forall s, reachable s -> inv2 s.
Proof.
  induction 1 as [|s lb s' Hr IH Hs].
  - intros k c Hl. discriminate.
  - eapply step_preserves_inv2; eassumption.
Qed.

(* two calls inside bodies guarded by the same lock are the same call *)
Lemma bodies_exclusive_proof : forall s k1 k2 c1 c2, reachable s ->
  lookup k1 (cs s) = Some c1 -> lookup k2 (cs s) = Some c2 -> c_ph c1 = PHold -> c_ph c2 = PHold ->
  lock_of (c_m c1) = lock_of (c_m c2) -> k1 = k2.
Proof.
  intros s k1 k2 c1 c2 R L1 L2 P1 P2 E. assert (I := reachable_inv2 s R).
  assert (H1 := I k1 c1 L1 P1). assert (H2 := I k2 c2 L2 P2). rewrite E in H1. rewrite H1 in H2. inversion H2. reflexivity.
Qed.
