(* Instances of the endpoint corollary: the copying consumer over the read_until framer (C03's interface proof). *)
From Coq Require Import List Bool Arith Lia.
From EN Require Import Lib.Bytes Frame.Framer Frame.ReadUntil Stream.Consumer Stream.SpecDecode Stream.Endpoint
                       Stream.EndpointSpec Conc.SockReader Conc.SockReaderSpec Conc.SockEndpoint
                       Proofs.ReadUntil_proofs Proofs.C03_readuntil Proofs.C10_endpoint.
Import ListNotations.

Lemma consumer_ok_rel_ext : forall P C (M1 M2 : machine P C) spec G R D,
  (forall c, mdrain M1 c = mdrain M2 c) -> (forall c a, mtake M1 c a = mtake M2 c a) ->
  consumer_ok_rel M1 spec G R D -> consumer_ok_rel M2 spec G R D.
Proof.
  intros P C M1 M2 spec G R D Hd Ht [A B C0 E F].
  constructor; auto.
  - intros c d k c' r HG HR Hm. rewrite <- Hd in Hm. eapply E; eassumption.
  - intros c d avail HD Hne HG. destruct (F c d avail HD Hne HG) as (c' & r & n & room & Hm & Hrest).
    exists c', r, n, room. rewrite <- Ht. split; assumption.
Qed.

Lemma copy_machine_split : forall P (F : framer P) bufsize c a,
  mtake (copy_machine F bufsize) c a = mtake (to_machine (copy_smachine F bufsize)) c a.
Proof.
  intros P F bufsize c a. simpl.
  assert (E : firstn (Nat.min bufsize (length a)) a = firstn bufsize a).
  { destruct (Nat.le_ge_cases bufsize (length a)).
    - rewrite Nat.min_l by assumption. reflexivity.
    - rewrite Nat.min_r by assumption. rewrite firstn_all. symmetry. apply firstn_all2. assumption. }
  rewrite E. destruct (cnext F c (Some (firstn bufsize a))) as [c' r].
  rewrite firstn_length. reflexivity.
Qed.

Lemma recv_packet_no_loss_read_until_proof :
  forall (P : Type) (sep : bytes) (limit : nat) (keep_end : bool) (dec : decoder P) (bufsize : nat),
    sep <> [] -> 0 < bufsize ->
    forall (latching : bool) ls,
      let F := ru_framer sep limit keep_end dec in
      let es := erun (copy_smachine F bufsize) false latching (einit (cinit F)) ls in
      safe sep limit (delivered (sk es)) ->
      exists rest, fst (spec_events sep keep_end dec (delivered (sk es))) = events es ++ rest.
Proof.
  intros P sep limit keep_end dec bufsize Hsep Hb latching ls F es HG.
  pose proof (ru_consumer_ok_rel sep limit keep_end dec bufsize Hsep Hb) as OK0.
  assert (OK : consumer_ok_rel (to_machine (copy_smachine F bufsize)) (ru_spec sep keep_end dec)
                               (ru_G sep limit) (ru_R sep limit keep_end dec) (ru_D sep limit keep_end dec)).
  { eapply consumer_ok_rel_ext; [| |exact OK0].
    - intro c. reflexivity.
    - intros c a. apply copy_machine_split. }
  destruct (recv_packet_no_loss_proof (copy_smachine F bufsize) false latching _ _ _ _ OK) with (c0 := cinit F) (ls := ls)
    as (Hev & _).
  - intros c d c1 room HD Hroom. simpl in Hroom. inversion Hroom; subst. exact HD.
  - apply ru_R_init. exact Hsep.
  - exact HG.
  - exact Hev.
Qed.

(* ---- the buffer-filling receiver over the buffered read_until framer (C03's bru_consumer_ok_rel) *)
From EN Require Import Frame.BufReadUntil Proofs.BufReadUntil_proofs Proofs.C03_bufreaduntil Proofs.C10_reexport.

Lemma recv_packet_no_loss_buffered_read_until_proof :
  forall (P : Type) (sep : bytes) (limit : nat) (keep_end : bool) (dec : decoder P) (sizehint : nat),
    sep <> [] -> length sep + 1 <= limit ->
    forall (latching : bool) ls,
      let F := bru_framer sep limit keep_end dec in
      let es := erun (buf_smachine F sizehint) true latching (einit (bcinit F)) ls in
      safe sep (limit - 1 - length sep) (delivered (sk es)) ->
      exists rest, fst (spec_events sep keep_end dec (delivered (sk es))) = events es ++ rest.
Proof.
  intros P sep limit keep_end dec sizehint Hsep Hlim latching ls F es HG.
  pose proof (bru_consumer_ok_rel sep limit keep_end dec sizehint Hsep Hlim) as OK0.
  destruct (recv_packet_no_loss_buffered_proof P F sizehint _ _ _ _ OK0) with (latching := latching)
    (c0 := bcinit F) (ls := ls) as (Hev & _).
  - (* drained states of C03's representation have nothing pending and no exported view *)
    intros c d (d1 & w & _ & _ & Hrep). inversion Hrep; subst; simpl; split; reflexivity.
  - apply bru_R_init. exact Hsep.
  - exact HG.
  - exact Hev.
Qed.

(* ---- the server request receivers (no EOF latch): a request handler's yielded timeout never loses a request.
   The timeout of `yield t` is backend.timeout(t) around receiver.next(): a cancellation request of the LTS. *)
Lemma request_receiver_no_loss_proof :
  forall (P : Type) (sep : bytes) (limit : nat) (keep_end : bool) (dec : decoder P) (bufsize : nat),
    sep <> [] -> 0 < bufsize ->
    forall ls,
      let F := ru_framer sep limit keep_end dec in
      let es := erun (copy_smachine F bufsize) false false (einit (cinit F)) ls in
      safe sep limit (delivered (sk es)) ->
      (exists rest, fst (spec_events sep keep_end dec (delivered (sk es))) = events es ++ rest) /\
      (einrecv es = false ->
       forall r, nth_error (fst (spec_events sep keep_end dec (returned (sk es)))) (length (events es)) = Some r ->
         events (estep (copy_smachine F bufsize) false false es ERecvPacket) = events es ++ [r]).
Proof.
  intros P sep limit keep_end dec bufsize Hsep Hb ls F es HG.
  split; [exact (recv_packet_no_loss_read_until_proof P sep limit keep_end dec bufsize Hsep Hb false ls HG)|].
  pose proof (ru_consumer_ok_rel sep limit keep_end dec bufsize Hsep Hb) as OK0.
  assert (OK : consumer_ok_rel (to_machine (copy_smachine F bufsize)) (ru_spec sep keep_end dec)
                               (ru_G sep limit) (ru_R sep limit keep_end dec) (ru_D sep limit keep_end dec)).
  { eapply consumer_ok_rel_ext; [| |exact OK0]; [intro c; reflexivity | intros c a; apply copy_machine_split]. }
  intros Hin r Hnth.
  apply (pending_event_is_delivered_proof (copy_smachine F bufsize) false false _ _ _ _ OK) with (c0 := cinit F); auto.
  - intros c d c1 room HD Hroom. simpl in Hroom. inversion Hroom; subst. exact HD.
  - apply ru_R_init. exact Hsep.
Qed.

Lemma buffered_request_receiver_no_loss_proof :
  forall (P : Type) (sep : bytes) (limit : nat) (keep_end : bool) (dec : decoder P) (sizehint : nat),
    sep <> [] -> length sep + 1 <= limit ->
    forall ls,
      let F := bru_framer sep limit keep_end dec in
      let es := erun (buf_smachine F sizehint) true false (einit (bcinit F)) ls in
      safe sep (limit - 1 - length sep) (delivered (sk es)) ->
      (exists rest, fst (spec_events sep keep_end dec (delivered (sk es))) = events es ++ rest) /\
      (einrecv es = false ->
       forall r, nth_error (fst (spec_events sep keep_end dec (returned (sk es)))) (length (events es)) = Some r ->
         events (estep (buf_smachine F sizehint) true false es ERecvPacket) = events es ++ [r]).
Proof.
  intros P sep limit keep_end dec sizehint Hsep Hlim ls F es HG.
  split; [exact (recv_packet_no_loss_buffered_read_until_proof P sep limit keep_end dec sizehint Hsep Hlim false ls HG)|].
  pose proof (bru_consumer_ok_rel sep limit keep_end dec sizehint Hsep Hlim) as OK0.
  assert (OK : consumer_ok_rel (to_machine (buf_smachine F sizehint)) (bru_spec sep keep_end dec)
                 (bru_G sep limit) (bru_R sep limit keep_end dec) (bru_D sep limit keep_end dec)).
  { eapply consumer_ok_rel_ext'; [| |exact OK0]; [intro c; reflexivity | intros c a; apply buf_machine_split]. }
  assert (Hre : forall c d c1 room, bru_D sep limit keep_end dec c d -> sroom (buf_smachine F sizehint) c = Some (c1, room) ->
            sroom (buf_smachine F sizehint) c1 = Some (c1, room) /\
            exists c2, sdrain (buf_smachine F sizehint) c1 = (c2, RStop) /\
                       sroom (buf_smachine F sizehint) c2 = Some (c1, room) /\
                       sdrain (buf_smachine F sizehint) c2 = (c2, RStop)).
  { intros c d c1 room (d1 & w & _ & _ & Hrep) Hroom.
    apply (buf_reexport P F sizehint c c1 room); [| |exact Hroom]; inversion Hrep; subst; reflexivity. }
  intros Hin r Hnth.
  apply (pending_event_is_delivered_proof (buf_smachine F sizehint) true false _ _ _ _
           (ok' (buf_smachine F sizehint) _ _ _ _ OK Hre) (D'_sroom (buf_smachine F sizehint) _ Hre))
    with (c0 := bcinit F); auto.
  left. apply bru_R_init. exact Hsep.
Qed.
