(* C08 — the handshake-completion half of pump_progress for the composed system of Conc/TlsDuplex.v:
   two pending wrap() cannot be stuck together (and a pending wrap() cannot be stuck once the other side's wrap() has
   returned).  The invariant is the conversation of the ideal handshake, stated on the two byte streams of the system
   (incoming BIO of the receiver ++ bytes in flight ++ outgoing BIO of the sender):
       stage A (client), stage B (server)     stream A->B                 stream B->A
       0, 0                                   empty                       empty
       1, 0                                   ClientHello                 empty
       1, 1                                   empty                       ServerHello
       2, 1                                   Finished ++ whole records   empty
       2, 2                                   (anything)                  (anything)
   together with: a wrap() that is waiting for the network has an incoming BIO without a complete record (that is what
   WANT_READ meant, and only itself could have fed the BIO since). *)
From Coq Require Import ZArith List Bool Lia ZifyBool.
From EN Require Import Lib.Bytes Conc.TlsBase Conc.TlsPump Conc.IdealTls Conc.TlsDuplex
  Proofs.Tls_tactics Proofs.C08_proofs Proofs.Ideal_proofs Proofs.C08_locks Proofs.C08_duplex Proofs.C08_progress.
Import ListNotations.

Section Handshake.
Variable fl : flags.
Variable E D : byte -> byte.
Variable M : nat.
Hypothesis DE : forall x, D (E x) = x.
Notation ep_step := (ep_step fl E D M).
Notation dstep := (dstep fl E D M).
Notation gexec := (gexec fl E D M).
Notation EInv := (EInv D).
Notation pump := (TlsDuplex.pump fl).

Definition rb (e : endpoint) : bytes := i_rbio (e_ideal e).
Definition stg (e : endpoint) : nat := i_stage (e_ideal e).

(* a wrap() that got WANT_READ and has not called the SSL object again *)
Definition hs_wait (e : endpoint) : Prop :=
  exists t tk, nth_error (tasks_of e) t = Some tk /\ t_meth tk = MHandshake /\ readwait (t_pc tk) = true.

(* ------------------------------------------------------------------ the ideal layer *)

Lemma call_client : forall i m n data i' o wd, call E D M i m n data = (i', o, wd) -> i_client i' = i_client i.
Proof.
  intros i m n data i' o wd H. destruct m; cbn [call] in H.
  - unfold do_handshake in H.
    destruct (i_stage i) as [| [| [| s]]]; destruct (i_client i) eqn:C; try (inversion H; subst; cbn; auto; fail);
      destruct (parse_hs D (i_rbio i)) as [[rest |] |]; inversion H; subst; cbn; auto.
  - unfold read in H. destruct (negb (Nat.eqb (i_stage i) 2)); [inversion H; reflexivity |].
    destruct (i_plain i); [| inversion H; reflexivity].
    destruct (i_got_cn i); [inversion H; reflexivity |].
    destruct (parse1 D (i_rbio i)) as [[[t p] rest] |]; [| inversion H; reflexivity].
    destruct (N.eqb t T_DATA); [destruct p; inversion H; reflexivity |].
    destruct (N.eqb t T_ALERT); inversion H; reflexivity.
  - unfold write in H. destruct (negb (Nat.eqb (i_stage i) 2)); [inversion H; reflexivity |].
    destruct (i_sent_cn i); inversion H; reflexivity.
  - unfold unwrap in H. destruct (negb (Nat.eqb (i_stage i) 2)); [inversion H; reflexivity |].
    destruct (i_got_cn i); [inversion H; reflexivity |].
    destruct (parse1 D (i_rbio i)) as [[[t p] rest] |]; [| inversion H; reflexivity].
    destruct (N.eqb t T_ALERT); inversion H; reflexivity.
Qed.

(* ------------------------------------------------------------------ one transition of one endpoint, on the streams *)

Lemma pump_client : forall e i w g nin nout l e' nin' nout',
  pump e i w g nin nout l = Some (e', nin', nout') -> i_client (e_ideal e') = i_client i.
Proof.
  intros e i w g nin nout l e' nin' nout' H. unfold TlsDuplex.pump in H.
  destruct (sys_step fl (e_sys e) l) as [[y acts] |]; try discriminate.
  destruct (apply_acts i nout acts) as [i2 o2] eqn:A. inversion H; subst. cbn.
  destruct (apply_acts_spec _ _ _ _ _ A) as [_ [_ [_ [_ [_ [_ C]]]]]]. exact C.
Qed.

Lemma ep_move : forall e nin nout l e' nin' nout',
  ep_step e nin nout l = Some (e', nin', nout') -> (forall m n d, l <> CSpawn m n d) ->
  i_client (e_ideal e') = i_client (e_ideal e) /\
  ((stg e' = stg e /\ rb e' ++ nin' = rb e ++ nin /\ nout' ++ ep_wbio e' = nout ++ ep_wbio e /\ (forall t, l <> CSsl t)) \/
   (exists t tk i1 o wd, l = CSsl t /\ nth_error (tasks_of e) t = Some tk /\
      call E D M (e_ideal e) (t_meth tk) (t_buf tk) (hd [] (deque (shp e))) = (i1, o, wd) /\
      stg e' = i_stage i1 /\ rb e' = i_rbio i1 /\ nin' = nin /\ nout' ++ ep_wbio e' = nout ++ ep_wbio e ++ wd /\
      i_client i1 = i_client (e_ideal e))).
Proof.
  intros e nin nout l e' nin' nout' H Hns. unfold rb, stg.
  destruct l as [m n data | t | t | t | t k]; cbn [TlsDuplex.ep_step] in H.
  - exfalso. eapply Hns; reflexivity.
  - destruct (nth_error (y_tasks (e_sys e)) t) as [tk |] eqn:Hn; try discriminate.
    destruct (call E D M (e_ideal e) (t_meth tk) (t_buf tk) (hd [] (deque (y_sh (e_sys e))))) as [[i1 o] wd] eqn:C.
    pose proof (pump_client _ _ _ _ _ _ _ _ _ _ H) as Hc.
    destruct (pump_inv fl _ _ _ _ _ _ _ _ _ _ H) as [acts [_ [Hst _]]].
    destruct (pump_step_spec fl _ _ _ _ _ _ _ _ _ _ _ H) as [tk' [Hn' Hspec]].
    rewrite Hn in Hn'. inversion Hn'; subst tk'. clear Hn'.
    destruct Hspec as [Hnin [_ [_ [_ [Hout [Hrb _]]]]]].
    { intros x Hx. inversion Hx; subst. cbn. auto. }
    pose proof (call_client _ _ _ _ _ _ _ C) as Cc.
    split; [rewrite Hc; exact Cc |]. right. exists t, tk, i1, o, wd.
    cbn [rcvd delta a_wdelta] in Hrb, Hout. rewrite app_nil_r in Hrb. unfold tasks_of, shp. auto 10.
  - pose proof (pump_client _ _ _ _ _ _ _ _ _ _ H) as Hc.
    destruct (pump_inv fl _ _ _ _ _ _ _ _ _ _ H) as [acts [_ [Hst _]]].
    destruct (pump_step_spec fl _ _ _ _ _ _ _ _ _ _ _ H) as [tk [Hn Hspec]].
    destruct Hspec as [Hnin [_ [_ [_ [Hout [Hrb _]]]]]]; [intros x Hx; discriminate |].
    cbn [rcvd delta] in Hrb, Hout. rewrite app_nil_r in Hrb, Hout. split; [exact Hc |]. left.
    subst nin'. rewrite Hrb. repeat split; auto. intros t0 Hx; discriminate.
  - pose proof (pump_client _ _ _ _ _ _ _ _ _ _ H) as Hc.
    destruct (pump_inv fl _ _ _ _ _ _ _ _ _ _ H) as [acts [_ [Hst _]]].
    destruct (pump_step_spec fl _ _ _ _ _ _ _ _ _ _ _ H) as [tk [Hn Hspec]].
    destruct Hspec as [Hnin [_ [_ [_ [Hout [Hrb _]]]]]]; [intros x Hx; discriminate |].
    cbn [rcvd delta] in Hrb, Hout. rewrite app_nil_r in Hrb, Hout. split; [exact Hc |]. left.
    subst nin'. rewrite Hrb. repeat split; auto. intros t0 Hx; discriminate.
  - destruct (Nat.leb 1 k && Nat.leb k (length nin)); try discriminate.
    pose proof (pump_client _ _ _ _ _ _ _ _ _ _ H) as Hc.
    destruct (pump_inv fl _ _ _ _ _ _ _ _ _ _ H) as [acts [_ [Hst _]]].
    destruct (pump_step_spec fl _ _ _ _ _ _ _ _ _ _ _ H) as [tk [Hn Hspec]].
    destruct Hspec as [Hnin [_ [_ [_ [Hout [Hrb _]]]]]]; [intros x Hx; discriminate |].
    cbn [rcvd delta] in Hrb, Hout. rewrite app_nil_r in Hout. split; [exact Hc |]. left.
    subst nin'. rewrite Hrb. repeat split; auto.
    + rewrite <- app_assoc, firstn_skipn. reflexivity.
    + intros t0 Hx; discriminate.
Qed.

(* a new application call: nothing moves *)
Lemma ep_spawn_move : forall e nin nout m n data e' nin' nout',
  ep_step e nin nout (CSpawn m n data) = Some (e', nin', nout') ->
  e_ideal e' = e_ideal e /\ nin' = nin /\ nout' = nout /\ ep_wbio e' = ep_wbio e /\
  tasks_of e' = tasks_of e ++ [{| t_meth := m; t_buf := n;
                                  t_pc := pcall fl m (match m with MWrite => set_deque (shp e) (deque (shp e) ++ [data]) | _ => shp e end) |}].
Proof.
  intros e nin nout m n data e' nin' nout' H.
  destruct m; cbn [TlsDuplex.ep_step] in H; try discriminate; unfold TlsDuplex.pump in H;
    cbn [TlsPump.sys_step apply_acts] in H; inversion H; subst; unfold ep_wbio, tasks_of, shp; cbn; rewrite ?app_nil_r; auto.
Qed.

(* ------------------------------------------------------------------ when is a wrap() waiting for the network *)

Lemma readwait_pending : forall tk, readwait (t_pc tk) = true -> pending tk = true.
Proof. intros tk H. unfold pending. destruct (t_pc tk); try discriminate; reflexivity. Qed.

Lemma hs_wait_task_step : forall e e' t tk lb s1 p1 a1,
  EInv e -> (hs_wait e -> stg e <= 1) ->
  nth_error (tasks_of e) t = Some tk -> clab lb = true ->
  step fl (t_meth tk) (t_buf tk) (shp e) (t_pc tk) lb = Some (s1, p1, a1) ->
  (forall x, lb = LSsl x -> a_meth x = t_meth tk /\ a_arg x = expected_arg (t_meth tk) (t_buf tk) (shp e)) ->
  tasks_of e' = set_nth t {| t_meth := t_meth tk; t_buf := t_buf tk; t_pc := p1 |} (tasks_of e) ->
  ideal_rel E D M e e' tk lb ->
  hs_wait e' ->
  (hs_wait e /\ rb e' = rb e /\ stg e' = stg e) \/
  (exists i1 wd, do_handshake E D (e_ideal e) = (i1, SWantRead, wd) /\ stg e' = i_stage i1 /\ rb e' = i_rbio i1).
Proof.
  intros e e' t tk lb s1 p1 a1 I Hlt Hn Hc St Hmt Ht Hi [t' [tk' [Hn' [Hm' Hr']]]].
  destruct (Nat.eq_dec t' t) as [-> | Hd].
  2: { (* another task is the one that waits: impossible, the stepping task would be a second pending reader *)
    exfalso. rewrite Ht in Hn'. rewrite nth_error_set_nth_neq in Hn' by congruence.
    assert (Hw : hs_wait e) by (exists t', tk'; auto).
    specialize (Hlt Hw).
    apply Hd. apply (ei_one D e I t' t tk' tk Hn' Hn).
    - unfold pending_reader. rewrite (readwait_pending _ Hr'), Hm'. reflexivity.
    - unfold pending_reader, pending. rewrite (step_not_end fl _ _ _ _ _ _ St). cbn.
      destruct (t_meth tk) eqn:Em; try reflexivity; exfalso.
      + assert (X : stg e = 2) by (apply (ei_s2 D e I); exists t, tk; split; [exact Hn | rewrite Em; discriminate]). lia.
      + exact (ei_nu D e I t tk Hn Em). }
  rewrite Ht in Hn'. rewrite (nth_error_set_nth_eq _ _ _ tk Hn) in Hn'. inversion Hn'; subst tk'. clear Hn'.
  cbn [t_meth t_pc] in Hm', Hr'.
  pose proof (step_table fl _ _ _ _ _ _ _ _ St Hc Hmt) as SK.
  assert (PcH : forall s0, pcall fl (t_meth tk) s0 = PCall)
    by (intros s0; destruct (pcall_props fl (t_meth tk) s0) as [_ [X _]]; apply X; rewrite Hm'; discriminate).
  assert (Keep : readwait (t_pc tk) = true -> (forall x, lb <> LSsl x) -> rcvd lb = [] ->
                 hs_wait e /\ rb e' = rb e /\ stg e' = stg e).
  { intros Rw Hns Hrc. split; [exists t, tk; auto |].
    destruct Hi as [[i1 [o [wd [Hl _]]]] | [_ [S1 [_ [R1 _]]]]]; [exfalso; eapply Hns; eauto |].
    unfold rb, stg. rewrite R1, Hrc, app_nil_r. auto. }
  destruct SK as [x v Hl Hp Ho Hm2 W Dq Hp1 | x v Hl Hp Ho Hm2 W Dq Dn Hp1 | x v Hl Hp Ho Hm2 W Dq Dn Hp1 | x Hl Hp Ho W Dq Hp1 | x Hl Hp Ho W Dq Hp1
                   | x r Hl Hp Ho W Dq Hp1 Hnr | k Hl Hp L W Dq Hp1 | k Hl Hp L W Es Hp1 | n Hl Hp L W Dq Hp1 | k Hl Hp W Dq Hp1 | d Hl Hp W Dq Hp1
                   | x v Hl Hp Ho Hm2 W Dq Hp1];
    try congruence.
  - exfalso. subst p1.
    destruct (flush_pc_cases fl s1 (KRet v)) as [X | [_ [[n [X _]] | [v0 [_ X]]]]]; try rewrite X in Hr'; discriminate.
  - (* WANT_READ *)
    right. destruct Hi as [[i1 [o [wd [Hl' [Cl [S1 [_ [R1 _]]]]]]]] | [Hl' _]]; [| exfalso; eapply Hl'; eauto].
    rewrite Hl' in Hl. inversion Hl; subst x. cbn in Ho. subst o. rewrite Hm' in Cl. cbn [call] in Cl.
    exists i1, wd. unfold rb, stg. auto.
  - subst p1. discriminate.
  - exfalso. subst p1. destruct r; discriminate.
  - left. subst p1 lb. apply Keep; [rewrite Hp; destruct k; try discriminate; reflexivity | intros x Hx; discriminate | reflexivity].
  - left. subst p1 lb. apply Keep; [| intros x Hx; discriminate | reflexivity].
    rewrite Hp. destruct k; cbn in Hr' |- *; try reflexivity; try discriminate. rewrite PcH in Hr'. discriminate.
  - left. subst lb. apply Keep; [rewrite Hp; reflexivity | intros x Hx; discriminate | reflexivity].
  - left. subst p1 lb. apply Keep; [| intros x Hx; discriminate | reflexivity].
    rewrite Hp. destruct k; cbn in Hr' |- *; try reflexivity; try discriminate. rewrite PcH in Hr'. discriminate.
  - exfalso. subst p1. rewrite PcH in Hr'. discriminate.
Qed.

Lemma hs_wait_step : forall e nin nout l e' nin' nout',
  ep_step e nin nout l = Some (e', nin', nout') ->
  EInv e -> (hs_wait e -> stg e <= 1) ->
  hs_wait e' ->
  (hs_wait e /\ rb e' = rb e /\ stg e' = stg e) \/
  (exists i1 wd, do_handshake E D (e_ideal e) = (i1, SWantRead, wd) /\ stg e' = i_stage i1 /\ rb e' = i_rbio i1).
Proof.
  intros e nin nout l e' nin' nout' H I Hlt Hw.
  assert (Task : (forall m n d, l <> CSpawn m n d) ->
    (hs_wait e /\ rb e' = rb e /\ stg e' = stg e) \/
    (exists i1 wd, do_handshake E D (e_ideal e) = (i1, SWantRead, wd) /\ stg e' = i_stage i1 /\ rb e' = i_rbio i1)).
  { intros Hns.
    destruct (ep_step_task fl E D M _ _ _ _ _ _ _ H Hns) as [t [tk [lb [s1 [p1 [a1 [Hn [Hc [St [Hmt [Hs [Ht [Hy Hi]]]]]]]]]]]]].
    eapply hs_wait_task_step; eauto. }
  destruct l as [m n data | t0 | t0 | t0 | t0 k0]; try (apply Task; intros; discriminate).
  (* a new call *)
  destruct Hw as [t' [tk' [Hn' [Hm' Hr']]]].
  destruct (ep_spawn_move _ _ _ _ _ _ _ _ _ H) as [Hi [_ [_ [_ Ht]]]].
  rewrite Ht in Hn'. apply nth_error_app_last in Hn'. destruct Hn' as [Ho | [_ ->]].
  - left. unfold rb, stg. rewrite Hi. split; [exists t', tk'; auto | auto].
  - exfalso. cbn in Hm', Hr'. subst m. destruct (pcall_props fl MHandshake (shp e)) as [_ [X _]].
    rewrite X in Hr' by discriminate. discriminate.
Qed.

(* ------------------------------------------------------------------ what one do_handshake() call does *)

Lemma hs_cases : forall i i1 o wd, do_handshake E D i = (i1, o, wd) ->
  (i1 = i /\ wd = [] /\ (o = SWantRead -> parse1 D (i_rbio i) = None /\ i_stage i <= 1 /\ (i_client i = true -> i_stage i = 1))) \/
  (i_client i = true /\ i_stage i = 0 /\ i_stage i1 = 1 /\ i_rbio i1 = i_rbio i /\ wd = enc E T_HS CH /\ o = SWantRead) \/
  (exists p rest, parse1 D (i_rbio i) = Some (T_HS, p, rest) /\ i_rbio i1 = rest /\
     ((i_client i = false /\ i_stage i = 0 /\ i_stage i1 = 1 /\ wd = enc E T_HS SH /\ o = SWantRead) \/
      (i_client i = true /\ i_stage i = 1 /\ i_stage i1 = 2 /\ wd = enc E T_HS FIN /\ o = SOk 0) \/
      (i_client i = false /\ i_stage i = 1 /\ i_stage i1 = 2 /\ wd = [] /\ o = SOk 0))).
Proof.
  intros i i1 o wd H. unfold do_handshake in H.
  assert (Need : forall st out flt,
            match parse_hs D (i_rbio i) with
            | None => (i, starved i, [])
            | Some None => (i, SErr ESslOther, [])
            | Some (Some rest) => (upd i st rest (i_plain i) (i_got_cn i) (i_sent_cn i), out, flt)
            end = (i1, o, wd) ->
            (i1 = i /\ wd = [] /\ (o = SWantRead -> parse1 D (i_rbio i) = None)) \/
            (exists p rest, parse1 D (i_rbio i) = Some (T_HS, p, rest) /\ i_rbio i1 = rest /\ i_stage i1 = st /\ wd = flt /\ o = out)).
  { intros st out flt Hn. unfold parse_hs in Hn.
    destruct (parse1 D (i_rbio i)) as [[[t p] rest] |] eqn:P.
    - destruct (N.eqb t T_HS) eqn:Et.
      + apply N.eqb_eq in Et. subst t. inversion Hn; subst. right. exists p, rest. cbn. auto.
      + inversion Hn; subst. left. repeat split; auto. discriminate.
    - inversion Hn; subst. left. auto. }
  destruct (i_stage i) as [| [| [| s]]] eqn:Es; destruct (i_client i) eqn:C.
  - inversion H; subst. right. left. cbn. auto 10.
  - destruct (Need _ _ _ H) as [[-> [-> Hw]] | [p [rest [P [R [S1 [W O]]]]]]].
    + left. split; [reflexivity |]. split; [reflexivity |]. intros Ho. split; [auto |]. split; [lia | intros; congruence].
    + right. right. exists p, rest. split; [exact P |]. split; [exact R |]. left. auto.
  - destruct (Need _ _ _ H) as [[-> [-> Hw]] | [p [rest [P [R [S1 [W O]]]]]]].
    + left. split; [reflexivity |]. split; [reflexivity |]. intros Ho. split; [auto |]. split; [lia | intros; congruence].
    + right. right. exists p, rest. split; [exact P |]. split; [exact R |]. right. left. auto.
  - destruct (Need _ _ _ H) as [[-> [-> Hw]] | [p [rest [P [R [S1 [W O]]]]]]].
    + left. split; [reflexivity |]. split; [reflexivity |]. intros Ho. split; [auto |]. split; [lia | intros; congruence].
    + right. right. exists p, rest. split; [exact P |]. split; [exact R |]. right. right. auto.
  - inversion H; subst. left. split; [reflexivity |]. split; [reflexivity |]. discriminate.
  - inversion H; subst. left. split; [reflexivity |]. split; [reflexivity |]. discriminate.
  - inversion H; subst. left. split; [reflexivity |]. split; [reflexivity |]. discriminate.
  - inversion H; subst. left. split; [reflexivity |]. split; [reflexivity |]. discriminate.
Qed.

Lemma read_rbio_nil : forall i n i1 o wd, read D i n = (i1, o, wd) -> i_rbio i = [] -> i_rbio i1 = [].
Proof.
  intros i n i1 o wd H Hr. unfold read in H.
  destruct (negb (Nat.eqb (i_stage i) 2)); [inversion H; subst; exact Hr |].
  destruct (i_plain i); [| inversion H; subst; cbn; exact Hr].
  destruct (i_got_cn i); [inversion H; subst; exact Hr |].
  rewrite Hr in H. cbn in H. inversion H; subst. exact Hr.
Qed.

(* ------------------------------------------------------------------ the conversation *)

Definition conv (a b : nat) (ab ba : bytes) : Prop :=
  match a, b with
  | 0, 0 => ab = [] /\ ba = []
  | 1, 0 => ab = enc E T_HS CH /\ ba = []
  | 1, 1 => ab = [] /\ ba = enc E T_HS SH
  | 2, 1 => (exists recs, ab = enc E T_HS FIN ++ encs E recs) /\ ba = []
  | 2, 2 => True
  | _, _ => False
  end.

Lemma parse1_nil : parse1 D [] = None.
Proof. reflexivity. Qed.

Lemma parse_single : forall buf tl t p p0 rest,
  buf ++ tl = enc E t p -> parse1 D buf = Some (T_HS, p0, rest) -> rest ++ tl = [].
Proof.
  intros buf tl t p p0 rest Hs Hp.
  assert (Hs' : buf ++ tl = encs E [(t, p)]) by (rewrite (encs_single E); exact Hs).
  destruct (parse_head E D DE _ _ _ _ _ _ Hs' Hp) as [recs' [Hr Ht]].
  inversion Hr; subst. exact Ht.
Qed.

Lemma conv_client_hs : forall i i1 o wd b ab tl,
  i_client i = true -> do_handshake E D i = (i1, o, wd) ->
  conv (i_stage i) b ab (i_rbio i ++ tl) -> conv (i_stage i1) b (ab ++ wd) (i_rbio i1 ++ tl).
Proof.
  intros i i1 o wd b ab tl C H Hc.
  destruct (hs_cases _ _ _ _ H) as [[-> [-> _]] | [[_ [S0 [S1 [R [W O]]]]] | [p [rest [P [R Cases]]]]]].
  - rewrite app_nil_r. exact Hc.
  - rewrite S0 in Hc. rewrite S1, R, W. destruct b as [| b]; [| destruct Hc]. destruct Hc as [-> Hb]. cbn. auto.
  - destruct Cases as [[C' _] | [[_ [S0 [S1 [W O]]]] | [C' _]]]; try congruence.
    rewrite S0 in Hc. rewrite S1, R, W. destruct b as [| [| b]]; cbn in Hc.
    + destruct Hc as [_ Hb]. apply app_eq_nil in Hb. destruct Hb as [Hb _]. rewrite Hb in P. discriminate.
    + destruct Hc as [-> Hb]. pose proof (parse_single _ _ _ _ _ _ Hb P) as Hr. cbn [conv]. split; [exists []; cbn [encs map concat app]; rewrite ?app_nil_r; reflexivity | exact Hr].
    + destruct Hc.
Qed.

Lemma conv_server_hs : forall i i1 o wd a ba tl,
  i_client i = false -> do_handshake E D i = (i1, o, wd) ->
  conv a (i_stage i) (i_rbio i ++ tl) ba -> conv a (i_stage i1) (i_rbio i1 ++ tl) (ba ++ wd).
Proof.
  intros i i1 o wd a ba tl C H Hc.
  destruct (hs_cases _ _ _ _ H) as [[-> [-> _]] | [[C' _] | [p [rest [P [R Cases]]]]]]; try congruence.
  - rewrite app_nil_r. exact Hc.
  - destruct Cases as [[_ [S0 [S1 [W O]]]] | [[C' _] | [_ [S0 [S1 [W O]]]]]]; try congruence.
    + rewrite S0 in Hc. rewrite S1, R, W. destruct a as [| [| a]]; cbn in Hc.
      * destruct Hc as [Ha _]. apply app_eq_nil in Ha. destruct Ha as [Ha _]. rewrite Ha in P. discriminate.
      * destruct Hc as [Ha ->]. pose proof (parse_single _ _ _ _ _ _ Ha P) as Hr. cbn [conv]. split; [exact Hr | reflexivity].
      * destruct a; destruct Hc.
    + rewrite S0 in Hc. rewrite S1. destruct a as [| [| [| a]]]; cbn in Hc; try (destruct Hc; fail); cbn [conv]; auto.
      destruct Hc as [Ha _]. apply app_eq_nil in Ha. destruct Ha as [Ha _]. rewrite Ha in P. discriminate.
Qed.

(* the streams of the composed system *)
Definition sAB (c : duplex) : bytes := rb (dB c) ++ nAB c ++ ep_wbio (dA c).
Definition sBA (c : duplex) : bytes := rb (dA c) ++ nBA c ++ ep_wbio (dB c).

Record HInv (c : duplex) : Prop := {
  hi_ca : i_client (e_ideal (dA c)) = true;
  hi_cb : i_client (e_ideal (dB c)) = false;
  hi_conv : conv (stg (dA c)) (stg (dB c)) (sAB c) (sBA c);
  hi_wa : hs_wait (dA c) -> stg (dA c) = 1 /\ parse1 D (rb (dA c)) = None;
  hi_wb : hs_wait (dB c) -> stg (dB c) <= 1 /\ parse1 D (rb (dB c)) = None
}.

Lemma HInv_init : HInv duplex0.
Proof.
  constructor; try reflexivity; cbn; auto; intros [t [tk [Hn _]]]; destruct t; discriminate.
Qed.

Lemma read_wd_nil : forall i n i1 o wd, read D i n = (i1, o, wd) -> wd = [].
Proof.
  intros i n i1 o wd H. unfold read in H.
  destruct (negb (Nat.eqb (i_stage i) 2)); [inversion H; reflexivity |].
  destruct (i_plain i); [| inversion H; reflexivity].
  destruct (i_got_cn i); [inversion H; reflexivity |].
  destruct (parse1 D (i_rbio i)) as [[[t p] rest] |]; [| inversion H; reflexivity].
  destruct (N.eqb t T_DATA); [destruct p; inversion H; reflexivity |].
  destruct (N.eqb t T_ALERT); inversion H; reflexivity.
Qed.

Lemma spawn_or_not : forall cl : clabel, (exists m n d, cl = CSpawn m n d) \/ (forall m n d, cl <> CSpawn m n d).
Proof. intros [m n d | t | t | t | t k]; [left; eauto | right | right | right | right]; intros; discriminate. Qed.

(* a read or a write (the endpoint is established) *)
Lemma data_call : forall i m n data i1 o wd,
  (m = MRead \/ m = MWrite) -> i_stage i = 2 -> call E D M i m n data = (i1, o, wd) ->
  i_stage i1 = 2 /\ (exists recs, wd = encs E recs) /\ (i_rbio i = [] -> i_rbio i1 = []).
Proof.
  intros i m n data i1 o wd Hm Hs C.
  assert (Hnu : m <> MUnwrap) by (destruct Hm; subst; discriminate).
  destruct (call_facts E D M _ _ _ _ _ _ _ Hnu C) as [_ [F1 _]]; [lia |].
  destruct (call_wd E D M _ _ _ _ _ _ _ C) as [recs [Hw _]].
  split; [auto |]. split; [eauto |]. intros Hr. destruct Hm; subst m; cbn [call] in C.
  - eapply read_rbio_nil; eauto.
  - rewrite (write_unchanged E M _ _ _ _ _ C). exact Hr.
Qed.

Lemma HInv_step : forall c l c', dstep c l = Some c' -> EInv (dA c) -> EInv (dB c) -> HInv c -> HInv c'.
Proof.
  intros c [side cl] c' H IA IB [Ca Cb Cv Wa Wb]. unfold TlsDuplex.dstep in H. destruct side.
  - (* the client side moves *)
    destruct (ep_step (dA c) (nBA c) (nAB c) cl) as [[[a' nin'] nout'] |] eqn:S; inversion H; subst c'; clear H.
    assert (Hmove : i_client (e_ideal a') = true /\
                    conv (stg a') (stg (dB c)) (rb (dB c) ++ nout' ++ ep_wbio a') (rb a' ++ nin' ++ ep_wbio (dB c))).
    { destruct (spawn_or_not cl) as [[m [n [d ->]]] | Hns].
      - destruct (ep_spawn_move _ _ _ _ _ _ _ _ _ S) as [Hi [-> [-> [Hw _]]]].
        unfold stg, rb. rewrite Hi, Hw. split; [exact Ca | exact Cv].
      - destruct (ep_move _ _ _ _ _ _ _ S Hns) as [Hc [[Hst [Hin [Hout _]]] | [t [tk [i1 [o [wd [_ [Hn [Cl [Hst [Hrb [-> [Hout Hc1]]]]]]]]]]]]]].
        + split; [rewrite Hc; exact Ca |]. rewrite Hst, Hout.
          replace (rb a' ++ nin' ++ ep_wbio (dB c)) with ((rb a' ++ nin') ++ ep_wbio (dB c)) by (rewrite app_assoc; reflexivity).
          rewrite Hin, <- app_assoc. exact Cv.
        + split; [rewrite Hc; exact Ca |]. rewrite Hst, Hrb, Hout.
          replace (rb (dB c) ++ nAB c ++ ep_wbio (dA c) ++ wd) with (sAB c ++ wd) by (unfold sAB; rewrite <- !app_assoc; reflexivity).
          destruct (t_meth tk) eqn:Em; cbn [call] in Cl.
          * apply (conv_client_hs (e_ideal (dA c)) i1 o wd); [exact Ca | exact Cl | exact Cv].
          * assert (S2 : stg (dA c) = 2) by (apply (ei_s2 D _ IA); exists t, tk; split; [exact Hn | rewrite Em; discriminate]).
            destruct (data_call (e_ideal (dA c)) MRead (t_buf tk) (hd [] (deque (shp (dA c)))) i1 o wd) as [S1 [_ Hnil]]; auto.
            rewrite (read_wd_nil _ _ _ _ _ Cl), app_nil_r, S1. rewrite S2 in Cv.
            destruct (stg (dB c)) as [| [| [| b]]]; cbn [conv] in Cv |- *; auto.
            destruct Cv as [Hab Hba]. split; [exact Hab |]. unfold sBA in Hba.
            apply app_eq_nil in Hba. destruct Hba as [Hr Ht]. unfold rb in Hr. rewrite (Hnil Hr). exact Ht.
          * assert (S2 : stg (dA c) = 2) by (apply (ei_s2 D _ IA); exists t, tk; split; [exact Hn | rewrite Em; discriminate]).
            destruct (data_call (e_ideal (dA c)) MWrite (t_buf tk) (hd [] (deque (shp (dA c)))) i1 o wd) as [S1 [[recs Hw] _]]; auto.
            rewrite S1, Hw. rewrite (write_unchanged E M _ _ _ _ _ Cl). rewrite S2 in Cv. fold (rb (dA c)). fold (sBA c).
            destruct (stg (dB c)) as [| [| [| b]]]; cbn [conv] in Cv |- *; auto.
            destruct Cv as [[recs0 Hab] Hba]. split; [| exact Hba].
            exists (recs0 ++ recs). rewrite Hab, (encs_app E), <- app_assoc. reflexivity.
          * exfalso. exact (ei_nu D _ IA t tk Hn Em). }
    destruct Hmove as [Ca' Cv'].
    constructor; cbn [dA dB nAB nBA]; try assumption.
    + (* the client's wrap() is waiting *)
      intros W'.
      destruct (hs_wait_step _ _ _ _ _ _ _ S IA) as [[W [Hr Hs]] | [i1 [wd [Hd [Hs Hr]]]]]; [intros W; destruct (Wa W); lia | exact W' | |].
      * rewrite Hr, Hs. exact (Wa W).
      * rewrite Hs, Hr.
        destruct (hs_cases _ _ _ _ Hd) as [[-> [_ Hw]] | [[_ [S0 [S1 [R [_ _]]]]] | [p [rest [P [R Cases]]]]]].
        -- destruct (Hw eq_refl) as [Pn [_ Hc1]]. split; [exact (Hc1 Ca) | exact Pn].
        -- split; [exact S1 |]. rewrite R. unfold stg in Cv. rewrite S0 in Cv.
           destruct (i_stage (e_ideal (dB c))); [| destruct Cv]. destruct Cv as [_ Hba]. unfold sBA in Hba.
           apply app_eq_nil in Hba. destruct Hba as [Hr0 _]. unfold rb in Hr0. rewrite Hr0. reflexivity.
        -- destruct Cases as [[C' _] | [[_ [_ [_ [_ O]]]] | [C' _]]]; congruence.
  - (* the server side moves *)
    destruct (ep_step (dB c) (nAB c) (nBA c) cl) as [[[b' nin'] nout'] |] eqn:S; inversion H; subst c'; clear H.
    assert (Hmove : i_client (e_ideal b') = false /\
                    conv (stg (dA c)) (stg b') (rb b' ++ nin' ++ ep_wbio (dA c)) (rb (dA c) ++ nout' ++ ep_wbio b')).
    { destruct (spawn_or_not cl) as [[m [n [d ->]]] | Hns].
      - destruct (ep_spawn_move _ _ _ _ _ _ _ _ _ S) as [Hi [-> [-> [Hw _]]]].
        unfold stg, rb. rewrite Hi, Hw. split; [exact Cb | exact Cv].
      - destruct (ep_move _ _ _ _ _ _ _ S Hns) as [Hc [[Hst [Hin [Hout _]]] | [t [tk [i1 [o [wd [_ [Hn [Cl [Hst [Hrb [-> [Hout Hc1]]]]]]]]]]]]]].
        + split; [rewrite Hc; exact Cb |]. rewrite Hst, Hout.
          replace (rb b' ++ nin' ++ ep_wbio (dA c)) with ((rb b' ++ nin') ++ ep_wbio (dA c)) by (rewrite app_assoc; reflexivity).
          rewrite Hin, <- app_assoc. exact Cv.
        + split; [rewrite Hc; exact Cb |]. rewrite Hst, Hrb, Hout.
          replace (rb (dA c) ++ nBA c ++ ep_wbio (dB c) ++ wd) with (sBA c ++ wd) by (unfold sBA; rewrite <- !app_assoc; reflexivity).
          destruct (t_meth tk) eqn:Em; cbn [call] in Cl.
          * apply (conv_server_hs (e_ideal (dB c)) i1 o wd); [exact Cb | exact Cl | exact Cv].
          * assert (S2 : stg (dB c) = 2) by (apply (ei_s2 D _ IB); exists t, tk; split; [exact Hn | rewrite Em; discriminate]).
            destruct (data_call (e_ideal (dB c)) MRead (t_buf tk) (hd [] (deque (shp (dB c)))) i1 o wd) as [S1 _]; auto.
            rewrite S1. rewrite S2 in Cv.
            destruct (stg (dA c)) as [| [| [| a]]]; cbn [conv] in Cv |- *; auto; destruct Cv.
          * assert (S2 : stg (dB c) = 2) by (apply (ei_s2 D _ IB); exists t, tk; split; [exact Hn | rewrite Em; discriminate]).
            destruct (data_call (e_ideal (dB c)) MWrite (t_buf tk) (hd [] (deque (shp (dB c)))) i1 o wd) as [S1 _]; auto.
            rewrite S1. rewrite S2 in Cv.
            destruct (stg (dA c)) as [| [| [| a]]]; cbn [conv] in Cv |- *; auto; destruct Cv.
          * exfalso. exact (ei_nu D _ IB t tk Hn Em). }
    destruct Hmove as [Cb' Cv'].
    constructor; cbn [dA dB nAB nBA]; try assumption.
    intros W'.
    destruct (hs_wait_step _ _ _ _ _ _ _ S IB) as [[W [Hr Hs]] | [i1 [wd [Hd [Hs Hr]]]]]; [intros W; destruct (Wb W); lia | exact W' | |].
    + rewrite Hr, Hs. exact (Wb W).
    + rewrite Hs, Hr.
      destruct (hs_cases _ _ _ _ Hd) as [[-> [_ Hw]] | [[C' _] | [p [rest [P [R Cases]]]]]]; try congruence.
      * destruct (Hw eq_refl) as [Pn [Hle _]]. split; [exact Hle | exact Pn].
      * destruct Cases as [[_ [S0 [S1 [_ _]]]] | [[C' _] | [_ [_ [_ [_ O]]]]]]; try congruence; try discriminate.
        split; [lia |]. rewrite R. unfold stg in Cv. rewrite S0 in Cv.
        destruct (i_stage (e_ideal (dA c))) as [| [| a]]; cbn [conv] in Cv.
        -- destruct Cv as [Hab _]. unfold sAB in Hab. apply app_eq_nil in Hab. destruct Hab as [Hr0 _]. unfold rb in Hr0.
           rewrite Hr0 in P. discriminate.
        -- destruct Cv as [Hab _]. unfold sAB, rb in Hab. pose proof (parse_single _ _ _ _ _ _ Hab P) as Hnil.
           apply app_eq_nil in Hnil. destruct Hnil as [-> _]. reflexivity.
        -- destruct a; destruct Cv.
Qed.

(* ------------------------------------------------------------------ along disciplined executions *)

Lemma GH_exec : forall ls c c', gexec c ls = Some c' -> EInv (dA c) /\ EInv (dB c) -> HInv c -> HInv c'.
Proof.
  induction ls as [| l ls IH]; intros c c' H I HI; cbn [C08_progress.gexec] in H.
  - inversion H; subst; exact HI.
  - destruct (label_ok c l) eqn:Lo; try discriminate.
    destruct (dstep c l) as [c1 |] eqn:S; try discriminate.
    assert (G1 : gexec c [l] = Some c1) by (cbn [C08_progress.gexec]; rewrite Lo, S; reflexivity).
    pose proof (GInv_exec fl E D M _ _ _ G1 I) as I1.
    apply (IH _ _ H I1). destruct I as [IA IB]. exact (HInv_step _ _ _ S IA IB HI).
Qed.

(* ------------------------------------------------------------------ the theorem *)

Definition hs_pending (e : endpoint) : Prop :=
  exists t tk, nth_error (tasks_of e) t = Some tk /\ t_meth tk = MHandshake /\ pending tk = true.

Lemma encs_one_not_none : forall t p, parse1 D (enc E t p) <> None.
Proof.
  intros t p Hn. assert (X : parse1 D (encs E [(t, p)]) = None) by (rewrite (encs_single E); exact Hn).
  apply (parse1_encs_none E D DE) in X. discriminate.
Qed.

Section Stuck.
Variable ls : list (bool * clabel).
Variable c : duplex.
Hypothesis Hex : gexec duplex0 ls = Some c.
Hypothesis Hst : stuck fl E D M c.

Lemma stuck_facts :
  HInv c /\
  (hs_pending (dA c) -> hs_wait (dA c) /\ nBA c = []) /\
  (hs_pending (dB c) -> hs_wait (dB c) /\ nAB c = []) /\
  ep_wbio (dA c) = [] /\ ep_wbio (dB c) = [].
Proof.
  destruct (GInv_exec fl E D M _ _ _ Hex (conj (EInv_init D true) (EInv_init D false))) as [IA IB].
  pose proof (GH_exec _ _ _ Hex (conj (EInv_init D true) (EInv_init D false)) HInv_init) as HI.
  destruct (stuck_ep fl E D M c Hst) as [SA SB].
  destruct (ep_stuck_shape fl E D M _ _ _ IA SA) as [PA [WA _]].
  destruct (ep_stuck_shape fl E D M _ _ _ IB SB) as [PB [WB _]].
  split; [exact HI |]. split; [| split; [| split; [exact WA | exact WB]]].
  - intros [t [tk [Hn [Hm Hp]]]]. destruct (PA t tk Hn Hp) as [Hpc Hnet]. split; [| exact Hnet].
    exists t, tk. rewrite Hpc. auto.
  - intros [t [tk [Hn [Hm Hp]]]]. destruct (PB t tk Hn Hp) as [Hpc Hnet]. split; [| exact Hnet].
    exists t, tk. rewrite Hpc. auto.
Qed.

(* two pending wrap() are never stuck together *)
Lemma wraps_not_stuck_together : hs_pending (dA c) -> hs_pending (dB c) -> False.
Proof.
  intros PA PB. destruct stuck_facts as [[Ca Cb Cv Wa Wb] [FA [FB [WA WB]]]].
  destruct (FA PA) as [HwA NA]. destruct (FB PB) as [HwB NB].
  destruct (Wa HwA) as [SA PnA]. destruct (Wb HwB) as [SB PnB].
  unfold sAB, sBA in Cv. rewrite SA, NA, NB, WA, WB in Cv. cbn [app] in Cv. rewrite !app_nil_r in Cv.
  destruct (stg (dB c)) as [| [| b]]; cbn [conv] in Cv; try lia.
  - destruct Cv as [Hab _]. rewrite Hab in PnB. exact (encs_one_not_none _ _ PnB).
  - destruct Cv as [_ Hba]. rewrite Hba in PnA. exact (encs_one_not_none _ _ PnA).
Qed.

(* a pending wrap() is not stuck once the other side's handshake is complete *)
Lemma client_wrap_not_stuck_after_server_done : hs_pending (dA c) -> stg (dB c) = 2 -> False.
Proof.
  intros PA S2. destruct stuck_facts as [[Ca Cb Cv Wa Wb] [FA _]].
  destruct (FA PA) as [HwA _]. destruct (Wa HwA) as [SA _]. rewrite SA, S2 in Cv. exact Cv.
Qed.

Lemma server_wrap_not_stuck_after_client_done : hs_pending (dB c) -> stg (dA c) = 2 -> False.
Proof.
  intros PB S2. destruct stuck_facts as [[Ca Cb Cv Wa Wb] [_ [FB [WA _]]]].
  destruct (FB PB) as [HwB NB]. destruct (Wb HwB) as [SB PnB].
  unfold sAB in Cv. rewrite S2, NB, WA in Cv. cbn [app] in Cv. rewrite app_nil_r in Cv.
  destruct (stg (dB c)) as [| [| b]]; cbn [conv] in Cv; try lia; try (destruct Cv; fail).
  destruct Cv as [[recs Hab] _].
  assert (X : parse1 D (encs E ((T_HS, FIN) :: recs)) = None) by (rewrite (encs_cons E), <- Hab; exact PnB).
  apply (parse1_encs_none E D DE) in X. discriminate.
Qed.

End Stuck.

Lemma handshake_progress : forall ls c,
  gexec duplex0 ls = Some c -> stuck fl E D M c ->
  (hs_pending (dA c) -> hs_pending (dB c) -> False) /\
  (hs_pending (dA c) -> i_stage (e_ideal (dB c)) = 2 -> False) /\
  (hs_pending (dB c) -> i_stage (e_ideal (dA c)) = 2 -> False).
Proof.
  intros ls c Hex Hst. split; [| split].
  - exact (wraps_not_stuck_together ls c Hex Hst).
  - exact (client_wrap_not_stuck_after_server_done ls c Hex Hst).
  - exact (server_wrap_not_stuck_after_client_done ls c Hex Hst).
Qed.

End Handshake.
