(* C13: task.uncancel() never finds the counter at zero inside CancelScope.__exit__ (all programs, all schedules): the
   only place where it can is __cancel_task_unless_done (the re-delivery of a cancellation swallowed by a shield). *)
From Coq Require Import ZArith List Bool Arith Lia.
From EN Require Import Conc.CancelScope Proofs.C13_core Proofs.C13_inv.
Import ListNotations.

Definition fsame (st st' : state) : Prop := g_floor st' = g_floor st.
Lemma fsame_refl : forall st, fsame st st. Proof. reflexivity. Qed.
Lemma fsame_trans : forall a b c, fsame a b -> fsame b c -> fsame a c.
Proof. unfold fsame; intros; congruence. Qed.
Lemma same_fsame : forall st st', same st st' -> fsame st st'.
Proof. intros st st' []; assumption. Qed.

Lemma fsame_task_cancel : forall st m, fsame st (task_cancel st m).
Proof.
  intros. unfold task_cancel. destruct (task_done st); [reflexivity|].
  set (st1 := set_t_cnt st (S (t_cnt st))).
  destruct (t_waiter st1) as [f|]; [|reflexivity].
  unfold fut_cancel. pose proof (same_fut_finish st1 f (FCanc m)) as S.
  destruct (fut_finish st1 f (FCanc m)) as [st2 ok]. cbn [fst] in S. pose proof (sm_floor _ _ S) as Hf.
  unfold fsame. destruct ok; cbn [g_floor set_t_msg set_t_must]; rewrite Hf; reflexivity.
Qed.
Lemma fsame_upd_scope : forall st k f, fsame st (upd_scope st k f). Proof. reflexivity. Qed.
Lemma fsame_deliver_arm : forall st k r, fsame st (deliver_arm st k r).
Proof. intros st k [|]; reflexivity. Qed.
Lemma fsame_deliver : forall st k, fsame st (deliver st k).
Proof.
  intros. unfold deliver. destruct (negb (s_host (get_scope st k))); [reflexivity|].
  destruct (delayed st) as [[h m]|]; [apply fsame_deliver_arm|].
  destruct (negb (t_must st) && negb (task_is_current st)); [|apply fsame_deliver_arm].
  eapply fsame_trans; [|apply fsame_deliver_arm]. unfold deliver_issue.
  eapply fsame_trans; [apply fsame_task_cancel|apply fsame_upd_scope].
Qed.
Lemma fsame_cancel_ohandle : forall st h, fsame st (cancel_ohandle st h).
Proof. intros st [h|]; reflexivity. Qed.
Lemma fsame_scope_cancel : forall st k, fsame st (scope_cancel st k).
Proof.
  intros. unfold scope_cancel. destruct (s_called (get_scope st k)); [reflexivity|].
  eapply fsame_trans; [|apply fsame_deliver]. eapply fsame_trans; [apply fsame_cancel_ohandle|apply fsame_upd_scope].
Qed.
Lemma fsame_setup_timeout : forall st k, fsame st (setup_timeout st k).
Proof.
  intros. unfold setup_timeout. destruct (s_deadline (get_scope st k)); [|reflexivity].
  destruct (_ <=? _); [apply fsame_scope_cancel|reflexivity].
Qed.
Lemma fsame_scope_reschedule : forall st k w, fsame st (scope_reschedule st k w).
Proof.
  intros. unfold scope_reschedule.
  assert (F1 : fsame st (upd_scope (cancel_ohandle st (s_th (get_scope st k))) k (sc_set_deadline w)))
    by (eapply fsame_trans; [apply fsame_cancel_ohandle|apply fsame_upd_scope]).
  destruct (s_state (get_scope st k)); try exact F1. destruct (s_called (get_scope st k)); [exact F1|].
  eapply fsame_trans; [exact F1|apply fsame_setup_timeout].
Qed.
Lemma fsame_check_pending : forall st, fsame st (check_pending st).
Proof.
  intros. unfold check_pending. destruct (first_called st (sstack st)) as [k|]; [|reflexivity].
  destruct (s_ch (get_scope st k)); [reflexivity|apply fsame_deliver].
Qed.
Lemma fsame_scope_enter : forall st pre dl, fsame st (fst (scope_enter st pre dl)).
Proof.
  intros. unfold scope_enter. cbn [fst]. destruct pre.
  - eapply fsame_trans; [|apply fsame_deliver]. reflexivity.
  - eapply fsame_trans; [|apply fsame_setup_timeout]. reflexivity.
Qed.

(* the loop of __uncancel_task and the take-back loop stay above zero when the counter covers the scope's requests *)
Lemma uncancel_loop_nofloor : forall calls cnt hostc fl c' cnt' fl' hit,
  calls <= cnt -> uncancel_loop calls cnt hostc fl = (c', cnt', fl', hit) -> fl' = fl /\ c' <= cnt'.
Proof.
  induction calls as [|c IH]; intros cnt hostc fl c' cnt' fl' hit Hle H; simpl in H.
  - inversion H; subst. split; [reflexivity|lia].
  - destruct cnt as [|n]; [lia|].
    destruct (n <=? hostc).
    + inversion H; subst. split; [reflexivity|lia].
    + eapply IH; [|exact H]. lia.
Qed.

Lemma owed_le_sum : forall l k, owed (nth k l dummy_s) <= owed_sum l.
Proof.
  induction l as [|a l IH]; intros k.
  - destruct k; cbn; lia.
  - destruct k; cbn [nth owed_sum]; [lia|]. specialize (IH k). lia.
Qed.

Lemma fsame_scope_exit : forall st k exc, acct st -> fsame st (fst (scope_exit st k exc)).
Proof.
  intros st k exc Ha. unfold scope_exit.
  destruct (s_host (get_scope st k)) eqn:Hh; cbn [negb]; [|reflexivity].
  set (s := get_scope st k) in *.
  assert (Hc : s_calls s <= t_cnt st).
  { unfold acct in Ha. pose proof (owed_le_sum (scopes st) k) as H. fold (get_scope st k) in H. fold s in H.
    unfold owed in H. rewrite Hh in H. lia. }
  set (st2 := set_sstack _ _).
  assert (E2 : t_cnt st2 = t_cnt st /\ g_floor st2 = g_floor st).
  { unfold st2. destruct (s_ch s), (s_th s); split; reflexivity. }
  destruct E2 as [Ec2 Ef2].
  set (r := if s_called s then exit_called st2 k s exc else (st2, s_calls s, s_caught s)).
  assert (R : g_floor (fst (fst r)) = g_floor st /\ snd (fst r) <= t_cnt (fst (fst r))).
  { unfold r. destruct (s_called s); [|cbn [fst snd]; split; [exact Ef2|lia]].
    unfold exit_called. destruct exc as [[m| |]|]; try (cbn [fst snd]; split; [exact Ef2|lia]).
    destruct (uncancel_loop (s_calls s) (t_cnt st2) (s_hostc s) (g_floor st2)) as [[[c cnt] fl] hit] eqn:E.
    apply uncancel_loop_nofloor in E; [|lia]. destruct E as [E1 E3]. cbn [fst snd]. simpl. split; [congruence|exact E3]. }
  destruct R as [Rf Rc].
  set (st4 := if s_called s then exit_drop_delayed (fst (fst r)) k else fst (fst r)).
  assert (E4 : g_floor st4 = g_floor st /\ t_cnt st4 = t_cnt (fst (fst r))).
  { unfold st4. destruct (s_called s); [|split; [exact Rf|reflexivity]].
    pose proof (same_exit_drop_delayed (fst (fst r)) k) as []. split; congruence. }
  destruct E4 as [Ef4 Ec4].
  destruct (exit_takeback st4 (s_called s) (snd (fst r))) as [st4b calls'] eqn:ET.
  assert (Ef4b : g_floor st4b = g_floor st).
  { unfold exit_takeback in ET. destruct (fixF st4 && s_called s); inversion ET; subst; [|exact Ef4].
    simpl. rewrite Ef4. replace (snd (fst r) - t_cnt st4) with 0 by lia. lia. }
  cbn [fst]. eapply fsame_trans; [|apply fsame_check_pending]. unfold fsame. simpl. exact Ef4b.
Qed.

(* ---- the other pieces of the machine never touch the floor counter *)
Lemma fsame_do_yield : forall st wt y, fsame st (do_yield st wt y).
Proof.
  intros. unfold do_yield.
  pose proof (same_yield_out (FWait wt :: frames st) y st) as S1.
  destruct (yield_out (FWait wt :: frames st) y st) as [[st1 k1] y1]. cbn [fst] in S1.
  pose proof (same_task_yield (set_frames st1 k1) y1) as S2.
  unfold fsame. destruct S1, S2. simpl in *. congruence.
Qed.

Lemma fsame_exec : forall st p, fsame st (exec st p).
Proof.
  intros st p. destruct p; unfold exec; try reflexivity.
  - destruct d; [eapply fsame_trans; [|apply fsame_do_yield]; reflexivity|].
    destruct (new_fut (emit st (EvStart id (time st)))) as [st1 f] eqn:E1.
    destruct (call_at st1 (time st1 + S d) (HSetRes f)) as [st2 h] eqn:E2.
    eapply fsame_trans; [|apply fsame_do_yield]. unfold new_fut in E1. inversion E1; subst.
    unfold call_at in E2. inversion E2; subst. reflexivity.
  - destruct (new_fut (emit st (EvStart id (time st)))) as [st1 f] eqn:E1.
    destruct (call_at st1 (time st1 + d) (HSetExc f)) as [st2 h] eqn:E2.
    eapply fsame_trans; [|apply fsame_do_yield]. unfold new_fut in E1. inversion E1; subst.
    unfold call_at in E2. inversion E2; subst. reflexivity.
  - eapply fsame_trans; [|apply fsame_do_yield]; reflexivity.
  - eapply fsame_trans; [|apply fsame_do_yield]; reflexivity.
  - pose proof (fsame_scope_enter st pre (match delay with Some d => Some (time st + d) | None => None end)) as F.
    destruct (scope_enter st pre _) as [st1 sid]. cbn [fst] in F. exact F.
  - destruct (nth_scope st k); [apply fsame_scope_cancel|reflexivity].
  - destruct (nth_scope st k); [apply fsame_scope_reschedule|reflexivity].
Qed.

Lemma fsame_finish : forall st r, fsame st (finish st r).
Proof. intros st [e|]; unfold finish; [reflexivity|]. destruct (t_must st); reflexivity. Qed.

Lemma fsame_ret : forall st, acct st -> fsame st (ret st).
Proof.
  intros st Ha. unfold ret. destruct (frames st) as [|fr k]; [apply fsame_finish|].
  destruct fr; try reflexivity.
  - pose proof (fsame_scope_exit (set_frames st k) sid None Ha) as F.
    destruct (scope_exit (set_frames st k) sid None) as [st1 sw]. cbn [fst] in F.
    destruct kind; [exact F|]. destruct (s_caught (get_scope st1 sid)); exact F.
  - destruct y; [|reflexivity]. exact (fsame_check_pending (set_frames st k)).
Qed.

Lemma fsame_raise : forall st e, acct st -> fsame st (raise_ st e).
Proof.
  intros st e Ha. unfold raise_. destruct (frames st) as [|fr k]; [apply fsame_finish|].
  destruct fr; try reflexivity.
  - pose proof (fsame_scope_exit (set_frames st k) sid (Some e) Ha) as F.
    destruct (scope_exit (set_frames st k) sid (Some e)) as [st1 sw]. cbn [fst] in F.
    destruct kind; [destruct sw; exact F|]. destruct (s_caught (get_scope st1 sid)); exact F.
  - destruct y; [|reflexivity]. exact (fsame_check_pending (set_frames st k)).
  - destruct (catches c e); reflexivity.
Qed.

Lemma fsame_wake : forall st wt v, fsame st (wake st wt v).
Proof.
  intros. unfold wake. destruct wt as [id|id|id f h]; destruct v as [e|]; try reflexivity.
  destruct e as [m| |]; try reflexivity.
  pose proof (same_reschedule_delayed st m) as S. destruct (reschedule_delayed st m) as [st1 ok]. cbn [fst] in S.
  destruct S. destruct ok; unfold fsame; simpl; congruence.
Qed.

Lemma fsame_task_step : forall st v, fsame st (task_step st v).
Proof.
  intros. unfold task_step.
  set (p := if t_must st then _ else _).
  assert (P : fsame st (fst p)) by (unfold p; destruct (t_must st); reflexivity).
  destruct p as [st0 v0]. cbn [fst] in P.
  set (st1 := set_md (set_t_waiter st0 None) (MRun CRet)).
  pose proof (same_resume_in (frames st1) v0 st1) as S2.
  destruct (resume_in (frames st1) v0 st1) as [[st2 k2] r2]. cbn [fst] in S2.
  assert (F2 : fsame st st2) by (unfold fsame in *; destruct S2; simpl in *; congruence).
  destruct r2 as [v'|y|].
  - assert (F3 : fsame st (observe_resumption (set_frames st2 k2) k2 v')).
    { pose proof (same_observe_resumption (set_frames st2 k2) k2 v') as []. unfold fsame in *. simpl in *. congruence. }
    destruct k2 as [|fr k']; [exact F3|]. destruct fr; try exact F3.
    + destruct v'; exact F3.
    + eapply fsame_trans; [|apply fsame_wake]. exact F3.
  - pose proof (same_task_yield (set_frames st2 k2) y) as []. unfold fsame in *. simpl in *. congruence.
  - exact F2.
Qed.

Lemma fsame_run_cb : forall st f c, fsame st (run_cb st f c).
Proof.
  intros. unfold run_cb. destruct c as [|outer|inner].
  - apply fsame_task_step.
  - destruct (f_st (get_fut st outer)); try reflexivity;
      (destruct (f_st (get_fut st f)); apply same_fsame; apply same_fut_finish).
  - destruct (fut_done st inner); [reflexivity|]. apply same_fsame. apply same_remove_cb.
Qed.

Lemma fsame_begin_iter : forall st, fsame st (begin_iter st).
Proof.
  intros. unfold begin_iter, fsame.
  repeat match goal with
         | |- context [match ?x with _ => _ end] => destruct x
         end; reflexivity.
Qed.

(* ======== the floor counter moves only when __cancel_task_unless_done calls uncancel() on a zero counter ======== *)
Theorem floor_step : forall st, acct st ->
  g_floor (step st) = g_floor st \/
  (md st = MLoop /\ t_cnt st = 0 /\
   exists n h rd m, todo st = S n /\ ready st = h :: rd /\ h_canc h = false /\ h_kind h = HDelayedCancel m).
Proof.
  intros st Ha. unfold step. destruct (md st) as [c| |r|] eqn:Hm; try (left; reflexivity).
  - left. destruct c as [p| |e]; [apply fsame_exec|apply fsame_ret; exact Ha|apply fsame_raise; exact Ha].
  - destruct (todo st) as [|n] eqn:Et; [left; apply fsame_begin_iter|].
    unfold run_next. cbn [ready set_todo]. destruct (ready st) as [|h rd] eqn:Er; [left; reflexivity|].
    destruct (h_canc h) eqn:Ec; [left; reflexivity|].
    set (st1 := set_ready (set_todo st n) rd).
    assert (F0 : fsame st st1) by reflexivity.
    destruct (h_kind h) eqn:Ek; cbn [run_handle].
    + left. exact (fsame_trans _ _ _ F0 (fsame_task_step st1 None)).
    + left. exact (fsame_trans _ _ _ F0 (fsame_run_cb st1 f c)).
    + left. destruct (f_st (get_fut st1 f)); try exact F0;
        exact (fsame_trans _ _ _ F0 (same_fsame _ _ (same_fut_finish st1 f FRes))).
    + left. exact (fsame_trans _ _ _ F0 (same_fsame _ _ (same_fut_finish st1 f FExc))).
    + left. exact (fsame_trans _ _ _ F0 (fsame_scope_cancel st1 s)).
    + left. exact (fsame_trans _ _ _ F0 (fsame_deliver st1 s)).
    + destruct (task_done st1); [left; exact F0|].
      destruct (t_cnt st) as [|c] eqn:E0.
      * right. split; [reflexivity|]. split; [reflexivity|]. exists n, h, rd, m. auto.
      * left. eapply fsame_trans; [|apply fsame_task_cancel].
        unfold task_uncancel, fsame. change (t_cnt st1) with (t_cnt st). rewrite E0. reflexivity.
    + left. reflexivity.
    + left. destruct (task_done st1); [exact F0|]. eapply fsame_trans; [|apply fsame_task_cancel].
      unfold note_ext. destruct (in_shield _); reflexivity.
    + left. destruct (nth_scope st1 k) as [sid|]; [|exact F0].
      exact (fsame_trans _ _ _ F0 (fsame_scope_cancel st1 sid)).
Qed.
