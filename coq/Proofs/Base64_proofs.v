(* base64: decode inverts encode, the encoder's output stays inside the alphabet, length; the wrapper's round trip *)
From Coq Require Import List NArith Arith Bool Lia ZifyBool ZifyN ZifyNat.
From EN Require Import Lib.Bytes Frame.Framer Frame.Base64 Proofs.Bytes_proofs.
Import ListNotations.
Ltac Zify.zify_post_hook ::= Z.div_mod_to_equations.
Local Open Scope N_scope.

Definition sextets : list N := map N.of_nat (seq 0 64).

Lemma in_sextets n : n < 64 -> In n sextets.
Proof.
  intros H. unfold sextets. replace n with (N.of_nat (N.to_nat n)) by apply N2Nat.id.
  apply in_map. apply in_seq. lia.
Qed.

Lemma b64_val_char url n : n < 64 -> b64_val url (b64_char url n) = Some n.
Proof.
  intros H.
  assert (A : forallb (fun m => match b64_val url (b64_char url m) with Some k => k =? m | None => false end) sextets = true)
    by (destruct url; vm_compute; reflexivity).
  rewrite forallb_forall in A. specialize (A n (in_sextets n H)).
  destruct (b64_val url (b64_char url n)) as [k|]; [|discriminate]. apply N.eqb_eq in A. subst; reflexivity.
Qed.

Lemma b64_char_not_pad url n : n < 64 -> (b64_char url n =? b64_pad) = false.
Proof.
  intros H.
  assert (A : forallb (fun m => negb (b64_char url m =? b64_pad)) sextets = true) by (destruct url; vm_compute; reflexivity).
  rewrite forallb_forall in A. specialize (A n (in_sextets n H)). apply negb_true_iff in A. exact A.
Qed.

(* bytes of the output alphabet: the 64 characters and the padding character *)
Definition b64_out (url : bool) (c : N) : bool :=
  match b64_val url c with Some _ => true | None => c =? b64_pad end.

Lemma b64_out_char url n : n < 64 -> b64_out url (b64_char url n) = true.
Proof. intros H. unfold b64_out. rewrite (b64_val_char url n H). reflexivity. Qed.

Lemma b64_out_pad url : b64_out url b64_pad = true.
Proof. destruct url; reflexivity. Qed.

(* induction three bytes at a time *)
Lemma list_ind3 {X} (Q : list X -> Prop) :
  Q [] -> (forall a, Q [a]) -> (forall a b, Q [a; b]) -> (forall a b c r, Q r -> Q (a :: b :: c :: r)) -> forall l, Q l.
Proof.
  intros H0 H1 H2 H3.
  assert (A : forall l, Q l /\ (forall a, Q (a :: l)) /\ (forall a b, Q (a :: b :: l))).
  { induction l as [|x l (I0 & I1 & I2)]; [repeat split; auto|]. repeat split; auto. }
  intro l. apply A.
Qed.

Lemma sext3 (a b c : N) : a < 256 -> b < 256 -> c < 256 ->
  let n := a * 65536 + b * 256 + c in
  n / 262144 < 64 /\ (n / 4096) mod 64 < 64 /\ (n / 64) mod 64 < 64 /\ n mod 64 < 64 /\
  (let m := (n / 262144) * 262144 + ((n / 4096) mod 64) * 4096 + ((n / 64) mod 64) * 64 + n mod 64 in
   m / 65536 = a /\ (m / 256) mod 256 = b /\ m mod 256 = c).
Proof. intros Ha Hb Hc n. subst n. cbv zeta. repeat split; lia. Qed.

Lemma sext2 (a b : N) : a < 256 -> b < 256 ->
  let n := a * 65536 + b * 256 in
  n / 262144 < 64 /\ (n / 4096) mod 64 < 64 /\ (n / 64) mod 64 < 64 /\
  (let m := (n / 262144) * 4096 + ((n / 4096) mod 64) * 64 + (n / 64) mod 64 in
   m / 1024 = a /\ (m / 4) mod 256 = b).
Proof. intros Ha Hb n. subst n. cbv zeta. repeat split; lia. Qed.

Lemma sext1 (a : N) : a < 256 ->
  let n := a * 65536 in
  n / 262144 < 64 /\ (n / 4096) mod 64 < 64 /\ ((n / 262144) * 64 + (n / 4096) mod 64) / 16 = a.
Proof. intros Ha n. subst n. cbv zeta. repeat split; lia. Qed.

Theorem b64_dec_enc url l : wf_bytes l -> b64_dec url (b64_enc url l) = Some l.
Proof.
  induction l as [|a|a b|a b c r IH] using list_ind3; intros Hwf.
  - reflexivity.
  - inversion_clear Hwf as [|? ? Ha _].
    destruct (sext1 a Ha) as (H1 & H2 & H3).
    cbn [b64_enc b64_dec]. rewrite (b64_val_char url _ H1), (b64_val_char url _ H2).
    rewrite N.eqb_refl. cbn [andb]. rewrite H3. reflexivity.
  - inversion_clear Hwf as [|? ? Ha Hwf']. inversion_clear Hwf' as [|? ? Hb _].
    destruct (sext2 a b Ha Hb) as (H1 & H2 & H3 & H4 & H5).
    cbn [b64_enc b64_dec]. rewrite (b64_val_char url _ H1), (b64_val_char url _ H2), (b64_val_char url _ H3).
    rewrite (b64_char_not_pad url _ H3). cbn [andb]. rewrite N.eqb_refl. cbv zeta. rewrite H4, H5. reflexivity.
  - inversion_clear Hwf as [|? ? Ha Hwf']. inversion_clear Hwf' as [|? ? Hb Hwf'']. inversion_clear Hwf'' as [|? ? Hc Hr].
    destruct (sext3 a b c Ha Hb Hc) as (H1 & H2 & H3 & H4 & H5 & H6 & H7).
    cbn [b64_enc b64_dec]. rewrite (b64_val_char url _ H1), (b64_val_char url _ H2), (b64_val_char url _ H3), (b64_val_char url _ H4).
    rewrite (b64_char_not_pad url _ H3), (b64_char_not_pad url _ H4). cbn [andb]. rewrite (IH Hr). cbv zeta.
    rewrite H5, H6, H7. reflexivity.
Qed.

Theorem b64_enc_alphabet url l : wf_bytes l -> Forall (fun c => b64_out url c = true) (b64_enc url l).
Proof.
  induction l as [|a|a b|a b c r IH] using list_ind3; intros Hwf.
  - constructor.
  - inversion_clear Hwf as [|? ? Ha _]. destruct (sext1 a Ha) as (H1 & H2 & _). cbn [b64_enc].
    repeat constructor; auto using b64_out_char, b64_out_pad.
  - inversion_clear Hwf as [|? ? Ha Hwf']. inversion_clear Hwf' as [|? ? Hb _].
    destruct (sext2 a b Ha Hb) as (H1 & H2 & H3 & _). cbn [b64_enc].
    repeat constructor; auto using b64_out_char, b64_out_pad.
  - inversion_clear Hwf as [|? ? Ha Hwf']. inversion_clear Hwf' as [|? ? Hb Hwf'']. inversion_clear Hwf'' as [|? ? Hc Hr].
    destruct (sext3 a b c Ha Hb Hc) as (H1 & H2 & H3 & H4 & _). cbn [b64_enc].
    repeat (constructor; [apply b64_out_char; assumption|]). exact (IH Hr).
Qed.

Theorem b64_enc_length url l : length (b64_enc url l) = (4 * ((length l + 2) / 3))%nat.
Proof.
  induction l as [|a|a b|a b c r IH] using list_ind3; try reflexivity.
  cbn [b64_enc length]. rewrite IH.
  replace (S (S (S (length r))) + 2)%nat with (1 * 3 + (length r + 2))%nat by lia.
  rewrite Nat.div_add_l by lia. lia.
Qed.

Lemma b64_enc_nil url l : b64_enc url l = [] -> l = [].
Proof. destruct l as [|a [|b [|c r]]]; cbn [b64_enc]; intros H; [reflexivity | discriminate..]. Qed.

(* a frame whose payload avoids the separator's first byte ends at the payload's end *)
Lemma find0_foreign_head (h : N) (sep' x : bytes) :
  Forall (fun c => c <> h) x -> find0 (h :: sep') (x ++ h :: sep') = Some (length x).
Proof.
  induction x as [|c x IH]; intros Hx.
  - cbn [app length]. unfold find0. destruct sep' as [|s sep'']; cbn [prefixb]; rewrite N.eqb_refl; cbn [andb].
    + reflexivity.
    + assert (E : prefixb (s :: sep'') (s :: sep'') = true) by (rewrite <- (app_nil_r (s :: sep'')) at 2; apply prefixb_app).
      cbn [prefixb] in E. rewrite E. reflexivity.
  - inversion_clear Hx as [|? ? Hc Hx']. cbn [app length find0 prefixb].
    destruct (N.eqb_spec h c) as [E|_]; [congruence|]. cbn [andb]. rewrite (IH Hx'). reflexivity.
Qed.

Section B64SerializerProofs.
  Context {P : Type}.
  Variable url : bool.
  Variable checksum : option (bytes -> bytes).
  Variable inner_enc : P -> bytes.
  Variable inner_dec : decoder P.

  Hypothesis checksum_ok : forall h, checksum = Some h -> forall d, length (h d) = 32%nat /\ wf_bytes (h d).

  Definition b64_payload (p : P) : bytes :=
    match checksum with Some h => inner_enc p ++ h (inner_enc p) | None => inner_enc p end.

  Lemma b64_payload_wf p : wf_bytes (inner_enc p) -> wf_bytes (b64_payload p).
  Proof.
    intros H. unfold b64_payload. destruct checksum as [h|] eqn:E; [|exact H].
    apply Forall_app. split; [exact H | apply (checksum_ok h eq_refl)].
  Qed.

  (* deserialize(serialize(p)) = p whenever the wrapped serializer round-trips p *)
  Theorem b64_serializer_roundtrip p :
    wf_bytes (inner_enc p) -> inner_dec (inner_enc p) = Some p ->
    b64_deserialize url checksum inner_dec (b64_serialize url checksum inner_enc p) = Some p.
  Proof.
    intros Hwf Hrt. pose proof (b64_payload_wf p Hwf) as Hpw.
    unfold b64_deserialize, b64_serialize, b64_payload in *. cbv zeta.
    destruct checksum as [h|] eqn:E.
    - rewrite (b64_dec_enc url _ Hpw).
      destruct (checksum_ok h eq_refl (inner_enc p)) as (Hl & _).
      rewrite app_length, Hl. replace (length (inner_enc p) + 32 - 32)%nat with (length (inner_enc p)) by lia.
      rewrite firstn_app, Nat.sub_diag, firstn_all, firstn_O, app_nil_r.
      rewrite skipn_app, Nat.sub_diag, skipn_all, skipn_O. cbn [app].
      rewrite bytes_eqb_refl. exact Hrt.
    - rewrite (b64_dec_enc url _ Hpw). exact Hrt.
  Qed.

  (* the token never contains a byte outside the alphabet: a separator starting with such a byte (CR, LF, any
     whitespace, ...) first occurs in token ++ separator at the token's end *)
  Theorem b64_frame_ends_at_token p (h : N) (sep' : bytes) :
    wf_bytes (inner_enc p) -> b64_out url h = false ->
    find0 (h :: sep') (b64_serialize url checksum inner_enc p ++ h :: sep')
      = Some (length (b64_serialize url checksum inner_enc p)).
  Proof.
    intros Hwf Hh. apply find0_foreign_head.
    pose proof (b64_enc_alphabet url _ (b64_payload_wf p Hwf)) as HA.
    unfold b64_serialize, b64_payload in *. cbv zeta.
    eapply Forall_impl; [|exact HA].
    intros c Hc E. subst c. congruence.
  Qed.
End B64SerializerProofs.
