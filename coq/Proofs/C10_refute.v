(* F4: the model of the code as it is loses the bytes written into the buffer of a recv_into whose task gets a
   cancellation request between the read event and its wake-up (either order).  Witnesses checked by vm_compute. *)
From EN Require Import Lib.Bytes Conc.SockReader Conc.SockReaderSpec.

Definition hello : bytes := [104; 101; 108; 108; 111]%N.
Definition world : bytes := [32; 119; 111; 114; 108; 100]%N.

(* read event first, cancellation request second (e.g. a timeout firing in the iteration of the read event) *)
Definition witness_data_cancel : list label :=
  [LRecvInto 8; LData hello; LCancel; LTurn; LWake; LData world; LRecv 64; LTurn; LWake].
(* cancellation request first, read event second (e.g. another task cancels, then the selector reports the socket) *)
Definition witness_cancel_data : list label :=
  [LRecvInto 8; LCancel; LData hello; LTurn; LWake; LData world; LRecv 64; LTurn; LWake].

Definition loses (fixed : bool) (ls : list label) : Prop :=
  let '(s, os) := exec fixed init ls in
  lost_exc s = None /\ delivered s = hello ++ world /\ received os = world /\ parked s = [] /\ tpc s = PIdle.

Lemma loses_data_cancel : loses false witness_data_cancel.
Proof. vm_compute. repeat split. Qed.

Lemma loses_cancel_data : loses false witness_cancel_data.
Proof. vm_compute. repeat split. Qed.

Lemma no_loss_refuted_proof :
  exists ls, let '(s, os) := exec false init ls in
             lost_exc s = None /\ delivered s = hello ++ world /\ received os = world /\ parked s = [] /\ tpc s = PIdle.
Proof. exists witness_data_cancel. vm_compute. repeat split. Qed.

Lemma no_loss_refuted_cancel_first_proof :
  exists ls, let '(s, os) := exec false init ls in
             lost_exc s = None /\ delivered s = hello ++ world /\ received os = world /\ parked s = [] /\ tpc s = PIdle.
Proof. exists witness_cancel_data. vm_compute. repeat split. Qed.

(* the same label sequences on the repaired protocol *)
Lemma fixed_keeps_witnesses :
  received (snd (exec true init witness_data_cancel)) = hello ++ world /\
  received (snd (exec true init witness_cancel_data)) = hello ++ world.
Proof. split; vm_compute; reflexivity. Qed.
