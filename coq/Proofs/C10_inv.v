(* Invariant of the SockReader LTS and the no-loss theorems (proved for every label sequence, by induction). *)
From Coq Require Import List Bool Arith Lia.
From EN Require Import Lib.Bytes Conc.SockReader Conc.SockReaderSpec.
Import ListNotations.

Record Inv (fixed : bool) (s : st) : Prop := {
  inv_idle : tpc s = PIdle -> waiter s = None /\ ext s = None /\ extdata s = [] /\ must_cancel s = false;
  inv_yield : forall o, tpc s = PYield o -> waiter s = Some (WRes None) /\ ext s = None /\ extdata s = [];
  inv_wait : forall o, tpc s = PWait o -> waiter s <> None;
  inv_ext : forall k, ext s = Some k -> ibuf s = [] /\ extdata s = [];
  inv_extdata : extdata s <> [] -> exists n, waiter s = Some (WRes (Some n));
  inv_mc_pending : must_cancel s = true -> waiter s <> Some WPending;
  inv_mc_extdata : fixed = false -> must_cancel s = true -> extdata s = [];
  inv_lost_exc : lost s = false -> lost_exc s = None;
  inv_lost_ibuf : lost s = true -> ibuf s = [];
  inv_no_loss : no_loss_at s
}.

Lemma inv_init : forall fixed, Inv fixed init.
Proof.
  intro fixed. constructor; simpl.
  - intros _. repeat split; reflexivity.
  - intros o Hp. discriminate.
  - intros o Hp. discriminate.
  - intros k Hk. discriminate.
  - intro Hne. exfalso. apply Hne. reflexivity.
  - intro Hm. discriminate.
  - intros _ Hm. discriminate.
  - intros _. reflexivity.
  - intro Hl. discriminate.
  - exists []. split; [reflexivity | intro Hne; exfalso; apply Hne; reflexivity].
Qed.

Lemma nil_or_not : forall (b : bytes), b = [] \/ b <> [].
Proof. destruct b; [left; reflexivity | right; discriminate]. Qed.

Lemma tail_nil : forall s (tail : bytes), lost_exc s = None -> (tail <> [] -> lost_exc s <> None) -> tail = [].
Proof. intros s tail H1 H2. destruct tail; [reflexivity|]. exfalso. apply H2; [discriminate | assumption]. Qed.

Ltac inv_fields H :=
  let Hidle := fresh "Hidle" in let Hyield := fresh "Hyield" in let Hwait := fresh "Hwait" in
  let Hext := fresh "Hext" in let Hed := fresh "Hed" in let Hmcp := fresh "Hmcp" in let Hmce := fresh "Hmce" in
  let Hle := fresh "Hle" in let Hli := fresh "Hli" in let Hnl := fresh "Hnl" in
  destruct H as [Hidle Hyield Hwait Hext Hed Hmcp Hmce Hle Hli Hnl].

Ltac lnorm := repeat rewrite <- app_assoc; simpl; repeat rewrite app_nil_r; simpl.

Ltac use_pc :=
  try match goal with Hi : tpc ?s = PIdle -> _, Hp : tpc ?s = PIdle |- _ => destruct (Hi Hp) as (? & ? & ? & ?) end;
  try match goal with Hy : (forall o, tpc ?s = PYield o -> _), Hp : tpc ?s = PYield ?o |- _ =>
        destruct (Hy o Hp) as (? & ? & ?) end;
  try match goal with Hx : (forall k, ext ?s = Some k -> _), Hk : ext ?s = Some ?k |- _ =>
        destruct (Hx k Hk) as (? & ?) end.

Ltac fld :=
  simpl; intros; use_pc;
  try discriminate; try assumption; try congruence;
  try (repeat split; first [assumption | congruence | reflexivity]);
  try (exfalso; congruence);
  try match goal with Hne : ?x <> [] , Hd : ?x = [] |- _ => exfalso; exact (Hne Hd) end;
  try match goal with Hne : [] <> [] |- _ => exfalso; apply Hne; reflexivity end;
  try (eexists; reflexivity);
  eauto.

(* extdata is empty unless the waiter holds a byte count *)
Lemma extdata_nil_if : forall fixed s, Inv fixed s ->
  (forall n, waiter s <> Some (WRes (Some n))) -> extdata s = [].
Proof.
  intros fixed s H Hw. destruct (nil_or_not (extdata s)) as [E|E]; [assumption|].
  destruct (inv_extdata _ _ H E) as [n Hn]. exfalso. exact (Hw n Hn).
Qed.

Section Steps.
  Variable fixed : bool.

  Lemma call_inv : forall s o, Inv fixed s -> Inv fixed (fst (call s o)).
  Proof.
    intros s o H. unfold call.
    destruct (lost_exc s) eqn:Ele; [exact H|].
    destruct (Nat.eqb (op_size o) 0); [exact H|].
    destruct (waiter s) eqn:Ew; [exact H|].
    destruct (negb (is_idle (tpc s))) eqn:Eidle; [exact H|].
    assert (Hp : tpc s = PIdle) by (destruct (tpc s); simpl in Eidle; congruence).
    destruct (inv_idle _ _ H Hp) as (_ & Hx & Hd & Hm).
    pose proof (inv_lost_exc _ _ H) as Hle. pose proof (inv_no_loss _ _ H) as Hnl.
    pose proof (inv_lost_ibuf _ _ H) as Hli.
    destruct (negb (is_nil (ibuf s)) || eof s) eqn:Eb; simpl.
    - constructor; [fld .. | exact Hnl].
    - assert (Hib : ibuf s = []) by (destruct (ibuf s); simpl in Eb; [reflexivity | discriminate]).
      constructor; [fld .. | exact Hnl].
  Qed.

  Lemma schedule_wakeup_fields : forall s,
    ibuf (schedule_wakeup s) = ibuf s /\ ext (schedule_wakeup s) = ext s /\ extdata (schedule_wakeup s) = extdata s /\
    waiter (schedule_wakeup s) = waiter s /\ eof (schedule_wakeup s) = eof s /\ lost (schedule_wakeup s) = lost s /\
    lost_exc (schedule_wakeup s) = lost_exc s /\ tpc (schedule_wakeup s) = tpc s /\
    must_cancel (schedule_wakeup s) = must_cancel s /\ delivered (schedule_wakeup s) = delivered s /\
    returned (schedule_wakeup s) = returned s.
  Proof. intro s. unfold schedule_wakeup. destruct (is_waiting (tpc s)); simpl; repeat split; reflexivity. Qed.

  (* an invariant only talks about the fields schedule_wakeup leaves alone *)
  Lemma schedule_wakeup_inv : forall s, Inv fixed s -> Inv fixed (schedule_wakeup s).
  Proof.
    intros s H. unfold schedule_wakeup. destruct (is_waiting (tpc s)); [|exact H].
    inv_fields H. constructor; [fld .. | exact Hnl].
  Qed.

  Lemma wakeup_read_waiter_inv : forall s e, Inv fixed s -> Inv fixed (wakeup_read_waiter s e).
  Proof.
    intros s e H. unfold wakeup_read_waiter.
    destruct (is_pending (waiter s)) eqn:Ep; [|exact H].
    assert (Hw : waiter s = Some WPending) by (destruct (waiter s) as [[]|]; simpl in Ep; congruence).
    apply schedule_wakeup_inv.
    assert (Hd : extdata s = []) by (apply (extdata_nil_if _ _ H); intros n Hn; congruence).
    inv_fields H. constructor; simpl; auto.
    - intro Hp. destruct (Hidle Hp) as (Hn & _). congruence.
    - intros o Hp. destruct (Hyield o Hp) as (Hn & _). congruence.
    - intros o Hp. destruct e; discriminate.
    - intro Hne. exfalso. apply Hne. exact Hd.
    - intros Hm. destruct e; discriminate.
  Qed.

  Lemma data_inv : forall s b, Inv fixed s -> (fixed = false -> racyb s (LData b) = false) ->
    Inv fixed (fst (data fixed s b)).
  Proof.
    intros s b H Hrace. unfold data.
    destruct (lost s || eof s || is_nil b) eqn:Edis; [exact H|].
    assert (Hlost : lost s = false) by (destruct (lost s); [discriminate | reflexivity]).
    pose proof (inv_lost_exc _ _ H Hlost) as Hle0.
    pose proof (inv_no_loss _ _ H) as (tail & Hnl1 & Hnl2).
    assert (Ht : tail = []) by (apply (tail_nil s); assumption). subst tail.
    destruct (ext s) as [cap|] eqn:Eext.
    - (* an external view is exported *)
      destruct (inv_ext _ _ H cap Eext) as (Hib & Hd).
      assert (Hpend : is_pending (waiter s) = true \/ (fixed = true /\ is_pending (waiter s) = false)).
      { destruct (is_pending (waiter s)) eqn:Ep; [left; reflexivity|]. right. split; [|reflexivity].
        destruct fixed; [reflexivity|]. specialize (Hrace eq_refl). unfold racyb in Hrace.
        rewrite Eext, Ep, Edis in Hrace. discriminate. }
      destruct Hpend as [Ep | (Hf & Ep)].
      + (* the waiter is pending: the bytes go to the caller's buffer and the waiter gets the count *)
        replace (if fixed then is_pending (waiter s) else true) with true by (destruct fixed; congruence).
        cbn [fst]. simpl waiter. rewrite Ep. cbn [fst].
        apply schedule_wakeup_inv.
        assert (Hw : waiter s = Some WPending) by (destruct (waiter s) as [[]|]; simpl in Ep; congruence).
        inv_fields H. constructor; [fld .. | ].
        * exfalso. apply (Hmcp H0). exact Hw.
        * exists []. split; [|congruence]. unfold parked in *. simpl.
          rewrite Hib, Hd in Hnl1. simpl in Hnl1. rewrite Hib. rewrite !app_nil_r in *. rewrite <- Hnl1. reflexivity.
      + (* repaired code only: the waiter is done, get_buffer() hands out the protocol's own buffer *)
        replace (if fixed then is_pending (waiter s) else true) with false by (rewrite Hf; congruence).
        cbn [fst].
        apply wakeup_read_waiter_inv.
        inv_fields H. constructor; [fld .. | ].
        exists []. split; [|congruence]. unfold parked in *. simpl.
        rewrite !app_nil_r in *. rewrite <- Hnl1. rewrite !app_assoc. reflexivity.
    - (* no external view: the protocol's own buffer *)
      cbn [fst].
      apply wakeup_read_waiter_inv.
      inv_fields H. constructor; [fld .. | ].
      exists []. split; [|congruence]. unfold parked in *. simpl.
      rewrite !app_nil_r in *. rewrite <- Hnl1. rewrite !app_assoc. reflexivity.
  Qed.

  Lemma eof_inv : forall s, Inv fixed s -> Inv fixed (fst (eof_received s)).
  Proof.
    intros s H. unfold eof_received. destruct (lost s); [exact H|]. cbn [fst].
    apply wakeup_read_waiter_inv.
    inv_fields H. constructor; [fld .. | exact Hnl].
  Qed.

  Lemma lost_inv : forall s exc, Inv fixed s -> Inv fixed (fst (connection_lost s exc)).
  Proof.
    intros s exc H. unfold connection_lost. destruct (lost s) eqn:El; [exact H|]. cbn [fst].
    apply wakeup_read_waiter_inv.
    pose proof (inv_lost_exc _ _ H El) as Hle0.
    pose proof (inv_no_loss _ _ H) as (tail & Hnl1 & Hnl2).
    assert (Ht : tail = []) by (apply (tail_nil s); assumption). subst tail.
    set (e := if exc then Some EEnv else if is_nil (ibuf s) then None else Some EReset).
    assert (He : ibuf s <> [] -> e <> None).
    { intro Hne. unfold e. destruct exc; [discriminate|]. destruct (ibuf s); [congruence | simpl; discriminate]. }
    inv_fields H.
    assert (Hcore : forall s', ibuf s' = [] -> ext s' = ext s -> extdata s' = extdata s -> waiter s' = waiter s ->
                               lost s' = true -> lost_exc s' = e -> tpc s' = tpc s -> must_cancel s' = must_cancel s ->
                               delivered s' = delivered s -> returned s' = returned s -> Inv fixed s').
    { intros s' E1 E2 E3 E4 E5 E6 E7 E8 E9 E10.
      constructor; rewrite ?E1, ?E2, ?E3, ?E4, ?E5, ?E7, ?E8, ?E9, ?E10; [fld .. | ].
      exists (ibuf s). split.
      - unfold parked in *. rewrite E1, E3, E9, E10. rewrite app_nil_r in *. rewrite <- Hnl1. simpl. reflexivity.
      - rewrite E6. exact He. }
    destruct e eqn:Ee; apply Hcore; simpl; auto.
  Qed.

  Lemma cancel_inv : forall s, Inv fixed s -> (fixed = false -> racyb s LCancel = false) ->
    Inv fixed (fst (cancel s)).
  Proof.
    intros s H Hrace. unfold cancel.
    assert (Hmc : forall s', ibuf s' = ibuf s -> ext s' = ext s -> extdata s' = extdata s -> waiter s' = waiter s ->
                             lost s' = lost s -> lost_exc s' = lost_exc s -> tpc s' = tpc s -> must_cancel s' = true ->
                             delivered s' = delivered s -> returned s' = returned s ->
                             tpc s <> PIdle -> waiter s <> Some WPending -> Inv fixed s').
    { intros s' E1 E2 E3 E4 E5 E6 E7 E8 E9 E10 Hni Hnp. inv_fields H.
      constructor; rewrite ?E1, ?E2, ?E3, ?E4, ?E5, ?E6, ?E7, ?E9, ?E10; [fld .. | ].
      - specialize (Hrace H). unfold racyb in Hrace.
        destruct (extdata s); [reflexivity | discriminate].
      - destruct Hnl as (tail & Hn1 & Hn2). exists tail. unfold parked in *. rewrite E1, E3, E6, E9, E10. auto. }
    destruct (tpc s) eqn:Ep; [exact H| |].
    - destruct (is_pending (waiter s)) eqn:Epend; cbn [fst].
      + apply schedule_wakeup_inv.
        assert (Hw : waiter s = Some WPending) by (destruct (waiter s) as [[]|]; simpl in Epend; congruence).
        assert (Hd : extdata s = []) by (apply (extdata_nil_if _ _ H); intros n Hn; congruence).
        inv_fields H. constructor; [fld .. | exact Hnl].
      + apply Hmc; simpl; auto; try congruence.
        intro Hw. rewrite Hw in Epend. discriminate.
    - cbn [fst]. apply Hmc; simpl; auto; try congruence.
      destruct (inv_yield _ _ H _ Ep) as (Hw & _). congruence.
  Qed.

  Lemma finish_inv : forall s o v,
    waiter s = None -> ext s = None -> must_cancel s = false ->
    (v = None -> extdata s = []) ->
    (lost s = false -> lost_exc s = None) -> (lost s = true -> ibuf s = []) -> no_loss_at s ->
    Inv fixed (fst (finish s o v)).
  Proof.
    intros s o v Hw Hx Hm Hv Hle Hli (tail & Hn1 & Hn2). unfold finish.
    destruct v as [n|].
    - cbn [fst]. constructor; [fld .. | ].
      exists tail. split; [|exact Hn2]. unfold parked in *. simpl. rewrite <- Hn1. rewrite !app_assoc. reflexivity.
    - specialize (Hv eq_refl).
      destruct (lost_exc (set_tpc s PIdle)) eqn:Ele; cbn [fst].
      + constructor; [fld .. | ].
        exists tail. split; [exact Hn1 | exact Hn2].
      + simpl in Ele. constructor; [fld .. | ].
        * rewrite (Hli H). apply skipn_nil.
        * exists tail. split; [|exact Hn2]. unfold parked in *. simpl. rewrite Hv in *. simpl in *.
          rewrite <- Hn1. rewrite <- (firstn_skipn (op_size o) (ibuf s)) at 3. rewrite !app_assoc. reflexivity.
  Qed.

  Lemma park_no_loss : forall s, Inv fixed s ->
    extdata (park s) = [] /\ (lost (park s) = false -> lost_exc (park s) = None) /\
    (lost (park s) = true -> ibuf (park s) = []) /\ no_loss_at (park s) /\
    tpc (park s) = tpc s /\ waiter (park s) = waiter s /\ ext (park s) = ext s /\ must_cancel (park s) = must_cancel s.
  Proof.
    intros s H. pose proof (inv_no_loss _ _ H) as (tail & Hn1 & Hn2). pose proof (inv_lost_exc _ _ H) as Hle.
    pose proof (inv_lost_ibuf _ _ H) as Hli.
    assert (Hother : (forall n, waiter s <> Some (WRes (Some n))) ->
       extdata (set_extdata s []) = [] /\ (lost (set_extdata s []) = false -> lost_exc (set_extdata s []) = None) /\
       (lost (set_extdata s []) = true -> ibuf (set_extdata s []) = []) /\ no_loss_at (set_extdata s []) /\ tpc (set_extdata s []) = tpc s /\ waiter (set_extdata s []) = waiter s /\
       ext (set_extdata s []) = ext s /\ must_cancel (set_extdata s []) = must_cancel s).
    { intro Hw. assert (Hd : extdata s = []) by (apply (extdata_nil_if _ _ H); exact Hw).
      simpl. repeat split; auto.
      exists tail. unfold parked in *. simpl. rewrite Hd in Hn1. simpl in Hn1. auto. }
    unfold park.
    destruct (waiter s) as [[ | [n|] | | ]|] eqn:Ew; try (apply Hother; intros n' Hn'; congruence).
    destruct (lost s) eqn:El.
    - specialize (Hli eq_refl).
      destruct (lost_exc s) eqn:Ee; simpl; repeat split; auto; try congruence.
      + exists (extdata s ++ tail). unfold parked in *. simpl. split.
        * rewrite <- Hn1, Hli. lnorm. reflexivity.
        * rewrite Ee. congruence.
      + exists (extdata s ++ tail). unfold parked in *. simpl. split.
        * rewrite <- Hn1, Hli. lnorm. reflexivity.
        * congruence.
    - simpl. repeat split; auto.
      + intro Hl. congruence.
      + exists tail. unfold parked in *. simpl. split; [|exact Hn2]. rewrite <- Hn1. lnorm. reflexivity.
  Qed.

  Lemma resume_inv : forall s, Inv fixed s -> Inv fixed (fst (resume fixed s)).
  Proof.
    intros s H. unfold resume.
    destruct (tpc s) as [|o|o] eqn:Ep; [exact H| |].
    - (* suspended on the waiter *)
      destruct (must_cancel s || match waiter s with Some WCancelled => true | _ => false end) eqn:Ec.
      + (* woken up by a cancellation *)
        cbn [fst].
        assert (Hpk : exists s1, s1 = (if fixed then park s else set_extdata s []) /\
                 extdata s1 = [] /\ (lost s1 = false -> lost_exc s1 = None) /\ (lost s1 = true -> ibuf s1 = []) /\
                 no_loss_at s1).
        { eexists. split; [reflexivity|].
          assert (Hcase : fixed = true \/ fixed = false) by (destruct fixed; auto).
          destruct Hcase as [Ef|Ef].
          - replace (if fixed then park s else set_extdata s []) with (park s) by (rewrite Ef; reflexivity).
            destruct (park_no_loss s H) as (A & B & C & D & _). auto.
          - replace (if fixed then park s else set_extdata s []) with (set_extdata s []) by (rewrite Ef; reflexivity).
            simpl. split; [reflexivity|]. split; [exact (inv_lost_exc _ _ H)|]. split; [exact (inv_lost_ibuf _ _ H)|].
            assert (Hd : extdata s = []).
            { destruct (must_cancel s) eqn:Em.
              - exact (inv_mc_extdata _ _ H Ef Em).
              - apply (extdata_nil_if _ _ H). intros n Hn. rewrite Hn in Ec. simpl in Ec. discriminate. }
            destruct (inv_no_loss _ _ H) as (tail & Hn1 & Hn2). exists tail. unfold parked in *. simpl.
            rewrite Hd in Hn1. auto. }
        destruct Hpk as (s1 & Es1 & Hd1 & Hle1 & Hli1 & (tail & Hn1 & Hn2)). rewrite <- Es1.
        constructor; [fld .. | ].
        exists tail. unfold parked in *. simpl. rewrite Hd1 in *. auto.
      + apply orb_false_iff in Ec. destruct Ec as (Em & Ecw).
        destruct (waiter s) as [[ | v | | e]|] eqn:Ew; try exact H; try discriminate.
        * (* result *)
          apply finish_inv; simpl; auto.
          -- intro Hv. subst v. apply (extdata_nil_if _ _ H). intros n Hn. congruence.
          -- exact (inv_lost_exc _ _ H).
          -- exact (inv_lost_ibuf _ _ H).
          -- destruct (inv_no_loss _ _ H) as (tail & Hn1 & Hn2). exists tail. unfold parked in *. simpl. auto.
        * (* exception *)
          cbn [fst].
          assert (Hd : extdata s = []) by (apply (extdata_nil_if _ _ H); intros n Hn; congruence).
          inv_fields H. constructor; [fld .. | exact Hnl].
    - (* suspended in coro_yield() *)
      destruct (inv_yield _ _ H o Ep) as (Hw & Hx & Hd).
      destruct (must_cancel s) eqn:Em; cbn [fst].
      + inv_fields H. constructor; [fld .. | exact Hnl].
      + apply finish_inv; simpl; auto.
        * exact (inv_lost_exc _ _ H).
        * exact (inv_lost_ibuf _ _ H).
        * destruct (inv_no_loss _ _ H) as (tail & Hn1 & Hn2). exists tail. unfold parked in *. simpl. auto.
  Qed.

  Lemma set_cur_inv : forall s q, Inv fixed s -> Inv fixed (set_cur s q).
  Proof. intros s q H. inv_fields H. constructor; [fld .. | exact Hnl]. Qed.

  Lemma wake_inv : forall s, Inv fixed s -> Inv fixed (fst (wake fixed s)).
  Proof.
    intros s H. unfold wake. destruct (cur s) as [|[] q]; [exact H|].
    apply resume_inv. apply set_cur_inv. exact H.
  Qed.

  Lemma turn_inv : forall s, Inv fixed s -> Inv fixed (fst (turn s)).
  Proof.
    intros s H. unfold turn. destruct (cur s); [|exact H]. cbn [fst].
    inv_fields H. constructor; [fld .. | exact Hnl].
  Qed.

  Lemma step_inv : forall s l, Inv fixed s -> (fixed = false -> racyb s l = false) -> Inv fixed (fst (step fixed s l)).
  Proof.
    intros s l H Hr. destruct l; simpl.
    - apply call_inv; assumption.
    - apply call_inv; assumption.
    - apply data_inv; assumption.
    - apply eof_inv; assumption.
    - apply lost_inv; assumption.
    - apply cancel_inv; assumption.
    - apply wake_inv; assumption.
    - apply turn_inv; assumption.
  Qed.
End Steps.

Lemma exec_fst_cons : forall fixed s l ls,
  fst (exec fixed s (l :: ls)) = fst (exec fixed (fst (step fixed s l)) ls).
Proof.
  intros. simpl. destruct (step fixed s l) as [s1 o]. simpl. destruct (exec fixed s1 ls). reflexivity.
Qed.

Lemma exec_inv_fixed : forall ls s, Inv true s -> Inv true (fst (exec true s ls)).
Proof.
  induction ls as [|l ls IH]; intros s H; [exact H|].
  rewrite exec_fst_cons. apply IH. apply step_inv; [exact H | discriminate].
Qed.

Lemma exec_inv_race_free : forall ls s, Inv false s -> race_free s ls -> Inv false (fst (exec false s ls)).
Proof.
  induction ls as [|l ls IH]; intros s H Hr; [exact H|].
  rewrite exec_fst_cons. destruct Hr as (Hr1 & Hr2). apply IH; [|exact Hr2].
  apply step_inv; [exact H | intros _; exact Hr1].
Qed.

(* ---- main statements *)
Lemma no_loss_fixed_proof : forall ls, no_loss_at (run_labels true ls).
Proof. intro ls. apply inv_no_loss with (fixed := true). apply exec_inv_fixed. apply inv_init. Qed.

Lemma no_loss_race_free_proof : forall ls, race_free init ls -> no_loss_at (run_labels false ls).
Proof. intros ls Hr. apply inv_no_loss with (fixed := false). apply exec_inv_race_free; [apply inv_init | exact Hr]. Qed.

(* without recv_into no external view is ever exported, so no step is racy *)
Ltac break_match :=
  repeat match goal with
         | |- context [match ?x with _ => _ end] => destruct x eqn:?; simpl in *
         end.

Lemma step_keeps_no_ext : forall s l, ext s = None -> extdata s = [] -> has_recv_into l = false ->
  ext (fst (step false s l)) = None /\ extdata (fst (step false s l)) = [].
Proof.
  intros s l Hx Hd Hl.
  destruct s as [ib ex ed w e lo le p mc c n dl r]. simpl in Hx, Hd. subst ex ed.
  destruct l; simpl in Hl; try discriminate;
    unfold step, call, data, eof_received, connection_lost, cancel, wake, turn, resume, finish,
           wakeup_read_waiter, schedule_wakeup; simpl;
    break_match; simpl; auto.
Qed.

Lemma no_ext_race_free : forall ls s, Inv false s -> ext s = None -> extdata s = [] ->
  forallb (fun l => negb (has_recv_into l)) ls = true -> race_free s ls.
Proof.
  induction ls as [|l ls IH]; intros s H Hx Hd Hall; [exact I|].
  simpl in Hall. apply andb_true_iff in Hall. destruct Hall as (Hl & Hall).
  assert (Hr : racyb s l = false).
  { destruct l; simpl; try reflexivity.
    - rewrite Hx. reflexivity.
    - rewrite Hd. reflexivity. }
  split; [exact Hr|].
  pose proof (step_inv false s l H (fun _ => Hr)) as H'.
  destruct (step_keeps_no_ext s l Hx Hd) as (Hx' & Hd').
  { destruct (has_recv_into l); [discriminate | reflexivity]. }
  apply IH; assumption.
Qed.

Lemma no_loss_recv_path_proof : forall ls,
  forallb (fun l => negb (has_recv_into l)) ls = true -> no_loss_at (run_labels false ls).
Proof.
  intros ls Hall. apply no_loss_race_free_proof. apply no_ext_race_free; auto. apply inv_init.
Qed.
