(* Invariants of the FairLock model over every label sequence (including cancellation of any waiter at any time). *)
From Coq Require Import List Arith Bool Lia ZifyBool Sorting.Sorted.
From EN Require Import Conc.FairLock.
Import ListNotations.

Definition unset_all (ws : list waiter) : Prop := Forall (fun w => w_set w = false) ws.

Record fl_inv (s : fl) : Prop := mkInv {
  inv_hold : if fl_locked s then exists t, fl_holders s = [t] else fl_holders s = [];
  inv_set : match fl_waiters s with
            | [] => True
            | w :: r => (w_set w = true -> fl_locked s = false) /\ unset_all r
            end;
  inv_wake : fl_locked s = false ->
             match fl_waiters s with [] => True | w :: _ => w_set w = true end;
  inv_nodup : NoDup (map w_tid (fl_waiters s));
  inv_disj : forall t, In t (fl_holders s) -> ~ In t (map w_tid (fl_waiters s))
}.

Lemma fl_inv_init : fl_inv fl_init.
Proof. constructor; simpl; auto using NoDup_nil. Qed.

(* ---- list facts about waiters *)

Lemma NoDup_app_single : forall (l : list nat) x, NoDup l -> ~ In x l -> NoDup (l ++ [x]).
Proof.
  induction l as [|y l IH]; simpl; intros x H Hx.
  - constructor; auto using NoDup_nil.
  - inversion H; subst. constructor.
    + rewrite in_app_iff. simpl. intros [C|[C|[]]]; auto.
    + apply IH; auto.
Qed.

Lemma existsb_is_tid_In : forall t ws, existsb (is_tid t) ws = true <-> In t (map w_tid ws).
Proof.
  intros t ws; induction ws as [|w r IH]; simpl.
  - split; [discriminate | tauto].
  - unfold is_tid at 1. rewrite orb_true_iff, IH, Nat.eqb_eq. tauto.
Qed.

Lemma mem_tid_In : forall t l, mem_tid t l = true <-> In t l.
Proof.
  intros t l; unfold mem_tid; rewrite existsb_exists; split.
  - intros [x [Hx E]]. apply Nat.eqb_eq in E. subst; auto.
  - intros H; exists t; split; auto. apply Nat.eqb_refl.
Qed.

Lemma remove_waiter_notin : forall t ws, ~ In t (map w_tid ws) -> remove_waiter t ws = ws.
Proof.
  intros t ws; induction ws as [|w r IH]; simpl; intros H; auto.
  unfold is_tid at 1. destruct (Nat.eqb (w_tid w) t) eqn:E.
  - apply Nat.eqb_eq in E. tauto.
  - simpl. f_equal. apply IH. tauto.
Qed.

Lemma remove_waiter_subset : forall t ws x, In x (remove_waiter t ws) -> In x ws.
Proof. intros t ws x H. unfold remove_waiter in H. apply filter_In in H. tauto. Qed.

Lemma remove_waiter_tids : forall t ws x, In x (map w_tid (remove_waiter t ws)) -> In x (map w_tid ws) /\ x <> t.
Proof.
  intros t ws x H. apply in_map_iff in H. destruct H as [w [E H]]. unfold remove_waiter in H.
  apply filter_In in H. destruct H as [H1 H2]. split.
  - apply in_map_iff. exists w; auto.
  - unfold is_tid in H2. apply negb_true_iff, Nat.eqb_neq in H2. congruence.
Qed.

Lemma remove_waiter_nodup : forall t ws, NoDup (map w_tid ws) -> NoDup (map w_tid (remove_waiter t ws)).
Proof.
  intros t ws; induction ws as [|w r IH]; simpl; intros H; auto.
  inversion H; subst. destruct (negb (is_tid t w)); simpl; auto.
  constructor; auto. intros C. apply remove_waiter_tids in C. tauto.
Qed.

Lemma remove_waiter_unset : forall t ws, unset_all ws -> unset_all (remove_waiter t ws).
Proof.
  intros t ws H. unfold unset_all in *. rewrite Forall_forall in *. intros x Hx. apply H.
  eapply remove_waiter_subset; eauto.
Qed.

Lemma find_waiter_some : forall t ws w, find_waiter t ws = Some w -> In w ws /\ w_tid w = t.
Proof.
  intros t ws w H. unfold find_waiter in H. apply find_some in H. destruct H as [H1 H2].
  unfold is_tid in H2. apply Nat.eqb_eq in H2. auto.
Qed.

Lemma wake_tids : forall ws, map w_tid (wake_up_first ws) = map w_tid ws.
Proof. destruct ws; simpl; auto. Qed.

Lemma wake_tickets : forall ws, map w_ticket (wake_up_first ws) = map w_ticket ws.
Proof. destruct ws; simpl; auto. Qed.

(* a set waiter found in a queue whose tail is unset is the head *)
Lemma set_waiter_is_head :
  forall t w0 r w, unset_all r -> find_waiter t (w0 :: r) = Some w -> w_set w = true -> w = w0.
Proof.
  intros t w0 r w Hr Hf Hs. unfold find_waiter in Hf. simpl in Hf.
  destruct (is_tid t w0); [congruence|].
  apply find_some in Hf. destruct Hf as [Hin _]. unfold unset_all in Hr. rewrite Forall_forall in Hr.
  apply Hr in Hin. congruence.
Qed.

Lemma remove_head : forall w r, NoDup (map w_tid (w :: r)) -> remove_waiter (w_tid w) (w :: r) = r.
Proof.
  intros w r H. simpl. unfold is_tid at 1. rewrite Nat.eqb_refl. simpl.
  inversion H; subst. apply remove_waiter_notin; auto.
Qed.

(* ---- preservation *)

Lemma fl_acquire_inv : forall t s s' got, fl_inv s -> fl_idle t s = true -> fl_acquire t s = (s', got) -> fl_inv s'.
Proof.
  intros t s s' got I Hidle H. unfold fl_acquire in H. destruct I as [Ih Is Iw Ind Id].
  unfold fl_idle, fl_waiting in Hidle. apply andb_true_iff in Hidle. destruct Hidle as [Hw Hh].
  apply negb_true_iff in Hw. apply negb_true_iff in Hh.
  assert (Hnw : ~ In t (map w_tid (fl_waiters s))).
  { intros C. apply existsb_is_tid_In in C. congruence. }
  assert (Hnh : ~ In t (fl_holders s)).
  { intros C. apply mem_tid_In in C. congruence. }
  destruct (fl_locked s || negb (is_nil (fl_waiters s))) eqn:E; inversion H; subst; clear H.
  - constructor; simpl.
    + exact Ih.
    + destruct (fl_waiters s) as [|w r]; simpl.
      * split; [discriminate | constructor].
      * destruct Is as [Is1 Is2]. split; auto. apply Forall_app; split; auto.
    + intros Hl. specialize (Iw Hl). destruct (fl_waiters s) as [|w r]; simpl; auto.
      rewrite Hl in E. simpl in E. discriminate.
    + rewrite map_app. simpl. apply NoDup_app_single; auto.
    + intros x Hx. rewrite map_app, in_app_iff. simpl. intros [C|[C|[]]].
      * eapply Id; eauto.
      * subst. tauto.
  - apply orb_false_iff in E. destruct E as [El Ew]. apply negb_false_iff in Ew.
    destruct (fl_waiters s) as [|w r] eqn:EW; [|discriminate].
    rewrite El in Ih. constructor; simpl; auto using NoDup_nil; try discriminate.
    exists t. rewrite Ih. reflexivity.
Qed.

Lemma unset_head_inv :
  forall (b : bool) r, unset_all r ->
    match r with [] => True | w :: r' => (w_set w = true -> b = false) /\ unset_all r' end.
Proof.
  intros b r H. destruct r as [|w r']; auto. inversion H; subst. split; auto. congruence.
Qed.

Lemma fl_resume_inv : forall t s s', fl_inv s -> fl_resume t s = Some s' -> fl_inv s'.
Proof.
  intros t s s' I H. unfold fl_resume in H. destruct I as [Ih Is Iw Ind Id].
  destruct (find_waiter t (fl_waiters s)) as [w|] eqn:F; [|discriminate].
  destruct (w_set w) eqn:S; [|discriminate]. inversion H; subst; clear H.
  destruct (fl_waiters s) as [|w0 r] eqn:EW; [discriminate|].
  destruct Is as [Is1 Is2].
  assert (w = w0) by (eapply set_waiter_is_head; eauto). subst w0.
  destruct (find_waiter_some _ _ _ F) as [_ Et]. subst t.
  rewrite remove_head by exact Ind.
  specialize (Is1 S). rewrite Is1 in Ih.
  simpl in Ind. inversion Ind; subst.
  constructor; simpl; auto; try discriminate.
  - exists (w_tid w). rewrite Ih. reflexivity.
  - apply unset_head_inv; auto.
  - rewrite Ih. simpl. intros x [E|[]]. subst. auto.
Qed.

Lemma wake_inv_set : forall ws, unset_all (tl ws) ->
  match wake_up_first ws with [] => True | w :: r => (w_set w = true -> false = false) /\ unset_all r end.
Proof. intros [|w r] H; simpl; auto. Qed.

Lemma wake_inv_wake : forall ws, match wake_up_first ws with [] => True | w :: _ => w_set w = true end.
Proof. intros [|w r]; simpl; auto. Qed.

Lemma unset_tl : forall ws, unset_all ws -> unset_all (tl ws).
Proof. intros [|w r] H; simpl; auto. inversion H; auto. Qed.

(* removing a waiter from a queue whose tail is unset leaves a queue whose tail is unset *)
Lemma remove_tail_unset : forall t w r, unset_all r -> unset_all (tl (remove_waiter t (w :: r))).
Proof.
  intros t w r H. simpl. destruct (negb (is_tid t w)); simpl.
  - apply remove_waiter_unset; auto.
  - apply unset_tl. apply remove_waiter_unset; auto.
Qed.

Lemma fl_cancel_inv : forall t s s', fl_inv s -> fl_cancel t s = Some s' -> fl_inv s'.
Proof.
  intros t s s' I H. unfold fl_cancel in H. destruct I as [Ih Is Iw Ind Id].
  destruct (find_waiter t (fl_waiters s)) as [w|] eqn:F; [|discriminate].
  inversion H; subst; clear H.
  destruct (fl_waiters s) as [|w0 r] eqn:EW; [discriminate|].
  destruct Is as [Is1 Is2].
  assert (Htl : unset_all (tl (remove_waiter t (w0 :: r)))) by (apply remove_tail_unset; auto).
  assert (Hnd : NoDup (map w_tid (remove_waiter t (w0 :: r)))) by (apply remove_waiter_nodup; auto).
  assert (Hdj : forall x, In x (fl_holders s) -> ~ In x (map w_tid (remove_waiter t (w0 :: r)))).
  { intros x Hx C. apply remove_waiter_tids in C. destruct C as [C _]. eapply Id; eauto. }
  destruct (fl_locked s) eqn:El; constructor; simpl; auto; try discriminate.
  - (* locked: the new head, if any, is unset or is the old head *)
    simpl in *. destruct (negb (is_tid t w0)); simpl.
    + split; [intros C; apply Is1 in C; discriminate|]. apply remove_waiter_unset; auto.
    + apply unset_head_inv. apply remove_waiter_unset; auto.
  - apply wake_inv_set; auto.
  - intros _. apply wake_inv_wake.
  - rewrite wake_tids; auto.
  - intros x Hx. rewrite wake_tids. auto.
Qed.

Lemma remove_tid_single : forall t, remove_tid t [t] = [].
Proof. intros t. unfold remove_tid. simpl. rewrite Nat.eqb_refl. reflexivity. Qed.

Lemma fl_release_inv : forall t s s', fl_inv s -> In t (fl_holders s) -> fl_release t s = Some s' -> fl_inv s'.
Proof.
  intros t s s' I Ht H. unfold fl_release in H. destruct I as [Ih Is Iw Ind Id].
  destruct (fl_locked s) eqn:El; [|discriminate]. inversion H; subst; clear H.
  destruct Ih as [t0 Ih]. rewrite Ih in Ht. destruct Ht as [E|[]]. subst t0.
  constructor; simpl; auto.
  - rewrite Ih. apply remove_tid_single.
  - apply wake_inv_set. destruct (fl_waiters s) as [|w r]; simpl; [constructor|tauto].
  - intros _. apply wake_inv_wake.
  - rewrite wake_tids; auto.
  - rewrite Ih, remove_tid_single. simpl. tauto.
Qed.

Lemma fl_step_inv : forall s l s' o, fl_inv s -> fl_step s l = Some (s', o) -> fl_inv s'.
Proof.
  intros s l s' o I H. destruct l as [t|t|t|t]; simpl in H.
  - destruct (fl_idle t s) eqn:E; [|discriminate].
    destruct (fl_acquire t s) as [s1 got] eqn:A. inversion H; subst. eapply fl_acquire_inv; eauto.
  - destruct (fl_resume t s) eqn:A; inversion H; subst. eapply fl_resume_inv; eauto.
  - destruct (fl_cancel t s) eqn:A; inversion H; subst. eapply fl_cancel_inv; eauto.
  - destruct (mem_tid t (fl_holders s)) eqn:M; [|discriminate].
    destruct (fl_release t s) eqn:A; inversion H; subst.
    eapply fl_release_inv; eauto. apply mem_tid_In; auto.
Qed.

Lemma fl_run_inv : forall ls s s', fl_inv s -> fl_run s ls = Some s' -> fl_inv s'.
Proof.
  induction ls as [|l ls IH]; simpl; intros s s' I H.
  - inversion H; subst; auto.
  - destruct (fl_step s l) as [[s1 o]|] eqn:E; [|discriminate].
    eapply IH; [|eauto]. eapply fl_step_inv; eauto.
Qed.

Theorem fl_reachable_inv : forall ls s, fl_run fl_init ls = Some s -> fl_inv s.
Proof. intros. eapply fl_run_inv; eauto. apply fl_inv_init. Qed.

(* ---- the three statements *)

Lemma fairlock_mutex_proof :
  forall ls s, fl_run fl_init ls = Some s ->
    length (fl_holders s) <= 1 /\ (fl_holders s <> [] -> fl_locked s = true).
Proof.
  intros ls s H. apply fl_reachable_inv in H. destruct H as [Ih _ _ _ _].
  destruct (fl_locked s).
  - destruct Ih as [t E]. rewrite E. simpl. split; auto.
  - rewrite Ih. simpl. split; auto; try congruence; try lia.
Qed.

Lemma fairlock_no_lost_wakeup_proof :
  forall ls s w r, fl_run fl_init ls = Some s ->
    fl_locked s = false -> fl_waiters s = w :: r ->
    w_set w = true /\
    exists s', fl_step s (FResume (w_tid w)) = Some (s', [OAcquired (w_tid w)]) /\
               fl_holders s' = [w_tid w] /\ fl_waiters s' = r.
Proof.
  intros ls s w r H Hl Hw. apply fl_reachable_inv in H. destruct H as [Ih Is Iw Ind Id].
  specialize (Iw Hl). rewrite Hw in *. split; auto.
  simpl. unfold fl_resume. rewrite Hw. unfold find_waiter. simpl. unfold is_tid at 1. rewrite Nat.eqb_refl.
  rewrite Iw. simpl. eexists; split; [reflexivity|]. simpl.
  rewrite Hl in Ih. rewrite Ih. split; auto.
  change (remove_waiter (w_tid w) (w :: r) = r). apply remove_head; auto.
Qed.

(* nobody is stuck: whenever somebody waits, either somebody holds the lock (and will release it), or the head of the
   queue has been woken up *)
Lemma fairlock_no_deadlock_proof :
  forall ls s, fl_run fl_init ls = Some s -> fl_waiters s <> [] ->
    (exists t, fl_holders s = [t]) \/ (exists w r, fl_waiters s = w :: r /\ w_set w = true).
Proof.
  intros ls s H Hw. apply fl_reachable_inv in H. destruct H as [Ih Is Iw Ind Id].
  destruct (fl_locked s) eqn:El.
  - left; auto.
  - right. specialize (Iw eq_refl). destruct (fl_waiters s) as [|w r]; [congruence|]. eauto.
Qed.

(* ---- FIFO: tickets are handed out in arrival order; the acquisition log followed by the queue is increasing *)

Definition fl_line (s : fl) : list nat := fl_acq s ++ map w_ticket (fl_waiters s).
Definition fl_all (s : fl) : list nat := fl_acq s ++ map w_ticket (fl_waiters s) ++ fl_cancelled s.

Record fl_tk (s : fl) : Prop := mkTk {
  tk_sorted : StronglySorted lt (fl_line s);
  tk_bound : Forall (fun k => k < fl_next s) (fl_line s);
  tk_count : forall k, count_occ Nat.eq_dec (fl_all s) k = if k <? fl_next s then 1 else 0
}.

Lemma ss_app_single : forall l n, StronglySorted lt l -> Forall (fun k => k < n) l -> StronglySorted lt (l ++ [n]).
Proof.
  induction l as [|x l IH]; simpl; intros n H B.
  - constructor; constructor.
  - inversion H; subst. inversion B; subst. constructor; auto.
    apply Forall_app; split; auto.
Qed.

Lemma Forall_filter_map : forall (P : nat -> Prop) f (ws : list waiter),
  Forall P (map w_ticket ws) -> Forall P (map w_ticket (filter f ws)).
Proof.
  intros P f ws H. rewrite Forall_forall in *. intros x Hx. apply H.
  apply in_map_iff in Hx. destruct Hx as [w [E Hw]]. apply filter_In in Hw. apply in_map_iff. exists w; tauto.
Qed.

Lemma ss_filter : forall f a (ws : list waiter),
  StronglySorted lt (a ++ map w_ticket ws) -> StronglySorted lt (a ++ map w_ticket (filter f ws)).
Proof.
  intros f a; induction a as [|x a IH]; simpl; intros ws H.
  - induction ws as [|w r IHr]; simpl in *; auto.
    inversion H; subst. destruct (f w); simpl; auto.
    constructor; auto. apply Forall_filter_map; auto.
  - inversion H; subst. constructor; auto.
    apply Forall_app in H3. destruct H3 as [Ha Hw]. apply Forall_app; split; auto.
    apply Forall_filter_map; auto.
Qed.

Lemma count_remove : forall t ws w k,
  NoDup (map w_tid ws) -> find_waiter t ws = Some w ->
  count_occ Nat.eq_dec (map w_ticket ws) k
  = count_occ Nat.eq_dec (map w_ticket (remove_waiter t ws)) k + (if Nat.eq_dec (w_ticket w) k then 1 else 0).
Proof.
  intros t ws w k; induction ws as [|w0 r IH]; simpl; intros N F; [discriminate|].
  inversion N; subst. unfold find_waiter in F. simpl in F. unfold is_tid at 1.
  unfold is_tid at 1 in F. destruct (Nat.eqb (w_tid w0) t) eqn:E; simpl.
  - inversion F; subst. apply Nat.eqb_eq in E. subst t. rewrite remove_waiter_notin by auto.
    destruct (Nat.eq_dec (w_ticket w) k); lia.
  - specialize (IH H2 F). destruct (Nat.eq_dec (w_ticket w0) k); lia.
Qed.

Lemma fl_tk_init : fl_tk fl_init.
Proof. constructor; simpl; auto; constructor. Qed.

Lemma seq_count_step : forall n k (c : nat),
  c = (if k <? n then 1 else 0) -> c + (if Nat.eq_dec n k then 1 else 0) = if k <? S n then 1 else 0.
Proof.
  intros n k c H. subst. destruct (Nat.eq_dec n k); destruct (k <? n) eqn:A; destruct (k <? S n) eqn:B; lia.
Qed.

Lemma fl_acquire_tk : forall t s s' got, fl_inv s -> fl_tk s -> fl_acquire t s = (s', got) -> fl_tk s'.
Proof.
  intros t s s' got I T H. unfold fl_acquire in H. destruct T as [Ts Tb Tc].
  unfold fl_line, fl_all in *.
  destruct (fl_locked s || negb (is_nil (fl_waiters s))) eqn:E; inversion H; subst; clear H;
    constructor; unfold fl_line, fl_all; simpl.
  - rewrite map_app, app_assoc. simpl. apply ss_app_single; auto.
  - rewrite map_app, app_assoc. simpl. apply Forall_app; split.
    + eapply Forall_impl; [|exact Tb]. simpl; intros; lia.
    + constructor; auto.
  - intros k. specialize (Tc k). rewrite map_app. simpl.
    repeat rewrite count_occ_app in *. simpl. rewrite <- seq_count_step with (c := count_occ Nat.eq_dec (fl_acq s) k + (count_occ Nat.eq_dec (map w_ticket (fl_waiters s)) k + count_occ Nat.eq_dec (fl_cancelled s) k)); auto.
    destruct (Nat.eq_dec (fl_next s) k); lia.
  - apply orb_false_iff in E. destruct E as [_ Ew]. apply negb_false_iff in Ew.
    destruct (fl_waiters s); [|discriminate]. simpl in *. rewrite app_nil_r in *. apply ss_app_single; auto.
  - apply orb_false_iff in E. destruct E as [_ Ew]. apply negb_false_iff in Ew.
    destruct (fl_waiters s); [|discriminate]. simpl in *. rewrite app_nil_r in *. apply Forall_app; split.
    + eapply Forall_impl; [|exact Tb]. simpl; intros; lia.
    + constructor; auto.
  - intros k. specialize (Tc k).
    repeat rewrite count_occ_app in *. simpl. rewrite <- seq_count_step with (c := count_occ Nat.eq_dec (fl_acq s) k + (count_occ Nat.eq_dec (map w_ticket (fl_waiters s)) k + count_occ Nat.eq_dec (fl_cancelled s) k)); auto.
    destruct (Nat.eq_dec (fl_next s) k); lia.
Qed.

Lemma fl_resume_tk : forall t s s', fl_inv s -> fl_tk s -> fl_resume t s = Some s' -> fl_tk s'.
Proof.
  intros t s s' I T H. unfold fl_resume in H. destruct I as [Ih Is Iw Ind Id]. destruct T as [Ts Tb Tc].
  destruct (find_waiter t (fl_waiters s)) as [w|] eqn:F; [|discriminate].
  destruct (w_set w) eqn:S; [|discriminate]. inversion H; subst; clear H.
  unfold fl_line, fl_all in *.
  destruct (fl_waiters s) as [|w0 r] eqn:EW; [discriminate|].
  destruct Is as [Is1 Is2].
  assert (w = w0) by (eapply set_waiter_is_head; eauto). subst w0.
  destruct (find_waiter_some _ _ _ F) as [_ Et]. subst t.
  assert (RH := remove_head w r Ind).
  constructor; unfold fl_line, fl_all; cbn [fl_acq fl_waiters fl_cancelled fl_next]; rewrite RH.
  - rewrite <- app_assoc. exact Ts.
  - rewrite <- app_assoc. exact Tb.
  - intros k. specialize (Tc k). cbn [map] in Tc.
    change (w_ticket w :: map w_ticket r ++ fl_cancelled s)
      with ([w_ticket w] ++ map w_ticket r ++ fl_cancelled s) in Tc.
    repeat rewrite count_occ_app in *. cbn [count_occ] in *.
    destruct (Nat.eq_dec (w_ticket w) k); lia.
Qed.

Lemma fl_cancel_tk : forall t s s', fl_inv s -> fl_tk s -> fl_cancel t s = Some s' -> fl_tk s'.
Proof.
  intros t s s' I T H. unfold fl_cancel in H. destruct I as [Ih Is Iw Ind Id]. destruct T as [Ts Tb Tc].
  destruct (find_waiter t (fl_waiters s)) as [w|] eqn:F; [|discriminate].
  inversion H; subst; clear H. unfold fl_line, fl_all in *.
  assert (E : map w_ticket (if fl_locked s then remove_waiter t (fl_waiters s)
                            else wake_up_first (remove_waiter t (fl_waiters s)))
              = map w_ticket (remove_waiter t (fl_waiters s))).
  { destruct (fl_locked s); auto. apply wake_tickets. }
  constructor; unfold fl_line, fl_all; simpl; rewrite E.
  - apply ss_filter; auto.
  - apply Forall_app in Tb. destruct Tb as [Ta Tw]. apply Forall_app; split; auto.
    apply Forall_filter_map; auto.
  - intros k. specialize (Tc k). repeat rewrite count_occ_app in *. simpl.
    rewrite (count_remove t (fl_waiters s) w k Ind F) in Tc.
    destruct (Nat.eq_dec (w_ticket w) k); lia.
Qed.

Lemma fl_release_tk : forall t s s', fl_tk s -> fl_release t s = Some s' -> fl_tk s'.
Proof.
  intros t s s' T H. unfold fl_release in H. destruct T as [Ts Tb Tc].
  destruct (fl_locked s); [|discriminate]. inversion H; subst; clear H.
  unfold fl_line, fl_all in *.
  constructor; unfold fl_line, fl_all; simpl; rewrite wake_tickets; auto.
Qed.

Lemma fl_step_tk : forall s l s' o, fl_inv s -> fl_tk s -> fl_step s l = Some (s', o) -> fl_tk s'.
Proof.
  intros s l s' o I T H. destruct l as [t|t|t|t]; simpl in H.
  - destruct (fl_idle t s) eqn:E; [|discriminate].
    destruct (fl_acquire t s) as [s1 got] eqn:A. inversion H; subst. eapply fl_acquire_tk; eauto.
  - destruct (fl_resume t s) eqn:A; inversion H; subst. eapply fl_resume_tk; eauto.
  - destruct (fl_cancel t s) eqn:A; inversion H; subst. eapply fl_cancel_tk; eauto.
  - destruct (mem_tid t (fl_holders s)) eqn:M; [|discriminate].
    destruct (fl_release t s) eqn:A; inversion H; subst. eapply fl_release_tk; eauto.
Qed.

Lemma fl_run_tk : forall ls s s', fl_inv s -> fl_tk s -> fl_run s ls = Some s' -> fl_tk s'.
Proof.
  induction ls as [|l ls IH]; simpl; intros s s' I T H.
  - inversion H; subst; auto.
  - destruct (fl_step s l) as [[s1 o]|] eqn:E; [|discriminate].
    eapply IH; [| |eauto]. eapply fl_step_inv; eauto. eapply fl_step_tk; eauto.
Qed.

Lemma fairlock_fifo_proof :
  forall ls s, fl_run fl_init ls = Some s ->
    StronglySorted lt (fl_acq s ++ map w_ticket (fl_waiters s)) /\
    (forall k, count_occ Nat.eq_dec (fl_acq s ++ map w_ticket (fl_waiters s) ++ fl_cancelled s) k
               = if k <? fl_next s then 1 else 0).
Proof.
  intros ls s H. apply fl_run_tk in H; [|apply fl_inv_init|apply fl_tk_init].
  destruct H as [Ts Tb Tc]. split; auto.
Qed.

(* a ticket is the arrival rank: the k-th call of acquire() gets ticket k *)
Lemma fl_ticket_is_arrival_rank :
  forall t s s' got, fl_acquire t s = (s', got) ->
    fl_next s' = S (fl_next s) /\
    (if got then fl_acq s' = fl_acq s ++ [fl_next s]
     else fl_waiters s' = fl_waiters s ++ [mkW t (fl_next s) false]).
Proof.
  intros t s s' got H. unfold fl_acquire in H.
  destruct (fl_locked s || negb (is_nil (fl_waiters s))); inversion H; subst; simpl; auto.
Qed.
