(* C08 — mutual exclusion of the two locks of the TLS transport, as an invariant of the multi-task pump model:
   at most one task is inside transport.send_all and at most one inside transport.recv_into, for every trace and
   every oracle. *)
From Coq Require Import ZArith List Bool Lia ZifyBool.
From EN Require Import Lib.Bytes Conc.TlsBase Conc.TlsPump Proofs.Tls_tactics Proofs.C08_proofs.

Definition is_sending (p : pc) : bool := match p with PSending _ => true | _ => false end.
Definition is_recving (p : pc) : bool := match p with PRecving => true | _ => false end.
Definition b2n (b : bool) : nat := if b then 1 else 0.
Definition count (f : pc -> bool) (ts : list task) : nat := length (filter (fun tk => f (t_pc tk)) ts).

(* the send lock is held iff exactly one task is between "send_all started" and "send_all returned"; same for recv *)
Definition LockInv (y : sys) : Prop :=
  count is_sending (y_tasks y) = b2n (send_lock (y_sh y)) /\
  count is_recving (y_tasks y) = b2n (recv_lock (y_sh y)).

Lemma count_app : forall f a b, count f (a ++ b) = count f a + count f b.
Proof. intros. unfold count. rewrite filter_app, app_length. reflexivity. Qed.

Lemma count_set_nth : forall f l t tk tk',
  nth_error l t = Some tk ->
  count f (set_nth t tk' l) + b2n (f (t_pc tk)) = count f l + b2n (f (t_pc tk')).
Proof.
  intros f l. induction l as [| x l IH]; intros t tk tk' Hn; destruct t; cbn in Hn; try discriminate.
  - inversion Hn; subst. unfold count. cbn. destruct (f (t_pc tk)), (f (t_pc tk')); cbn; lia.
  - specialize (IH _ _ tk' Hn). unfold count in *. cbn. destruct (f (t_pc x)); cbn; lia.
Qed.

Lemma count_pos : forall f l t tk, nth_error l t = Some tk -> f (t_pc tk) = true -> 1 <= count f l.
Proof.
  intros f l. induction l as [| x l IH]; intros t tk Hn Hf; destruct t; cbn in Hn; try discriminate.
  - inversion Hn; subst. unfold count. cbn. rewrite Hf. cbn. lia.
  - specialize (IH _ _ Hn Hf). unfold count in *. cbn. destruct (f (t_pc x)); cbn; lia.
Qed.

Section LockFacts.
Variable fl : flags.
Notation flush_pc := (flush_pc fl).
Notation pcall := (pcall fl).
Notation after_flush := (after_flush fl).
Notation go := (go fl).
Notation step := (step fl).
Notation settle_n := (settle_n fl).
Notation settle := (settle fl).
Notation sys_step := (sys_step fl).
Notation sys_exec := (sys_exec fl).
Notation step_send_is_wbio := (step_send_is_wbio fl).
Notation recv_only_from_recvwait := (recv_only_from_recvwait fl).
Notation step_flow := (step_flow fl).

Lemma flush_pc_not_locked : forall s k, is_sending (flush_pc s k) = false /\ is_recving (flush_pc s k) = false.
Proof. intros s k. destruct k; flush_cases; cbn; auto. Qed.

Lemma done_pc_not_locked : forall m s v, is_sending (done_pc fl m s v) = false /\ is_recving (done_pc fl m s v) = false.
Proof. intros m s v. unfold done_pc. destruct (f_lazyread fl && meth_eqb m MRead); [cbn; auto | apply flush_pc_not_locked]. Qed.

Lemma pcall_not_locked : forall m s, is_sending (pcall m s) = false /\ is_recving (pcall m s) = false.
Proof. intros m s. unfold pcall. destruct m; auto. destruct (deque s); auto. apply flush_pc_not_locked. Qed.

Lemma after_flush_not_locked : forall m s k,
  is_sending (after_flush m s k) = false /\ is_recving (after_flush m s k) = false.
Proof. intros m s k. destruct k; cbn; auto. apply pcall_not_locked. Qed.

Ltac fl :=
  repeat match goal with
  | |- context [done_pc ?f ?m ?s ?v] =>
      let A := fresh "A" in let B := fresh "B" in
      destruct (done_pc_not_locked m s v) as [A B]; rewrite ?A, ?B; clear A B
  | |- context [flush_pc ?s ?k] =>
      let A := fresh "A" in let B := fresh "B" in
      destruct (flush_pc_not_locked s k) as [A B]; rewrite ?A, ?B; clear A B
  end.

Ltac inv_fl H :=
  repeat match type of H with
  | context [done_pc ?f ?m ?s ?v] => let f := fresh "dp" in let E := fresh "Edp" in remember (done_pc f m s v) as f eqn:E
  | context [flush_pc ?s ?k] => let f := fresh "fp" in let E := fresh "Efp" in remember (flush_pc s k) as f eqn:E
  end;
  inversion H; subst.

(* one step of one task moves it into / out of a critical section exactly when it takes / releases the lock *)
Lemma step_locks : forall m b s p l s' p' a,
  step m b s p l = Some (s', p', a) ->
  (is_sending p = true -> send_lock s = true) ->
  (is_recving p = true -> recv_lock s = true) ->
  b2n (send_lock s') + b2n (is_sending p) = b2n (send_lock s) + b2n (is_sending p') /\
  b2n (recv_lock s') + b2n (is_recving p) = b2n (recv_lock s) + b2n (is_recving p').
Proof.
  intros m b s p l s' p' a H Hs Hr.
  destruct p as [ | k | k | sn | | r]; destruct l as [x | | t]; cbv beta iota delta [step] in H; try discriminate.
  - destruct (negb _); [inversion H; subst; cbn; lia |].
    cbv zeta in H. destruct (a_out x).
    + destruct m; try (inv_fl H; fl; cbn; lia);
      try (match type of H with context [match ?d with [] => Some _ | _ :: _ => Some _ end] => destruct d end;
           inv_fl H; fl; cbn; lia).
    + inv_fl H; fl; cbn; lia.
    + inversion H; subst; cbn; lia.
    + inversion H; subst; cbn; lia.
    + inversion H; subst; cbn; lia.
    + inversion H; subst; cbn; lia.
  - unfold go in H. destruct (send_lock s) eqn:L; try discriminate.
    destruct (wbio s).
    + destruct k; inversion H; subst; cbn; rewrite ?L; cbn; lia.
    + inversion H; subst. cbn. rewrite ?L. cbn. lia.
  - destruct t; inversion H; subst; cbn; lia.
  - specialize (Hs eq_refl). destruct t as [d | | | | bt]; try discriminate; cbv zeta in H.
    + inversion H; subst. destruct (after_flush_not_locked m (set_send_lock s false) k) as [A B].
      rewrite A, B. cbn. rewrite Hs. cbn. lia.
    + destruct k; inversion H; subst; cbn; rewrite Hs; cbn; lia.
    + inversion H; subst. cbn. rewrite Hs. cbn. lia.
  - go_recv H sn; inversion H; subst; cbn; rewrite ?L;
      try (match goal with |- context [pcall m ?z] => destruct (pcall_not_locked m z) as [A B]; rewrite A, B end); cbn; lia.
  - destruct t; inversion H; subst; cbn; lia.
  - specialize (Hr eq_refl). destruct t as [d | | | | bt]; try discriminate; cbv zeta in H.
    + destruct d; inversion H; subst;
        match goal with |- context [pcall m ?z] => destruct (pcall_not_locked m z) as [A B] end;
        rewrite A, B; cbn; rewrite Hr; cbn; lia.
    + inversion H; subst. cbn. rewrite Hr. cbn. lia.
    + inversion H; subst. cbn. rewrite Hr. cbn. lia.
Qed.

Lemma LockInv_step : forall y l y' a, sys_step y l = Some (y', a) -> LockInv y -> LockInv y'.
Proof.
  intros y l y' a H [Is Ir]. destruct l as [m b chunks | t lb]; cbn in H.
  - inversion H; subst. unfold LockInv. cbn [y_tasks y_sh]. rewrite !count_app.
    assert (Hl : forall s1, send_lock (match m with MWrite => set_deque (y_sh y) s1 | _ => y_sh y end) = send_lock (y_sh y)
                         /\ recv_lock (match m with MWrite => set_deque (y_sh y) s1 | _ => y_sh y end) = recv_lock (y_sh y))
      by (intros; destruct m; auto).
    destruct (Hl (deque (y_sh y) ++ chunks)) as [L1 L2]. rewrite L1, L2.
    unfold count at 2 4. cbn [filter t_pc].
    destruct (pcall_not_locked m (match m with MWrite => set_deque (y_sh y) (deque (y_sh y) ++ chunks) | _ => y_sh y end)) as [A B].
    rewrite A, B. cbn. lia.
  - destruct (nth_error (y_tasks y) t) as [tk |] eqn:Hn; try discriminate.
    destruct (step (t_meth tk) (t_buf tk) (y_sh y) (t_pc tk) lb) as [[[s1 p1] a1] |] eqn:St; try discriminate.
    inversion H; subst. unfold LockInv. cbn [y_tasks y_sh].
    assert (Hs : is_sending (t_pc tk) = true -> send_lock (y_sh y) = true).
    { intros X. pose proof (count_pos is_sending _ _ _ Hn X). destruct (send_lock (y_sh y)); cbn in *; [reflexivity | lia]. }
    assert (Hr : is_recving (t_pc tk) = true -> recv_lock (y_sh y) = true).
    { intros X. pose proof (count_pos is_recving _ _ _ Hn X). destruct (recv_lock (y_sh y)); cbn in *; [reflexivity | lia]. }
    destruct (step_locks _ _ _ _ _ _ _ _ St Hs Hr) as [Ls Lr].
    pose proof (count_set_nth is_sending _ _ _ {| t_meth := t_meth tk; t_buf := t_buf tk; t_pc := p1 |} Hn) as Cs.
    pose proof (count_set_nth is_recving _ _ _ {| t_meth := t_meth tk; t_buf := t_buf tk; t_pc := p1 |} Hn) as Cr.
    cbn [t_pc] in Cs, Cr. lia.
Qed.

Lemma LockInv_exec : forall ls y y' a, sys_exec y ls = Some (y', a) -> LockInv y -> LockInv y'.
Proof.
  induction ls as [| l ls IH]; intros y y' a H I; cbn in H.
  - inversion H; subst; exact I.
  - destruct (sys_step y l) as [[y1 a1] |] eqn:S1; try discriminate.
    destruct (sys_exec y1 ls) as [[y2 a2] |] eqn:S2; try discriminate.
    inversion H; subst. eapply IH; eauto. eapply LockInv_step; eauto.
Qed.

Lemma LockInv_init : LockInv sys0.
Proof. split; reflexivity. Qed.

(* a send_all (recv_into) is started only when no other one is in flight *)
Lemma start_needs_free_lock : forall y t lb y' a,
  LockInv y -> sys_step y (SStep t lb) = Some (y', a) ->
  (forall w, In (t, ASend w) a -> count is_sending (y_tasks y) = 0) /\
  (In (t, ARecv) a -> count is_recving (y_tasks y) = 0).
Proof.
  intros y t lb y' a [Is Ir] H. cbn in H.
  destruct (nth_error (y_tasks y) t) as [tk |] eqn:Hn; try discriminate.
  destruct (step (t_meth tk) (t_buf tk) (y_sh y) (t_pc tk) lb) as [[[s1 p1] a1] |] eqn:St; try discriminate.
  inversion H; subst. split.
  - intros w Hin. apply in_map_iff in Hin. destruct Hin as [x [Hx Hin]]. inversion Hx; subst.
    destruct (step_send_is_wbio _ _ _ _ _ _ _ _ _ St Hin) as [_ [_ Hl]]. subst lb.
    rewrite Is. destruct (t_pc tk) as [ | k | k | sn | | r]; cbv beta iota delta [step] in St; try discriminate.
    + unfold go in St. destruct (send_lock (y_sh y)); [discriminate | reflexivity].
    + go_recv St sn; inversion St; subst; cbn in Hin; intuition discriminate.
  - intros Hin. apply in_map_iff in Hin. destruct Hin as [x [Hx Hin]]. inversion Hx; subst.
    destruct (recv_only_from_recvwait _ _ _ _ _ _ _ _ St Hin) as [[sn Hp] [Hl _]]. subst lb. rewrite Hp in St.
    rewrite Ir. cbv beta iota delta [step] in St. unfold go in St.
    destruct (recv_lock (y_sh y)); [discriminate | reflexivity].
Qed.

End LockFacts.
