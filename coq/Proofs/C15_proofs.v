(* Proofs for C15 (stream server, one connection) *)
From Coq Require Import List Arith Bool Lia.
From EN Require Import Lib.Bytes Frame.Framer Stream.Consumer Stream.Endpoint Conc.StreamServer.
Import ListNotations.

Section Generic.
  Context {P C : Type}.
  Variable M : machine P C.

  Lemma client_loop_closed : forall fuel ph t c o now (u : @ustate P),
      f_closed (client_loop M fuel ph t c o now u) = true.
  Proof.
    induction fuel; simpl; intros; [reflexivity|].
    destruct (closed u); [reflexivity|].
    destruct (rq_next M t c o now) as [[[c' o'] now'] a].
    destruct a as [p|x|].
    - destruct (hresume ph (UReq p) now' u) as [u1 [ph' t'| |x]]; [apply IHfuel|reflexivity|reflexivity].
    - destruct (hresume ph (UErr x) now' u) as [u1 [ph' t'| |x']]; [apply IHfuel|reflexivity|reflexivity].
    - reflexivity.
  Qed.

  Lemma client_coroutine_closed : forall oc acts0 c o,
      f_closed (client_coroutine M oc acts0 c o) = true.
  Proof.
    intros. unfold client_coroutine.
    destruct (hstart oc _) as [u1 [ph t| |x]]; [apply client_loop_closed|reflexivity|reflexivity].
  Qed.
End Generic.
