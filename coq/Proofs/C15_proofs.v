(* Proofs for C15 (stream server, one connection) *)
From Coq Require Import List Arith Bool Lia.
From EN Require Import Lib.Bytes Frame.Framer Stream.Consumer Stream.Endpoint Conc.StreamServer.
Import ListNotations.

Section Generic.
  Context {P C : Type}.
  Variable M : machine P C.

  Lemma client_loop_closed : forall fuel ph t c o now (u : @ustate P),
      f_closed (client_loop M fuel ph t c o now u) = true.
  Proof.
    induction fuel; simpl; intros; [reflexivity|].
    destruct (closed u); [reflexivity|].
    destruct (rq_next M t c o now) as [[[c' o'] now'] a].
    destruct a as [p|x|].
    - destruct (hresume ph (UReq p) now' u) as [u1 [ph' t'| |x]]; [apply IHfuel|reflexivity|reflexivity].
    - destruct (hresume ph (UErr x) now' u) as [u1 [ph' t'| |x']]; [apply IHfuel|reflexivity|reflexivity].
    - reflexivity.
  Qed.

  Lemma client_coroutine_closed : forall oc acts0 c o,
      f_closed (client_coroutine M oc acts0 c o) = true.
  Proof.
    intros. unfold client_coroutine.
    destruct (hstart oc _) as [u1 [ph t| |x]]; [apply client_loop_closed|reflexivity|reflexivity].
  Qed.
End Generic.

(* ================================================================== generator life cycle (gen_closed_once) *)
From EN Require Import Stream.EndpointSpec Conc.StreamServerSpec.

Section LifeCycle.
  Context {P C : Type}.
  Variable M : machine P C.

  Definition idle (u : @ustate P) : Prop := exists n, lrun (ulog u) = Some (None, n).
  Definition idle_at (g : nat) (u : @ustate P) : Prop := lrun (ulog u) = Some (None, g).
  Definition active_at (g : nat) (u : @ustate P) : Prop := lrun (ulog u) = Some (Some g, S g).

  Lemma do_act_wf : forall g thrown (u u1 : @ustate P) res,
      active_at g u -> do_act g thrown u = (u1, res) ->
      match res with UYield _ => active_at g u1 | _ => idle_at (S g) u1 end.
  Proof.
    unfold do_act, pop_act, active_at, idle_at. intros g thrown u u1 res H E.
    destruct (acts u) as [|a rest]; [|destruct a]; inversion E; subst; cbn; rewrite H; cbn;
      rewrite ?Nat.eqb_refl; reflexivity.
  Qed.

  Lemma ustart_wf : forall g (u u1 : @ustate P) res,
      idle_at g u -> ustart g u = (u1, res) ->
      match res with UYield _ => active_at g u1 | _ => idle_at (S g) u1 end.
  Proof.
    unfold ustart. intros g u u1 res H E. eapply do_act_wf; [|exact E].
    unfold active_at, idle_at in *. cbn. rewrite H. cbn. rewrite Nat.eqb_refl. reflexivity.
  Qed.

  Lemma uresume_wf : forall g ev now (u u1 : @ustate P) res,
      active_at g u -> uresume g ev now u = (u1, res) ->
      match res with UYield _ => active_at g u1 | _ => idle_at (S g) u1 end.
  Proof.
    unfold uresume. intros g ev now u u1 res H E.
    assert (A : active_at g (ulogev (EGot g ev now) u)).
    { unfold active_at in *. cbn. rewrite H. cbn. rewrite Nat.eqb_refl. reflexivity. }
    destruct ev as [p|x]; (eapply do_act_wf; [|exact E]); [|exact A].
    unfold usend. destruct (closed _); exact A.
  Qed.

  Definition hres_wf (u1 : @ustate P) (res : hres) : Prop :=
    match res with HYielded ph _ => active_at (phase_gen ph) u1 | _ => idle u1 end.

  Lemma idle_disc : forall g (u : @ustate P), idle_at g u -> idle (ulogev EOnDisc u).
  Proof. unfold idle_at, idle. intros g u H. exists g. cbn. rewrite H. reflexivity. Qed.

  Lemma handle_loop_wf : forall g (u u1 : @ustate P) res,
      idle_at g u -> handle_loop g u = (u1, res) -> hres_wf u1 res.
  Proof.
    unfold handle_loop. intros g u u1 res H E.
    destruct (closed u).
    - inversion E; subst. eapply idle_disc; eauto.
    - destruct (ustart g u) as [u2 r] eqn:Es. pose proof (ustart_wf _ _ _ _ H Es) as W.
      destruct r; inversion E; subst; cbn; auto; eapply idle_disc; eauto.
  Qed.

  Lemma hstart_wf : forall oc acts0 (u1 : @ustate P) res,
      hstart oc {| acts := acts0; closed := false; ulog := []; wire := [] |} = (u1, res) -> hres_wf u1 res.
  Proof.
    unfold hstart. intros oc acts0 u1 res E.
    set (u0 := ulogev EOnConn _) in E.
    assert (I0 : idle_at 0 u0) by reflexivity.
    destruct oc as [|[|oc]].
    - eapply handle_loop_wf; eauto.
    - destruct (ustart 0 u0) as [u2 r] eqn:Es. pose proof (ustart_wf _ _ _ _ I0 Es) as W.
      destruct r.
      + inversion E; subst. exact W.
      + eapply handle_loop_wf; eauto.
      + inversion E; subst. exists 1. exact W.
    - eapply handle_loop_wf; [|exact E]. exact I0.
  Qed.

  Lemma hresume_wf : forall ph ev now (u u1 : @ustate P) res,
      active_at (phase_gen ph) u -> hresume ph ev now u = (u1, res) -> hres_wf u1 res.
  Proof.
    unfold hresume. intros ph ev now u u1 res H E.
    destruct (uresume (phase_gen ph) ev now u) as [u2 r] eqn:Er.
    pose proof (uresume_wf _ _ _ _ _ _ H Er) as W.
    destruct r.
    - inversion E; subst. exact W.
    - eapply handle_loop_wf; eauto.
    - destruct ph; inversion E; subst; cbn.
      + eexists; exact W.
      + eapply idle_disc; eauto.
  Qed.

  Lemma hclose_wf : forall ph (u : @ustate P), active_at (phase_gen ph) u -> idle (hclose ph u).
  Proof.
    unfold hclose, active_at. intros ph u H.
    assert (A : idle_at (S (phase_gen ph)) (ulogev (EClosed (phase_gen ph)) u)).
    { unfold idle_at. cbn. rewrite H. cbn. rewrite Nat.eqb_refl. reflexivity. }
    destruct ph; [eexists; exact A|eapply idle_disc; exact A].
  Qed.

  (* ---- every yield consumes an action of the strategy: the fuel of the client loop suffices *)
  Definition alen (u : @ustate P) : nat := length (acts u).

  Lemma do_act_len : forall g thrown (u u1 : @ustate P) res,
      do_act g thrown u = (u1, res) ->
      alen u1 <= alen u /\ (forall t, res = UYield t -> alen u1 < alen u).
  Proof.
    unfold do_act, pop_act, alen. intros g thrown u u1 res E.
    destruct (acts u) as [|a rest] eqn:Ea; [|destruct a]; inversion E; subst; cbn; rewrite ?Ea; cbn; split; try lia; intros; try discriminate; lia.
  Qed.

  Lemma ustart_len : forall g (u u1 : @ustate P) res,
      ustart g u = (u1, res) -> alen u1 <= alen u /\ (forall t, res = UYield t -> alen u1 < alen u).
  Proof. unfold ustart. intros g u u1 res E. apply do_act_len in E. exact E. Qed.

  Lemma uresume_len : forall g ev now (u u1 : @ustate P) res,
      uresume g ev now u = (u1, res) -> alen u1 <= alen u /\ (forall t, res = UYield t -> alen u1 < alen u).
  Proof.
    unfold uresume. intros g ev now u u1 res E. destruct ev; apply do_act_len in E; auto.
    unfold usend in E. destruct (closed _); exact E.
  Qed.

  Lemma handle_loop_len : forall g (u u1 : @ustate P) res,
      handle_loop g u = (u1, res) -> alen u1 <= alen u /\ (forall ph t, res = HYielded ph t -> alen u1 < alen u).
  Proof.
    unfold handle_loop. intros g u u1 res E. destruct (closed u).
    - inversion E; subst. split; [reflexivity|discriminate].
    - destruct (ustart g u) as [u2 r] eqn:Es. apply ustart_len in Es. destruct Es as [L1 L2].
      destruct r; inversion E; subst; cbn; split; auto; try discriminate.
      intros. eapply L2; reflexivity.
  Qed.

  Lemma hresume_len : forall ph ev now (u u1 : @ustate P) ph' t',
      hresume ph ev now u = (u1, HYielded ph' t') -> alen u1 < alen u.
  Proof.
    unfold hresume. intros ph ev now u u1 ph' t' E.
    destruct (uresume (phase_gen ph) ev now u) as [u2 r] eqn:Er. apply uresume_len in Er. destruct Er as [L1 L2].
    destruct r.
    - inversion E; subst. eapply L2; reflexivity.
    - apply handle_loop_len in E. destruct E as [_ E]. specialize (E _ _ eq_refl). unfold alen in *. lia.
    - destruct ph; inversion E.
  Qed.

  Lemma hstart_len : forall oc (u u1 : @ustate P) res, hstart oc u = (u1, res) -> alen u1 <= alen u.
  Proof.
    unfold hstart. intros oc u u1 res E. destruct oc as [|[|oc]].
    - apply handle_loop_len in E. apply E.
    - destruct (ustart 0 (ulogev EOnConn u)) as [u2 r] eqn:Es. apply ustart_len in Es. destruct Es as [L1 _].
      destruct r; try (inversion E; subst; exact L1).
      apply handle_loop_len in E. destruct E as [E _]. unfold alen in *. cbn in *. lia.
    - apply handle_loop_len in E. apply E.
  Qed.

  Lemma client_loop_wf : forall fuel ph t c o now (u : @ustate P),
      active_at (phase_gen ph) u -> alen u < fuel ->
      idle (f_user (client_loop M fuel ph t c o now u)).
  Proof.
    induction fuel; intros ph t c o now u H Hf; [lia|].
    cbn [client_loop].
    destruct (closed u); [apply hclose_wf; exact H|].
    destruct (rq_next M t c o now) as [[[c' o'] now'] a].
    assert (G : forall ev, idle (f_user
              match hresume ph ev now' u with
              | (u1, HYielded ph' t') => client_loop M fuel ph' t' c' o' now' u1
              | (u1, HFinished) => finish u1 None o' now'
              | (u1, HRaised x') => finish u1 (Some x') o' now'
              end)).
    { intros ev. destruct (hresume ph ev now' u) as [u1 res] eqn:Eh.
      pose proof (hresume_wf _ _ _ _ _ _ H Eh) as W.
      destruct res; cbn in W |- *; auto.
      apply hresume_len in Eh. apply IHfuel; [exact W|lia]. }
    destruct a as [p|x|]; [apply G|apply G|apply hclose_wf; exact H].
  Qed.

  Lemma client_coroutine_wf : forall oc acts0 c o,
      idle (f_user (client_coroutine M oc acts0 c o)).
  Proof.
    intros. unfold client_coroutine.
    destruct (hstart oc _) as [u1 res] eqn:E.
    pose proof (hstart_wf _ _ _ _ E) as W. pose proof (hstart_len _ _ _ _ E) as L. unfold alen in L. cbn in L.
    destruct res; [apply client_loop_wf; [exact W|unfold alen; lia]|exact W|exact W].
  Qed.
End LifeCycle.

(* ================================================================== requests exactly once, in order *)
Section Requests.
  Context {P C : Type}.
  Variable M : machine P C.
  Variable spec : bytes -> list (nres P).
  Variable G : bytes -> Prop.
  Variable R : C -> bytes -> nat -> Prop.
  Variable D : C -> bytes -> Prop.
  Hypothesis OK : consumer_ok_rel M spec G R D.

  Definition nact_ev (a : @nact P) : option (nres P) :=
    match a with
    | NSend p => Some (RPkt p)
    | NThrow (XParse e) => Some (RErr e)
    | NThrow XCrash => Some RCrash
    | _ => None
    end.

  Definition rq_post (d : bytes) (k : nat) (o : speer) (c' : C) (o' : speer) (a : @nact P) : Prop :=
    exists x,
      match a with
      | NStop => x = sstream_of o /\ D c' (d ++ x) /\ k = length (spec (d ++ x))
      | _ => x ++ sstream_of o' = sstream_of o /\
             match nact_ev a with
             | Some e => nth_error (spec (d ++ x)) k = Some e /\ R c' (d ++ x) (S k)
             | None => a <> NThrow XHandler /\ D c' (d ++ x) /\ k = length (spec (d ++ x))
             end
      end.

  Lemma sstream_of_data : forall ch a o, ch <> [] -> sstream_of (SData ch a :: o) = ch ++ sstream_of o.
  Proof. intros [|b ch] a o H; [congruence|reflexivity]. Qed.

  Lemma stake_rest : forall (avail : bytes) n a o',
      1 <= n <= length avail ->
      let o'' := if Nat.ltb n (length avail) then SData (skipn n avail) a :: o' else o' in
      firstn n avail ++ sstream_of o'' = avail ++ sstream_of o' /\ speer_size o'' < S (length avail) + speer_size o'.
  Proof.
    intros avail n a o' Hn. simpl. destruct (Nat.ltb n (length avail)) eqn:E.
    - apply Nat.ltb_lt in E. rewrite sstream_of_data.
      + rewrite app_assoc, firstn_skipn. split; [reflexivity|]. simpl. rewrite skipn_length. lia.
      + intro H0. apply (f_equal (@length _)) in H0. rewrite skipn_length in H0. simpl in H0. lia.
    - apply Nat.ltb_ge in E. rewrite firstn_all2 by lia. split; [reflexivity|lia].
  Qed.

  Lemma nact_of_event : forall r : nres P, r <> RStop -> nact_ev (nact_of r) = Some r /\ nact_of r <> NStop.
  Proof. destruct r; intros H; try congruence; split; try reflexivity; discriminate. Qed.

  Lemma rq_loop_inv : forall fuel dl c o now d k c' o' now' a,
      speer_size o < fuel -> D c d -> k = length (spec d) -> G (d ++ sstream_of o) ->
      rq_loop M fuel dl c o now = (c', o', now', a) ->
      rq_post d k o c' o' a.
  Proof.
    induction fuel; intros dl c o now d k c' o' now' a Hf HR Hk HG H; [lia|].
    cbn [rq_loop] in H. destruct o as [|it o1].
    - inversion H; subst. exists []. rewrite app_nil_r. auto.
    - destruct (match dl with Some d0 => Nat.ltb now (sitem_at it) && Nat.leb d0 (sitem_at it) | None => false end).
      { inversion H; subst. exists []. rewrite app_nil_r. cbn. repeat split; auto. discriminate. }
      destruct it as [ch at_|at_|kk at_].
      + destruct ch as [|b ch].
        { inversion H; subst. exists []. rewrite app_nil_r. auto. }
        assert (HG1 : G (d ++ b :: ch)).
        { apply (okr_prefix _ _ _ _ _ OK _ (sstream_of o1)). rewrite <- app_assoc. exact HG. }
        destruct (okr_take _ _ _ _ _ OK c d (b :: ch) HR ltac:(discriminate) HG1) as (c1 & r1 & n & room & Et & Hn & Hpost).
        rewrite <- Hk in Hpost. rewrite Et in H. cbn [sitem_at] in H.
        pose proof (stake_rest (b :: ch) n at_ o1 Hn) as [Hs Hsz]. cbv zeta in Hs, Hsz.
        set (o2 := if Nat.ltb n (length (b :: ch)) then SData (skipn n (b :: ch)) at_ :: o1 else o1) in *.
        assert (Hf2 : speer_size o2 < fuel) by (simpl in Hf; simpl in Hsz; lia).
        assert (Hev : forall r, r <> RStop -> (c', o', a) = (c1, o2, nact_of r) ->
                      nth_error (spec (d ++ firstn n (b :: ch))) k = Some r -> R c1 (d ++ firstn n (b :: ch)) (S k) ->
                      rq_post d k (SData (b :: ch) at_ :: o1) c' o' a).
        { intros r Hne E Hnth HR1. inversion E; subst. destruct (nact_of_event r Hne) as [Ne Ns].
          exists (firstn n (b :: ch)). destruct (nact_of r) eqn:En; try congruence; (split; [exact Hs|]); rewrite Ne; auto. }
        destruct r1 as [p|e| |].
        * destruct Hpost. eapply (Hev (RPkt p)); eauto; [discriminate|inversion H; reflexivity].
        * destruct Hpost. eapply (Hev (RErr e)); eauto; [discriminate|inversion H; reflexivity].
        * destruct Hpost as [Hl HR1].
          assert (HG2 : G ((d ++ firstn n (b :: ch)) ++ sstream_of o2)).
          { rewrite <- app_assoc, Hs. exact HG. }
          pose proof (IHfuel _ _ _ _ _ _ _ _ _ _ Hf2 HR1 (eq_sym Hl) HG2 H) as (x & Hx).
          exists (firstn n (b :: ch) ++ x). rewrite app_assoc.
          destruct a; try (destruct Hx as [Hx1 Hx2]; split; [|exact Hx2]).
          -- rewrite <- app_assoc, Hx1. exact Hs.
          -- rewrite <- app_assoc, Hx1. exact Hs.
          -- rewrite Hx1. exact Hs.
        * destruct Hpost. eapply (Hev RCrash); eauto; [discriminate|inversion H; reflexivity].
      + inversion H; subst. exists []. rewrite app_nil_r. auto.
      + destruct kk as [|kk]; inversion H; subst; exists []; rewrite app_nil_r; cbn; auto.
        repeat split; auto. discriminate.
  Qed.

  Lemma rq_next_inv : forall t c o now d k c' o' now' a,
      G (d ++ sstream_of o) ->
      R c d k -> rq_next M t c o now = (c', o', now', a) -> rq_post d k o c' o' a.
  Proof.
    unfold rq_next. intros t c o now d k c' o' now' a HG HR H.
    destruct (mdrain M c) as [c1 r1] eqn:Ed.
    pose proof (okr_drain _ _ _ _ _ OK _ _ _ _ _ (okr_prefix _ _ _ _ _ OK _ _ HG) HR Ed) as Hdr.
    assert (Hev : forall r, r <> RStop -> (c', o', a) = (c1, o, nact_of r) ->
                  nth_error (spec d) k = Some r -> R c1 d (S k) -> rq_post d k o c' o' a).
    { intros r Hne E Hnth HR1. inversion E; subst. destruct (nact_of_event r Hne) as [Ne Ns].
      exists []. rewrite app_nil_r. destruct (nact_of r) eqn:En; try congruence; (split; [reflexivity|]); rewrite Ne; auto. }
    destruct r1 as [p|e| |].
    - destruct Hdr. eapply (Hev (RPkt p)); eauto; [discriminate|inversion H; reflexivity].
    - destruct Hdr. eapply (Hev (RErr e)); eauto; [discriminate|inversion H; reflexivity].
    - destruct Hdr as [Hk HR1]. eapply rq_loop_inv; eauto.
    - destruct Hdr. eapply (Hev RCrash); eauto; [discriminate|inversion H; reflexivity].
  Qed.

  (* ---- what the handler generators have seen *)
  Definition got (u : @ustate P) : list (nres P) := got_log (ulog u).

  Lemma do_act_got : forall g thrown (u u1 : @ustate P) res, do_act g thrown u = (u1, res) -> got u1 = got u.
  Proof.
    unfold do_act, pop_act, got. intros g thrown u u1 res E.
    destruct (acts u) as [|a rest]; [|destruct a]; inversion E; subst; reflexivity.
  Qed.

  Lemma ustart_got : forall g (u u1 : @ustate P) res, ustart g u = (u1, res) -> got u1 = got u.
  Proof. unfold ustart. intros g u u1 res E. apply do_act_got in E. exact E. Qed.

  Lemma uresume_got : forall g ev now (u u1 : @ustate P) res,
      uresume g ev now u = (u1, res) -> got u1 = got u ++ got_ev ev.
  Proof.
    unfold uresume. intros g ev now u u1 res E. destruct ev; apply do_act_got in E; rewrite E; [|reflexivity].
    unfold usend. destruct (closed _); reflexivity.
  Qed.

  Lemma handle_loop_got : forall g (u u1 : @ustate P) res, handle_loop g u = (u1, res) -> got u1 = got u.
  Proof.
    unfold handle_loop. intros g u u1 res E. destruct (closed u); [inversion E; reflexivity|].
    destruct (ustart g u) as [u2 r] eqn:Es. apply ustart_got in Es.
    destruct r; inversion E; subst; exact Es.
  Qed.

  Lemma hstart_got : forall oc (u u1 : @ustate P) res, hstart oc u = (u1, res) -> got u1 = got u.
  Proof.
    unfold hstart. intros oc u u1 res E. destruct oc as [|[|oc]].
    - apply handle_loop_got in E. exact E.
    - destruct (ustart 0 (ulogev EOnConn u)) as [u2 r] eqn:Es. apply ustart_got in Es.
      destruct r; try (inversion E; subst; exact Es). apply handle_loop_got in E. rewrite E. exact Es.
    - apply handle_loop_got in E. exact E.
  Qed.

  Lemma hresume_got : forall ph ev now (u u1 : @ustate P) res,
      hresume ph ev now u = (u1, res) -> got u1 = got u ++ got_ev ev.
  Proof.
    unfold hresume. intros ph ev now u u1 res E.
    destruct (uresume (phase_gen ph) ev now u) as [u2 r] eqn:Er. apply uresume_got in Er.
    destruct r.
    - inversion E; subst. exact Er.
    - apply handle_loop_got in E. rewrite E. exact Er.
    - destruct ph; inversion E; subst; exact Er.
  Qed.

  Lemma hclose_got : forall ph (u : @ustate P), got (hclose ph u) = got u.
  Proof. intros [g|g] u; reflexivity. Qed.

  Lemma spec_firstn_prefix : forall d x k, k <= length (spec d) -> firstn k (spec (d ++ x)) = firstn k (spec d).
  Proof.
    intros d x k H. destruct (okr_mono _ _ _ _ _ OK d x) as [tl E]. rewrite E, firstn_app.
    replace (k - length (spec d)) with 0 by lia. rewrite firstn_O, app_nil_r. reflexivity.
  Qed.

  Lemma firstn_S_nth : forall {A} (l : list A) k e, nth_error l k = Some e -> firstn (S k) l = firstn k l ++ [e].
  Proof.
    intros A l. induction l as [|a l IH]; intros k e H; [destruct k; discriminate|].
    destruct k; [inversion H; reflexivity|]. cbn [firstn app]. f_equal. apply IH. exact H.
  Qed.

  Definition req_post (s : bytes) (f : @final P) : Prop :=
    (exists n, got (f_user f) = firstn n (spec s)) /\ (f_eof f = true -> got (f_user f) = spec s).

  Lemma client_loop_req : forall fuel ph t c o now (u : @ustate P) d k,
      G (d ++ sstream_of o) ->
      R c d k -> k <= length (spec d) -> got u = firstn k (spec d) ->
      req_post (d ++ sstream_of o) (client_loop M fuel ph t c o now u).
  Proof.
    induction fuel; intros ph t c o now u d k HG HR Hk Hg.
    - split; [|discriminate]. exists k. cbn. rewrite Hg. symmetry. apply spec_firstn_prefix. exact Hk.
    - cbn [client_loop]. destruct (closed u).
      { split; [|discriminate]. exists k. cbn [finish finish_ f_user]. rewrite hclose_got, Hg.
        symmetry. apply spec_firstn_prefix. exact Hk. }
      destruct (rq_next M t c o now) as [[[c' o'] now'] a] eqn:En.
      pose proof (rq_next_inv _ _ _ _ _ _ _ _ _ _ HG HR En) as (x & Hpost).
      assert (Hres : forall ev, got_ev ev = match nact_ev a with Some e => [e] | None => [] end ->
                a <> NStop ->
                req_post (d ++ sstream_of o)
                  match hresume ph ev now' u with
                  | (u1, HYielded ph' t') => client_loop M fuel ph' t' c' o' now' u1
                  | (u1, HFinished) => finish u1 None o' now'
                  | (u1, HRaised x') => finish u1 (Some x') o' now'
                  end).
      { intros ev Hev Hns.
        assert (Hx : x ++ sstream_of o' = sstream_of o /\
                     match nact_ev a with
                     | Some e => nth_error (spec (d ++ x)) k = Some e /\ R c' (d ++ x) (S k)
                     | None => a <> NThrow XHandler /\ D c' (d ++ x) /\ k = length (spec (d ++ x))
                     end) by (destruct a; try congruence; exact Hpost).
        destruct Hx as [Hx1 Hx2].
        assert (Hk' : exists k', R c' (d ++ x) k' /\ k' <= length (spec (d ++ x)) /\
                                 got u ++ got_ev ev = firstn k' (spec (d ++ x))).
        { rewrite Hev. destruct (nact_ev a) as [e|].
          - destruct Hx2 as [Hn HR2]. exists (S k). split; [exact HR2|]. split.
            + apply nth_error_Some. congruence.
            + rewrite (firstn_S_nth _ _ _ Hn), Hg, spec_firstn_prefix by exact Hk. reflexivity.
          - destruct Hx2 as (_ & HR2 & Hk2). exists k. split; [rewrite Hk2; apply (okr_D_R _ _ _ _ _ OK); exact HR2|]. split; [lia|].
            rewrite app_nil_r, Hg, spec_firstn_prefix by exact Hk. reflexivity. }
        destruct Hk' as (k' & HR' & Hk'' & Hg').
        destruct (hresume ph ev now' u) as [u1 res] eqn:Eh. apply hresume_got in Eh. rewrite <- Eh in Hg'.
        rewrite <- Hx1, app_assoc.
        destruct res.
        - apply (IHfuel _ _ _ _ _ _ _ k'); [|exact HR'|exact Hk''|exact Hg']. rewrite <- app_assoc, Hx1. exact HG.
        - split; [|discriminate]. exists k'. cbn. rewrite Hg'. symmetry. apply spec_firstn_prefix. exact Hk''.
        - split; [|discriminate]. exists k'. cbn. rewrite Hg'. symmetry. apply spec_firstn_prefix. exact Hk''. }
      destruct a as [p|xk|].
      + apply Hres; [reflexivity|discriminate].
      + apply Hres; [destruct xk; reflexivity|discriminate].
      + destruct Hpost as (-> & HR2 & Hk2).
        assert (E : got (hclose ph u) = spec (d ++ sstream_of o)).
        { rewrite hclose_got, Hg. rewrite <- (spec_firstn_prefix d (sstream_of o) k Hk). rewrite Hk2. apply firstn_all. }
        split; [|intros _; exact E]. exists (length (spec (d ++ sstream_of o))). cbn [finish_ f_user]. rewrite E. symmetry. apply firstn_all.
  Qed.

  Lemma client_coroutine_req_rel : forall c0, R c0 [] 0 -> forall oc acts0 o,
      G (sstream_of o) ->
      req_post (sstream_of o) (client_coroutine M oc acts0 c0 o).
  Proof.
    intros c0 R0 oc acts0 o HG. unfold client_coroutine.
    destruct (hstart oc _) as [u1 res] eqn:E. apply hstart_got in E. cbn in E.
    destruct res.
    - apply (client_loop_req _ _ _ _ _ _ _ [] 0 HG R0 (Nat.le_0_l _) E).
    - split; [|discriminate]. exists 0. cbn. exact E.
    - split; [|discriminate]. exists 0. cbn. exact E.
  Qed.
End Requests.

(* ================================================================== TimeoutError only if nothing complete arrived in time *)
Section Timeouts.
  Context {P C : Type}.
  Variable M : machine P C.
  Variable spec : bytes -> list (nres P).
  Variable G : bytes -> Prop.
  Variable R : C -> bytes -> nat -> Prop.
  Variable D : C -> bytes -> Prop.
  Hypothesis OK : consumer_ok_rel M spec G R D.

  Definition tmo_post (dd : nat) (d : bytes) (k : nat) (o : speer) (c' : C) (o' : speer) (now' : nat) : Prop :=
    exists x, now' = dd /\ x ++ sstream_of o' = sstream_of o /\ D c' (d ++ x) /\ k = length (spec (d ++ x)) /\
              match o' with it :: _ => dd <= sitem_at it | [] => False end.

  Lemma nact_of_not_timeout : forall r : nres P, nact_of r <> NThrow XTimeout.
  Proof. destruct r; discriminate. Qed.

  Lemma rq_loop_timeout : forall fuel dl c o now d k c' o' now',
      speer_size o < fuel -> D c d -> k = length (spec d) -> G (d ++ sstream_of o) ->
      (match dl with Some dd => now <= dd | None => True end) ->
      rq_loop M fuel dl c o now = (c', o', now', NThrow XTimeout) ->
      exists dd, dl = Some dd /\ tmo_post dd d k o c' o' now'.
  Proof.
    induction fuel; intros dl c o now d k c' o' now' Hf HR Hk HG Hdl H; [lia|].
    cbn [rq_loop] in H. destruct o as [|it o1]; [inversion H|].
    destruct dl as [dd|].
    - destruct (Nat.ltb now (sitem_at it)) eqn:E1; destruct (Nat.leb dd (sitem_at it)) eqn:E2; cbn [andb] in H.
      { inversion H; subst. exists dd. split; [reflexivity|]. exists []. rewrite app_nil_r.
        apply Nat.leb_le in E2. repeat split; auto. lia. }
      all: assert (Hnow : Nat.max now (sitem_at it) <= dd)
        by (try apply Nat.ltb_ge in E1; try apply Nat.leb_gt in E2; try apply Nat.ltb_lt in E1; lia).
      all: destruct it as [ch at_|at_|kk at_]; [|inversion H|destruct kk; inversion H].
      all: destruct ch as [|b ch]; [inversion H|].
      all: assert (HG1 : G (d ++ b :: ch))
        by (apply (okr_prefix _ _ _ _ _ OK _ (sstream_of o1)); rewrite <- app_assoc; exact HG).
      all: destruct (okr_take _ _ _ _ _ OK c d (b :: ch) HR ltac:(discriminate) HG1) as (c1 & r1 & n & room & Et & Hn & Hpost).
      all: rewrite <- Hk in Hpost; rewrite Et in H; cbn [sitem_at] in H, Hnow.
      all: pose proof (stake_rest (b :: ch) n at_ o1 Hn) as [Hs Hsz]; cbv zeta in Hs, Hsz.
      all: set (o2 := if Nat.ltb n (length (b :: ch)) then SData (skipn n (b :: ch)) at_ :: o1 else o1) in *.
      all: assert (Hf2 : speer_size o2 < fuel) by (simpl in Hf; simpl in Hsz; lia).
      all: destruct r1 as [p|e| |]; try (inversion H; fail).
      all: destruct Hpost as [Hl HR1].
      all: assert (HG2 : G ((d ++ firstn n (b :: ch)) ++ sstream_of o2)) by (rewrite <- app_assoc, Hs; exact HG).
      all: destruct (IHfuel (Some dd) _ _ _ _ _ _ _ _ Hf2 HR1 (eq_sym Hl) HG2 Hnow H) as (dd' & Edd & x & Hx1 & Hx2 & Hx3 & Hx4 & Hx5).
      all: injection Edd as Edd'; rewrite <- Edd' in *; clear Edd'; exists dd; split; [reflexivity|].
      all: exists (firstn n (b :: ch) ++ x); rewrite app_assoc; repeat split; auto.
      all: rewrite <- app_assoc, Hx2; exact Hs.
    - cbn in H.
      destruct it as [ch at_|at_|kk at_]; [|inversion H|destruct kk; inversion H].
      destruct ch as [|b ch]; [inversion H|].
      assert (HG1 : G (d ++ b :: ch))
        by (apply (okr_prefix _ _ _ _ _ OK _ (sstream_of o1)); rewrite <- app_assoc; exact HG).
      destruct (okr_take _ _ _ _ _ OK c d (b :: ch) HR ltac:(discriminate) HG1) as (c1 & r1 & n & room & Et & Hn & Hpost).
      rewrite <- Hk in Hpost. rewrite Et in H. cbn [sitem_at] in H.
      pose proof (stake_rest (b :: ch) n at_ o1 Hn) as [Hs Hsz]. cbv zeta in Hs, Hsz.
      set (o2 := if Nat.ltb n (length (b :: ch)) then SData (skipn n (b :: ch)) at_ :: o1 else o1) in *.
      assert (Hf2 : speer_size o2 < fuel) by (simpl in Hf; simpl in Hsz; lia).
      destruct r1 as [p|e| |]; try (inversion H; fail).
      destruct Hpost as [Hl HR1].
      assert (HG2 : G ((d ++ firstn n (b :: ch)) ++ sstream_of o2)) by (rewrite <- app_assoc, Hs; exact HG).
      destruct (IHfuel None _ _ _ _ _ _ _ _ Hf2 HR1 (eq_sym Hl) HG2 I H) as (dd' & Edd & _). discriminate.
  Qed.

  Lemma rq_next_timeout_rel : forall t c o now d k c' o' now',
      G (d ++ sstream_of o) ->
      R c d k -> rq_next M t c o now = (c', o', now', NThrow XTimeout) ->
      exists tm x, t = Some tm /\ now' = now + tm /\ x ++ sstream_of o' = sstream_of o /\
                   D c' (d ++ x) /\ k = length (spec (d ++ x)) /\
                   match o' with it :: _ => now + tm <= sitem_at it | [] => False end.
  Proof.
    unfold rq_next. intros t c o now d k c' o' now' HG HR H.
    destruct (mdrain M c) as [c1 r1] eqn:Ed.
    pose proof (okr_drain _ _ _ _ _ OK _ _ _ _ _ (okr_prefix _ _ _ _ _ OK _ _ HG) HR Ed) as Hdr.
    destruct r1 as [p|e| |]; try (inversion H; fail).
    destruct Hdr as [Hk HR1].
    destruct t as [tm|].
    - destruct (rq_loop_timeout _ (Some (now + tm)) _ _ _ _ _ _ _ _ (Nat.lt_succ_diag_r _) HR1 Hk HG (Nat.le_add_r now tm) H)
        as (dd & Edd & x & Hx1 & Hx2 & Hx3 & Hx4 & Hx5).
      cbn in Edd. injection Edd as Edd'. rewrite <- Edd' in *. exists tm, x. repeat split; auto.
    - destruct (rq_loop_timeout _ None _ _ _ _ _ _ _ _ (Nat.lt_succ_diag_r _) HR1 Hk HG I H) as (dd & Edd & _). discriminate.
  Qed.
End Timeouts.

From EN Require Import Proofs.C03_proofs.

(* the unrelativised statements (interface consumer_ok) as instances *)
Section Unrelativised.
  Context {P C : Type}.
  Variable M : machine P C.
  Variable spec : bytes -> list (nres P).
  Variable R : C -> bytes -> nat -> Prop.
  Hypothesis OK : consumer_ok M spec R.

  Lemma client_coroutine_req : forall c0, R c0 [] 0 -> forall oc acts0 o,
      req_post spec (sstream_of o) (client_coroutine M oc acts0 c0 o).
  Proof.
    intros c0 R0 oc acts0 o.
    apply (client_coroutine_req_rel M spec _ R _ (consumer_ok_is_rel M spec R OK) c0 R0 oc acts0 o I).
  Qed.

  Lemma rq_next_timeout : forall t c o now d k c' o' now',
      R c d k -> rq_next M t c o now = (c', o', now', NThrow XTimeout) ->
      exists tm x, t = Some tm /\ now' = now + tm /\ x ++ sstream_of o' = sstream_of o /\
                   R c' (d ++ x) k /\ k = length (spec (d ++ x)) /\
                   match o' with it :: _ => now + tm <= sitem_at it | [] => False end.
  Proof.
    intros t c o now d k c' o' now' HR H.
    destruct (rq_next_timeout_rel M spec _ R _ (consumer_ok_is_rel M spec R OK) t c o now d k c' o' now' I HR H)
      as (tm & x & H1 & H2 & H3 & H4 & H5 & H6).
    exists tm, x. repeat split; auto. rewrite H5. exact H4.
  Qed.
End Unrelativised.

From EN Require Import Frame.ReadUntil Proofs.C03_fixed.

Lemma fixed_requests_in_order :
  forall (P : Type) (size : nat) (dec : decoder P) (bufsize : nat), 0 < size -> 0 < bufsize ->
  forall (oc : nat) (acts0 : list hact) (o : speer),
    let f := client_coroutine (copy_machine (rx_framer size dec) bufsize) oc acts0 (cinit (rx_framer size dec)) o in
    (exists n, got_log (ulog (f_user f)) = firstn n (fx_spec size dec (sstream_of o)))
    /\ (f_eof f = true -> got_log (ulog (f_user f)) = fx_spec size dec (sstream_of o)).
Proof.
  intros P size dec bufsize Hs Hb oc acts0 o.
  apply (client_coroutine_req (copy_machine (rx_framer size dec) bufsize) (fx_spec size dec) (fx_R size dec)
           (fx_consumer_ok size dec bufsize Hs Hb) (cinit (rx_framer size dec)) (fx_R_init size dec bufsize Hs Hb)).
Qed.

(* ================================================================== sorted arrivals *)
Section Sorted.
  Context {P C : Type}.
  Variable M : machine P C.

  Lemma nondecr_rest : forall (ch : bytes) T o n,
      nondecr (SData ch T :: o) ->
      nondecr (if Nat.ltb n (length ch) then SData (skipn n ch) T :: o else o).
  Proof. intros ch T o n H. destruct (Nat.ltb n (length ch)); [exact H|apply H]. Qed.

  Lemma rq_loop_nondecr : forall fuel dl c o now c' o' now' (a : @nact P),
      nondecr o -> rq_loop M fuel dl c o now = (c', o', now', a) -> nondecr o'.
  Proof.
    induction fuel; intros dl c o now c' o' now' a Hs H; cbn [rq_loop] in H; [inversion H; subst; exact Hs|].
    destruct o as [|it o1]; [inversion H; subst; exact I|].
    destruct (match dl with Some d0 => Nat.ltb now (sitem_at it) && Nat.leb d0 (sitem_at it) | None => false end);
      [inversion H; subst; exact Hs|].
    destruct it as [ch at_|at_|kk at_].
    - destruct ch as [|b ch]; [inversion H; subst; apply Hs|].
      destruct (mtake M c (b :: ch)) as [[[[c1 r1] n] room]|]; [|inversion H; subst; exact Hs].
      pose proof (nondecr_rest (b :: ch) at_ o1 n Hs) as Hs2. cbn [sitem_at] in H.
      destruct r1; try (inversion H; subst; exact Hs2).
      eapply IHfuel; eauto.
    - inversion H; subst. apply Hs.
    - destruct kk; inversion H; subst; apply Hs.
  Qed.

  Lemma rq_next_nondecr : forall t c o now c' o' now' (a : @nact P),
      nondecr o -> rq_next M t c o now = (c', o', now', a) -> nondecr o'.
  Proof.
    unfold rq_next. intros t c o now c' o' now' a Hs H.
    destruct (mdrain M c) as [c1 r1]. destruct r1; try (inversion H; subst; exact Hs).
    eapply rq_loop_nondecr; eauto.
  Qed.

  Lemma head_bound_all : forall dl (o : speer),
      nondecr o -> match o with it :: _ => dl <= sitem_at it | [] => False end ->
      o <> [] /\ Forall (fun it => dl <= sitem_at it) o.
  Proof.
    intros dl [|it o] Hs Hh; [contradiction|]. split; [discriminate|].
    constructor; [exact Hh|]. destruct Hs as [Hall _].
    eapply Forall_impl; [|exact Hall]. cbv beta. intros a Ha. lia.
  Qed.
End Sorted.

Section SortedTimeout.
  Context {P C : Type}.
  Variable M : machine P C.
  Variable spec : bytes -> list (nres P).

  Lemma rq_next_timeout_sorted_rel : forall (G : bytes -> Prop) (R : C -> bytes -> nat -> Prop) (D : C -> bytes -> Prop),
      consumer_ok_rel M spec G R D ->
      forall t c o now d k c' o' now',
      G (d ++ sstream_of o) -> nondecr o ->
      R c d k -> rq_next M t c o now = (c', o', now', NThrow XTimeout) ->
      exists tm x, t = Some tm /\ now' = now + tm /\ x ++ sstream_of o' = sstream_of o /\
                   D c' (d ++ x) /\ k = length (spec (d ++ x)) /\
                   o' <> [] /\ Forall (fun it => now + tm <= sitem_at it) o'.
  Proof.
    intros G R D OK t c o now d k c' o' now' HG Hs HR H.
    destruct (rq_next_timeout_rel M spec G R D OK t c o now d k c' o' now' HG HR H)
      as (tm & x & H1 & H2 & H3 & H4 & H5 & H6).
    exists tm, x. repeat split; auto; apply (head_bound_all (now + tm) o' (rq_next_nondecr M _ _ _ _ _ _ _ _ Hs H) H6).
  Qed.

  Lemma rq_next_timeout_sorted : forall (R : C -> bytes -> nat -> Prop),
      consumer_ok M spec R ->
      forall t c o now d k c' o' now',
      nondecr o ->
      R c d k -> rq_next M t c o now = (c', o', now', NThrow XTimeout) ->
      exists tm x, t = Some tm /\ now' = now + tm /\ x ++ sstream_of o' = sstream_of o /\
                   R c' (d ++ x) k /\ k = length (spec (d ++ x)) /\
                   o' <> [] /\ Forall (fun it => now + tm <= sitem_at it) o'.
  Proof.
    intros R OK t c o now d k c' o' now' Hs HR H.
    destruct (rq_next_timeout_sorted_rel _ R _ (consumer_ok_is_rel M spec R OK) t c o now d k c' o' now' I Hs HR H)
      as (tm & x & H1 & H2 & H3 & H4 & H5 & H6 & H7).
    exists tm, x. repeat split; auto. rewrite H5. exact H4.
  Qed.
End SortedTimeout.
