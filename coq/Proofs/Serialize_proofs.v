(* the sending side produces exactly payload ++ separator for transmittable payloads *)
From Coq Require Import ZArith List Bool Lia Arith.
From EN Require Import Lib.Bytes Frame.Serialize Proofs.Bytes_proofs.
Import ListNotations.

Section Ser.
  Variable sep : bytes.
  Hypothesis sep_ne : sep <> [].

  Lemma endswithb_occ (s : bytes) : endswithb s sep = true -> occ sep s (length s - length sep) = true.
  Proof.
    unfold endswithb. rewrite andb_true_iff. intros [_ H]. apply bytes_eqb_eq in H. unfold occ. rewrite H.
    rewrite <- (app_nil_r sep) at 2. apply prefixb_app.
  Qed.

  (* transmittable: non-empty, and the separator first occurs in payload ++ separator at its very end *)
  Definition transmittable (data : bytes) : Prop := data <> [] /\ find0 sep (data ++ sep) = Some (length data).

  Lemma transmittable_not_endswith data : transmittable data -> endswithb data sep = false.
  Proof.
    intros [Hne Hf]. destruct (endswithb data sep) eqn:E; [|reflexivity]. exfalso.
    pose proof (endswithb_occ _ E) as Ho.
    assert (Hl : length sep <= length data).
    { unfold endswithb in E. rewrite andb_true_iff in E. destruct E as [E _]. apply Nat.leb_le in E. exact E. }
    assert (Hs : 1 <= length sep) by (destruct sep; [congruence | simpl; lia]).
    apply find0_Some in Hf as [_ Hfirst].
    specialize (Hfirst (length data - length sep) ltac:(lia)).
    rewrite (occ_app_l _ _ sep _ Ho) in Hfirst. discriminate.
  Qed.

  Lemma transmittable_no_sep data : transmittable data -> containsb sep data = false.
  Proof.
    intros [Hne Hf]. unfold containsb. destruct (find0 sep data) as [i|] eqn:E; [|reflexivity]. exfalso.
    pose proof (find0_Some _ _ _ E) as [Ho _]. pose proof (occ_bound _ _ _ sep_ne Ho) as Hb.
    assert (Hs : 1 <= length sep) by (destruct sep; [congruence | simpl; lia]).
    rewrite (find0_app_l _ _ sep _ E) in Hf. inversion Hf. lia.
  Qed.

  Lemma line_iser_frame data : transmittable data -> line_iser sep data = [data ++ sep].
  Proof.
    intros Ht. pose proof (transmittable_not_endswith _ Ht) as E. destruct Ht as [Hne _].
    unfold line_iser. destruct data; [congruence|]. rewrite E. reflexivity.
  Qed.

  Lemma autosep_iser_frame check data : transmittable data -> autosep_iser check sep data = Some [data ++ sep].
  Proof.
    intros Ht. pose proof (transmittable_not_endswith _ Ht) as E. pose proof (transmittable_no_sep _ Ht) as C.
    destruct Ht as [Hne _]. unfold autosep_iser. destruct check.
    - assert (Hs : strip_suffixes (length data) sep data = data).
      { destruct (length data); cbn [strip_suffixes]; [reflexivity | rewrite E; reflexivity]. }
      rewrite Hs, C. destruct data; [congruence | reflexivity].
    - rewrite E. destruct data; [congruence | reflexivity].
  Qed.
End Ser.
