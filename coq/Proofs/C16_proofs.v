(* Proofs for C16: invariants of the datagram-server LTS over all label sequences. *)
From Coq Require Import List Arith Bool Lia.
From EN Require Import Lib.Bytes Conc.DgramServer Conc.DgramListener.
Import ListNotations.

(* ---------------------------------------------------------------- per-client invariant *)
Definition cinv (c : client) : Prop :=
  match st c with
  | TNone => queue c = [] /\ pc c = PIdle /\ nactive c = 0
  | TPending => queue c <> [] /\ pc c = PIdle /\ nactive c = 0
  | TRunning => pc c <> PIdle /\ nactive c = 1
  end.

(* everything that was taken from the listener for this client, in order *)
Definition flat (c : client) : list dgram := map fst (hist c) ++ held c ++ queue c.

Ltac cbreak c := destruct c as [st_ q_ pc_ gs_ hs_ ar_ hi_ ge_ na_].

Ltac crush :=
  repeat match goal with
         | H : _ /\ _ |- _ => destruct H
         | H : Ok _ _ _ = Ok _ _ _ |- _ => inversion H; subst; clear H
         | H : CrashR = Ok _ _ _ |- _ => discriminate H
         | H : NotEnabled = Ok _ _ _ |- _ => discriminate H
         | H : _ :: _ = [] |- _ => discriminate H
         | H : [] = _ :: _ |- _ => discriminate H
         | H : ?x <> ?x |- _ => exfalso; apply H; reflexivity
         end.

Lemma client_coroutine_ok a c c' o cpu :
  st c = TPending -> queue c <> [] -> pc c = PIdle -> nactive c = 0 ->
  client_coroutine a c = Ok c' o cpu ->
  cinv c' /\ flat c' = flat c /\ arrived c' = arrived c /\ cpu = true /\ hsusp c' = hsusp c
  /\ (exists d, pc c' = PGen0 d) /\ gsusp c' = gsusp c.
Proof.
  cbreak c. unfold client_coroutine, cinv, flat, held. simpl. intros -> Hq -> -> H.
  destruct q_ as [|d q]; [congruence|]. simpl in H. crush. simpl.
  repeat split; try discriminate; eauto.
Qed.

Lemma client_coroutine_nocrash a c :
  st c = TPending -> queue c <> [] -> client_coroutine a c <> CrashR.
Proof.
  cbreak c. unfold client_coroutine. simpl. intros -> Hq. destruct q_; [congruence|]. simpl. discriminate.
Qed.

Lemma handler_check_ok a c c' o cpu :
  (st c = TNone -> pc c = PIdle /\ nactive c = 0) ->
  (st c = TPending -> queue c <> [] /\ pc c = PIdle /\ nactive c = 0) ->
  (st c = TRunning -> pc c <> PIdle /\ nactive c = 1) ->
  handler_check a c = Ok c' o cpu ->
  cinv c' /\ flat c' = flat c /\ arrived c' = arrived c.
Proof.
  intros HN HP HR H. unfold handler_check in H.
  destruct (st c) eqn:Es.
  - destruct (queue c) eqn:Eq.
    + crush. unfold cinv. rewrite Es. destruct HN as [? ?]; auto.
    + destruct HN as [Hpc Hna]; auto.
      apply client_coroutine_ok in H; simpl; try rewrite Eq; try discriminate; auto.
      destruct H as (? & Hf & Ha & _). repeat split; auto.
  - assert (c' = c) by (destruct (queue c); crush; reflexivity). subst c'.
    unfold cinv. rewrite Es. auto.
  - assert (c' = c) by (destruct (queue c); crush; reflexivity). subst c'.
    unfold cinv. rewrite Es. auto.
Qed.

Lemma handler_check_nocrash a c : handler_check a c <> CrashR.
Proof.
  unfold handler_check. destruct (st c) eqn:Es; try (destruct (queue c); discriminate).
  destruct (queue c) eqn:Eq; [discriminate|].
  apply client_coroutine_nocrash; simpl; try rewrite Eq; auto; discriminate.
Qed.

Definition local_ok (f : client -> lres) : Prop :=
  forall c, cinv c ->
    f c <> CrashR /\
    forall c' o cpu, f c = Ok c' o cpu -> cinv c' /\ flat c' = flat c /\ arrived c' = arrived c.

Ltac brute c :=
  cbreak c; unfold cinv, flat, held in *; simpl in *;
  repeat match goal with
         | |- context [match ?x with _ => _ end] => is_var x; destruct x; simpl in *
         end;
  crush; simpl in *; subst; simpl in *;
  repeat split; try discriminate; try congruence; auto.

Lemma finish_ok c c' o cpu :
  st c = TRunning -> nactive c = 1 -> finish c = Ok c' o cpu ->
  cinv c' /\ map fst (hist c') ++ queue c' = map fst (hist c) ++ queue c /\ arrived c' = arrived c
  /\ cpu = false /\ pc c' = PIdle.
Proof.
  cbreak c. unfold finish, cinv. simpl. intros -> -> H.
  destruct q_; simpl in H; crush; simpl; repeat split; auto; discriminate.
Qed.

Lemma l_hresume_ok a : local_ok (l_hresume a).
Proof.
  intros c Hc. unfold l_hresume. destruct (hsusp c) eqn:Eh.
  - split; [discriminate|]. intros; discriminate.
  - split; [apply handler_check_nocrash|].
    intros c' o cpu H. unfold cinv in Hc.
    apply handler_check_ok in H; simpl.
    + destruct H as (? & Hf & Ha). repeat split; auto.
    + intros E; rewrite E in Hc; tauto.
    + intros E; rewrite E in Hc; tauto.
    + intros E; rewrite E in Hc; tauto.
Qed.

Lemma l_taskstart_ok a : local_ok (l_taskstart a).
Proof.
  intros c Hc. unfold l_taskstart. unfold cinv in Hc. destruct (st c) eqn:Es.
  - split; [discriminate|intros; discriminate].
  - destruct Hc as (Hq & Hpc & Hn). split; [apply client_coroutine_nocrash; auto|].
    intros c' o cpu H. apply client_coroutine_ok in H; auto. tauto.
  - split; [discriminate|intros; discriminate].
Qed.

Lemma l_gsuspend_ok : local_ok l_gsuspend.
Proof. intros c Hc. unfold l_gsuspend. split; [destruct (pc c); discriminate|]. intros c' o cpu H. brute c. Qed.

Lemma l_gresume_ok : local_ok l_gresume.
Proof.
  intros c Hc. unfold l_gresume. split; [destruct (pc c), (gsusp c); discriminate|]. intros c' o cpu H.
  cbreak c; unfold cinv, flat, held in *; simpl in *.
  destruct pc_, gs_; crush; simpl; destruct st_; crush; repeat split; try discriminate; auto.
Qed.

Lemma l_gyield_ok a t : local_ok (l_gyield a t).
Proof.
  intros c Hc. unfold l_gyield. split; [destruct (pc c); discriminate|]. intros c' o cpu H.
  cbreak c; unfold cinv, flat, held in *; simpl in *.
  destruct pc_; crush; simpl; destruct st_; crush; repeat split; try discriminate; auto.
  rewrite map_app, <- app_assoc. reflexivity.
Qed.

Lemma l_gfinish_ok : local_ok l_gfinish.
Proof.
  intros c Hc. unfold l_gfinish. unfold cinv in Hc.
  destruct (pc c) eqn:Epc.
  - split; [discriminate|intros; discriminate].
  - destruct (st c) eqn:Es; try (destruct Hc as (_ & Hc & _); congruence).
    destruct Hc as [_ Hn]. split.
    + unfold finish. simpl. rewrite Es. destruct (queue c); discriminate.
    + intros c' o cpu H. apply finish_ok in H; simpl; auto.
      destruct H as (Hi & Hf & Ha & _ & Hpc'). repeat split; auto.
      unfold flat, held. rewrite Hpc', Epc. simpl in *. rewrite Hf.
      rewrite map_app, <- app_assoc. reflexivity.
  - destruct (st c) eqn:Es; try (destruct Hc as (_ & Hc & _); congruence).
    destruct Hc as [_ Hn]. split.
    + unfold finish. rewrite Es. simpl. destruct (queue c); discriminate.
    + intros c' o cpu H. apply finish_ok in H; simpl; auto.
      destruct H as (Hi & Hf & Ha & _ & Hpc'). repeat split; auto.
      unfold flat, held. rewrite Hpc', Epc. simpl in *. exact Hf.
  - split; [discriminate|intros; discriminate].
Qed.

Lemma l_popwake_ok a : local_ok (l_popwake a).
Proof.
  intros c Hc. unfold l_popwake. split; [destruct (pc c), (queue c); discriminate|]. intros c' o cpu H.
  cbreak c; unfold cinv, flat, held in *; simpl in *.
  destruct pc_, q_; crush; simpl; destruct st_; crush; repeat split; try discriminate; auto.
  rewrite map_app, <- app_assoc. reflexivity.
Qed.

Lemma l_timeout_ok a : local_ok (l_timeout a).
Proof.
  intros c Hc. unfold l_timeout. split; [destruct (pc c) as [| | |[|]]; discriminate|]. intros c' o cpu H.
  cbreak c; unfold cinv, flat, held in *; simpl in *.
  destruct pc_ as [| | |[|]]; crush; simpl; destruct st_; crush; repeat split; try discriminate; auto.
Qed.

Lemma l_hstart_ok a d susp c :
  cinv c ->
  l_hstart a d susp c <> CrashR /\
  forall c' o cpu, l_hstart a d susp c = Ok c' o cpu ->
    cinv c' /\ flat c' = flat c ++ [d] /\ arrived c' = arrived c.
Proof.
  intros Hc. unfold l_hstart.
  assert (Hflat : flat (set_queue c (queue c ++ [d])) = flat c ++ [d]).
  { unfold flat, held. simpl. rewrite !app_assoc. reflexivity. }
  assert (HK : forall c' o cpu, handler_check a (set_queue c (queue c ++ [d])) = Ok c' o cpu ->
               cinv c' /\ flat c' = flat c ++ [d] /\ arrived c' = arrived c).
  { intros c' o cpu H. unfold cinv in Hc. apply handler_check_ok in H; simpl.
    - destruct H as (? & Hf & Ha). rewrite Hf, Hflat. auto.
    - intros E; rewrite E in Hc; tauto.
    - intros E; rewrite E in Hc. destruct Hc as (Hq & ? & ?). repeat split; auto.
      destruct (queue c); simpl; discriminate.
    - intros E; rewrite E in Hc; tauto. }
  destruct (st c) eqn:Es.
  - split; [apply handler_check_nocrash | exact HK].
  - destruct susp.
    + split; [discriminate|]. intros c' o cpu H. crush. unfold cinv in *. simpl. rewrite Es in *.
      destruct Hc as (Hq & ? & ?). repeat split; auto.
      destruct (queue c); simpl; discriminate.
    + split; [apply handler_check_nocrash | exact HK].
  - destruct susp.
    + split; [discriminate|]. intros c' o cpu H. crush. unfold cinv in *. simpl. rewrite Es in *.
      repeat split; tauto.
    + split; [apply handler_check_nocrash | exact HK].
Qed.

(* ---------------------------------------------------------------- global invariant *)
Definition fifo_at (s : state) (a : addr) : Prop :=
  flat (cl s a) ++ proj a (spawned s) = arrived (cl s a).

Definition Inv (s : state) : Prop :=
  err s = false /\ forall a, cinv (cl s a) /\ fifo_at s a.

Lemma Inv0 : Inv state0.
Proof. split; [reflexivity|]. intros a. split; [unfold cinv; simpl; auto | reflexivity]. Qed.

Lemma proj_cons_eq a d sp : proj a ((a, d) :: sp) = d :: proj a sp.
Proof. unfold proj. simpl. rewrite Nat.eqb_refl. reflexivity. Qed.
Lemma proj_cons_neq a b d sp : b <> a -> proj b ((a, d) :: sp) = proj b sp.
Proof. intros H. unfold proj. simpl. destruct (Nat.eqb_spec a b); [congruence|reflexivity]. Qed.
Lemma proj_snoc_eq a d sp : proj a (sp ++ [(a, d)]) = proj a sp ++ [d].
Proof. unfold proj. rewrite filter_app, map_app. simpl. rewrite Nat.eqb_refl. reflexivity. Qed.
Lemma proj_snoc_neq a b d sp : b <> a -> proj b (sp ++ [(a, d)]) = proj b sp.
Proof.
  intros H. unfold proj. rewrite filter_app, map_app. simpl.
  destruct (Nat.eqb_spec a b); [congruence|]. simpl. apply app_nil_r.
Qed.

Lemma upd_eq m a c : upd m a c a = c.
Proof. unfold upd. rewrite Nat.eqb_refl. reflexivity. Qed.
Lemma upd_neq m a b c : b <> a -> upd m a c b = m b.
Proof. intros H. unfold upd. destruct (Nat.eqb_spec b a); [congruence|reflexivity]. Qed.

Lemma commit_inv s sp a pre r s' o :
  Inv s -> r <> CrashR ->
  (forall c' o' cpu, r = Ok c' o' cpu -> cinv c' /\ flat c' ++ proj a sp = arrived c') ->
  (forall b, b <> a -> proj b sp = proj b (spawned s)) ->
  commit s sp a pre r = Some (s', o) -> Inv s'.
Proof.
  intros [He Hall] Hnc Hok Hsp H. unfold commit in H. destruct r as [| |c' o' cpu]; [discriminate|congruence|].
  inversion H; subst; clear H. split; [reflexivity|]. intros b. simpl.
  destruct (Nat.eq_dec b a) as [->|Hne].
  - rewrite upd_eq. unfold fifo_at. simpl. rewrite upd_eq. eapply Hok; eauto.
  - rewrite upd_neq by auto. destruct (Hall b) as [Hc Hf]. split; auto.
    unfold fifo_at in *. simpl. rewrite upd_neq by auto. rewrite Hsp by auto. exact Hf.
Qed.

Lemma commit_local s a f s' o :
  Inv s -> local_ok f -> commit s (spawned s) a [] (f (cl s a)) = Some (s', o) -> Inv s'.
Proof.
  intros HI Hf H. pose proof HI as [_ Hall]. destruct (Hall a) as [Hc Hfi]. destruct (Hf _ Hc) as [Hnc Hok].
  eapply commit_inv; eauto.
  intros c' o' cpu E. destruct (Hok _ _ _ E) as (? & Hfl & Har). split; auto.
  rewrite Hfl, Har. exact Hfi.
Qed.

Lemma step_inv s l s' o : Inv s -> ok_label l -> step s l = Some (s', o) -> Inv s'.
Proof.
  intros HI Hlbl H. pose proof HI as [He Hall]. unfold step in H. rewrite He in H.
  destruct l as [a d|susp|a|a|a|a|a t|a|a|a r|a|a];
    try (destruct (cpu_free s); [|discriminate]); try (destruct (on_cpu s a); [|discriminate]).
  - (* Arrive *)
    destruct (Hall a) as [Hc Hf].
    eapply (commit_inv s _ a _ _ s' o HI); [| | |exact H]; [discriminate| |].
    + intros c' o' cpu E. inversion E; subst; clear E. split; [exact Hc|].
      unfold fifo_at in Hf. simpl. rewrite proj_snoc_eq, app_assoc.
      change (flat (set_arrived (cl s a) (arrived (cl s a) ++ [d]))) with (flat (cl s a)). rewrite Hf. reflexivity.
    + intros b Hb. apply proj_snoc_neq; auto.
  - (* HStart *)
    destruct (spawned s) as [|[a d] sp] eqn:Esp; [discriminate|].
    destruct (Hall a) as [Hc Hf]. destruct (l_hstart_ok a d susp _ Hc) as [Hnc Hok].
    eapply (commit_inv s _ a _ _ s' o HI); [exact Hnc| | |exact H].
    + intros c' o' cpu E. destruct (Hok _ _ _ E) as (? & Hfl & Har). split; auto.
      unfold fifo_at in Hf. rewrite Esp, proj_cons_eq in Hf. rewrite Hfl, Har, <- app_assoc. exact Hf.
    + intros b Hb. rewrite Esp. symmetry. apply proj_cons_neq; auto.
  - eapply commit_local; eauto using l_hresume_ok.
  - eapply commit_local; eauto using l_taskstart_ok.
  - eapply commit_local; eauto using l_gsuspend_ok.
  - eapply commit_local; eauto using l_gresume_ok.
  - eapply commit_local; eauto using l_gyield_ok.
  - eapply commit_local; eauto using l_gfinish_ok.
  - eapply commit_local; eauto using l_gfinish_ok.
  - destruct r; [|exfalso; exact Hlbl]. eapply commit_local; eauto using l_gfinish_ok.
  - eapply commit_local; eauto using l_popwake_ok.
  - eapply commit_local; eauto using l_timeout_ok.
Qed.

Lemma steps_inv ls : forall s s', Inv s -> Forall ok_label ls -> steps s ls = Some s' -> Inv s'.
Proof.
  induction ls as [|l ls IH]; intros s s' HI Hok H; simpl in H.
  - inversion H; subst; auto.
  - inversion Hok as [|? ? Hl Hls]; subst.
    destruct (step s l) as [[s1 o]|] eqn:E; [|discriminate].
    eapply IH; [eapply step_inv; [exact HI|exact Hl|exact E]|exact Hls|exact H].
Qed.

Lemma trace_steps ls : forall s s' o, trace s ls = Some (s', o) -> steps s ls = Some s'.
Proof.
  induction ls as [|l ls IH]; intros s s' o H; simpl in *.
  - inversion H; reflexivity.
  - destruct (step s l) as [[s1 o1]|]; [|discriminate].
    destruct (trace s1 ls) as [[s2 o2]|] eqn:E; [|discriminate]. inversion H; subst. eauto.
Qed.

Lemma steps_trace ls : forall s s', steps s ls = Some s' -> exists o, trace s ls = Some (s', o).
Proof.
  induction ls as [|l ls IH]; intros s s' H; simpl in *.
  - inversion H; eauto.
  - destruct (step s l) as [[s1 o1]|]; [|discriminate].
    destruct (IH _ _ H) as [o2 E]. rewrite E. eauto.
Qed.

(* ---------------------------------------------------------------- the invariants as theorems over label sequences *)
Lemma state_none_implies_queue_empty_pf :
  forall ls s a, Forall ok_label ls -> steps state0 ls = Some s -> st (cl s a) = TNone -> queue (cl s a) = [].
Proof.
  intros ls s a Hok H E. destruct (steps_inv _ _ _ Inv0 Hok H) as [_ Hall]. destruct (Hall a) as [Hc _].
  unfold cinv in Hc. rewrite E in Hc. tauto.
Qed.

Lemma at_most_one_active_pf :
  forall ls s a, Forall ok_label ls -> steps state0 ls = Some s ->
    err s = false /\ nactive (cl s a) <= 1 /\
    (nactive (cl s a) = 1 <-> st (cl s a) = TRunning) /\ (pc (cl s a) <> PIdle <-> st (cl s a) = TRunning).
Proof.
  intros ls s a Hok H. destruct (steps_inv _ _ _ Inv0 Hok H) as [He Hall]. destruct (Hall a) as [Hc _].
  split; auto. unfold cinv in Hc. destruct (st (cl s a)).
  - destruct Hc as (H1 & H2 & H3). rewrite H3, H2. repeat split; try lia; try discriminate; try congruence.
  - destruct Hc as (H1 & H2 & H3). rewrite H3, H2. repeat split; try lia; try discriminate; try congruence.
  - destruct Hc as (H1 & H2). rewrite H2. repeat split; auto.
Qed.

Lemma eventually_handled_pf :
  forall ls s a, Forall ok_label ls -> steps state0 ls = Some s -> queue (cl s a) <> [] ->
    st (cl s a) = TPending \/ st (cl s a) = TRunning.
Proof.
  intros ls s a Hok H Hq. destruct (st (cl s a)) eqn:E; auto.
  exfalso. apply Hq. eapply state_none_implies_queue_empty_pf; eauto.
Qed.

(* ---------------------------------------------------------------- ghost history vs labels and observations *)
Definition local_obs (a : addr) (f : client -> lres) : Prop :=
  forall c c' o cpu, f c = Ok c' o cpu ->
    delivered c' = delivered c ++ received a o /\ (forall b, b <> a -> received b o = []) /\ arrived c' = arrived c.

Lemma delivered_snoc_true c d h : hist c = h -> map fst (filter snd (h ++ [(d, true)])) = map fst (filter snd h) ++ [d].
Proof. intros _. rewrite filter_app, map_app. reflexivity. Qed.

Lemma received_self a d : received a [ORecv a d] = [d].
Proof. simpl. rewrite Nat.eqb_refl. reflexivity. Qed.
Lemma received_other a b d : b <> a -> received b [ORecv a d] = [].
Proof. intros H. simpl. destruct (Nat.eqb_spec a b); [congruence|reflexivity]. Qed.

Lemma client_coroutine_obs a : local_obs a (client_coroutine a).
Proof.
  intros c c' o cpu H. cbreak c. unfold client_coroutine, delivered in *. simpl in *.
  destruct st_; try discriminate. destruct q_; simpl in H; crush. simpl. rewrite app_nil_r. auto.
Qed.

Lemma handler_check_obs a : local_obs a (handler_check a).
Proof.
  intros c c' o cpu H. unfold handler_check in H.
  destruct (st c) eqn:Es; [destruct (queue c) eqn:Eq|destruct (queue c)|destruct (queue c)];
    try (crush; simpl; rewrite app_nil_r; auto; fail).
  exact (client_coroutine_obs a _ _ _ _ H).
Qed.

Lemma l_hstart_obs a d susp : local_obs a (l_hstart a d susp).
Proof.
  intros c c' o cpu H. unfold l_hstart in H.
  destruct (st c) eqn:Es; [|destruct susp|destruct susp];
    try (exact (handler_check_obs a _ _ _ _ H));
    crush; unfold delivered; simpl; rewrite app_nil_r; auto.
Qed.

Lemma l_hresume_obs a : local_obs a (l_hresume a).
Proof.
  intros c c' o cpu H. unfold l_hresume in H. destruct (hsusp c); [discriminate|].
  exact (handler_check_obs a _ _ _ _ H).
Qed.

Lemma l_taskstart_obs a : local_obs a (l_taskstart a).
Proof.
  intros c c' o cpu H. unfold l_taskstart in H. destruct (st c); try discriminate.
  exact (client_coroutine_obs a _ _ _ _ H).
Qed.

Lemma l_gsuspend_obs a : local_obs a l_gsuspend.
Proof.
  intros c c' o cpu H. unfold l_gsuspend in H. destruct (pc c); crush; unfold delivered; simpl; rewrite app_nil_r; auto.
Qed.

Lemma l_gresume_obs a : local_obs a l_gresume.
Proof.
  intros c c' o cpu H. unfold l_gresume in H.
  destruct (pc c), (gsusp c); crush; unfold delivered; simpl; rewrite app_nil_r; auto.
Qed.

Lemma l_gyield_obs a t : local_obs a (l_gyield a t).
Proof.
  intros c c' o cpu H. unfold l_gyield in H. destruct (pc c); crush; unfold delivered; simpl.
  - rewrite filter_app, map_app. simpl. rewrite Nat.eqb_refl. repeat split; auto.
    intros b Hb. destruct (Nat.eqb_spec a b); [congruence|reflexivity].
  - rewrite app_nil_r; auto.
Qed.

Lemma finish_obs a : local_obs a finish.
Proof.
  intros c c' o cpu H. unfold finish in H. destruct (st c); try discriminate.
  simpl in H. destruct (queue c); crush; unfold delivered; simpl; rewrite app_nil_r; auto.
Qed.

Lemma l_gfinish_obs a : local_obs a l_gfinish.
Proof.
  intros c c' o cpu H. unfold l_gfinish in H. destruct (pc c) eqn:Epc; try discriminate.
  - destruct (finish_obs a _ _ _ _ H) as (H1 & H2 & H3). repeat split; auto.
    rewrite H1. unfold delivered. simpl. rewrite filter_app, map_app. simpl. rewrite app_nil_r. reflexivity.
  - exact (finish_obs a _ _ _ _ H).
Qed.

Lemma l_popwake_obs a : local_obs a (l_popwake a).
Proof.
  intros c c' o cpu H. unfold l_popwake in H. destruct (pc c), (queue c); crush; unfold delivered; simpl.
  rewrite filter_app, map_app. simpl. rewrite Nat.eqb_refl. repeat split; auto.
  intros b Hb. destruct (Nat.eqb_spec a b); [congruence|reflexivity].
Qed.

Lemma l_timeout_obs a : local_obs a (l_timeout a).
Proof.
  intros c c' o cpu H. unfold l_timeout in H. destruct (pc c) as [| | |[|]]; crush; unfold delivered; simpl.
  rewrite app_nil_r; auto.
Qed.

Lemma received_app a x y : received a (x ++ y) = received a x ++ received a y.
Proof.
  induction x as [|o x IH]; simpl; [reflexivity|].
  destruct o; auto. destruct (Nat.eqb a0 a); simpl; rewrite IH; reflexivity.
Qed.

Lemma arrivals_app a x y : arrivals a (x ++ y) = arrivals a x ++ arrivals a y.
Proof.
  induction x as [|l x IH]; simpl; [reflexivity|].
  destruct l; auto. destruct (Nat.eqb a0 a); simpl; rewrite IH; reflexivity.
Qed.

(* what one step does to the ghost history of every address *)
Definition ghost_step (s s' : state) (l : label) (o : list obs) : Prop :=
  forall b, delivered (cl s' b) = delivered (cl s b) ++ received b o /\
            arrived (cl s' b) = arrived (cl s b) ++ arrivals b [l].

Lemma commit_ghost s sp a pre f s' o l :
  Inv s' -> local_obs a f -> (forall b, received b pre = []) -> (forall b, arrivals b [l] = []) ->
  commit s sp a pre (f (cl s a)) = Some (s', o) -> ghost_step s s' l o.
Proof.
  intros HI Hf Hpre Hl H. unfold commit in H. destruct (f (cl s a)) as [| |c' o' cpu] eqn:E; [discriminate| |].
  - inversion H; subst. destruct HI as [He _]. simpl in He. discriminate.
  - inversion H; subst; clear H. destruct (Hf _ _ _ _ E) as (Hd & Hoth & Ha).
    intros b. rewrite (Hl b), received_app, (Hpre b), app_nil_r. simpl.
    destruct (Nat.eq_dec b a) as [->|Hne].
    + rewrite upd_eq. auto.
    + rewrite upd_neq by auto. rewrite Hoth by auto. rewrite app_nil_r. auto.
Qed.

Lemma step_ghost s l s' o : Inv s -> ok_label l -> step s l = Some (s', o) -> ghost_step s s' l o.
Proof.
  intros HI Hlbl H. pose proof (step_inv _ _ _ _ HI Hlbl H) as HI'. pose proof HI as [He Hall].
  unfold step in H. rewrite He in H.
  destruct l as [a d|susp|a|a|a|a|a t|a|a|a r|a|a];
    try (destruct (cpu_free s); [|discriminate]); try (destruct (on_cpu s a); [|discriminate]).
  - (* Arrive *)
    unfold commit in H. inversion H; subst; clear H. intros b. simpl.
    destruct (Nat.eq_dec b a) as [->|Hne].
    + rewrite upd_eq, Nat.eqb_refl. unfold delivered. simpl. rewrite app_nil_r. auto.
    + rewrite upd_neq by auto. destruct (Nat.eqb_spec a b); [congruence|]. rewrite !app_nil_r. auto.
  - destruct (spawned s) as [|[a d] sp] eqn:Esp; [discriminate|].
    eapply (commit_ghost s sp a [OHStart a d] (l_hstart a d susp)); [exact HI'|apply l_hstart_obs|intros; reflexivity|intros; reflexivity|exact H].
  - eapply (commit_ghost s _ a [] (l_hresume a)); [exact HI'|apply l_hresume_obs|intros; reflexivity|intros; reflexivity|exact H].
  - eapply (commit_ghost s _ a [] (l_taskstart a)); [exact HI'|apply l_taskstart_obs|intros; reflexivity|intros; reflexivity|exact H].
  - eapply (commit_ghost s _ a [] l_gsuspend); [exact HI'|apply l_gsuspend_obs|intros; reflexivity|intros; reflexivity|exact H].
  - eapply (commit_ghost s _ a [] l_gresume); [exact HI'|apply l_gresume_obs|intros; reflexivity|intros; reflexivity|exact H].
  - eapply (commit_ghost s _ a [] (l_gyield a t)); [exact HI'|apply l_gyield_obs|intros; reflexivity|intros; reflexivity|exact H].
  - eapply (commit_ghost s _ a [] l_gfinish); [exact HI'|apply l_gfinish_obs|intros; reflexivity|intros; reflexivity|exact H].
  - eapply (commit_ghost s _ a [] l_gfinish); [exact HI'|apply l_gfinish_obs|intros; reflexivity|intros; reflexivity|exact H].
  - destruct r; [|exfalso; exact Hlbl].
    eapply (commit_ghost s _ a [] l_gfinish); [exact HI'|apply l_gfinish_obs|intros; reflexivity|intros; reflexivity|exact H].
  - eapply (commit_ghost s _ a [] (l_popwake a)); [exact HI'|apply l_popwake_obs|intros; reflexivity|intros; reflexivity|exact H].
  - eapply (commit_ghost s _ a [] (l_timeout a)); [exact HI'|apply l_timeout_obs|intros; reflexivity|intros; reflexivity|exact H].
Qed.

Lemma trace_ghost ls : forall s s' o, Inv s -> Forall ok_label ls -> trace s ls = Some (s', o) ->
  forall b, delivered (cl s' b) = delivered (cl s b) ++ received b o /\
            arrived (cl s' b) = arrived (cl s b) ++ arrivals b ls.
Proof.
  induction ls as [|l ls IH]; intros s s' o HI Hok H b; simpl in H.
  - inversion H; subst. simpl. rewrite !app_nil_r. auto.
  - inversion Hok as [|? ? Hl Hls]; subst.
    destruct (step s l) as [[s1 o1]|] eqn:E; [|discriminate].
    destruct (trace s1 ls) as [[s2 o2]|] eqn:E2; [|discriminate]. inversion H; subst; clear H.
    pose proof (step_inv _ _ _ _ HI Hl E) as HI1.
    destruct (step_ghost _ _ _ _ HI Hl E b) as [Hd Ha]. destruct (IH _ _ _ HI1 Hls E2 b) as [Hd2 Ha2].
    rewrite Hd2, Hd, Ha2, Ha, received_app, <- !app_assoc.
    change (l :: ls) with ([l] ++ ls). rewrite arrivals_app. auto.
Qed.

(* per address: what the generators were handed (requests), in order, is the arrival sequence with the documented
   discards removed; nothing is lost, duplicated or reordered: everything not yet consumed is still held / queued /
   with a handler task that has not run, in arrival order *)
Lemma fifo_exactly_once_pf :
  forall ls s o a, Forall ok_label ls -> trace state0 ls = Some (s, o) ->
    received a o = map fst (filter snd (hist (cl s a))) /\
    map fst (hist (cl s a)) ++ held (cl s a) ++ queue (cl s a) ++ proj a (spawned s) = arrivals a ls.
Proof.
  intros ls s o a Hok H. destruct (trace_ghost _ _ _ _ Inv0 Hok H a) as [Hd Ha]. simpl in Hd, Ha.
  pose proof (steps_inv _ _ _ Inv0 Hok (trace_steps _ _ _ _ H)) as [_ Hall]. destruct (Hall a) as [_ Hf].
  unfold fifo_at, flat in Hf. split.
  - symmetry. exact Hd.
  - rewrite <- Ha, <- Hf, <- !app_assoc. reflexivity.
Qed.

(* frame property: a transition concerning address a leaves every other address untouched *)
Lemma clients_independent_pf :
  forall s l s' o a b, step s l = Some (s', o) -> label_addr s l = Some a -> b <> a ->
    cl s' b = cl s b /\ proj b (spawned s') = proj b (spawned s).
Proof.
  intros s l s' o a b H Ha Hb. unfold step in H. destruct (err s); [discriminate|].
  assert (Hc : forall sp pre r, commit s sp a pre r = Some (s', o) -> cl s' b = cl s b /\ spawned s' = sp).
  { intros sp pre r Hcm. unfold commit in Hcm. destruct r; inversion Hcm; subst; simpl; auto.
    rewrite upd_neq by auto. auto. }
  destruct l as [a0 d|susp|a0|a0|a0|a0|a0 t|a0|a0|a0 r|a0|a0]; simpl in Ha;
    try (destruct (cpu_free s); [|discriminate]); try (destruct (on_cpu s a0); [|discriminate]);
    try (inversion Ha; subst a0; destruct (Hc _ _ _ H) as [H1 H2]; split; [exact H1|rewrite H2; reflexivity]).
  - inversion Ha; subst a0. destruct (Hc _ _ _ H) as [H1 H2]. split; [exact H1|]. rewrite H2. apply proj_snoc_neq; auto.
  - destruct (spawned s) as [|[a1 d] sp] eqn:Esp; [discriminate|]. inversion Ha; subst a1.
    destruct (Hc _ _ _ H) as [H1 H2]. split; [exact H1|]. rewrite H2. symmetry. apply proj_cons_neq; auto.
Qed.

(* ---------------------------------------------------------------- who has the CPU: second invariant *)
Definition gen_ctl (c : client) : bool := match pc c with PGen0 _ | PGen => true | _ => false end.

(* on the CPU: the generator has control and is not suspended; off the CPU: suspended in user code iff it has control *)
Definition cpu_inv (s : state) : Prop :=
  (forall a, cur s = Some a -> gen_ctl (cl s a) = true /\ gsusp (cl s a) = false) /\
  (forall a, cur s <> Some a -> gsusp (cl s a) = gen_ctl (cl s a)).

Definition cpost (c' : client) (cpu : bool) : Prop :=
  if cpu then gen_ctl c' = true /\ gsusp c' = false else gsusp c' = gen_ctl c'.

(* scheduler-side operations start from an off-CPU client, generator-side ones from the client on the CPU *)
Definition local_off (f : client -> lres) : Prop :=
  forall c c' o cpu, cinv c -> gsusp c = gen_ctl c -> f c = Ok c' o cpu -> cpost c' cpu.
Definition local_on (f : client -> lres) : Prop :=
  forall c c' o cpu, cinv c -> gen_ctl c = true -> gsusp c = false -> f c = Ok c' o cpu -> cpost c' cpu.

Ltac cpu_brute c :=
  cbreak c; unfold cinv, cpost, gen_ctl in *; simpl in *;
  repeat match goal with
         | H : context [match ?x with _ => _ end] |- _ => is_var x; destruct x; simpl in *; try discriminate
         end;
  crush; simpl in *; subst; simpl in *; try discriminate; try congruence; auto.

Lemma client_coroutine_off a : forall c c' o cpu,
  pc c = PIdle -> gsusp c = false -> client_coroutine a c = Ok c' o cpu -> cpost c' cpu.
Proof.
  intros c c' o cpu Hpc Hg H. cbreak c. unfold client_coroutine, cpost, gen_ctl in *. simpl in *. subst.
  destruct st_; try discriminate. destruct q_; simpl in H; crush. simpl. auto.
Qed.

Lemma handler_check_off a : local_off (handler_check a).
Proof.
  intros c c' o cpu Hc Hg H. unfold handler_check in H.
  destruct (st c) eqn:Es; [destruct (queue c) eqn:Eq|destruct (queue c)|destruct (queue c)];
    try (crush; unfold cpost; assumption).
  unfold cinv in Hc. rewrite Es in Hc. destruct Hc as (_ & Hpc & _).
  eapply client_coroutine_off; [| |exact H]; simpl; auto.
  unfold gen_ctl in Hg. rewrite Hpc in Hg. exact Hg.
Qed.

Lemma l_hstart_off a d susp : local_off (l_hstart a d susp).
Proof.
  intros c c' o cpu Hc Hg H. unfold l_hstart in H.
  assert (HK : forall c1, pc c1 = pc c -> gsusp c1 = gsusp c -> st c1 = st c ->
                (st c = TNone -> queue c1 <> [] -> True) ->
                handler_check a c1 = Ok c' o cpu -> cpost c' cpu).
  { intros c1 E1 E2 E3 _ Hh. unfold handler_check in Hh. rewrite E3 in Hh.
    destruct (st c) eqn:Es; [destruct (queue c1) eqn:Eq|destruct (queue c1)|destruct (queue c1)];
      try (crush; unfold cpost, gen_ctl in *; rewrite E1, E2; assumption).
    unfold cinv in Hc. rewrite Es in Hc. destruct Hc as (_ & Hpc & _).
    eapply client_coroutine_off; [| |exact Hh]; simpl; try congruence.
    rewrite E2. unfold gen_ctl in Hg. rewrite Hpc in Hg. exact Hg. }
  destruct (st c) eqn:Es.
  - eapply HK; [| | | |exact H]; simpl; auto.
  - destruct susp.
    + crush. unfold cpost, gen_ctl in *. simpl. assumption.
    + eapply HK; [| | | |exact H]; simpl; auto.
  - destruct susp.
    + crush. unfold cpost, gen_ctl in *. simpl. assumption.
    + eapply HK; [| | | |exact H]; simpl; auto.
Qed.

Lemma l_hresume_off a : local_off (l_hresume a).
Proof.
  intros c c' o cpu Hc Hg H. unfold l_hresume in H. destruct (hsusp c) eqn:Eh; [discriminate|].
  eapply (handler_check_off a (set_hsusp c n)); [| |exact H]; auto.
Qed.

Lemma l_taskstart_off a : local_off (l_taskstart a).
Proof.
  intros c c' o cpu Hc Hg H. unfold l_taskstart in H. destruct (st c) eqn:Es; try discriminate.
  unfold cinv in Hc. rewrite Es in Hc. destruct Hc as (_ & Hpc & _).
  eapply client_coroutine_off; [| |exact H]; auto.
  unfold gen_ctl in Hg. rewrite Hpc in Hg. exact Hg.
Qed.

Lemma l_gresume_off : local_off l_gresume.
Proof. intros c c' o cpu Hc Hg H. unfold l_gresume in H. cpu_brute c. Qed.

Lemma l_popwake_off a : local_off (l_popwake a).
Proof. intros c c' o cpu Hc Hg H. unfold l_popwake in H. cpu_brute c. Qed.

Lemma l_timeout_off a : local_off (l_timeout a).
Proof. intros c c' o cpu Hc Hg H. unfold l_timeout in H. cpu_brute c. Qed.

Lemma l_gsuspend_on : local_on l_gsuspend.
Proof. intros c c' o cpu Hc H1 H2 H. unfold l_gsuspend in H. cpu_brute c. Qed.

Lemma l_gyield_on a t : local_on (l_gyield a t).
Proof. intros c c' o cpu Hc H1 H2 H. unfold l_gyield in H. cpu_brute c. Qed.

Lemma l_gfinish_on : local_on l_gfinish.
Proof.
  intros c c' o cpu Hc H1 H2 H. unfold l_gfinish, finish in H. cbreak c. unfold cpost, gen_ctl in *. simpl in *.
  destruct pc_; try discriminate; destruct st_; try discriminate; simpl in H; destruct q_; crush; simpl; auto.
Qed.

Lemma cpu_inv0 : cpu_inv state0.
Proof. split; intros a H; [discriminate|reflexivity]. Qed.

Lemma commit_cpu s sp a pre r s' o :
  cpu_inv s -> (cur s = None \/ cur s = Some a) -> r <> CrashR ->
  (forall c' o' cpu, r = Ok c' o' cpu -> cpost c' cpu) ->
  commit s sp a pre r = Some (s', o) -> cpu_inv s'.
Proof.
  intros [H1 H2] Hcur Hnc Hpost H. unfold commit in H. destruct r as [| |c' o' cpu]; [discriminate|congruence|].
  inversion H; subst; clear H. specialize (Hpost _ _ _ eq_refl). unfold cpost in Hpost.
  split; simpl; intros x Hx.
  - destruct cpu; [|discriminate]. inversion Hx; subst x. rewrite upd_eq. exact Hpost.
  - destruct (Nat.eq_dec x a) as [->|Hne].
    + rewrite upd_eq. destruct cpu; [congruence|exact Hpost].
    + rewrite upd_neq by auto. apply H2. destruct Hcur as [E|E]; rewrite E; congruence.
Qed.

Lemma cpu_free_none s : cpu_free s = true -> cur s = None.
Proof. unfold cpu_free. destruct (cur s); [discriminate|reflexivity]. Qed.
Lemma on_cpu_some s a : on_cpu s a = true -> cur s = Some a.
Proof. unfold on_cpu. destruct (cur s) as [b|]; [|discriminate]. intros H. apply Nat.eqb_eq in H. congruence. Qed.

Lemma step_cpu s l s' o : Inv s -> cpu_inv s -> ok_label l -> step s l = Some (s', o) -> cpu_inv s'.
Proof.
  intros HI HC Hlbl H. pose proof HI as [He Hall]. pose proof HC as [C1 C2]. unfold step in H. rewrite He in H.
  destruct l as [a d|susp|a|a|a|a|a t|a|a|a r|a|a];
    try (destruct (cpu_free s) eqn:Ef; [apply cpu_free_none in Ef|discriminate]);
    try (destruct (on_cpu s a) eqn:Eo; [apply on_cpu_some in Eo|discriminate]).
  - refine (commit_cpu s _ a _ _ s' o HC _ _ _ H); [auto|discriminate|].
    intros c' o' cpu E. inversion E; subst. unfold cpost, gen_ctl. simpl. apply C2. congruence.
  - destruct (spawned s) as [|[a d] sp] eqn:Esp; [discriminate|].
    destruct (Hall a) as [Hc _]. destruct (l_hstart_ok a d susp _ Hc) as [Hnc _].
    refine (commit_cpu s _ a _ _ s' o HC _ Hnc _ H); [auto|].
    intros c' o' cpu E. eapply l_hstart_off; [exact Hc| |exact E]. apply C2. congruence.
  - destruct (Hall a) as [Hc _]. destruct (l_hresume_ok a _ Hc) as [Hnc _].
    refine (commit_cpu s _ a _ _ s' o HC _ Hnc _ H); [auto|].
    intros c' o' cpu E. eapply l_hresume_off; [exact Hc| |exact E]. apply C2. congruence.
  - destruct (Hall a) as [Hc _]. destruct (l_taskstart_ok a _ Hc) as [Hnc _].
    refine (commit_cpu s _ a _ _ s' o HC _ Hnc _ H); [auto|].
    intros c' o' cpu E. eapply l_taskstart_off; [exact Hc| |exact E]. apply C2. congruence.
  - destruct (Hall a) as [Hc _]. destruct (l_gsuspend_ok _ Hc) as [Hnc _]. destruct (C1 _ Eo) as [G1 G2].
    refine (commit_cpu s _ a _ _ s' o HC _ Hnc _ H); [auto|].
    intros c' o' cpu E. eapply l_gsuspend_on; [exact Hc|exact G1|exact G2|exact E].
  - destruct (Hall a) as [Hc _]. destruct (l_gresume_ok _ Hc) as [Hnc _].
    refine (commit_cpu s _ a _ _ s' o HC _ Hnc _ H); [auto|].
    intros c' o' cpu E. eapply l_gresume_off; [exact Hc| |exact E]. apply C2. congruence.
  - destruct (Hall a) as [Hc _]. destruct (l_gyield_ok a t _ Hc) as [Hnc _]. destruct (C1 _ Eo) as [G1 G2].
    refine (commit_cpu s _ a _ _ s' o HC _ Hnc _ H); [auto|].
    intros c' o' cpu E. eapply l_gyield_on; [exact Hc|exact G1|exact G2|exact E].
  - destruct (Hall a) as [Hc _]. destruct (l_gfinish_ok _ Hc) as [Hnc _]. destruct (C1 _ Eo) as [G1 G2].
    refine (commit_cpu s _ a _ _ s' o HC _ Hnc _ H); [auto|].
    intros c' o' cpu E. eapply l_gfinish_on; [exact Hc|exact G1|exact G2|exact E].
  - destruct (Hall a) as [Hc _]. destruct (l_gfinish_ok _ Hc) as [Hnc _]. destruct (C1 _ Eo) as [G1 G2].
    refine (commit_cpu s _ a _ _ s' o HC _ Hnc _ H); [auto|].
    intros c' o' cpu E. eapply l_gfinish_on; [exact Hc|exact G1|exact G2|exact E].
  - destruct r; [|exfalso; exact Hlbl].
    destruct (Hall a) as [Hc _]. destruct (l_gfinish_ok _ Hc) as [Hnc _]. destruct (C1 _ Eo) as [G1 G2].
    refine (commit_cpu s _ a _ _ s' o HC _ Hnc _ H); [auto|].
    intros c' o' cpu E. eapply l_gfinish_on; [exact Hc|exact G1|exact G2|exact E].
  - destruct (Hall a) as [Hc _]. destruct (l_popwake_ok a _ Hc) as [Hnc _].
    refine (commit_cpu s _ a _ _ s' o HC _ Hnc _ H); [auto|].
    intros c' o' cpu E. eapply l_popwake_off; [exact Hc| |exact E]. apply C2. congruence.
  - destruct (Hall a) as [Hc _]. destruct (l_timeout_ok a _ Hc) as [Hnc _].
    refine (commit_cpu s _ a _ _ s' o HC _ Hnc _ H); [auto|].
    intros c' o' cpu E. eapply l_timeout_off; [exact Hc| |exact E]. apply C2. congruence.
Qed.

Definition Good (s : state) : Prop := Inv s /\ cpu_inv s.

Lemma Good0 : Good state0.
Proof. split; [exact Inv0|exact cpu_inv0]. Qed.

Lemma step_good s l s' o : Good s -> ok_label l -> step s l = Some (s', o) -> Good s'.
Proof. intros [HI HC] Hok H. split; [eapply step_inv; eauto|eapply step_cpu; eauto]. Qed.

Lemma steps_good ls : forall s s', Good s -> Forall ok_label ls -> steps s ls = Some s' -> Good s'.
Proof.
  induction ls as [|l ls IH]; intros s s' HG Hok H; simpl in H.
  - inversion H; subst; auto.
  - inversion Hok as [|? ? Hl Hls]; subst.
    destruct (step s l) as [[s1 o]|] eqn:E; [|discriminate].
    eapply IH; [eapply step_good; [exact HG|exact Hl|exact E]|exact Hls|exact H].
Qed.

(* ---------------------------------------------------------------- progress: pending work of an address can always be
   consumed, using only moves of that address, first steps of handler tasks, and other generators suspending *)
Definition consumed (a : addr) (s : state) : nat := length (hist (cl s a)).
Definition pendingP (a : addr) (s : state) : Prop := consumed a s < length (arrived (cl s a)).

Definition phi0 (c : client) : nat :=
  match pc c with
  | PGen0 _ => 2 | PGen => 3 | PWait _ => 1
  | PIdle => match st c with TPending => 2 | _ => 1 end
  end.
Definition phi (a : addr) (s : state) : nat :=
  match cur s with
  | None => phi0 (cl s a)
  | Some b => if Nat.eqb b a then match pc (cl s a) with PGen0 _ => 1 | _ => 2 end else S (phi0 (cl s a))
  end.
Definition mu (a : addr) (s : state) : nat := 6 * length (spawned s) + phi a s.

Lemma phi_le a s : phi a s <= 4.
Proof.
  unfold phi, phi0. destruct (cur s) as [b|]; [destruct (Nat.eqb b a)|];
    destruct (pc (cl s a)); try destruct (st (cl s a)); lia.
Qed.

Lemma pending_iff a s : Inv s ->
  (pendingP a s <-> held (cl s a) ++ queue (cl s a) ++ proj a (spawned s) <> []).
Proof.
  intros [_ Hall]. destruct (Hall a) as [_ Hf]. unfold fifo_at, flat in Hf. unfold pendingP, consumed.
  rewrite <- Hf, <- !app_assoc, app_length, map_length.
  destruct (held (cl s a) ++ queue (cl s a) ++ proj a (spawned s)) eqn:E; simpl; split; intros; try lia; congruence.
Qed.

Lemma do_gsuspend s b :
  err s = false -> cur s = Some b -> gen_ctl (cl s b) = true ->
  step s (GSuspend b) =
    Some ({| cl := upd (cl s) b (set_gsusp (cl s b) true); spawned := spawned s; cur := None; err := false |}, []).
Proof.
  intros He Hc Hg. unfold step, on_cpu. rewrite He, Hc, Nat.eqb_refl. unfold l_gsuspend, gen_ctl in *.
  destruct (pc (cl s b)); try discriminate; reflexivity.
Qed.

Lemma do_gresume s a :
  err s = false -> cur s = None -> gen_ctl (cl s a) = true -> gsusp (cl s a) = true ->
  step s (GResume a) =
    Some ({| cl := upd (cl s) a (set_gsusp (cl s a) false); spawned := spawned s; cur := Some a; err := false |}, []).
Proof.
  intros He Hc Hg Hs. unfold step, cpu_free. rewrite He, Hc. unfold l_gresume, gen_ctl in *. rewrite Hs.
  destruct (pc (cl s a)); try discriminate; reflexivity.
Qed.

Lemma do_gyield0 s a d :
  err s = false -> cur s = Some a -> pc (cl s a) = PGen0 d ->
  step s (GYield a None) =
    Some ({| cl := upd (cl s) a (set_hist (set_pc (cl s a) PGen) (hist (cl s a) ++ [(d, true)]));
             spawned := spawned s; cur := Some a; err := false |}, [ORecv a d]).
Proof.
  intros He Hc Hp. unfold step, on_cpu. rewrite He, Hc, Nat.eqb_refl. unfold l_gyield. rewrite Hp. reflexivity.
Qed.

Lemma do_gyield1 s a :
  err s = false -> cur s = Some a -> pc (cl s a) = PGen ->
  step s (GYield a None) =
    Some ({| cl := upd (cl s) a (set_pc (cl s a) (PWait None)); spawned := spawned s; cur := None; err := false |}, []).
Proof.
  intros He Hc Hp. unfold step, on_cpu. rewrite He, Hc, Nat.eqb_refl. unfold l_gyield. rewrite Hp. reflexivity.
Qed.

Lemma do_popwake s a t d q :
  err s = false -> cur s = None -> pc (cl s a) = PWait t -> queue (cl s a) = d :: q ->
  step s (PopWake a) =
    Some ({| cl := upd (cl s) a (set_hist (set_pc (set_queue (cl s a) q) PGen) (hist (cl s a) ++ [(d, true)]));
             spawned := spawned s; cur := Some a; err := false |}, [ORecv a d]).
Proof.
  intros He Hc Hp Hq. unfold step, cpu_free. rewrite He, Hc. unfold l_popwake. rewrite Hp, Hq. reflexivity.
Qed.

Lemma do_taskstart s a :
  err s = false -> cur s = None -> cinv (cl s a) -> st (cl s a) = TPending ->
  exists c' o, step s (TaskStart a) =
    Some ({| cl := upd (cl s) a c'; spawned := spawned s; cur := Some a; err := false |}, o)
    /\ hist c' = hist (cl s a) /\ (exists d, pc c' = PGen0 d).
Proof.
  intros He Hc Hi Hs. unfold step, cpu_free. rewrite He, Hc. unfold l_taskstart. rewrite Hs.
  unfold cinv in Hi. rewrite Hs in Hi. destruct Hi as (Hq & Hpc & Hn).
  destruct (client_coroutine a (cl s a)) as [| |c' o cpu] eqn:E.
  - unfold client_coroutine in E. rewrite Hs in E. simpl in E. destruct (queue (cl s a)); [congruence|discriminate].
  - exfalso. eapply client_coroutine_nocrash; eauto.
  - pose proof E as E0. apply client_coroutine_ok in E; auto. destruct E as (_ & _ & _ & -> & _ & Hd & _).
    exists c', o. split; [reflexivity|]. split; [|exact Hd].
    unfold client_coroutine in E0. rewrite Hs in E0. simpl in E0. destruct (queue (cl s a)); [discriminate|].
    inversion E0; subst. reflexivity.
Qed.

Lemma l_hstart_hist a d susp c c' o cpu : l_hstart a d susp c = Ok c' o cpu -> hist c' = hist c.
Proof.
  intros H. assert (HK : forall c1, hist c1 = hist c -> handler_check a c1 = Ok c' o cpu -> hist c' = hist c).
  { intros c1 E Hh. unfold handler_check in Hh.
    destruct (st c1) eqn:Es; [destruct (queue c1) eqn:Eq|destruct (queue c1)|destruct (queue c1)]; crush; auto.
    unfold client_coroutine in Hh. simpl in Hh. rewrite Eq in Hh. simpl in Hh. crush. simpl. exact E. }
  unfold l_hstart in H. destruct (st c); [|destruct susp|destruct susp]; try (eapply HK; [|exact H]; reflexivity);
    crush; reflexivity.
Qed.

Lemma l_hstart_enabled a d susp c : l_hstart a d susp c <> NotEnabled.
Proof.
  cbreak c. unfold l_hstart, handler_check, client_coroutine. simpl.
  destruct st_, susp; simpl; try discriminate; destruct q_; simpl; try discriminate;
    try (destruct (q_ ++ [d]); discriminate).
Qed.

Lemma do_hstart s a d sp :
  Inv s -> cur s = None -> spawned s = (a, d) :: sp ->
  exists c' o (cpu : bool), step s (HStart false) =
    Some ({| cl := upd (cl s) a c'; spawned := sp; cur := if cpu then Some a else None; err := false |}, o)
    /\ hist c' = hist (cl s a).
Proof.
  intros [He Hall] Hc Hsp. unfold step, cpu_free. rewrite He, Hc, Hsp.
  destruct (Hall a) as [Hi _]. destruct (l_hstart_ok a d false _ Hi) as [Hnc _].
  destruct (l_hstart a d false (cl s a)) as [| |c' o cpu] eqn:E.
  - exfalso. eapply l_hstart_enabled; eauto.
  - congruence.
  - exists c', ([OHStart a d] ++ o), cpu. split; [reflexivity|]. eapply l_hstart_hist; eauto.
Qed.

Lemma gen_ctl_cases c : gen_ctl c = true -> (exists d, pc c = PGen0 d) \/ pc c = PGen.
Proof. unfold gen_ctl. destruct (pc c); try discriminate; eauto. Qed.

Lemma progress_step a s :
  Good s -> pendingP a s ->
  exists l s' o, step s l = Some (s', o) /\ polite a l /\
    (consumed a s' = S (consumed a s) \/ (consumed a s' = consumed a s /\ mu a s' < mu a s)).
Proof.
  intros [HI HC] HP. pose proof HI as [He Hall]. pose proof HC as [C1 C2].
  destruct (Hall a) as [Hia _].
  destruct (cur s) as [b|] eqn:Ecur.
  - (* some generator has the CPU *)
    destruct (C1 _ eq_refl) as [Gb Sb].
    destruct (Nat.eq_dec b a) as [->|Hne].
    + destruct (gen_ctl_cases _ Gb) as [[d Hp]|Hp].
      * eexists _, _, _. split; [apply (do_gyield0 s a d He Ecur Hp)|]. split; [reflexivity|]. left.
        unfold consumed. simpl. rewrite upd_eq. simpl. rewrite app_length. simpl. lia.
      * eexists _, _, _. split; [apply (do_gyield1 s a He Ecur Hp)|]. split; [reflexivity|]. right.
        unfold consumed, mu, phi. simpl. rewrite upd_eq. simpl. rewrite Ecur, Nat.eqb_refl, Hp. unfold phi0. simpl.
        split; [reflexivity|lia].
    + eexists _, _, _. split; [apply (do_gsuspend s b He Ecur Gb)|]. split; [exact I|]. right.
      unfold consumed, mu, phi. simpl. rewrite upd_neq by auto. rewrite Ecur.
      destruct (Nat.eqb_spec b a); [congruence|]. unfold phi0. split; [reflexivity|lia].
  - (* scheduling point *)
    assert (Hg : gsusp (cl s a) = gen_ctl (cl s a)) by (apply C2; congruence).
    destruct (pc (cl s a)) as [|d| |t] eqn:Epc.
    + (* no coroutine *)
      unfold cinv in Hia. destruct (st (cl s a)) eqn:Est.
      * (* state None: the queue is empty, so a handler task of a has not run yet *)
        destruct Hia as (Hq & _ & _).
        apply (pending_iff a s HI) in HP. unfold held in HP. rewrite Epc, Hq in HP. simpl in HP.
        destruct (spawned s) as [|[b d] sp] eqn:Esp; [exfalso; apply HP; reflexivity|].
        destruct (do_hstart s b d sp HI Ecur Esp) as (c' & o & cpu & Hstep & Hh).
        eexists _, _, _. split; [exact Hstep|]. split; [exact I|]. right.
        unfold consumed, mu. rewrite Esp. simpl. split.
        -- destruct (Nat.eq_dec a b) as [->|Hab]; [rewrite upd_eq; congruence|rewrite upd_neq by auto; reflexivity].
        -- match goal with |- _ + phi a ?s1 < _ => pose proof (phi_le a s1) end. lia.
      * (* PENDING: the task started by the hook *)
        destruct (do_taskstart s a He Ecur (proj1 (Hall a)) Est) as (c' & o & Hstep & Hh & d & Hp).
        eexists _, _, _. split; [exact Hstep|]. split; [reflexivity|]. right.
        unfold consumed, mu, phi. simpl. rewrite upd_eq, Nat.eqb_refl, Hp, Ecur. unfold phi0. rewrite Epc, Est, Hh.
        split; [reflexivity|lia].
      * destruct Hia as [Hia _]. congruence.
    + (* generator suspended before its first yield *)
      assert (Gs : gen_ctl (cl s a) = true) by (unfold gen_ctl; rewrite Epc; reflexivity).
      eexists _, _, _. split; [apply (do_gresume s a He Ecur Gs); congruence|]. split; [reflexivity|]. right.
      unfold consumed, mu, phi. simpl. rewrite upd_eq, Nat.eqb_refl, Ecur. simpl. rewrite Epc. unfold phi0. rewrite Epc.
      split; [reflexivity|lia].
    + assert (Gs : gen_ctl (cl s a) = true) by (unfold gen_ctl; rewrite Epc; reflexivity).
      eexists _, _, _. split; [apply (do_gresume s a He Ecur Gs); congruence|]. split; [reflexivity|]. right.
      unfold consumed, mu, phi. simpl. rewrite upd_eq, Nat.eqb_refl, Ecur. simpl. rewrite Epc. unfold phi0. rewrite Epc.
      split; [reflexivity|lia].
    + (* waiting in pop_datagram *)
      destruct (queue (cl s a)) as [|d q] eqn:Eq.
      * apply (pending_iff a s HI) in HP. unfold held in HP. rewrite Epc, Eq in HP. simpl in HP.
        destruct (spawned s) as [|[b d] sp] eqn:Esp; [exfalso; apply HP; reflexivity|].
        destruct (do_hstart s b d sp HI Ecur Esp) as (c' & o & cpu & Hstep & Hh).
        eexists _, _, _. split; [exact Hstep|]. split; [exact I|]. right.
        unfold consumed, mu. rewrite Esp. simpl. split.
        -- destruct (Nat.eq_dec a b) as [->|Hab]; [rewrite upd_eq; congruence|rewrite upd_neq by auto; reflexivity].
        -- match goal with |- _ + phi a ?s1 < _ => pose proof (phi_le a s1) end. lia.
      * eexists _, _, _. split; [apply (do_popwake s a t d q He Ecur Epc Eq)|]. split; [reflexivity|]. left.
        unfold consumed. simpl. rewrite upd_eq. simpl. rewrite app_length. simpl. lia.
Qed.

Lemma polite_no_arrival a l b : polite a l -> arrivals b [l] = [].
Proof. destruct l; simpl; try tauto; reflexivity. Qed.

Lemma polite_ok a l : polite a l -> ok_label l.
Proof. destruct l; simpl; tauto. Qed.

Lemma progress_pf a : forall n s,
  mu a s <= n -> Good s -> pendingP a s ->
  exists ls s', steps s ls = Some s' /\ Forall (polite a) ls /\ consumed a s' = S (consumed a s).
Proof.
  induction n as [|n IH]; intros s Hn HG HP.
  - destruct (progress_step a s HG HP) as (l & s' & o & Hs & Hpl & [Hc|[Hc Hm]]).
    + exists [l], s'. simpl. rewrite Hs. auto.
    + lia.
  - destruct (progress_step a s HG HP) as (l & s' & o & Hs & Hpl & [Hc|[Hc Hm]]).
    + exists [l], s'. simpl. rewrite Hs. auto.
    + pose proof (step_good _ _ _ _ HG (polite_ok _ _ Hpl) Hs) as HG'.
      assert (HP' : pendingP a s').
      { unfold pendingP. rewrite Hc. destruct HG as [HI _].
        destruct (step_ghost _ _ _ _ HI (polite_ok _ _ Hpl) Hs a) as [_ Ha]. rewrite Ha, (polite_no_arrival a l a Hpl), app_nil_r. exact HP. }
      destruct (IH s' ltac:(lia) HG' HP') as (ls & s2 & Hss & Hf & Hc2).
      exists (l :: ls), s2. simpl. rewrite Hs. split; [exact Hss|]. split; [constructor; assumption|]. lia.
Qed.

Lemma not_starved_pf :
  forall ls s a, Forall ok_label ls -> steps state0 ls = Some s ->
    held (cl s a) ++ queue (cl s a) ++ proj a (spawned s) <> [] ->
    exists ls' s', steps s ls' = Some s' /\ Forall (polite a) ls' /\
                   length (hist (cl s' a)) = S (length (hist (cl s a))).
Proof.
  intros ls s a Hok H Hp. pose proof (steps_good _ _ _ Good0 Hok H) as HG.
  apply (progress_pf a (mu a s) s (le_n _) HG). apply pending_iff; [exact (proj1 HG)|exact Hp].
Qed.


(* per-client conservation, counted: every datagram received for a client is either handed to a handler invocation
   (observed, exactly once), or is the one datagram of a refused invocation (generator ended before its first yield), or
   is still there (held by a starting generator, queued, or with a handler task that has not run) *)
Lemma filter_partition_length {X} (f : X -> bool) (l : list X) :
  length l = length (filter f l) + length (filter (fun x => negb (f x)) l).
Proof. induction l as [|x l IH]; simpl; [reflexivity|]. destruct (f x); simpl; lia. Qed.

Lemma conservation_pf :
  forall ls s o a, Forall ok_label ls -> trace state0 ls = Some (s, o) ->
    length (arrivals a ls) =
      length (received a o) + length (discarded (cl s a)) +
      length (held (cl s a)) + length (queue (cl s a)) + length (proj a (spawned s)).
Proof.
  intros ls s o a Hok H. destruct (fifo_exactly_once_pf ls s o a Hok H) as [Hr Hf].
  rewrite <- Hf, Hr. unfold discarded. rewrite !app_length, !map_length.
  rewrite (filter_partition_length snd (hist (cl s a))). lia.
Qed.


(* ---------------------------------------------------------------- the listener across serve() restarts *)
Definition linv (s : lstate) : Prop := serving s = true -> backlog s = [].

Lemma lstep_inv s l s' : linv s -> lstep s l = Some s' ->
  linv s' /\ dispatched s' ++ backlog s' = (dispatched s ++ backlog s) ++ larrivals [l].
Proof.
  intros Hi H. destruct l as [a d| |]; simpl in H; destruct (serving s) eqn:E; inversion H; subst; unfold linv; simpl.
  - rewrite (Hi E). rewrite !app_nil_r. auto.
  - split; [discriminate|]. rewrite <- app_assoc. reflexivity.
  - split; [reflexivity|]. rewrite !app_nil_r. reflexivity.
  - split; [discriminate|]. rewrite app_nil_r. reflexivity.
Qed.

Lemma larrivals_app x y : larrivals (x ++ y) = larrivals x ++ larrivals y.
Proof. induction x as [|l x IH]; simpl; [reflexivity|]. destruct l; simpl; rewrite IH; reflexivity. Qed.

Lemma lsteps_conservation ls : forall s s', linv s -> lsteps s ls = Some s' ->
  linv s' /\ dispatched s' ++ backlog s' = (dispatched s ++ backlog s) ++ larrivals ls.
Proof.
  induction ls as [|l ls IH]; intros s s' Hi H; simpl in H.
  - inversion H; subst. simpl. rewrite app_nil_r. auto.
  - destruct (lstep s l) as [s1|] eqn:E; [|discriminate].
    destruct (lstep_inv _ _ _ Hi E) as [Hi1 Hc1]. destruct (IH _ _ Hi1 H) as [Hi' Hc'].
    split; [exact Hi'|]. rewrite Hc', Hc1, <- app_assoc. change (l :: ls) with ([l] ++ ls). rewrite larrivals_app. reflexivity.
Qed.

Lemma listener_conservation_pf :
  forall ls s, lsteps lstate0 ls = Some s ->
    dispatched s ++ backlog s = larrivals ls /\ (serving s = true -> backlog s = []).
Proof.
  intros ls s H. assert (Hi0 : linv lstate0) by (intros E; discriminate).
  destruct (lsteps_conservation ls _ _ Hi0 H) as [Hi Hc]. split; [exact Hc|exact Hi].
Qed.
