(* Proofs for C05: the datagram path is a map over datagrams; the derived one-shot interface accepts exactly one frame. *)
From Coq Require Import List Arith Bool Lia.
From Coq Require Import NArith ZArith.
From EN Require Import Lib.Bytes Frame.Framer Frame.ReadUntil Frame.OneShot Frame.LineOneShot Frame.StructStrOneShot IO.DgramEndpoint Proofs.Bytes_proofs Proofs.ReadUntil_proofs.
Import ListNotations.

Section DG.
  Context {P Q : Type}.
  Variable serialize : P -> bytes.
  Variable deserialize : bytes -> ores P.
  Variable to_dto : Q -> P.
  Variable from_dto : P -> option Q.
  Variable bufsize : N.
  Variable drop_empty : bool.

  Notation make := (make_datagram serialize to_dto).
  Notation build := (build_packet_from_datagram deserialize from_dto).
  Notation send := (send_packet serialize to_dto drop_empty).
  Notation recv := (recv_packet deserialize from_dto bufsize).
  Notation recvc := (recv_packet_cancelled deserialize from_dto bufsize).
  Notation ires := (item_result deserialize from_dto bufsize).
  Notation ops := (do_ops serialize deserialize to_dto from_dto bufsize drop_empty).
  Notation recvn := (recv_n deserialize from_dto bufsize).

  Lemma send_one t q :
    drop_empty = false \/ make q <> [] ->
    outq (send t q) = outq t ++ [make q] /\ inq (send t q) = inq t.
  Proof.
    intros H. unfold send_packet, transport_send. destruct (make q) eqn:E.
    - destruct H as [->|H]; [simpl; auto | congruence].
    - simpl; auto.
  Qed.

  Lemma send_at_most_one t q :
    inq (send t q) = inq t /\ (outq (send t q) = outq t ++ [make q] \/ (outq (send t q) = outq t /\ make q = [] /\ drop_empty = true)).
  Proof.
    unfold send_packet, transport_send. destruct (make q) eqn:E; [destruct drop_empty|]; simpl; auto.
  Qed.

  Lemma roundtrip q :
    (forall p, deserialize (serialize p) = OOk p) -> from_dto (to_dto q) = Some q -> build (make q) = RPacket q.
  Proof. intros Hd Hc. unfold build_packet_from_datagram, make_datagram. rewrite Hd, Hc. reflexivity. Qed.

  Lemma build_not_nodata d : build d <> RNoData.
  Proof. unfold build_packet_from_datagram. destruct (deserialize d); [destruct (from_dto p)| |]; discriminate. Qed.

  Lemma ires_not_nodata i : ires i <> RNoData /\ ires i <> RCancelled /\ ires i <> RSendFailed.
  Proof.
    destruct i; simpl; [|repeat split; discriminate].
    unfold build_packet_from_datagram. destruct (deserialize (trunc bufsize d)); [destruct (from_dto p)| |]; repeat split; discriminate.
  Qed.

  Lemma recvn_map n : forall t, n <= length (inq t) ->
    recvn n t = ({| inq := skipn n (inq t); outq := outq t |}, map ires (firstn n (inq t))).
  Proof.
    induction n as [|n IH]; intros t Hn.
    - simpl. destruct t; reflexivity.
    - simpl. unfold recv_packet. destruct (inq t) as [|d ds] eqn:E; [simpl in Hn; lia|].
      rewrite IH by (simpl in *; lia). simpl. reflexivity.
  Qed.

  (* outcomes that consumed a queue item *)
  Definition is_data (r : rres Q) : bool := match r with RNoData | RCancelled | RSendFailed => false | _ => true end.

  (* everything that enters the receive queue during an op sequence, in order *)
  Fixpoint arrivals_of (os : list (op (Q := Q))) : list item :=
    match os with
    | [] => []
    | OpArrive d :: r => IData d :: arrivals_of r
    | OpSockError :: r => IErr :: arrivals_of r
    | _ :: r => arrivals_of r
    end.

  Lemma ops_map os : forall t,
    exists k, k <= length (inq t ++ arrivals_of os) /\
      filter is_data (snd (ops t os)) = map ires (firstn k (inq t ++ arrivals_of os)) /\
      inq (fst (ops t os)) = skipn k (inq t ++ arrivals_of os).
  Proof.
    induction os as [|o os IH]; intros t.
    - exists 0. simpl. rewrite app_nil_r. repeat split; lia.
    - simpl. destruct o as [q| |d| | |].
      + (* send *)
        simpl. destruct (IH (send t q)) as (k & Hk & Hf & Hi).
        destruct (send_at_most_one t q) as [Hin _]. rewrite Hin in *.
        destruct (ops (send t q) os) as [t2 r2] eqn:E. simpl in *. exists k. auto.
      + (* recv *)
        destruct (inq t) as [|d ds] eqn:Ein.
        * assert (Hr : recv t = (t, RNoData)) by (unfold recv_packet; rewrite Ein; reflexivity).
          destruct (IH t) as (k & Hk & Hf & Hi). rewrite Ein in *.
          simpl. rewrite Hr. destruct (ops t os) as [t2 r2] eqn:E. simpl in *. exists k. auto.
        * assert (Hr : recv t = ({| inq := ds; outq := outq t |}, ires d)) by (unfold recv_packet; rewrite Ein; reflexivity).
          destruct (IH {| inq := ds; outq := outq t |}) as (k & Hk & Hf & Hi). simpl in *.
          rewrite Hr. destruct (ops {| inq := ds; outq := outq t |} os) as [t2 r2] eqn:E. simpl in *.
          exists (S k). simpl. repeat split; [lia| |exact Hi].
          destruct (ires_not_nodata d) as (? & ? & ?). destruct (ires d) eqn:Eb; simpl; try congruence; rewrite Hf; reflexivity.
      + (* arrive *)
        destruct (IH {| inq := inq t ++ [IData d]; outq := outq t |}) as (k & Hk & Hf & Hi). simpl in *.
        destruct (ops {| inq := inq t ++ [IData d]; outq := outq t |} os) as [t2 r2] eqn:E. simpl in *.
        rewrite <- app_assoc in *. simpl in *. exists k. auto.
      + (* cancelled recv *)
        destruct (inq t) as [|d ds] eqn:Ein.
        * assert (Hr : recvc t = (t, RCancelled)) by (unfold recv_packet_cancelled; rewrite Ein; reflexivity).
          destruct (IH t) as (k & Hk & Hf & Hi). rewrite Ein in *.
          simpl. rewrite Hr. destruct (ops t os) as [t2 r2] eqn:E. simpl in *. exists k. auto.
        * assert (Hr : recvc t = ({| inq := ds; outq := outq t |}, ires d))
            by (unfold recv_packet_cancelled; rewrite Ein; reflexivity).
          destruct (IH {| inq := ds; outq := outq t |}) as (k & Hk & Hf & Hi). simpl in *.
          rewrite Hr. destruct (ops {| inq := ds; outq := outq t |} os) as [t2 r2] eqn:E. simpl in *.
          exists (S k). simpl. repeat split; [lia| |exact Hi].
          destruct (ires_not_nodata d) as (? & ? & ?). destruct (ires d) eqn:Eb; simpl; try congruence; rewrite Hf; reflexivity.
      + (* socket error *)
        destruct (IH {| inq := inq t ++ [IErr]; outq := outq t |}) as (k & Hk & Hf & Hi). simpl in *.
        destruct (ops {| inq := inq t ++ [IErr]; outq := outq t |} os) as [t2 r2] eqn:E. simpl in *.
        rewrite <- app_assoc in *. simpl in *. exists k. auto.
      + (* failed send *)
        destruct (IH t) as (k & Hk & Hf & Hi). simpl in *.
        destruct (ops t os) as [t2 r2] eqn:E. simpl in *. exists k. auto.
  Qed.

  Lemma packet_or_parse_error d :
    (forall x, deserialize x <> OCrash) ->
    (exists q, ires (IData d) = RPacket q) \/ (exists e, ires (IData d) = RParseError e).
  Proof.
    intros H. simpl. unfold build_packet_from_datagram. specialize (H (trunc bufsize d)).
    destruct (deserialize (trunc bufsize d)); [destruct (from_dto p)| |]; eauto. congruence.
  Qed.

  Lemma not_truncated d : (N.of_nat (length d) <= bufsize)%N -> ires (IData d) = build d.
  Proof. intros H. simpl. unfold trunc. apply N.leb_le in H. rewrite H. reflexivity. Qed.

  Lemma isolated (ds ds' : list item) o o' i :
    i < length ds -> i < length ds' -> nth i ds IErr = nth i ds' IErr ->
    nth i (snd (recvn (length ds) {| inq := ds; outq := o |})) RNoData =
    nth i (snd (recvn (length ds') {| inq := ds'; outq := o' |})) RNoData.
  Proof.
    intros H1 H2 He.
    rewrite (recvn_map (length ds) {| inq := ds; outq := o |}) by (simpl; apply Nat.le_refl).
    rewrite (recvn_map (length ds') {| inq := ds'; outq := o' |}) by (simpl; apply Nat.le_refl).
    simpl. rewrite !firstn_all.
    rewrite (nth_indep _ RNoData (ires IErr)) by (rewrite map_length; assumption).
    rewrite (nth_indep (map ires ds') RNoData (ires IErr)) by (rewrite map_length; assumption).
    rewrite (map_nth ires ds IErr i), (map_nth ires ds' IErr i). apply f_equal. exact He.
  Qed.
End DG.

(* ---------------------------------------------------------------- StringLineSerializer one-shot codec *)
Lemma strip_suffixes_noop fuel sep data : endswithb data sep = false -> strip_suffixes fuel sep data = data.
Proof. intros H. destruct fuel; simpl; [reflexivity|]. rewrite H. reflexivity. Qed.

Lemma line_roundtrip sep keep_end ascii p :
  (keep_end = true \/ endswithb p sep = false) ->
  (ascii = true -> forallb (fun b => N.ltb b 128) p = true) ->
  line_deserialize sep keep_end ascii (line_serialize p) = OOk p.
Proof.
  intros Hk Ha. unfold line_deserialize, line_serialize, line_decode.
  assert (E : (if keep_end then p else strip_suffixes (length p) sep p) = p).
  { destruct keep_end; [reflexivity|]. destruct Hk as [Hk|Hk]; [discriminate|]. apply strip_suffixes_noop. exact Hk. }
  rewrite E. destruct ascii; simpl; [rewrite Ha by reflexivity|]; reflexivity.
Qed.

(* only WHOLE trailing separators are removed: the result is a prefix of the datagram, the removed suffix is a
   repetition of the separator *)
Lemma concat_repeat_comm (sep : bytes) k : concat (repeat sep k) ++ sep = sep ++ concat (repeat sep k).
Proof. induction k; simpl; [rewrite app_nil_r; reflexivity|]. rewrite <- app_assoc, IHk. reflexivity. Qed.

Lemma strip_suffixes_spec fuel sep : forall data, exists k,
  data = strip_suffixes fuel sep data ++ concat (repeat sep k).
Proof.
  induction fuel as [|f IH]; intros data; simpl.
  - exists 0. simpl. rewrite app_nil_r. reflexivity.
  - destruct (endswithb data sep) eqn:E.
    + remember (firstn (length data - length sep) data) as pre eqn:Epre.
      destruct (IH pre) as [k Hk]. exists (S k).
      assert (Hs : data = pre ++ sep).
      { unfold endswithb in E. apply andb_prop in E. destruct E as [_ E]. apply bytes_eqb_eq in E.
        pose proof (firstn_skipn (length data - length sep) data) as Hfs. rewrite E, <- Epre in Hfs. symmetry. exact Hfs. }
      transitivity (pre ++ sep); [exact Hs|].
      rewrite Hk at 1. simpl. rewrite <- app_assoc. f_equal. apply concat_repeat_comm.
    + exists 0. simpl. rewrite app_nil_r. reflexivity.
Qed.

(* ---------------------------------------------------------------- derived one-shot interface over read_until *)
Section OneShotUntil.
  Context {P : Type}.
  Variable sep : bytes.
  Variable limit : nat.
  Variable keep_end : bool.
  Variable dec : decoder P.
  Hypothesis sep_ne : sep <> [].

  Notation F := (ru_framer sep limit keep_end dec).

  Lemma skipn_all_app {X} (a b : list X) : skipn (length a + length b) (a ++ b) = [].
  Proof. rewrite <- app_length. apply skipn_all. Qed.

  Lemma ru_feed_ne data :
    data <> [] -> ru_feed sep limit keep_end dec None data = ru_scan sep limit keep_end dec data 0.
  Proof. destruct data; [congruence|reflexivity]. Qed.

  Lemma frame_ne payload t : payload ++ sep ++ t <> [].
  Proof. destruct payload; destruct sep; simpl; congruence. Qed.

  (* the frame: payload ++ sep whose first separator occurrence is the final one *)
  Lemma until_extra0 payload extra p :
    find0 sep (payload ++ sep) = Some (length payload) -> length payload <= limit ->
    dec (if keep_end then payload ++ sep else payload) = Some p ->
    oneshot_deserialize F (payload ++ sep ++ extra) = match extra with [] => OOk p | _ => OErr EExtra end.
  Proof.
    intros Hf Hl Hd. unfold oneshot_deserialize.
    change (ffeed F (finit F) (payload ++ sep ++ extra)) with (ru_feed sep limit keep_end dec None (payload ++ sep ++ extra)).
    assert (Hf' : find0 sep (payload ++ sep ++ extra) = Some (length payload)).
    { rewrite app_assoc. apply find0_app_l. exact Hf. }
    rewrite ru_feed_ne by apply frame_ne.
    rewrite (ru_scan_found sep limit keep_end dec sep_ne (payload ++ sep ++ extra) 0 (length payload) (ru_inv_0 sep limit _) Hf').
    unfold ru_finish. destruct (Nat.ltb_spec limit (length payload)); [lia|].
    unfold seplen.
    replace (skipn (length payload + length sep) (payload ++ sep ++ extra)) with extra.
    2:{ rewrite app_assoc, <- app_length, skipn_app, skipn_all, Nat.sub_diag. reflexivity. }
    replace (firstn (if keep_end then length payload + length sep else length payload) (payload ++ sep ++ extra))
      with (if keep_end then payload ++ sep else payload).
    - match goal with |- context [dec ?x] => replace (dec x) with (Some p) by (symmetry; exact Hd) end. reflexivity.
    - destruct keep_end.
      + rewrite app_assoc, <- app_length, firstn_app, Nat.sub_diag, firstn_all. simpl. rewrite app_nil_r. reflexivity.
      + rewrite firstn_app, Nat.sub_diag, firstn_all. simpl. rewrite app_nil_r. reflexivity.
  Qed.

  Lemma until_ok payload p :
    find0 sep (payload ++ sep) = Some (length payload) -> length payload <= limit ->
    dec (if keep_end then payload ++ sep else payload) = Some p ->
    oneshot_deserialize F (oneshot_serialize (until_parts sep payload)) = OOk p.
  Proof.
    intros Hf Hl Hd. unfold oneshot_serialize, until_parts. simpl.
    exact (until_extra0 payload [] p Hf Hl Hd).
  Qed.

  Lemma until_extra payload extra p :
    find0 sep (payload ++ sep) = Some (length payload) -> length payload <= limit ->
    dec (if keep_end then payload ++ sep else payload) = Some p -> extra <> [] ->
    oneshot_deserialize F (payload ++ sep ++ extra) = OErr EExtra.
  Proof.
    intros Hf Hl Hd Hx. rewrite (until_extra0 payload extra p Hf Hl Hd). destruct extra; [congruence|reflexivity].
  Qed.

  Lemma until_missing payload x y :
    find0 sep (payload ++ sep) = Some (length payload) -> length payload <= limit ->
    payload ++ sep = x ++ y -> y <> [] ->
    oneshot_deserialize F x = OErr EMissing.
  Proof.
    intros Hf Hl Hxy Hy. unfold oneshot_deserialize.
    change (ffeed F (finit F) x) with (ru_feed sep limit keep_end dec None x).
    destruct x as [|b0 r0]; [reflexivity|]. set (x := b0 :: r0) in *.
    rewrite ru_feed_ne by (unfold x; discriminate). clearbody x. clear b0 r0.
    assert (Hlen : length x < length payload + length sep).
    { apply (f_equal (@length _)) in Hxy. rewrite !app_length in Hxy. destruct y; [congruence|simpl in Hxy; lia]. }
    assert (Hnone : find0 sep x = None).
    { destruct (find0 sep x) as [i|] eqn:Ei; [|reflexivity]. exfalso.
      pose proof (find0_app_l _ _ y _ Ei) as H1. rewrite <- Hxy, Hf in H1. inversion H1; subst i.
      apply find0_Some in Ei. destruct Ei as [Ho _]. apply occ_bound in Ho; auto. lia. }
    destruct (ru_scan_none sep limit keep_end dec sep_ne x 0 (ru_inv_0 sep limit x) Hnone) as [H1 _].
    destruct H1 as (off' & -> & _); [lia|]. reflexivity.
  Qed.
End OneShotUntil.

(* ---------------------------------------------------------------- derived one-shot interface over read_exactly *)
Section OneShotExact.
  Context {P : Type}.
  Variable size : nat.
  Variable dec : decoder P.
  Hypothesis size_pos : 0 < size.

  Notation F := (rx_framer size dec).

  Lemma exact_ok data p :
    length data = size -> dec data = Some p ->
    oneshot_deserialize F (oneshot_serialize (exact_parts data)) = OOk p.
  Proof.
    intros Hl Hd. unfold oneshot_serialize, exact_parts. simpl. rewrite app_nil_r.
    unfold oneshot_deserialize. simpl. unfold rx_feed.
    destruct data as [|b r] eqn:E; [simpl in Hl; lia|]. rewrite <- E in *.
    unfold rx_check. destruct (Nat.ltb_spec (length data) size); [lia|].
    rewrite <- Hl, firstn_all, skipn_all, Hd. reflexivity.
  Qed.

  Lemma exact_extra data extra p :
    length data = size -> dec data = Some p -> extra <> [] ->
    oneshot_deserialize F (data ++ extra) = OErr EExtra.
  Proof.
    intros Hl Hd Hx. unfold oneshot_deserialize. simpl. unfold rx_feed.
    destruct (data ++ extra) as [|b r] eqn:E.
    { destruct data; [simpl in Hl; lia|discriminate]. }
    rewrite <- E. unfold rx_check. rewrite app_length.
    destruct (Nat.ltb_spec (length data + length extra) size); [lia|].
    rewrite <- Hl, firstn_app, Nat.sub_diag, firstn_all, skipn_app, skipn_all, Nat.sub_diag. simpl. rewrite app_nil_r, Hd.
    destruct extra; [congruence|reflexivity].
  Qed.

  Lemma exact_missing x : length x < size -> oneshot_deserialize F x = OErr EMissing.
  Proof.
    intros Hl. unfold oneshot_deserialize. simpl. unfold rx_feed.
    destruct x as [|b r] eqn:E; [reflexivity|]. rewrite <- E in *.
    unfold rx_check. destruct (Nat.ltb_spec (length x) size); [reflexivity|lia].
  Qed.
End OneShotExact.


(* ---------------------------------------------------------------- struct "<n>s" field codec *)
Lemma rstrip_nul_zeros k : rstrip_nul (repeat 0%N k) = [].
Proof. induction k; simpl; [reflexivity|]. rewrite IHk. reflexivity. Qed.

Lemma rstrip_nul_app_zeros v k : rstrip_nul (v ++ repeat 0%N k) = rstrip_nul v.
Proof.
  induction v as [|b r IH]; simpl; [apply rstrip_nul_zeros|]. rewrite IH. reflexivity.
Qed.

Lemma struct_s_roundtrip n v :
  length v <= n -> rstrip_nul v = v ->
  struct_s_deserialize n true (struct_s_serialize n v) = OOk v.
Proof.
  intros Hl Hv. unfold struct_s_deserialize, struct_s_serialize.
  rewrite firstn_all2 by exact Hl.
  rewrite app_length, repeat_length. replace (length v + (n - length v)) with n by lia.
  rewrite Nat.eqb_refl, rstrip_nul_app_zeros, Hv. reflexivity.
Qed.

(* only trailing NULs are removed: the result is a prefix of the field followed by NULs only; interior NULs survive *)
Lemma rstrip_nul_spec d : exists k, d = rstrip_nul d ++ repeat 0%N k.
Proof.
  induction d as [|b r [k IH]]; simpl; [exists 0; reflexivity|].
  destruct (rstrip_nul r) as [|x r'] eqn:E.
  - destruct (N.eqb_spec b 0).
    + subst b. exists (S k). simpl. rewrite IH at 1. reflexivity.
    + exists k. simpl. rewrite IH at 1. reflexivity.
  - exists k. simpl. rewrite IH at 1. reflexivity.
Qed.
