(* C19: invariants of the staggered race over all label sequences. *)
From Coq Require Import ZArith List Bool Arith Lia.
Import ListNotations.
From EN Require Import Gen.ParamsC19 Conc.ConnRace.

(* ------------------------------------------------------------------ list helpers *)
Lemma in_remove_id x y l : In x (remove_id y l) <-> In x l /\ x <> y.
Proof.
  unfold remove_id. rewrite filter_In. split; intros [H1 H2]; split; auto.
  - intro E. subst. rewrite Nat.eqb_refl in H2. discriminate.
  - destruct (Nat.eqb y x) eqn:E; auto. apply Nat.eqb_eq in E. congruence.
Qed.
Lemma nodup_remove_id y l : NoDup l -> NoDup (remove_id y l).
Proof. intro H. unfold remove_id. apply NoDup_filter. exact H. Qed.

Lemma upd_length {A} (l : list A) i x : length (upd l i x) = length l.
Proof. revert i; induction l; intros [|i]; simpl; auto. Qed.
Lemma upd_same {A} (l : list A) i x : i < length l -> nth_error (upd l i x) i = Some x.
Proof. revert i; induction l; intros [|i] H; simpl in *; try lia; auto. apply IHl; lia. Qed.
Lemma upd_other {A} (l : list A) i j x : i <> j -> nth_error (upd l i x) j = nth_error l j.
Proof. revert i j; induction l; intros [|i] [|j] H; simpl; auto; try congruence. Qed.

(* ------------------------------------------------------------------ _create_connection_impl on one address *)
Lemma cc_single locals a open :
  (exists n, cc_advance locals [a] 0 open = (CcDone (OutErrs n), open) /\ 1 <= n) \/
  cc_advance locals [a] 0 open = (CcWait a [] 0, a_id a :: open) \/
  cc_advance locals [a] 0 open = (CcDone (OutSock (a_id a)), a_id a :: open) \/
  cc_advance locals [a] 0 open = (CcDone OutCrash, open).
Proof.
  simpl. destruct (a_create a); simpl.
  - assert (Hb : forall id fam ls e, match bind_loop id fam ls e with BindErrs n => 1 <= n | _ => True end).
    { intros id fam ls. induction ls as [|[lf fails] ls IH]; intros e; simpl.
      - destruct e; simpl; [exact I | lia].
      - destruct (Z.eqb lf fam); [destruct (existsb (Nat.eqb id) fails)|]; try apply IH; exact I. }
    destruct (bind_all locals a) eqn:E.
    + destruct (a_conn a); auto. left; exists 1; split; auto.
    + left. exists n. split; auto. unfold bind_all in E. destruct locals; [|discriminate].
      specialize (Hb (a_id a) (a_fam a) l 0). rewrite E in Hb. exact Hb.
    + left; exists 1; split; auto.
  - left; exists 1; split; auto.
Qed.

(* ------------------------------------------------------------------ the invariant *)
Section Race.
Variable c : rcfg.
Hypothesis ids_distinct : NoDup (map a_id (c_addrs c)).

Lemma id_inj i j a b : nth_error (c_addrs c) i = Some a -> nth_error (c_addrs c) j = Some b -> a_id a = a_id b -> i = j.
Proof.
  intros Hi Hj E.
  assert (Hi' : nth_error (map a_id (c_addrs c)) i = Some (a_id a)) by (rewrite nth_error_map, Hi; reflexivity).
  assert (Hj' : nth_error (map a_id (c_addrs c)) j = Some (a_id a)) by (rewrite nth_error_map, Hj, E; reflexivity).
  rewrite NoDup_nth_error in ids_distinct. apply ids_distinct; [| congruence].
  apply nth_error_Some. rewrite Hi'. discriminate.
Qed.

Definition connecting (att : list tstate) (id : nat) : Prop :=
  exists i a b, nth_error att i = Some (TConn b) /\ nth_error (c_addrs c) i = Some a /\ a_id a = id.

Definition kept (s : rstate) : Prop :=
  match r_result s with None | Some (ResSock _) => True | _ => False end.

Definition is_conn (t : tstate) : bool := match t with TConn _ => true | _ => false end.

Record Inv (s : rstate) : Prop := {
  i_len : length (r_att s) = length (c_addrs c);
  i_nodup : NoDup (r_open s);
  i_open : forall id, In id (r_open s) <-> connecting (r_att s) id \/ (r_winner s = Some id /\ kept s);
  i_winner : forall id, r_winner s = Some id ->
             exists i a, nth_error (r_att s) i = Some TFin /\ nth_error (c_addrs c) i = Some a /\ a_id a = id;
  i_none : match r_host s with
           | HInit => forall j t, nth_error (r_att s) j = Some t -> t = TNone
           | HWait k => forall j t, k < j -> nth_error (r_att s) j = Some t -> t = TNone
           | _ => True
           end;
  i_done : r_host s = HDone <-> r_result s <> None;
  i_alldone : r_host s = HDone -> all_children_done s = true;
  i_res : forall id, r_result s = Some (ResSock id) -> r_winner s = Some id
}.

Lemma conn_upd_non att i t a id : i < length att -> is_conn t = false -> nth_error (c_addrs c) i = Some a ->
  (connecting (upd att i t) id <-> connecting att id /\ id <> a_id a).
Proof.
  intros Hl Ht Ha. split.
  - intros (j & b & f & H1 & H2 & H3). destruct (Nat.eq_dec i j) as [->|N].
    + rewrite upd_same in H1 by exact Hl. inversion H1; subst. discriminate.
    + rewrite upd_other in H1 by exact N. split; [exists j, b, f; auto|].
      intro E. apply N. eapply id_inj; eauto. congruence.
  - intros [(j & b & f & H1 & H2 & H3) Hne]. exists j, b, f. split; [|auto].
    rewrite upd_other; auto. intro E; subst j. rewrite Ha in H2. inversion H2; subst. congruence.
Qed.

Lemma conn_upd_conn att i f a id : i < length att -> nth_error (c_addrs c) i = Some a ->
  (connecting (upd att i (TConn f)) id <-> (connecting att id /\ id <> a_id a) \/ id = a_id a).
Proof.
  intros Hl Ha. split.
  - intros (j & b & g & H1 & H2 & H3). destruct (Nat.eq_dec i j) as [->|N].
    + right. rewrite Ha in H2. inversion H2; subst. reflexivity.
    + left. rewrite upd_other in H1 by exact N. split; [exists j, b, g; auto|].
      intro E. apply N. eapply id_inj; eauto. congruence.
  - intros [[(j & b & g & H1 & H2 & H3) Hne] | ->].
    + exists j, b, g. split; [|auto]. rewrite upd_other; auto.
      intro E; subst j. rewrite Ha in H2. inversion H2; subst. congruence.
    + exists i, a, f. split; [apply upd_same; exact Hl | auto].
Qed.

Lemma conn_cancel att id : connecting (map cancel_child att) id <-> connecting att id.
Proof.
  split; intros (j & b & f & H1 & H2 & H3).
  - rewrite nth_error_map in H1. destruct (nth_error att j) as [t|] eqn:E; [|discriminate].
    destruct t; simpl in H1; try discriminate. exists j, b, c0. auto.
  - exists j, b, true. split; [|auto]. rewrite nth_error_map, H1. reflexivity.
Qed.

Lemma not_conn_when_done s id : all_children_done s = true -> ~ connecting (r_att s) id.
Proof.
  intros H (j & b & f & H1 & _). unfold all_children_done in H. rewrite forallb_forall in H.
  apply nth_error_In in H1. apply H in H1. discriminate.
Qed.

Lemma init_inv : c_addrs c <> [] -> Inv (init c).
Proof.
  intro Hne. constructor; simpl.
  - apply map_length.
  - constructor.
  - intro id. split; [intros []|]. intros [(j & b & f & H1 & _) | [H _]]; [|discriminate].
    rewrite nth_error_map in H1. destruct (nth_error (c_addrs c) j); discriminate.
  - discriminate.
  - intros j t H. rewrite nth_error_map in H. destruct (nth_error (c_addrs c) j); inversion H; reflexivity.
  - split; [discriminate | intro H; exfalso; apply H; reflexivity].
  - discriminate.
  - discriminate.
Qed.

End Race.

(* ------------------------------------------------------------------ _create_connection_impl over any address list *)
(* every socket it created is closed again, except the one it returns / the one of the pending connect *)
Lemma cc_advance_open locals : forall l errs open,
  match cc_advance locals l errs open with
  | (CcWait cur _ _, open') => open' = a_id cur :: open
  | (CcDone (OutSock id), open') => open' = id :: open
  | (CcDone _, open') => open' = open
  end.
Proof.
  induction l as [|a l IH]; intros errs open; simpl; auto.
  destruct (a_create a); simpl; [|apply IH].
  destruct (bind_all locals a); try apply IH.
  destruct (a_conn a); auto. apply IH.
Qed.

Lemma remove_id_head id open : ~ In id open -> remove_id id (id :: open) = open.
Proof.
  intro H. unfold remove_id. simpl. rewrite Nat.eqb_refl. simpl.
  induction open as [|x open IH]; simpl; auto.
  destruct (Nat.eqb id x) eqn:E.
  - apply Nat.eqb_eq in E. subst. exfalso. apply H. left; reflexivity.
  - simpl. f_equal. apply IH. intro K. apply H. right; exact K.
Qed.

(* one resumption of a pending connect: its socket stays open only if the connect succeeded *)
Lemma cc_resume_open locals cur rest errs r open0 : ~ In (a_id cur) open0 ->
  match cc_resume locals cur rest errs r (a_id cur :: open0) with
  | (CcWait cur' _ _, open') => open' = a_id cur' :: open0
  | (CcDone (OutSock id), open') => open' = id :: open0
  | (CcDone _, open') => open' = open0
  end.
Proof.
  intro Hnin. pose proof (remove_id_head _ _ Hnin) as Hc.
  destruct r; unfold cc_resume; rewrite ?Hc; auto.
  apply cc_advance_open.
Qed.

(* a second success while a winner exists closes its own socket and leaves the winner alone *)
Lemma second_success_closes (c : rcfg) s i s' w a :
  r_winner s = Some w -> nth_error (c_addrs c) i = Some a ->
  step c s (LConnOk i) = Some s' -> ~ In (a_id a) (r_open s') /\ r_winner s' = Some w /\ nth_error (r_att s') i = Some TFin.
Proof.
  intros Hw Ha H. simpl in H. destruct (nth_error (r_att s) i) as [[| |[]|]|] eqn:E; try discriminate.
  unfold child_resume in H. rewrite Ha in H. simpl in H. unfold child_finish in H. rewrite Hw in H.
  injection H as Hs. rewrite <- Hs. simpl. split; [| split; [reflexivity|]].
  - rewrite in_remove_id. intros [_ K]. apply K; reflexivity.
  - apply upd_same. apply nth_error_Some. rewrite E. discriminate.
Qed.
