(* C19: invariants of the staggered race over all label sequences. *)
From Coq Require Import ZArith List Bool Arith Lia.
Import ListNotations.
From EN Require Import Gen.ParamsC19 Conc.ConnRace.

(* ------------------------------------------------------------------ list helpers *)
Lemma in_remove_id x y l : In x (remove_id y l) <-> In x l /\ x <> y.
Proof.
  unfold remove_id. rewrite filter_In. split; intros [H1 H2]; split; auto.
  - intro E. subst. rewrite Nat.eqb_refl in H2. discriminate.
  - destruct (Nat.eqb y x) eqn:E; auto. apply Nat.eqb_eq in E. congruence.
Qed.
Lemma nodup_remove_id y l : NoDup l -> NoDup (remove_id y l).
Proof. intro H. unfold remove_id. apply NoDup_filter. exact H. Qed.

Lemma upd_length {A} (l : list A) i x : length (upd l i x) = length l.
Proof. revert i; induction l; intros [|i]; simpl; auto. Qed.
Lemma upd_same {A} (l : list A) i x : i < length l -> nth_error (upd l i x) i = Some x.
Proof. revert i; induction l; intros [|i] H; simpl in *; try lia; auto. apply IHl; lia. Qed.
Lemma upd_other {A} (l : list A) i j x : i <> j -> nth_error (upd l i x) j = nth_error l j.
Proof. revert i j; induction l; intros [|i] [|j] H; simpl; auto; try congruence. Qed.

(* ------------------------------------------------------------------ _create_connection_impl on one address *)
Lemma cc_single locals a open :
  (exists n, cc_advance locals [a] 0 open = (CcDone (OutErrs n), open) /\ 1 <= n) \/
  cc_advance locals [a] 0 open = (CcWait a [] 0, a_id a :: open) \/
  cc_advance locals [a] 0 open = (CcDone (OutSock (a_id a)), a_id a :: open) \/
  cc_advance locals [a] 0 open = (CcDone OutCrash, open).
Proof.
  simpl. destruct (a_create a); simpl.
  - assert (Hb : forall id fam ls e, match bind_loop id fam ls e with BindErrs n => 1 <= n | _ => True end).
    { intros id fam ls. induction ls as [|[lf fails] ls IH]; intros e; simpl.
      - destruct e; simpl; [exact I | lia].
      - destruct (Z.eqb lf fam); [destruct (existsb (Nat.eqb id) fails)|]; try apply IH; exact I. }
    destruct (bind_all locals a) eqn:E.
    + destruct (a_conn a); auto. left; exists 1; split; auto.
    + left. exists n. split; auto. unfold bind_all in E. destruct locals; [|discriminate].
      specialize (Hb (a_id a) (a_fam a) l 0). rewrite E in Hb. exact Hb.
    + left; exists 1; split; auto.
  - left; exists 1; split; auto.
Qed.

(* ------------------------------------------------------------------ the invariant *)
Section Race.
Variable c : rcfg.
Hypothesis ids_distinct : NoDup (map a_id (c_addrs c)).

Lemma id_inj i j a b : nth_error (c_addrs c) i = Some a -> nth_error (c_addrs c) j = Some b -> a_id a = a_id b -> i = j.
Proof.
  intros Hi Hj E.
  assert (Hi' : nth_error (map a_id (c_addrs c)) i = Some (a_id a)) by (rewrite nth_error_map, Hi; reflexivity).
  assert (Hj' : nth_error (map a_id (c_addrs c)) j = Some (a_id a)) by (rewrite nth_error_map, Hj, E; reflexivity).
  rewrite NoDup_nth_error in ids_distinct. apply ids_distinct; [| congruence].
  apply nth_error_Some. rewrite Hi'. discriminate.
Qed.

Definition connecting (att : list tstate) (id : nat) : Prop :=
  exists i a b, nth_error att i = Some (TConn b) /\ nth_error (c_addrs c) i = Some a /\ a_id a = id.

Definition kept (s : rstate) : Prop :=
  match r_result s with None | Some (ResSock _) => True | _ => False end.

Definition is_conn (t : tstate) : bool := match t with TConn _ => true | _ => false end.

Definition is_fin (t : tstate) : bool := match t with TFin => true | _ => false end.
Definition count_fin (l : list tstate) : nat := length (filter is_fin l).
Definition early (h : hstate) : Prop := match h with HInit | HWait _ | HJoin => True | _ => False end.

Record Inv (s : rstate) : Prop := {
  i_len : length (r_att s) = length (c_addrs c);
  i_nodup : NoDup (r_open s);
  i_open : forall id, In id (r_open s) <-> connecting (r_att s) id \/ (r_winner s = Some id /\ kept s);
  i_winner : forall id, r_winner s = Some id ->
             exists i a, nth_error (r_att s) i = Some TFin /\ nth_error (c_addrs c) i = Some a /\ a_id a = id;
  i_none : match r_host s with
           | HInit => forall j t, nth_error (r_att s) j = Some t -> t = TNone
           | HWait k => k < length (c_addrs c) /\
                        (forall j t, k < j -> nth_error (r_att s) j = Some t -> t = TNone) /\
                        (forall j t, j <= k -> nth_error (r_att s) j = Some t -> t <> TNone)
           | HJoin => forall j t, nth_error (r_att s) j = Some t -> t <> TNone
           | _ => True
           end;
  i_done : r_host s = HDone <-> r_result s <> None;
  i_alldone : r_host s = HDone -> all_children_done s = true;
  i_res : forall id, r_result s = Some (ResSock id) -> r_winner s = Some id;
  i_scope : r_scope s = true -> r_winner s <> None;
  i_cflag : early (r_host s) -> forall j t, nth_error (r_att s) j = Some t -> t <> TNew true /\ t <> TConn true;
  i_err : early (r_host s) -> r_winner s = None -> r_crashed s = false -> count_fin (r_att s) <= r_nerr s;
  i_errres : forall n, r_result s = Some (ResErrs n) -> 1 <= n
}.

Lemma conn_upd_non att i t a id : i < length att -> is_conn t = false -> nth_error (c_addrs c) i = Some a ->
  (connecting (upd att i t) id <-> connecting att id /\ id <> a_id a).
Proof.
  intros Hl Ht Ha. split.
  - intros (j & b & f & H1 & H2 & H3). destruct (Nat.eq_dec i j) as [->|N].
    + rewrite upd_same in H1 by exact Hl. inversion H1; subst. discriminate.
    + rewrite upd_other in H1 by exact N. split; [exists j, b, f; auto|].
      intro E. apply N. eapply id_inj; eauto. congruence.
  - intros [(j & b & f & H1 & H2 & H3) Hne]. exists j, b, f. split; [|auto].
    rewrite upd_other; auto. intro E; subst j. rewrite Ha in H2. inversion H2; subst. congruence.
Qed.

Lemma conn_upd_conn att i f a id : i < length att -> nth_error (c_addrs c) i = Some a ->
  (connecting (upd att i (TConn f)) id <-> (connecting att id /\ id <> a_id a) \/ id = a_id a).
Proof.
  intros Hl Ha. split.
  - intros (j & b & g & H1 & H2 & H3). destruct (Nat.eq_dec i j) as [->|N].
    + right. rewrite Ha in H2. inversion H2; subst. reflexivity.
    + left. rewrite upd_other in H1 by exact N. split; [exists j, b, g; auto|].
      intro E. apply N. eapply id_inj; eauto. congruence.
  - intros [[(j & b & g & H1 & H2 & H3) Hne] | ->].
    + exists j, b, g. split; [|auto]. rewrite upd_other; auto.
      intro E; subst j. rewrite Ha in H2. inversion H2; subst. congruence.
    + exists i, a, f. split; [apply upd_same; exact Hl | auto].
Qed.

Lemma conn_cancel att id : connecting (map cancel_child att) id <-> connecting att id.
Proof.
  split; intros (j & b & f & H1 & H2 & H3).
  - rewrite nth_error_map in H1. destruct (nth_error att j) as [t|] eqn:E; [|discriminate].
    destruct t; simpl in H1; try discriminate. exists j, b, c0. auto.
  - exists j, b, true. split; [|auto]. rewrite nth_error_map, H1. reflexivity.
Qed.

Lemma not_conn_when_done s id : all_children_done s = true -> ~ connecting (r_att s) id.
Proof.
  intros H (j & b & f & H1 & _). unfold all_children_done in H. rewrite forallb_forall in H.
  apply nth_error_In in H1. apply H in H1. discriminate.
Qed.

Lemma count_upd_le l : forall i t, count_fin (upd l i t) <= count_fin l + (if is_fin t then 1 else 0).
Proof.
  unfold count_fin. induction l as [|x l IH]; intros [|i] t; simpl; try lia.
  - destruct (is_fin t), (is_fin x); simpl; lia.
  - specialize (IH i t). destruct (is_fin x); simpl; lia.
Qed.

Lemma count_all l : (forall t, In t l -> t <> TNone) -> forallb child_done l = true -> count_fin l = length l.
Proof.
  unfold count_fin. induction l as [|x l IH]; intros H1 H2; simpl; auto.
  simpl in H2. apply andb_true_iff in H2. destruct H2 as [Hx Hl].
  assert (x = TFin). { destruct x; simpl in Hx; try discriminate; auto. exfalso. apply (H1 TNone); [left|]; reflexivity. }
  subst x. simpl. f_equal. apply IH; auto. intros t Ht. apply H1. right; exact Ht.
Qed.

Hypothesis nonempty : c_addrs c <> [].

Lemma init_inv : Inv (init c).
Proof.
  constructor; simpl; try discriminate.
  - apply map_length.
  - constructor.
  - intro id. split; [intros []|]. intros [(j & b & f & H1 & _) | [H _]]; [|discriminate].
    rewrite nth_error_map in H1. destruct (nth_error (c_addrs c) j); discriminate.
  - intros j t H. rewrite nth_error_map in H. destruct (nth_error (c_addrs c) j); inversion H; reflexivity.
  - split; [discriminate | intro H; exfalso; apply H; reflexivity].
  - intros _ j t H. rewrite nth_error_map in H. destruct (nth_error (c_addrs c) j); inversion H; split; discriminate.
  - intros _ _ _. unfold count_fin. clear. induction (c_addrs c); simpl; auto.
Qed.

(* ---- small facts derived from the invariant *)
Lemma active_lt s i t : Inv s -> nth_error (r_att s) i = Some t -> i < length (r_att s).
Proof. intros _ H. apply nth_error_Some. rewrite H. discriminate. Qed.

Lemma active_result_none s i t : Inv s -> nth_error (r_att s) i = Some t -> child_done t = false -> r_result s = None.
Proof.
  intros I H Hd. destruct (r_result s) eqn:E; auto. exfalso.
  assert (Hh : r_host s = HDone) by (apply (i_done s I); rewrite E; discriminate).
  pose proof (i_alldone s I Hh) as Ha. unfold all_children_done in Ha. rewrite forallb_forall in Ha.
  apply nth_error_In in H. apply Ha in H. congruence.
Qed.

Lemma winner_not_active s i t a : Inv s -> nth_error (r_att s) i = Some t -> is_fin t = false ->
  nth_error (c_addrs c) i = Some a -> r_winner s <> Some (a_id a).
Proof.
  intros I H Hf Ha Hw. destruct (i_winner s I _ Hw) as (j & b & Hj & Hb & E).
  assert (j = i) by (eapply id_inj; eauto). subst j. rewrite H in Hj. inversion Hj; subst. discriminate.
Qed.

Lemma not_conn_self s i t a : Inv s -> nth_error (r_att s) i = Some t -> is_conn t = false ->
  nth_error (c_addrs c) i = Some a -> ~ connecting (r_att s) (a_id a).
Proof.
  intros I H Hc Ha (j & b & f & Hj & Hb & E).
  assert (j = i) by (eapply id_inj; eauto). subst j. rewrite H in Hj. inversion Hj; subst. discriminate.
Qed.

Lemma not_open_self s i t a : Inv s -> nth_error (r_att s) i = Some t -> is_conn t = false -> is_fin t = false ->
  nth_error (c_addrs c) i = Some a -> ~ In (a_id a) (r_open s).
Proof.
  intros I H Hc Hf Ha Hin. apply (i_open s I) in Hin. destruct Hin as [Hin | [Hw _]].
  - eapply not_conn_self; eauto.
  - eapply winner_not_active; eauto.
Qed.

(* ---- a child reaches TFin with outcome o: the common part of LChildStart (immediate outcomes), LChildSkip and
        the four resume labels *)
Lemma finish_inv s i t a o open' created :
  Inv s -> nth_error (r_att s) i = Some t -> child_done t = false -> nth_error (c_addrs c) i = Some a ->
  NoDup open' ->
  (forall x, x <> a_id a -> (In x open' <-> In x (r_open s))) ->
  (In (a_id a) open' <-> o = OutSock (a_id a)) ->
  (forall id, o = OutSock id -> id = a_id a) ->
  (forall n, o = OutErrs n -> 1 <= n) ->
  (o = OutCancel -> ~ early (r_host s)) ->
  Inv (child_finish s i o open' created).
Proof.
  intros I Ht Hact Ha Hnd Hother Hself Hsock Herrs Hcancel.
  assert (Hlt : i < length (r_att s)) by (eapply active_lt; eauto).
  assert (Hfin : is_fin t = false) by (destruct t; simpl in *; auto; discriminate).
  assert (Hres : r_result s = None) by (eapply active_result_none; eauto).
  assert (Hkept : kept s) by (unfold kept; rewrite Hres; exact Logic.I).
  assert (Hwin : r_winner s <> Some (a_id a)) by (eapply winner_not_active; eauto).
  assert (Hconn' : forall x, connecting (upd (r_att s) i TFin) x <-> connecting (r_att s) x /\ x <> a_id a)
    by (intro x; apply conn_upd_non; auto).
  assert (Hatt_other : forall j, j <> i -> nth_error (upd (r_att s) i TFin) j = nth_error (r_att s) j)
    by (intros j Hj; apply upd_other; auto).
  assert (Hnone :
    match r_host s with
    | HInit => forall j t0, nth_error (upd (r_att s) i TFin) j = Some t0 -> t0 = TNone
    | HWait k => k < length (c_addrs c) /\
                 (forall j t0, k < j -> nth_error (upd (r_att s) i TFin) j = Some t0 -> t0 = TNone) /\
                 (forall j t0, j <= k -> nth_error (upd (r_att s) i TFin) j = Some t0 -> t0 <> TNone)
    | HJoin => forall j t0, nth_error (upd (r_att s) i TFin) j = Some t0 -> t0 <> TNone
    | _ => True
    end).
  { pose proof (i_none s I) as Hn. destruct (r_host s); auto.
    - exfalso. specialize (Hn _ _ Ht). subst t. discriminate.
    - destruct Hn as [Hk [Hn1 Hn2]]. split; [exact Hk | split].
      + intros j t0 Hj Hnth. destruct (Nat.eq_dec j i) as [->|Nj].
        * exfalso. specialize (Hn1 _ _ Hj Ht). subst t. discriminate.
        * rewrite Hatt_other in Hnth by exact Nj. eapply Hn1; eauto.
      + intros j t0 Hj Hnth. destruct (Nat.eq_dec j i) as [->|Nj].
        * rewrite upd_same in Hnth by exact Hlt. inversion Hnth. discriminate.
        * rewrite Hatt_other in Hnth by exact Nj. eapply Hn2; eauto.
    - intros j t0 Hnth. destruct (Nat.eq_dec j i) as [->|Nj].
      + rewrite upd_same in Hnth by exact Hlt. inversion Hnth. discriminate.
      + rewrite Hatt_other in Hnth by exact Nj. eapply Hn; eauto. }
  assert (Hcflag : early (r_host s) -> forall j t0, nth_error (upd (r_att s) i TFin) j = Some t0 ->
                   t0 <> TNew true /\ t0 <> TConn true).
  { intros He j t0 Hnth. destruct (Nat.eq_dec j i) as [->|Nj].
    - rewrite upd_same in Hnth by exact Hlt. inversion Hnth. split; discriminate.
    - rewrite Hatt_other in Hnth by exact Nj. eapply (i_cflag s I); eauto. }
  assert (Hwinner_keep : forall id, r_winner s = Some id ->
            exists j b, nth_error (upd (r_att s) i TFin) j = Some TFin /\ nth_error (c_addrs c) j = Some b /\ a_id b = id).
  { intros id Hw. destruct (i_winner s I _ Hw) as (j & b & Hj & Hb & E). exists j, b.
    split; [|auto]. destruct (Nat.eq_dec j i) as [->|Nj]; [apply upd_same; exact Hlt | rewrite Hatt_other; auto]. }
  assert (Halldone : r_host s = HDone -> forallb child_done (upd (r_att s) i TFin) = true).
  { intro Hh. exfalso. assert (r_result s <> None) by (apply (i_done s I); exact Hh). congruence. }
  assert (Hcount : count_fin (upd (r_att s) i TFin) <= count_fin (r_att s) + 1)
    by (pose proof (count_upd_le (r_att s) i TFin); simpl in *; lia).
  unfold child_finish.
  destruct o as [id | n | | ].
  - (* OutSock *)
    assert (id = a_id a) by (apply Hsock; reflexivity). subst id.
    assert (Hin : In (a_id a) open') by (apply Hself; reflexivity).
    destruct (r_winner s) as [w|] eqn:Hw.
    + constructor; simpl.
      * rewrite upd_length. apply (i_len s I).
      * apply nodup_remove_id; exact Hnd.
      * intro x. rewrite in_remove_id, Hconn'. unfold kept; simpl. fold (kept s).
        destruct (Nat.eq_dec x (a_id a)) as [->|Nx].
        -- split; [intros [_ K]; exfalso; apply K; reflexivity|].
           intros [[_ K] | [K _]]; [exfalso; apply K; reflexivity | exfalso; apply Hwin; rewrite <- K; reflexivity].
        -- rewrite (Hother x Nx), (i_open s I x). rewrite Hw. tauto.
      * exact Hwinner_keep.
      * exact Hnone.
      * apply (i_done s I).
      * exact Halldone.
      * intros id K. rewrite Hres in K. discriminate.
      * intros Hs. discriminate.
      * exact Hcflag.
      * intros _ K. discriminate.
      * apply (i_errres s I).
    + constructor; simpl.
      * rewrite upd_length. apply (i_len s I).
      * exact Hnd.
      * intro x. rewrite Hconn'. unfold kept; simpl. fold (kept s).
        destruct (Nat.eq_dec x (a_id a)) as [->|Nx].
        -- split; [intros _; right; split; [reflexivity | exact Hkept] | intros _; exact Hin].
        -- rewrite (Hother x Nx), (i_open s I x). rewrite Hw.
           split; [intros [K | [K _]]; [left; split; auto | discriminate]
                  | intros [[K _] | [K _]]; [left; exact K | exfalso; apply Nx; inversion K; reflexivity]].
      * intros id K. inversion K; subst id. exists i, a. split; [apply upd_same; exact Hlt | auto].
      * exact Hnone.
      * apply (i_done s I).
      * exact Halldone.
      * intros id K. rewrite Hres in K. discriminate.
      * discriminate.
      * exact Hcflag.
      * intros _ K. discriminate.
      * apply (i_errres s I).
  - (* OutErrs *)
    assert (Hnin : ~ In (a_id a) open') by (rewrite Hself; discriminate).
    constructor; simpl.
    + rewrite upd_length. apply (i_len s I).
    + exact Hnd.
    + intro x. rewrite Hconn'. unfold kept; simpl. fold (kept s).
      destruct (Nat.eq_dec x (a_id a)) as [->|Nx].
      * split; [intro K; exfalso; auto | intros [[_ K] | [K _]]; exfalso; [apply K; reflexivity | exact (Hwin K)]].
      * rewrite (Hother x Nx), (i_open s I x). tauto.
    + exact Hwinner_keep.
    + exact Hnone.
    + apply (i_done s I).
    + exact Halldone.
    + apply (i_res s I).
    + apply (i_scope s I).
    + exact Hcflag.
    + intros He Hw Hc. pose proof (i_err s I He Hw Hc). specialize (Herrs n eq_refl). lia.
    + apply (i_errres s I).
  - (* OutCancel *)
    assert (Hnin : ~ In (a_id a) open') by (rewrite Hself; discriminate).
    constructor; simpl.
    + rewrite upd_length. apply (i_len s I).
    + exact Hnd.
    + intro x. rewrite Hconn'. unfold kept; simpl. fold (kept s).
      destruct (Nat.eq_dec x (a_id a)) as [->|Nx].
      * split; [intro K; exfalso; auto | intros [[_ K] | [K _]]; exfalso; [apply K; reflexivity | exact (Hwin K)]].
      * rewrite (Hother x Nx), (i_open s I x). tauto.
    + exact Hwinner_keep.
    + exact Hnone.
    + apply (i_done s I).
    + exact Halldone.
    + apply (i_res s I).
    + apply (i_scope s I).
    + exact Hcflag.
    + intros He. exfalso. apply Hcancel; auto.
    + apply (i_errres s I).
  - (* OutCrash *)
    assert (Hnin : ~ In (a_id a) open') by (rewrite Hself; discriminate).
    constructor; simpl.
    + rewrite upd_length. apply (i_len s I).
    + exact Hnd.
    + intro x. rewrite Hconn'. unfold kept; simpl. fold (kept s).
      destruct (Nat.eq_dec x (a_id a)) as [->|Nx].
      * split; [intro K; exfalso; auto | intros [[_ K] | [K _]]; exfalso; [apply K; reflexivity | exact (Hwin K)]].
      * rewrite (Hother x Nx), (i_open s I x). tauto.
    + exact Hwinner_keep.
    + exact Hnone.
    + apply (i_done s I).
    + exact Halldone.
    + apply (i_res s I).
    + apply (i_scope s I).
    + exact Hcflag.
    + intros _ _ K. discriminate.
    + apply (i_errres s I).
Qed.


(* ---- the host spawns the next attempt (or leaves the for loop) *)
Lemma spawn_inv s k :
  Inv s -> (r_host s = HInit /\ k = 0) \/ (exists k0, r_host s = HWait k0 /\ k = S k0) ->
  Inv (spawn_next c s k).
Proof.
  intros I Hh.
  assert (Hres : r_result s = None).
  { destruct (r_result s) eqn:E; auto. exfalso.
    assert (r_host s = HDone) by (apply (i_done s I); rewrite E; discriminate).
    destruct Hh as [[K _] | [k0 [K _]]]; congruence. }
  assert (Hearly : early (r_host s)) by (destruct Hh as [[K _] | [k0 [K _]]]; rewrite K; exact Logic.I).
  unfold spawn_next. destruct (k <? length (c_addrs c)) eqn:Ek.
  - apply Nat.ltb_lt in Ek.
    assert (Hlt : k < length (r_att s)) by (rewrite (i_len s I); exact Ek).
    destruct (nth_error (c_addrs c) k) as [a|] eqn:Ha; [| apply nth_error_None in Ha; lia].
    assert (Hk : nth_error (r_att s) k = Some TNone).
    { destruct (nth_error (r_att s) k) as [t|] eqn:E; [| apply nth_error_None in E; lia].
      f_equal. pose proof (i_none s I) as Hn.
      destruct Hh as [[K ->] | [k0 [K ->]]]; rewrite K in Hn.
      - eapply Hn; eauto.
      - destruct Hn as [_ [Hn _]]. eapply Hn; eauto. }
    assert (Hnc : forall x, connecting (r_att s) x -> x <> a_id a).
    { intros x Hc E. subst x. eapply (not_conn_self s k TNone a); eauto. }
    assert (Hother : forall j, j <> k -> nth_error (upd (r_att s) k (TNew false)) j = nth_error (r_att s) j)
      by (intros j Hj; apply upd_other; auto).
    constructor; simpl.
    + rewrite upd_length. apply (i_len s I).
    + apply (i_nodup s I).
    + intro x. rewrite (conn_upd_non _ k (TNew false) a x Hlt eq_refl Ha).
      unfold kept; simpl. fold (kept s). rewrite (i_open s I x). specialize (Hnc x). tauto.
    + intros id Hw. destruct (i_winner s I _ Hw) as (j & b & Hj & Hb & E). exists j, b. split; [|auto].
      rewrite Hother; auto. intro; subst j. rewrite Hk in Hj. discriminate.
    + split; [exact Ek | split].
      * intros j t Hj Hnth. rewrite Hother in Hnth by lia. pose proof (i_none s I) as Hn.
        destruct Hh as [[K ->] | [k0 [K ->]]]; rewrite K in Hn.
        -- eapply Hn; eauto.
        -- destruct Hn as [_ [Hn _]]. eapply (Hn j); eauto. lia.
      * intros j t Hj Hnth. destruct (Nat.eq_dec j k) as [->|Nj].
        -- rewrite upd_same in Hnth by exact Hlt. inversion Hnth. discriminate.
        -- rewrite Hother in Hnth by exact Nj. pose proof (i_none s I) as Hn.
           destruct Hh as [[K ->] | [k0 [K ->]]]; rewrite K in Hn; [lia|].
           destruct Hn as [_ [_ Hn]]. eapply (Hn j); eauto. lia.
    + split; [discriminate | intro K; congruence].
    + discriminate.
    + apply (i_res s I).
    + apply (i_scope s I).
    + intros _ j t Hnth. destruct (Nat.eq_dec j k) as [->|Nj].
      * rewrite upd_same in Hnth by exact Hlt. inversion Hnth. split; discriminate.
      * rewrite Hother in Hnth by exact Nj. eapply (i_cflag s I); eauto.
    + intros _ Hw Hc. pose proof (i_err s I Hearly Hw Hc). pose proof (count_upd_le (r_att s) k (TNew false)). simpl in *. lia.
    + apply (i_errres s I).
  - apply Nat.ltb_ge in Ek. constructor; simpl.
    + apply (i_len s I).
    + apply (i_nodup s I).
    + apply (i_open s I).
    + apply (i_winner s I).
    + intros j t Hnth. pose proof (i_none s I) as Hn.
      assert (Hj : j < length (c_addrs c)) by (rewrite <- (i_len s I); apply nth_error_Some; rewrite Hnth; discriminate).
      destruct Hh as [[K ->] | [k0 [K ->]]]; rewrite K in Hn; [lia|].
      destruct Hn as [_ [_ Hn]]. eapply (Hn j); eauto. lia.
    + split; [discriminate | intro K; congruence].
    + discriminate.
    + apply (i_res s I).
    + apply (i_scope s I).
    + intros _. apply (i_cflag s I Hearly).
    + intros _. apply (i_err s I Hearly).
    + apply (i_errres s I).
Qed.

(* ---- LChildStart when the connect suspends *)
Lemma start_wait_inv s i a created :
  Inv s -> nth_error (r_att s) i = Some (TNew false) -> nth_error (c_addrs c) i = Some a ->
  Inv {| r_att := upd (r_att s) i (TConn false); r_open := a_id a :: r_open s; r_created := created;
         r_winner := r_winner s; r_nerr := r_nerr s; r_scope := r_scope s; r_caller := r_caller s;
         r_crashed := r_crashed s; r_host := r_host s; r_result := r_result s |}.
Proof.
  intros I Ht Ha.
  assert (Hlt : i < length (r_att s)) by (eapply active_lt; eauto).
  assert (Hnin : ~ In (a_id a) (r_open s)) by (eapply (not_open_self s i (TNew false) a); eauto).
  assert (Hnc : forall x, connecting (r_att s) x -> x <> a_id a).
  { intros x Hc E. subst x. eapply (not_conn_self s i (TNew false) a); eauto. }
  assert (Hwin : r_winner s <> Some (a_id a)) by (eapply (winner_not_active s i (TNew false) a); eauto).
  assert (Hother : forall j, j <> i -> nth_error (upd (r_att s) i (TConn false)) j = nth_error (r_att s) j)
    by (intros j Hj; apply upd_other; auto).
  constructor; simpl.
  - rewrite upd_length. apply (i_len s I).
  - constructor; [exact Hnin | apply (i_nodup s I)].
  - intro x. rewrite (conn_upd_conn _ i false a x Hlt Ha). unfold kept; simpl. fold (kept s).
    rewrite (i_open s I x). specialize (Hnc x).
    split.
    + intros [E | [K | K]]; [left; right; symmetry; exact E | left; left; split; auto | right; exact K].
    + intros [[[K _] | E] | K]; [right; left; exact K | left; symmetry; exact E | right; right; exact K].
  - intros id Hw. destruct (i_winner s I _ Hw) as (j & b & Hj & Hb & E). exists j, b. split; [|auto].
    rewrite Hother; auto. intro; subst j. rewrite Ht in Hj. discriminate.
  - pose proof (i_none s I) as Hn. destruct (r_host s); auto.
    + exfalso. specialize (Hn _ _ Ht). discriminate.
    + destruct Hn as [Hk [Hn1 Hn2]]. split; [exact Hk | split].
      * intros j t0 Hj Hnth. destruct (Nat.eq_dec j i) as [->|Nj].
        -- exfalso. specialize (Hn1 _ _ Hj Ht). discriminate.
        -- rewrite Hother in Hnth by exact Nj. eapply Hn1; eauto.
      * intros j t0 Hj Hnth. destruct (Nat.eq_dec j i) as [->|Nj].
        -- rewrite upd_same in Hnth by exact Hlt. inversion Hnth. discriminate.
        -- rewrite Hother in Hnth by exact Nj. eapply Hn2; eauto.
    + intros j t0 Hnth. destruct (Nat.eq_dec j i) as [->|Nj].
      * rewrite upd_same in Hnth by exact Hlt. inversion Hnth. discriminate.
      * rewrite Hother in Hnth by exact Nj. eapply Hn; eauto.
  - apply (i_done s I).
  - intro Hh. exfalso. pose proof (i_alldone s I Hh) as Hd. unfold all_children_done in Hd.
    rewrite forallb_forall in Hd. apply nth_error_In in Ht. apply Hd in Ht. discriminate.
  - apply (i_res s I).
  - apply (i_scope s I).
  - intros He j t0 Hnth. destruct (Nat.eq_dec j i) as [->|Nj].
    + rewrite upd_same in Hnth by exact Hlt. inversion Hnth. split; discriminate.
    + rewrite Hother in Hnth by exact Nj. eapply (i_cflag s I); eauto.
  - intros He Hw Hc. pose proof (i_err s I He Hw Hc). pose proof (count_upd_le (r_att s) i (TConn false)). simpl in *. lia.
  - apply (i_errres s I).
Qed.

(* ---- the task group cancels every child *)
Lemma abort_inv s : Inv s -> (exists k, r_host s = HWait k) \/ r_host s = HJoin ->
  Inv (set_host (set_att s (map cancel_child (r_att s))) HAbort).
Proof.
  intros I Hh.
  assert (Hres : r_result s = None).
  { destruct (r_result s) eqn:E; auto. exfalso.
    assert (r_host s = HDone) by (apply (i_done s I); rewrite E; discriminate).
    destruct Hh as [[k K] | K]; congruence. }
  constructor; simpl.
  - rewrite map_length. apply (i_len s I).
  - apply (i_nodup s I).
  - intro x. rewrite conn_cancel. apply (i_open s I).
  - intros id Hw. destruct (i_winner s I _ Hw) as (j & b & Hj & Hb & E). exists j, b. split; [|auto].
    rewrite nth_error_map, Hj. reflexivity.
  - exact Logic.I.
  - split; [discriminate | intro K; congruence].
  - discriminate.
  - apply (i_res s I).
  - apply (i_scope s I).
  - intros [].
  - intros [].
  - apply (i_errres s I).
Qed.

(* ---- the host leaves the task group and the scope *)
Lemma done_inv s res open' :
  Inv s -> all_children_done s = true -> r_host s <> HDone ->
  NoDup open' ->
  ((exists w, res = ResSock w /\ r_winner s = Some w /\ open' = r_open s) \/
   ((forall w, res <> ResSock w) /\ open' = close_winner s)) ->
  (forall n, res = ResErrs n -> 1 <= n) ->
  Inv (finish s res open').
Proof.
  intros I Hall Hh Hnd Hcase Herr.
  assert (Hres : r_result s = None).
  { destruct (r_result s) eqn:E; auto. exfalso. apply Hh. apply (i_done s I). rewrite E. discriminate. }
  assert (Hkept : kept s) by (unfold kept; rewrite Hres; exact Logic.I).
  constructor; simpl.
  - apply (i_len s I).
  - exact Hnd.
  - intro x. unfold kept; simpl.
    assert (Hnc : ~ connecting (r_att s) x) by (apply not_conn_when_done; exact Hall).
    destruct Hcase as [(w & -> & Hw & ->) | [Hns ->]].
    + rewrite (i_open s I x). tauto.
    + assert (Hk : ~ match res with ResSock _ => True | _ => False end) by (destruct res; auto; exfalso; eapply Hns; eauto).
      split; [| intros [K | [_ K]]; [exfalso; auto | exfalso; destruct res; auto; eapply Hns; eauto]].
      unfold close_winner. destruct (r_winner s) as [w|] eqn:Hw.
      * rewrite in_remove_id, (i_open s I x). intros [[K | [K _]] N]; [exfalso; auto|]. exfalso. apply N. congruence.
      * rewrite (i_open s I x). intros [K | [K _]]; [exfalso; auto | congruence].
  - apply (i_winner s I).
  - exact Logic.I.
  - split; [discriminate | reflexivity].
  - intros _. exact Hall.
  - intros id K. inversion K; subst. destruct Hcase as [(w & E & Hw & _) | [Hns _]].
    + inversion E; subst. exact Hw.
    + exfalso. eapply Hns; eauto.
  - apply (i_scope s I).
  - intros [].
  - intros [].
  - intros n K. inversion K; subst. apply Herr. reflexivity.
Qed.

Lemma nodup_close_winner s : Inv s -> NoDup (close_winner s).
Proof. intro I. unfold close_winner. destruct (r_winner s); [apply nodup_remove_id|]; apply (i_nodup s I). Qed.

(* ---- preservation *)
Lemma step_inv s l s' : Inv s -> step c s l = Some s' -> Inv s'.
Proof.
  intros I H. destruct l as [ | timer | | swallow | i | i | i | i | i | i | ]; unfold step in H.
  - (* LHostStart *)
    destruct (r_host s) eqn:Eh; try discriminate. destruct (r_caller s); [discriminate|].
    inversion H; subst. apply spawn_inv; auto.
  - (* LHostNext *)
    destruct (r_host s) eqn:Eh; try discriminate.
    match type of H with (if ?b then _ else _) = _ => destruct b end; [|discriminate].
    inversion H; subst. apply spawn_inv; auto. right. exists k. auto.
  - (* LHostCancel *)
    destruct (pending_cancel s); [|discriminate]. destruct (r_host s) eqn:Eh; try discriminate.
    + inversion H; subst.
      assert (Hall : all_children_done s = true).
      { unfold all_children_done. apply forallb_forall. intros t Ht. apply In_nth_error in Ht. destruct Ht as [j Hj].
        pose proof (i_none s I) as Hn. rewrite Eh in Hn. rewrite (Hn _ _ Hj). reflexivity. }
      assert (Hw : r_winner s = None).
      { destruct (r_winner s) eqn:Hw; auto. exfalso. destruct (i_winner s I _ Hw) as (j & b & Hj & _).
        pose proof (i_none s I) as Hn. rewrite Eh in Hn. specialize (Hn _ _ Hj). discriminate. }
      apply done_inv; auto.
      * rewrite Eh. discriminate.
      * apply (i_nodup s I).
      * right. split; [discriminate|]. unfold close_winner. rewrite Hw. reflexivity.
      * discriminate.
    + inversion H; subst. apply abort_inv; auto. left. eauto.
    + inversion H; subst. apply abort_inv; auto.
  - (* LHostFinish *)
    destruct (all_children_done s) eqn:Hall; [|discriminate].
    destruct (r_host s) eqn:Eh; try discriminate.
    + (* HJoin *)
      assert (Hnd : r_host s <> HDone) by (rewrite Eh; discriminate).
      destruct (r_crashed s) eqn:Ec.
      * inversion H; subst. apply done_inv; auto; [apply nodup_close_winner; auto | right; split; [discriminate | reflexivity] | discriminate].
      * destruct (r_winner s) as [w|] eqn:Hw; inversion H; subst.
        -- apply done_inv; auto; [apply (i_nodup s I) | left; exists w; auto | discriminate].
        -- apply done_inv; auto; [apply (i_nodup s I) | right; split; [discriminate | unfold close_winner; rewrite Hw; reflexivity] |].
           intros n K. inversion K; subst.
           assert (He : early (r_host s)) by (rewrite Eh; exact Logic.I).
           pose proof (i_err s I He Hw Ec) as Hle.
           pose proof (i_none s I) as Hn. rewrite Eh in Hn.
           rewrite count_all in Hle.
           ++ rewrite (i_len s I) in Hle. destruct (c_addrs c); [exfalso; apply nonempty; reflexivity | simpl in Hle; lia].
           ++ intros t Ht. apply In_nth_error in Ht. destruct Ht as [j Hj]. eapply Hn; eauto.
           ++ exact Hall.
    + (* HAbort *)
      assert (Hnd : r_host s <> HDone) by (rewrite Eh; discriminate).
      destruct (r_crashed s) eqn:Ec.
      * inversion H; subst. apply done_inv; auto; [apply nodup_close_winner; auto | right; split; [discriminate | reflexivity] | discriminate].
      * destruct swallow.
        -- destruct (r_scope s) eqn:Es; [|discriminate].
           destruct (r_winner s) as [w|] eqn:Hw.
           ++ inversion H; subst. apply done_inv; auto; [apply (i_nodup s I) | left; exists w; auto | discriminate].
           ++ exfalso. apply (i_scope s I Es). exact Hw.
        -- destruct (r_caller s); [|discriminate]. inversion H; subst.
           apply done_inv; auto; [apply nodup_close_winner; auto | right; split; [discriminate | reflexivity] | discriminate].
  - (* LChildStart *)
    destruct (nth_error (r_att s) i) as [[|[]| |]|] eqn:Et; try discriminate.
    destruct (nth_error (c_addrs c) i) as [a|] eqn:Ha; [|discriminate].
    assert (Hnin : ~ In (a_id a) (r_open s)) by (eapply (not_open_self s i (TNew false) a); eauto).
    destruct (cc_single (c_locals c) a (r_open s)) as [(n & E & Hn) | [E | [E | E]]]; rewrite E in H; injection H as <-.
    + eapply (finish_inv s i (TNew false) a (OutErrs n) (r_open s)); eauto.
      * apply (i_nodup s I).
      * intros; tauto.
      * split; [intro K; exfalso; auto | discriminate].
      * discriminate.
      * intros n0 K. inversion K; subst. exact Hn.
      * discriminate.
    + apply start_wait_inv; auto.
    + eapply (finish_inv s i (TNew false) a (OutSock (a_id a)) (a_id a :: r_open s)); eauto.
      * constructor; [exact Hnin | apply (i_nodup s I)].
      * intros x Hx. simpl. split; [intros [K | K]; [congruence | exact K] | intro K; right; exact K].
      * split; [reflexivity | intros _; left; reflexivity].
      * intros id K. inversion K. reflexivity.
      * discriminate.
      * discriminate.
    + eapply (finish_inv s i (TNew false) a OutCrash (r_open s)); eauto.
      * apply (i_nodup s I).
      * intros; tauto.
      * split; [intro K; exfalso; auto | discriminate].
      * discriminate.
      * discriminate.
      * discriminate.
  - (* LChildSkip *)
    destruct (nth_error (r_att s) i) as [[|[]| |]|] eqn:Et; try discriminate.
    injection H as <-.
    destruct (nth_error (c_addrs c) i) as [a|] eqn:Ha.
    2:{ exfalso. apply nth_error_None in Ha. rewrite <- (i_len s I) in Ha.
        assert (i < length (r_att s)) by (apply nth_error_Some; rewrite Et; discriminate). lia. }
    assert (Hnin : ~ In (a_id a) (r_open s)) by (eapply (not_open_self s i (TNew true) a); eauto).
    change (set_att s (upd (r_att s) i TFin)) with (child_finish s i OutCancel (r_open s) (r_created s)).
    eapply (finish_inv s i (TNew true) a OutCancel (r_open s)); eauto.
    + apply (i_nodup s I).
    + intros; tauto.
    + split; [intro K; exfalso; auto | discriminate].
    + discriminate.
    + discriminate.
    + intros _ He. destruct (i_cflag s I He _ _ Et) as [K _]. apply K; reflexivity.
  - (* LConnOk *)
    destruct (nth_error (r_att s) i) as [[| |[]|]|] eqn:Et; try discriminate.
    unfold child_resume in H. destruct (nth_error (c_addrs c) i) as [a|] eqn:Ha; [|discriminate].
    cbn [cc_resume cc_advance] in H. injection H as <-.
    assert (Hin : In (a_id a) (r_open s)).
    { apply (i_open s I). left. exists i, a, false. auto. }
    eapply (finish_inv s i (TConn false) a (OutSock (a_id a)) (r_open s)); eauto.
    + apply (i_nodup s I).
    + intros; tauto.
    + split; [reflexivity | intros _; exact Hin].
    + intros id K. inversion K. reflexivity.
    + discriminate.
    + discriminate.
  - (* LConnFail *)
    destruct (nth_error (r_att s) i) as [[| |[]|]|] eqn:Et; try discriminate.
    unfold child_resume in H. destruct (nth_error (c_addrs c) i) as [a|] eqn:Ha; [|discriminate].
    cbn [cc_resume cc_advance] in H. injection H as <-.
    eapply (finish_inv s i (TConn false) a (OutErrs 1) (remove_id (a_id a) (r_open s))); eauto.
    + apply nodup_remove_id. apply (i_nodup s I).
    + intros x Hx. rewrite in_remove_id. tauto.
    + rewrite in_remove_id. split; [intros [_ K]; exfalso; apply K; reflexivity | discriminate].
    + discriminate.
    + intros n K. inversion K. lia.
    + discriminate.
  - (* LConnCrash *)
    destruct (nth_error (r_att s) i) as [[| |[]|]|] eqn:Et; try discriminate.
    unfold child_resume in H. destruct (nth_error (c_addrs c) i) as [a|] eqn:Ha; [|discriminate].
    cbn [cc_resume cc_advance] in H. injection H as <-.
    eapply (finish_inv s i (TConn false) a OutCrash (remove_id (a_id a) (r_open s))); eauto.
    + apply nodup_remove_id. apply (i_nodup s I).
    + intros x Hx. rewrite in_remove_id. tauto.
    + rewrite in_remove_id. split; [intros [_ K]; exfalso; apply K; reflexivity | discriminate].
    + discriminate.
    + discriminate.
    + discriminate.
  - (* LConnCancel *)
    destruct (nth_error (r_att s) i) as [[| |[]|]|] eqn:Et; try discriminate.
    unfold child_resume in H. destruct (nth_error (c_addrs c) i) as [a|] eqn:Ha; [|discriminate].
    cbn [cc_resume cc_advance] in H. injection H as <-.
    eapply (finish_inv s i (TConn true) a OutCancel (remove_id (a_id a) (r_open s))); eauto.
    + apply nodup_remove_id. apply (i_nodup s I).
    + intros x Hx. rewrite in_remove_id. tauto.
    + rewrite in_remove_id. split; [intros [_ K]; exfalso; apply K; reflexivity | discriminate].
    + discriminate.
    + discriminate.
    + intros _ He. destruct (i_cflag s I He _ _ Et) as [_ K]. apply K; reflexivity.
  - (* LCancelCaller *)
    destruct (r_host s) eqn:Eh; try discriminate; inversion H; subst;
      (destruct I; constructor; simpl; auto; rewrite Eh in *; auto).
Qed.

Lemma exec_inv : forall tr s s', Inv s -> exec c s tr = Some s' -> Inv s'.
Proof.
  induction tr as [|l tr IH]; intros s s' I H; simpl in H.
  - inversion H; subst; exact I.
  - destruct (step c s l) as [s1|] eqn:E; [|discriminate]. eapply IH; [eapply step_inv; eauto | exact H].
Qed.

Lemma open_singleton (l : list nat) x : NoDup l -> (forall y, In y l <-> y = x) -> l = [x].
Proof.
  intros Hnd H. destruct l as [|a l].
  - exfalso. apply (H x). reflexivity.
  - assert (a = x) by (apply H; left; reflexivity). subst a.
    destruct l as [|b l]; auto. exfalso.
    assert (b = x) by (apply H; right; left; reflexivity). subst b.
    inversion Hnd; subst. apply H2. left; reflexivity.
Qed.

Lemma open_empty (l : list nat) : (forall y, ~ In y l) -> l = [].
Proof. destruct l; auto. intro H. exfalso. apply (H n). left; reflexivity. Qed.

Lemma result_exact_inv s : Inv s ->
  (forall id, r_result s = Some (ResSock id) -> r_open s = [id] /\ r_winner s = Some id) /\
  (forall o, r_result s = Some o -> (forall id, o <> ResSock id) -> r_open s = []) /\
  (forall n, r_result s = Some (ResErrs n) -> 1 <= n).
Proof.
  intro I.
  assert (Hdone : r_result s <> None -> forall x, ~ connecting (r_att s) x).
  { intros Hr x. apply not_conn_when_done. apply (i_alldone s I). apply (i_done s I). exact Hr. }
  split; [| split].
  - intros id Hr. pose proof (i_res s I _ Hr) as Hw. split; [|exact Hw].
    apply open_singleton; [apply (i_nodup s I)|].
    intro y. rewrite (i_open s I y). unfold kept. rewrite Hr, Hw.
    split; [intros [K | [K _]]; [exfalso; eapply Hdone; eauto; congruence | inversion K; reflexivity] | intros ->; right; auto].
  - intros o Hr Hns. apply open_empty. intros y Hy. apply (i_open s I) in Hy. unfold kept in Hy. rewrite Hr in Hy.
    destruct Hy as [K | [_ K]]; [eapply Hdone; eauto; congruence | destruct o; auto; eapply Hns; eauto].
  - apply (i_errres s I).
Qed.


Lemma result_is_final : forall tr s l, exec c (init c) tr = Some s -> r_result s <> None -> step c s l = None.
Proof.
  intros tr s l H Hr. pose proof (exec_inv tr (init c) s init_inv H) as I.
  assert (Hh : r_host s = HDone) by (apply (i_done s I); exact Hr).
  pose proof (i_alldone s I Hh) as Hall. unfold all_children_done in Hall. rewrite forallb_forall in Hall.
  assert (Hc : forall i t, nth_error (r_att s) i = Some t -> child_done t = true)
    by (intros i t Hn; apply Hall; eapply nth_error_In; eauto).
  destruct l; simpl; rewrite ?Hh; auto;
    try (destruct (all_children_done s); reflexivity);
    try (destruct (pending_cancel s); reflexivity);
    (destruct (nth_error (r_att s) i) as [t|] eqn:E; [| reflexivity]; specialize (Hc _ _ E);
     destruct t as [|[]|[]|]; simpl in Hc; try discriminate; reflexivity).
Qed.

End Race.

(* ------------------------------------------------------------------ _create_connection_impl over any address list *)
(* every socket it created is closed again, except the one it returns / the one of the pending connect *)
Lemma cc_advance_open locals : forall l errs open,
  match cc_advance locals l errs open with
  | (CcWait cur _ _, open') => open' = a_id cur :: open
  | (CcDone (OutSock id), open') => open' = id :: open
  | (CcDone _, open') => open' = open
  end.
Proof.
  induction l as [|a l IH]; intros errs open; simpl; auto.
  destruct (a_create a); simpl; [|apply IH].
  destruct (bind_all locals a); try apply IH.
  destruct (a_conn a); auto. apply IH.
Qed.

Lemma remove_id_head id open : ~ In id open -> remove_id id (id :: open) = open.
Proof.
  intro H. unfold remove_id. simpl. rewrite Nat.eqb_refl. simpl.
  induction open as [|x open IH]; simpl; auto.
  destruct (Nat.eqb id x) eqn:E.
  - apply Nat.eqb_eq in E. subst. exfalso. apply H. left; reflexivity.
  - simpl. f_equal. apply IH. intro K. apply H. right; exact K.
Qed.

(* one resumption of a pending connect: its socket stays open only if the connect succeeded *)
Lemma cc_resume_open locals cur rest errs r open0 : ~ In (a_id cur) open0 ->
  match cc_resume locals cur rest errs r (a_id cur :: open0) with
  | (CcWait cur' _ _, open') => open' = a_id cur' :: open0
  | (CcDone (OutSock id), open') => open' = id :: open0
  | (CcDone _, open') => open' = open0
  end.
Proof.
  intro Hnin. pose proof (remove_id_head _ _ Hnin) as Hc.
  destruct r; unfold cc_resume; rewrite ?Hc; auto.
  apply cc_advance_open.
Qed.

(* a second success while a winner exists closes its own socket and leaves the winner alone *)
Lemma second_success_closes (c : rcfg) s i s' w a :
  r_winner s = Some w -> nth_error (c_addrs c) i = Some a ->
  step c s (LConnOk i) = Some s' -> ~ In (a_id a) (r_open s') /\ r_winner s' = Some w /\ nth_error (r_att s') i = Some TFin.
Proof.
  intros Hw Ha H. simpl in H. destruct (nth_error (r_att s) i) as [[| |[]|]|] eqn:E; try discriminate.
  unfold child_resume in H. rewrite Ha in H. simpl in H. unfold child_finish in H. rewrite Hw in H.
  injection H as Hs. rewrite <- Hs. simpl. split; [| split; [reflexivity|]].
  - rewrite in_remove_id. intros [_ K]. apply K; reflexivity.
  - apply upd_same. apply nth_error_Some. rewrite E. discriminate.
Qed.
