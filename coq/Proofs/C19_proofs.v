(* C19: invariants of the staggered race over all label sequences. *)
From Coq Require Import ZArith List Bool Arith Lia.
Import ListNotations.
From EN Require Import Gen.ParamsC19 Conc.ConnRace.

(* ------------------------------------------------------------------ list helpers *)
Lemma in_remove_id x y l : In x (remove_id y l) <-> In x l /\ x <> y.
Proof.
  unfold remove_id. rewrite filter_In. split; intros [H1 H2]; split; auto.
  - intro E. subst. rewrite Nat.eqb_refl in H2. discriminate.
  - destruct (Nat.eqb y x) eqn:E; auto. apply Nat.eqb_eq in E. congruence.
Qed.
Lemma nodup_remove_id y l : NoDup l -> NoDup (remove_id y l).
Proof. intro H. unfold remove_id. apply NoDup_filter. exact H. Qed.

Lemma upd_length {A} (l : list A) i x : length (upd l i x) = length l.
Proof. revert i; induction l; intros [|i]; simpl; auto. Qed.
Lemma upd_same {A} (l : list A) i x : i < length l -> nth_error (upd l i x) i = Some x.
Proof. revert i; induction l; intros [|i] H; simpl in *; try lia; auto. apply IHl; lia. Qed.
Lemma upd_other {A} (l : list A) i j x : i <> j -> nth_error (upd l i x) j = nth_error l j.
Proof. revert i j; induction l; intros [|i] [|j] H; simpl; auto; try congruence. Qed.

(* ------------------------------------------------------------------ _create_connection_impl on one address *)
Lemma cc_single locals a open :
  (exists n, cc_advance locals [a] 0 open = (CcDone (OutErrs n), open) /\ 1 <= n) \/
  cc_advance locals [a] 0 open = (CcWait a [] 0, a_id a :: open) \/
  cc_advance locals [a] 0 open = (CcDone (OutSock (a_id a)), a_id a :: open) \/
  cc_advance locals [a] 0 open = (CcDone OutCrash, open).
Proof.
  simpl. destruct (a_create a); simpl.
  - assert (Hb : forall id fam ls e, match bind_loop id fam ls e with BindErrs n => 1 <= n | _ => True end).
    { intros id fam ls. induction ls as [|[lf fails] ls IH]; intros e; simpl.
      - destruct e; simpl; [exact I | lia].
      - destruct (Z.eqb lf fam); [destruct (existsb (Nat.eqb id) fails)|]; try apply IH; exact I. }
    destruct (bind_all locals a) eqn:E.
    + destruct (a_conn a); auto. left; exists 1; split; auto.
    + left. exists n. split; auto. unfold bind_all in E. destruct locals; [|discriminate].
      specialize (Hb (a_id a) (a_fam a) l 0). rewrite E in Hb. exact Hb.
    + left; exists 1; split; auto.
  - left; exists 1; split; auto.
Qed.

(* ------------------------------------------------------------------ the invariant *)
Section Race.
Variable c : rcfg.
Hypothesis ids_distinct : NoDup (map a_id (c_addrs c)).

Lemma id_inj i j a b : nth_error (c_addrs c) i = Some a -> nth_error (c_addrs c) j = Some b -> a_id a = a_id b -> i = j.
Proof.
  intros Hi Hj E.
  assert (Hi' : nth_error (map a_id (c_addrs c)) i = Some (a_id a)) by (rewrite nth_error_map, Hi; reflexivity).
  assert (Hj' : nth_error (map a_id (c_addrs c)) j = Some (a_id a)) by (rewrite nth_error_map, Hj, E; reflexivity).
  rewrite NoDup_nth_error in ids_distinct. apply ids_distinct; [| congruence].
  apply nth_error_Some. rewrite Hi'. discriminate.
Qed.

Definition connecting (att : list tstate) (id : nat) : Prop :=
  exists i a b, nth_error att i = Some (TConn b) /\ nth_error (c_addrs c) i = Some a /\ a_id a = id.

Definition kept (s : rstate) : Prop :=
  match r_result s with None | Some (ResSock _) => True | _ => False end.

Definition is_conn (t : tstate) : bool := match t with TConn _ => true | _ => false end.

Definition is_fin (t : tstate) : bool := match t with TFin => true | _ => false end.
Definition count_fin (l : list tstate) : nat := length (filter is_fin l).
Definition early (h : hstate) : Prop := match h with HInit | HWait _ | HJoin => True | _ => False end.

Record Inv (s : rstate) : Prop := {
  i_len : length (r_att s) = length (c_addrs c);
  i_nodup : NoDup (r_open s);
  i_open : forall id, In id (r_open s) <-> connecting (r_att s) id \/ (r_winner s = Some id /\ kept s);
  i_winner : forall id, r_winner s = Some id ->
             exists i a, nth_error (r_att s) i = Some TFin /\ nth_error (c_addrs c) i = Some a /\ a_id a = id;
  i_none : match r_host s with
           | HInit => forall j t, nth_error (r_att s) j = Some t -> t = TNone
           | HWait k => k < length (c_addrs c) /\
                        (forall j t, k < j -> nth_error (r_att s) j = Some t -> t = TNone) /\
                        (forall j t, j <= k -> nth_error (r_att s) j = Some t -> t <> TNone)
           | HJoin => forall j t, nth_error (r_att s) j = Some t -> t <> TNone
           | _ => True
           end;
  i_done : r_host s = HDone <-> r_result s <> None;
  i_alldone : r_host s = HDone -> all_children_done s = true;
  i_res : forall id, r_result s = Some (ResSock id) -> r_winner s = Some id;
  i_scope : r_scope s = true -> r_winner s <> None;
  i_cflag : early (r_host s) -> forall j t, nth_error (r_att s) j = Some t -> t <> TNew true /\ t <> TConn true;
  i_err : early (r_host s) -> r_winner s = None -> r_crashed s = false -> count_fin (r_att s) <= r_nerr s;
  i_errres : forall n, r_result s = Some (ResErrs n) -> 1 <= n
}.

Lemma conn_upd_non att i t a id : i < length att -> is_conn t = false -> nth_error (c_addrs c) i = Some a ->
  (connecting (upd att i t) id <-> connecting att id /\ id <> a_id a).
Proof.
  intros Hl Ht Ha. split.
  - intros (j & b & f & H1 & H2 & H3). destruct (Nat.eq_dec i j) as [->|N].
    + rewrite upd_same in H1 by exact Hl. inversion H1; subst. discriminate.
    + rewrite upd_other in H1 by exact N. split; [exists j, b, f; auto|].
      intro E. apply N. eapply id_inj; eauto. congruence.
  - intros [(j & b & f & H1 & H2 & H3) Hne]. exists j, b, f. split; [|auto].
    rewrite upd_other; auto. intro E; subst j. rewrite Ha in H2. inversion H2; subst. congruence.
Qed.

Lemma conn_upd_conn att i f a id : i < length att -> nth_error (c_addrs c) i = Some a ->
  (connecting (upd att i (TConn f)) id <-> (connecting att id /\ id <> a_id a) \/ id = a_id a).
Proof.
  intros Hl Ha. split.
  - intros (j & b & g & H1 & H2 & H3). destruct (Nat.eq_dec i j) as [->|N].
    + right. rewrite Ha in H2. inversion H2; subst. reflexivity.
    + left. rewrite upd_other in H1 by exact N. split; [exists j, b, g; auto|].
      intro E. apply N. eapply id_inj; eauto. congruence.
  - intros [[(j & b & g & H1 & H2 & H3) Hne] | ->].
    + exists j, b, g. split; [|auto]. rewrite upd_other; auto.
      intro E; subst j. rewrite Ha in H2. inversion H2; subst. congruence.
    + exists i, a, f. split; [apply upd_same; exact Hl | auto].
Qed.

Lemma conn_cancel att id : connecting (map cancel_child att) id <-> connecting att id.
Proof.
  split; intros (j & b & f & H1 & H2 & H3).
  - rewrite nth_error_map in H1. destruct (nth_error att j) as [t|] eqn:E; [|discriminate].
    destruct t; simpl in H1; try discriminate. exists j, b, c0. auto.
  - exists j, b, true. split; [|auto]. rewrite nth_error_map, H1. reflexivity.
Qed.

Lemma not_conn_when_done s id : all_children_done s = true -> ~ connecting (r_att s) id.
Proof.
  intros H (j & b & f & H1 & _). unfold all_children_done in H. rewrite forallb_forall in H.
  apply nth_error_In in H1. apply H in H1. discriminate.
Qed.

Lemma count_upd_le l : forall i t, count_fin (upd l i t) <= count_fin l + (if is_fin t then 1 else 0).
Proof.
  unfold count_fin. induction l as [|x l IH]; intros [|i] t; simpl; try lia.
  - destruct (is_fin t), (is_fin x); simpl; lia.
  - specialize (IH i t). destruct (is_fin x); simpl; lia.
Qed.

Lemma count_all l : (forall t, In t l -> t <> TNone) -> forallb child_done l = true -> count_fin l = length l.
Proof.
  unfold count_fin. induction l as [|x l IH]; intros H1 H2; simpl; auto.
  simpl in H2. apply andb_true_iff in H2. destruct H2 as [Hx Hl].
  assert (x = TFin). { destruct x; simpl in Hx; try discriminate; auto. exfalso. apply (H1 TNone); [left|]; reflexivity. }
  subst x. simpl. f_equal. apply IH; auto. intros t Ht. apply H1. right; exact Ht.
Qed.

Hypothesis nonempty : c_addrs c <> [].

Lemma init_inv : Inv (init c).
Proof.
  constructor; simpl; try discriminate.
  - apply map_length.
  - constructor.
  - intro id. split; [intros []|]. intros [(j & b & f & H1 & _) | [H _]]; [|discriminate].
    rewrite nth_error_map in H1. destruct (nth_error (c_addrs c) j); discriminate.
  - intros j t H. rewrite nth_error_map in H. destruct (nth_error (c_addrs c) j); inversion H; reflexivity.
  - split; [discriminate | intro H; exfalso; apply H; reflexivity].
  - intros _ j t H. rewrite nth_error_map in H. destruct (nth_error (c_addrs c) j); inversion H; split; discriminate.
  - intros _ _ _. unfold count_fin. clear. induction (c_addrs c); simpl; auto.
Qed.

(* ---- small facts derived from the invariant *)
Lemma active_lt s i t : Inv s -> nth_error (r_att s) i = Some t -> i < length (r_att s).
Proof. intros _ H. apply nth_error_Some. rewrite H. discriminate. Qed.

Lemma active_result_none s i t : Inv s -> nth_error (r_att s) i = Some t -> child_done t = false -> r_result s = None.
Proof.
  intros I H Hd. destruct (r_result s) eqn:E; auto. exfalso.
  assert (Hh : r_host s = HDone) by (apply (i_done s I); rewrite E; discriminate).
  pose proof (i_alldone s I Hh) as Ha. unfold all_children_done in Ha. rewrite forallb_forall in Ha.
  apply nth_error_In in H. apply Ha in H. congruence.
Qed.

Lemma winner_not_active s i t a : Inv s -> nth_error (r_att s) i = Some t -> is_fin t = false ->
  nth_error (c_addrs c) i = Some a -> r_winner s <> Some (a_id a).
Proof.
  intros I H Hf Ha Hw. destruct (i_winner s I _ Hw) as (j & b & Hj & Hb & E).
  assert (j = i) by (eapply id_inj; eauto). subst j. rewrite H in Hj. inversion Hj; subst. discriminate.
Qed.

Lemma not_conn_self s i t a : Inv s -> nth_error (r_att s) i = Some t -> is_conn t = false ->
  nth_error (c_addrs c) i = Some a -> ~ connecting (r_att s) (a_id a).
Proof.
  intros I H Hc Ha (j & b & f & Hj & Hb & E).
  assert (j = i) by (eapply id_inj; eauto). subst j. rewrite H in Hj. inversion Hj; subst. discriminate.
Qed.

Lemma not_open_self s i t a : Inv s -> nth_error (r_att s) i = Some t -> is_conn t = false -> is_fin t = false ->
  nth_error (c_addrs c) i = Some a -> ~ In (a_id a) (r_open s).
Proof.
  intros I H Hc Hf Ha Hin. apply (i_open s I) in Hin. destruct Hin as [Hin | [Hw _]].
  - eapply not_conn_self; eauto.
  - eapply winner_not_active; eauto.
Qed.

(* ---- a child reaches TFin with outcome o: the common part of LChildStart (immediate outcomes), LChildSkip and
        the four resume labels *)
Lemma finish_inv s i t a o open' created :
  Inv s -> nth_error (r_att s) i = Some t -> child_done t = false -> nth_error (c_addrs c) i = Some a ->
  NoDup open' ->
  (forall x, x <> a_id a -> (In x open' <-> In x (r_open s))) ->
  (In (a_id a) open' <-> o = OutSock (a_id a)) ->
  (forall id, o = OutSock id -> id = a_id a) ->
  (forall n, o = OutErrs n -> 1 <= n) ->
  (o = OutCancel -> ~ early (r_host s)) ->
  Inv (child_finish s i o open' created).
Proof.
  intros I Ht Hact Ha Hnd Hother Hself Hsock Herrs Hcancel.
  assert (Hlt : i < length (r_att s)) by (eapply active_lt; eauto).
  assert (Hfin : is_fin t = false) by (destruct t; simpl in *; auto; discriminate).
  assert (Hres : r_result s = None) by (eapply active_result_none; eauto).
  assert (Hkept : kept s) by (unfold kept; rewrite Hres; exact Logic.I).
  assert (Hwin : r_winner s <> Some (a_id a)) by (eapply winner_not_active; eauto).
  assert (Hconn' : forall x, connecting (upd (r_att s) i TFin) x <-> connecting (r_att s) x /\ x <> a_id a)
    by (intro x; apply conn_upd_non; auto).
  assert (Hatt_other : forall j, j <> i -> nth_error (upd (r_att s) i TFin) j = nth_error (r_att s) j)
    by (intros j Hj; apply upd_other; auto).
  assert (Hnone :
    match r_host s with
    | HInit => forall j t0, nth_error (upd (r_att s) i TFin) j = Some t0 -> t0 = TNone
    | HWait k => k < length (c_addrs c) /\
                 (forall j t0, k < j -> nth_error (upd (r_att s) i TFin) j = Some t0 -> t0 = TNone) /\
                 (forall j t0, j <= k -> nth_error (upd (r_att s) i TFin) j = Some t0 -> t0 <> TNone)
    | HJoin => forall j t0, nth_error (upd (r_att s) i TFin) j = Some t0 -> t0 <> TNone
    | _ => True
    end).
  { pose proof (i_none s I) as Hn. destruct (r_host s); auto.
    - exfalso. specialize (Hn _ _ Ht). subst t. discriminate.
    - destruct Hn as [Hk [Hn1 Hn2]]. split; [exact Hk | split].
      + intros j t0 Hj Hnth. destruct (Nat.eq_dec j i) as [->|Nj].
        * exfalso. specialize (Hn1 _ _ Hj Ht). subst t. discriminate.
        * rewrite Hatt_other in Hnth by exact Nj. eapply Hn1; eauto.
      + intros j t0 Hj Hnth. destruct (Nat.eq_dec j i) as [->|Nj].
        * rewrite upd_same in Hnth by exact Hlt. inversion Hnth. discriminate.
        * rewrite Hatt_other in Hnth by exact Nj. eapply Hn2; eauto.
    - intros j t0 Hnth. destruct (Nat.eq_dec j i) as [->|Nj].
      + rewrite upd_same in Hnth by exact Hlt. inversion Hnth. discriminate.
      + rewrite Hatt_other in Hnth by exact Nj. eapply Hn; eauto. }
  assert (Hcflag : early (r_host s) -> forall j t0, nth_error (upd (r_att s) i TFin) j = Some t0 ->
                   t0 <> TNew true /\ t0 <> TConn true).
  { intros He j t0 Hnth. destruct (Nat.eq_dec j i) as [->|Nj].
    - rewrite upd_same in Hnth by exact Hlt. inversion Hnth. split; discriminate.
    - rewrite Hatt_other in Hnth by exact Nj. eapply (i_cflag s I); eauto. }
  assert (Hwinner_keep : forall id, r_winner s = Some id ->
            exists j b, nth_error (upd (r_att s) i TFin) j = Some TFin /\ nth_error (c_addrs c) j = Some b /\ a_id b = id).
  { intros id Hw. destruct (i_winner s I _ Hw) as (j & b & Hj & Hb & E). exists j, b.
    split; [|auto]. destruct (Nat.eq_dec j i) as [->|Nj]; [apply upd_same; exact Hlt | rewrite Hatt_other; auto]. }
  assert (Halldone : r_host s = HDone -> forallb child_done (upd (r_att s) i TFin) = true).
  { intro Hh. exfalso. assert (r_result s <> None) by (apply (i_done s I); exact Hh). congruence. }
  assert (Hcount : count_fin (upd (r_att s) i TFin) <= count_fin (r_att s) + 1)
    by (pose proof (count_upd_le (r_att s) i TFin); simpl in *; lia).
  unfold child_finish.
  destruct o as [id | n | | ].
  - (* OutSock *)
    assert (id = a_id a) by (apply Hsock; reflexivity). subst id.
    assert (Hin : In (a_id a) open') by (apply Hself; reflexivity).
    destruct (r_winner s) as [w|] eqn:Hw.
    + constructor; simpl.
      * rewrite upd_length. apply (i_len s I).
      * apply nodup_remove_id; exact Hnd.
      * intro x. rewrite in_remove_id, Hconn'. unfold kept; simpl. fold (kept s).
        destruct (Nat.eq_dec x (a_id a)) as [->|Nx].
        -- split; [intros [_ K]; exfalso; apply K; reflexivity|].
           intros [[_ K] | [K _]]; [exfalso; apply K; reflexivity | exfalso; apply Hwin; rewrite <- K; reflexivity].
        -- rewrite (Hother x Nx), (i_open s I x). rewrite Hw. tauto.
      * exact Hwinner_keep.
      * exact Hnone.
      * apply (i_done s I).
      * exact Halldone.
      * intros id K. rewrite Hres in K. discriminate.
      * intros Hs. discriminate.
      * exact Hcflag.
      * intros _ K. discriminate.
      * apply (i_errres s I).
    + constructor; simpl.
      * rewrite upd_length. apply (i_len s I).
      * exact Hnd.
      * intro x. rewrite Hconn'. unfold kept; simpl. fold (kept s).
        destruct (Nat.eq_dec x (a_id a)) as [->|Nx].
        -- split; [intros _; right; split; [reflexivity | exact Hkept] | intros _; exact Hin].
        -- rewrite (Hother x Nx), (i_open s I x). rewrite Hw.
           split; [intros [K | [K _]]; [left; split; auto | discriminate]
                  | intros [[K _] | [K _]]; [left; exact K | exfalso; apply Nx; inversion K; reflexivity]].
      * intros id K. inversion K; subst id. exists i, a. split; [apply upd_same; exact Hlt | auto].
      * exact Hnone.
      * apply (i_done s I).
      * exact Halldone.
      * intros id K. rewrite Hres in K. discriminate.
      * discriminate.
      * exact Hcflag.
      * intros _ K. discriminate.
      * apply (i_errres s I).
  - (* OutErrs *)
    assert (Hnin : ~ In (a_id a) open') by (rewrite Hself; discriminate).
    constructor; simpl.
    + rewrite upd_length. apply (i_len s I).
    + exact Hnd.
    + intro x. rewrite Hconn'. unfold kept; simpl. fold (kept s).
      destruct (Nat.eq_dec x (a_id a)) as [->|Nx].
      * split; [intro K; exfalso; auto | intros [[_ K] | [K _]]; exfalso; [apply K; reflexivity | exact (Hwin K)]].
      * rewrite (Hother x Nx), (i_open s I x). tauto.
    + exact Hwinner_keep.
    + exact Hnone.
    + apply (i_done s I).
    + exact Halldone.
    + apply (i_res s I).
    + apply (i_scope s I).
    + exact Hcflag.
    + intros He Hw Hc. pose proof (i_err s I He Hw Hc). specialize (Herrs n eq_refl). lia.
    + apply (i_errres s I).
  - (* OutCancel *)
    assert (Hnin : ~ In (a_id a) open') by (rewrite Hself; discriminate).
    constructor; simpl.
    + rewrite upd_length. apply (i_len s I).
    + exact Hnd.
    + intro x. rewrite Hconn'. unfold kept; simpl. fold (kept s).
      destruct (Nat.eq_dec x (a_id a)) as [->|Nx].
      * split; [intro K; exfalso; auto | intros [[_ K] | [K _]]; exfalso; [apply K; reflexivity | exact (Hwin K)]].
      * rewrite (Hother x Nx), (i_open s I x). tauto.
    + exact Hwinner_keep.
    + exact Hnone.
    + apply (i_done s I).
    + exact Halldone.
    + apply (i_res s I).
    + apply (i_scope s I).
    + exact Hcflag.
    + intros He. exfalso. apply Hcancel; auto.
    + apply (i_errres s I).
  - (* OutCrash *)
    assert (Hnin : ~ In (a_id a) open') by (rewrite Hself; discriminate).
    constructor; simpl.
    + rewrite upd_length. apply (i_len s I).
    + exact Hnd.
    + intro x. rewrite Hconn'. unfold kept; simpl. fold (kept s).
      destruct (Nat.eq_dec x (a_id a)) as [->|Nx].
      * split; [intro K; exfalso; auto | intros [[_ K] | [K _]]; exfalso; [apply K; reflexivity | exact (Hwin K)]].
      * rewrite (Hother x Nx), (i_open s I x). tauto.
    + exact Hwinner_keep.
    + exact Hnone.
    + apply (i_done s I).
    + exact Halldone.
    + apply (i_res s I).
    + apply (i_scope s I).
    + exact Hcflag.
    + intros _ _ K. discriminate.
    + apply (i_errres s I).
Qed.

End Race.

(* ------------------------------------------------------------------ _create_connection_impl over any address list *)
(* every socket it created is closed again, except the one it returns / the one of the pending connect *)
Lemma cc_advance_open locals : forall l errs open,
  match cc_advance locals l errs open with
  | (CcWait cur _ _, open') => open' = a_id cur :: open
  | (CcDone (OutSock id), open') => open' = id :: open
  | (CcDone _, open') => open' = open
  end.
Proof.
  induction l as [|a l IH]; intros errs open; simpl; auto.
  destruct (a_create a); simpl; [|apply IH].
  destruct (bind_all locals a); try apply IH.
  destruct (a_conn a); auto. apply IH.
Qed.

Lemma remove_id_head id open : ~ In id open -> remove_id id (id :: open) = open.
Proof.
  intro H. unfold remove_id. simpl. rewrite Nat.eqb_refl. simpl.
  induction open as [|x open IH]; simpl; auto.
  destruct (Nat.eqb id x) eqn:E.
  - apply Nat.eqb_eq in E. subst. exfalso. apply H. left; reflexivity.
  - simpl. f_equal. apply IH. intro K. apply H. right; exact K.
Qed.

(* one resumption of a pending connect: its socket stays open only if the connect succeeded *)
Lemma cc_resume_open locals cur rest errs r open0 : ~ In (a_id cur) open0 ->
  match cc_resume locals cur rest errs r (a_id cur :: open0) with
  | (CcWait cur' _ _, open') => open' = a_id cur' :: open0
  | (CcDone (OutSock id), open') => open' = id :: open0
  | (CcDone _, open') => open' = open0
  end.
Proof.
  intro Hnin. pose proof (remove_id_head _ _ Hnin) as Hc.
  destruct r; unfold cc_resume; rewrite ?Hc; auto.
  apply cc_advance_open.
Qed.

(* a second success while a winner exists closes its own socket and leaves the winner alone *)
Lemma second_success_closes (c : rcfg) s i s' w a :
  r_winner s = Some w -> nth_error (c_addrs c) i = Some a ->
  step c s (LConnOk i) = Some s' -> ~ In (a_id a) (r_open s') /\ r_winner s' = Some w /\ nth_error (r_att s') i = Some TFin.
Proof.
  intros Hw Ha H. simpl in H. destruct (nth_error (r_att s) i) as [[| |[]|]|] eqn:E; try discriminate.
  unfold child_resume in H. rewrite Ha in H. simpl in H. unfold child_finish in H. rewrite Hw in H.
  injection H as Hs. rewrite <- Hs. simpl. split; [| split; [reflexivity|]].
  - rewrite in_remove_id. intros [_ K]. apply K; reflexivity.
  - apply upd_same. apply nth_error_Some. rewrite E. discriminate.
Qed.
