(* TLS send path: what reached the underlying transport, followed by what is pending in the write BIO, is the sequence
   of the synchronous writes to the SSL object, for every label sequence. *)
From Coq Require Import List Arith Bool ZArith.
From EN Require Import Lib.Bytes Conc.FairLock Conc.TlsSend.
Import ListNotations.

Definition T (s : tls) : Prop :=
  concat (rev (x_calls s)) ++ concat (x_wbio s) = concat (rev (x_writes s)).

Lemma T_ext : forall s s', x_wbio s' = x_wbio s -> x_calls s' = x_calls s -> x_writes s' = x_writes s -> T s -> T s'.
Proof. intros s s' E1 E2 E3 H. unfold T in *. rewrite E1, E2, E3. exact H. Qed.

Lemma T_set : forall t x s, T s -> T (x_set t x s).
Proof. intros. eapply T_ext; eauto. Qed.
Lemma T_lock : forall l s, T s -> T (x_with_lock l s).
Proof. intros. eapply T_ext; eauto. Qed.
Lemma T_unlock : forall t s, T s -> T (x_unlock t s).
Proof. intros t s H. unfold x_unlock. destruct (fl_release t (x_lock s)); eapply T_ext; eauto. Qed.

Lemma T_write : forall d s, T s -> T (ssl_write d s).
Proof.
  intros d s H. unfold T in *. simpl. rewrite !concat_app. simpl. rewrite app_nil_r, app_assoc, H. reflexivity.
Qed.

Lemma T_write_all : forall p s, T s -> T (ssl_write_all p s).
Proof. unfold ssl_write_all. induction p as [|d r IH]; simpl; intros s H; auto. apply IH, T_write; auto. Qed.

Lemma lock_write_all : forall p s, x_lock (ssl_write_all p s) = x_lock s.
Proof. unfold ssl_write_all. induction p as [|d r IH]; simpl; intros s; auto. rewrite IH. reflexivity. Qed.

Lemma T_flush : forall s, T s -> T (fst (flush s)).
Proof.
  intros s H. unfold flush. destruct (x_wbio s) as [|b r] eqn:E; simpl; auto.
  unfold T in *. simpl. rewrite E in H. rewrite concat_app. simpl in *. rewrite !app_nil_r. exact H.
Qed.

Lemma T_after_lock : forall t rest k s, T s -> (forall s', T s' -> T (k s')) -> T (after_lock t rest k s).
Proof.
  intros t rest k s H Hk. unfold after_lock. assert (F := T_flush s H). destruct (flush s) as [s1 susp]. simpl in F.
  destruct susp; [apply T_set; auto|apply Hk, T_unlock; auto].
Qed.

Lemma T_rd_after_lock : forall t s, T s -> T (rd_after_lock t s).
Proof.
  intros t s H. unfold rd_after_lock. assert (F := T_flush s H). destruct (flush s) as [s1 susp]. simpl in F.
  destruct susp; [apply T_set; auto|apply T_set, T_unlock; auto].
Qed.

Lemma T_rd_enter : forall t s, T s -> T (rd_enter t s).
Proof.
  intros t s H. unfold rd_enter. destruct (x_wbio s) as [|b0 r0]; [apply T_set; auto|].
  destruct (fl_acquire t (x_lock s)) as [lk got]. destruct got; [apply T_rd_after_lock, T_lock; auto|apply T_set, T_lock; auto].
Qed.

Lemma T_run_task : forall prog t s, T s -> T (x_run_task t prog s).
Proof.
  induction prog as [|d rest IH]; intros t s H; simpl.
  - apply T_set; auto.
  - destruct (fl_acquire t (x_lock (ssl_write_all d s))) as [l got]. destruct got.
    + apply T_after_lock; auto. apply T_lock, T_write_all; auto.
    + apply T_set, T_lock, T_write_all; auto.
Qed.

Lemma T_step : forall s l s', T s -> x_next s l = Some s' -> T s'.
Proof.
  intros s l s' H E. destruct l as [t|t|t|t|t]; simpl in E;
    destruct (nth_error (x_tasks s) t) as [x|]; try discriminate; destruct x; try discriminate.
  - destruct (mem_tid t (x_readers s)); inversion E; subst; [apply T_rd_enter, T_set; auto|apply T_run_task, T_set; auto].
  - destruct (fl_resume t (x_lock s)); [|discriminate]. inversion E; subst.
    apply T_after_lock; [apply T_lock, T_set; auto|]. intros; apply T_run_task; auto.
  - destruct (fl_resume t (x_lock s)); [|discriminate]. inversion E; subst. apply T_rd_after_lock, T_lock, T_set; auto.
  - inversion E; subst. apply T_run_task, T_unlock, T_set; auto.
  - inversion E; subst. apply T_set, T_unlock; auto.
  - inversion E; subst. apply T_set, T_unlock; auto.
  - inversion E; subst. apply T_set; auto.
  - destruct (fl_cancel t (x_lock s)); [|discriminate]. inversion E; subst. apply T_set, T_lock; auto.
  - inversion E; subst. apply T_set, T_unlock; auto.
  - destruct (fl_cancel t (x_lock s)); [|discriminate]. inversion E; subst. apply T_set, T_lock; auto.
  - inversion E; subst. apply T_set, T_unlock; auto.
  - inversion E; subst. apply T_set; auto.
Qed.

Lemma tls_wire_order_proof :
  forall progs readers ls s, x_run (tls_init progs readers) ls = Some s ->
    concat (rev (x_calls s)) ++ concat (x_wbio s) = concat (rev (x_writes s)).
Proof.
  intros progs readers ls. assert (G : forall s0 s, T s0 -> x_run s0 ls = Some s -> T s).
  { induction ls as [|l ls IH]; simpl; intros s0 s H R.
    - inversion R; subst; auto.
    - destruct (x_next s0 l) as [s1|] eqn:E; [|discriminate]. eapply IH; [|eauto]. eapply T_step; eauto. }
  intros s R. apply (G (tls_init progs readers) s); auto. reflexivity.
Qed.
