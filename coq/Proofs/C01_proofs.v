(* C01: round trip through either consumer, for any codec, over the packets that are valid for it *)
From Coq Require Import ZArith List Bool Lia Arith.
From EN Require Import Lib.Bytes Frame.Framer Frame.ReadUntil Frame.BufReadUntil Stream.Consumer Stream.SpecDecode
  Proofs.Bytes_proofs Proofs.ReadUntil_proofs Proofs.BufReadUntil_proofs.
Import ListNotations.

Section Codec.
  Context {P : Type}.
  Variable sep : bytes.
  Variable keep_end : bool.
  Variable enc : P -> bytes.
  Variable dec : decoder P.
  Hypothesis sep_ne : sep <> [].

  Let sl := length sep.
  Definition frame (p : P) : bytes := enc p ++ sep.
  Definition stream (pkts : list P) : bytes := concat (map frame pkts).

  (* a packet is transmittable with payload bound L when: deserialize inverts serialize on what the framer hands it
     (the payload, with the separator when keep_end); the separator does not occur in the frame before its end
     (neither inside the payload nor straddling it); the payload is at most L bytes *)
  Definition valid_pkt (L : nat) (p : P) : Prop :=
    dec (if keep_end then enc p ++ sep else enc p) = Some p /\
    find0 sep (enc p ++ sep) = Some (length (enc p)) /\
    length (enc p) <= L.

  Lemma stream_cons p pkts : stream (p :: pkts) = (enc p ++ sep) ++ stream pkts.
  Proof. reflexivity. Qed.

  Lemma sl_ge1 : 1 <= length sep.
  Proof. destruct sep; [congruence | simpl; lia]. Qed.

  Lemma spec_stream (L : nat) pkts :
    Forall (valid_pkt L) pkts -> spec_events sep keep_end dec (stream pkts) = (map RPkt pkts, []).
  Proof.
    induction 1 as [|p pkts (Hdec & Hfirst & _) _ IH].
    - apply spec_events_none. destruct sep; [congruence | reflexivity].
    - rewrite stream_cons.
      pose proof (find0_app_l _ _ (stream pkts) _ Hfirst) as E.
      rewrite (spec_events_step sep L keep_end dec sep_ne _ _ E).
      rewrite skipn_app_le by (rewrite app_length; lia).
      replace (skipn (length (enc p) + length sep) (enc p ++ sep)) with (@nil byte)
        by (rewrite <- app_length; symmetry; apply skipn_all).
      cbn [app]. rewrite IH. cbn [fst snd map]. f_equal. f_equal.
      unfold frame_event. destruct keep_end.
      + rewrite firstn_app_le by (rewrite app_length; lia). rewrite <- app_length, firstn_all. rewrite Hdec. reflexivity.
      + rewrite <- app_assoc. rewrite firstn_app_le by lia. rewrite firstn_all. rewrite Hdec. reflexivity.
  Qed.

  Lemma safe_stream (L : nat) pkts : Forall (valid_pkt L) pkts -> safe sep L (stream pkts).
  Proof.
    pose proof sl_ge1.
    induction 1 as [|p pkts (_ & Hfirst & Hlen) _ IH].
    - apply safe_end; [destruct sep; [congruence | reflexivity] | unfold stream; cbn [map concat length]; lia].
    - rewrite stream_cons.
      pose proof (find0_app_l _ _ (stream pkts) _ Hfirst) as E.
      eapply safe_frame; [exact E | exact Hlen |].
      rewrite skipn_app_le by (rewrite app_length; lia).
      replace (skipn (length (enc p) + length sep) (enc p ++ sep)) with (@nil byte)
        by (rewrite <- app_length; symmetry; apply skipn_all).
      exact IH.
  Qed.

  (* copying path *)
  Lemma consumer_roundtrip_l limit pkts (chunks : list bytes) fuel :
    Forall (valid_pkt limit) pkts ->
    Forall (fun ch => ch <> []) chunks -> concat chunks = stream pkts -> length (stream pkts) < fuel ->
    cdeliver (ru_framer sep limit keep_end dec) fuel (cinit _) chunks =
      (@Build_cstate P (ru_framer sep limit keep_end dec) [] None, map RPkt pkts).
  Proof.
    intros Hv Hne Hc Hf.
    destruct (cdeliver_spec sep limit keep_end dec sep_ne chunks (cinit _) [] fuel) as (c' & Hd & Hc').
    - constructor.
    - exact Hne.
    - cbn [app]. rewrite Hc. apply safe_stream; exact Hv.
    - cbn [app]. rewrite Hc. exact Hf.
    - cbn [app] in *. rewrite Hc in *. rewrite (spec_stream limit _ Hv) in *. cbn [fst snd] in *.
      rewrite Hd. f_equal. inversion Hc'; [reflexivity | congruence].
  Qed.

  (* buffer-filling path: payload + separator must leave one spare byte in the allocated buffer *)
  Lemma bconsumer_roundtrip_l limit sizehint pkts (chunks : list bytes) fuel :
    sl + 1 <= limit ->
    Forall (valid_pkt (limit - 1 - sl)) pkts ->
    concat chunks = stream pkts -> length (stream pkts) < fuel ->
    exists c', bcdeliver (bru_framer sep limit keep_end dec) sizehint fuel (bcinit _) chunks = (c', map RPkt pkts) /\
               bcons c' = None /\ balready c' = 0 /\ bexported c' = None.
  Proof.
    intros Hlim Hv Hc Hf.
    destruct (bcdeliver_spec sep limit keep_end dec sizehint sep_ne Hlim chunks (bcinit _) [] fuel) as (c' & Hd & Hc').
    - apply (brep_idle sep limit keep_end dec None 0). exact I.
    - cbn [app]. rewrite Hc. apply safe_stream. exact Hv.
    - cbn [app]. rewrite Hc. exact Hf.
    - cbn [app] in *. rewrite Hc in *. rewrite (spec_stream _ _ Hv) in *. cbn [fst snd] in *.
      exists c'. split; [exact Hd|]. inversion Hc'; [repeat split | congruence].
  Qed.
End Codec.

(* non-vacuity: a concrete codec (n -> n times 'A', CRLF separator) satisfies valid_pkt for every n <= L *)
Definition toy_enc (n : nat) : bytes := repeat 65%N n.
Definition toy_dec (b : bytes) : option nat := if forallb (N.eqb 65%N) b then Some (length b) else None.
Definition crlf : bytes := [13; 10]%N.

Lemma toy_find0 n : find0 crlf (toy_enc n ++ crlf) = Some n.
Proof. induction n as [|n IH]; [reflexivity|]. change (toy_enc (S n)) with (65%N :: toy_enc n). cbn [app find0 prefixb crlf N.eqb Pos.eqb andb]. fold crlf. rewrite IH. reflexivity. Qed.

Lemma toy_valid L n : n <= L -> valid_pkt crlf false toy_enc toy_dec L n.
Proof.
  intros H. unfold valid_pkt. repeat split.
  - unfold toy_dec, toy_enc. rewrite repeat_length.
    replace (forallb (N.eqb 65) (repeat 65%N n)) with true; [reflexivity|].
    symmetry. apply forallb_forall. intros x Hx. apply repeat_spec in Hx. subst. reflexivity.
  - unfold toy_enc at 2. rewrite repeat_length. apply toy_find0.
  - unfold toy_enc. rewrite repeat_length. exact H.
Qed.
