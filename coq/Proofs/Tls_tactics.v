(* C08/C09 — proof tactics shared by the TLS proof files (no lemmas). *)
From Coq Require Import Bool.
From EN Require Import Lib.Bytes Conc.TlsBase Conc.TlsPump.

(* case analysis on "may the send lock be skipped here" without ever looking at the flag *)
Ltac flush_cases :=
  unfold flush_pc in *;
  repeat match goal with
  | H : context [f_skiplock ?f && wbio_empty ?s] |- _ =>
      let sk := fresh "sk" in set (sk := f_skiplock f && wbio_empty s) in *; clearbody sk; destruct sk
  | |- context [f_skiplock ?f && wbio_empty ?s] =>
      let sk := fresh "sk" in set (sk := f_skiplock f && wbio_empty s) in *; clearbody sk; destruct sk
  end.

(* go at PRecvWait: lock busy / re-check says "somebody fed" / read *)
Ltac go_recv H sn :=
  unfold go in H; destruct (recv_lock _) eqn:?L; [discriminate |];
  destruct (f_recheck _ && negb (Nat.eqb (feeds _) sn)).
