(* C08/C09 — proof tactics shared by the TLS proof files (no lemmas). *)
From Coq Require Import Bool.
From EN Require Import Lib.Bytes Conc.TlsBase Conc.TlsPump.

(* case analysis on "may the send lock be skipped here" / "does a successful read return at once" without ever looking
   at the flags *)
Ltac flush_cases :=
  unfold done_pc, flush_pc in *; cbn [meth_eqb] in *; rewrite ?andb_false_r, ?andb_true_r in *;
  repeat match goal with
  | H : context [f_lazyread ?f && meth_eqb ?m MRead] |- _ =>
      let lz := fresh "lz" in set (lz := f_lazyread f && meth_eqb m MRead) in *; clearbody lz; destruct lz
  | |- context [f_lazyread ?f && meth_eqb ?m MRead] =>
      let lz := fresh "lz" in set (lz := f_lazyread f && meth_eqb m MRead) in *; clearbody lz; destruct lz
  | H : context [if f_lazyread ?f then _ else _] |- _ =>
      let lz := fresh "lz" in set (lz := f_lazyread f) in *; clearbody lz; destruct lz
  | |- context [if f_lazyread ?f then _ else _] =>
      let lz := fresh "lz" in set (lz := f_lazyread f) in *; clearbody lz; destruct lz
  | H : context [f_skiplock ?f && wbio_empty ?s] |- _ =>
      let sk := fresh "sk" in set (sk := f_skiplock f && wbio_empty s) in *; clearbody sk; destruct sk
  | |- context [f_skiplock ?f && wbio_empty ?s] =>
      let sk := fresh "sk" in set (sk := f_skiplock f && wbio_empty s) in *; clearbody sk; destruct sk
  end.

(* go at PRecvWait: lock busy / re-check says "somebody fed" / read *)
Ltac go_recv H sn :=
  unfold go in H; destruct (recv_lock _) eqn:?L; [discriminate |];
  destruct (f_recheck _ && negb (Nat.eqb (feeds _) sn)).
