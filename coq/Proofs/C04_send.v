(* C04: exactness (what is on the wire) and termination of send_all, the sendmsg loop and the TLS backlog loop,
   for all data / chunk lists, all socket answer scripts, all selector scripts, all timeouts. *)
From Coq Require Import ZArith List Bool Lia Arith.
From EN Require Import Lib.Bytes IO.Retry IO.SendAll IO.SendMsg IO.TlsWrite Proofs.C04_adjust.
Import ListNotations.

Definition prefix_of (p s : bytes) : Prop := exists q, s = p ++ q.

Lemma prefix_of_nil : forall s, prefix_of [] s.
Proof. intros; exists s; reflexivity. Qed.

Lemma prefix_of_refl : forall s, prefix_of s s.
Proof. intros; exists []; rewrite app_nil_r; reflexivity. Qed.

Lemma prefix_of_firstn : forall n s, prefix_of (firstn n s) s.
Proof. intros; exists (skipn n s); symmetry; apply firstn_skipn. Qed.

Lemma prefix_of_extend : forall n s p, prefix_of p (skipn n s) -> prefix_of (firstn n s ++ p) s.
Proof.
  intros n s p [q Hq]. exists q. rewrite <- app_assoc, <- Hq. symmetry; apply firstn_skipn.
Qed.

(* ------------------------------------------------------------------------------------------------------------ *)
(* one transport.send(data, T) = _retry over sock_send *)
Lemma retry_send_facts : forall data fuel ri T s sels,
  let r := retry_loop (sock_send data) fuel ri T s sels in
  (length (sk_script (rr_st r)) <= length (sk_script s))%nat
  /\ ((length (sk_script s) < fuel)%nat -> rr_out r <> RFuel)
  /\ match rr_out r with
     | ROk sent _ =>
         (sent <= length data)%nat
         /\ sk_wire (rr_st r) = sk_wire s ++ firstn sent data
         /\ ((length (sk_script (rr_st r)) < length (sk_script s))%nat
             \/ (sent = length data /\ sk_script (rr_st r) = []))
     | _ => sk_wire (rr_st r) = sk_wire s
     end.
Proof.
  intros data fuel. induction fuel as [|f IH]; intros ri T s sels; simpl.
  - split; [lia|]. split; [lia|]. reflexivity.
  - unfold sock_send at 1. destruct s as [script wire]; simpl.
    destruct script as [|a rest]; simpl.
    + split; [lia|]. split; [discriminate|].
      split; [lia|]. split; [rewrite firstn_all; reflexivity|]. right; split; reflexivity.
    + destruct a as [n c | w c | c]; simpl.
      * split; [lia|]. split; [discriminate|].
        split; [apply Nat.le_min_r|]. split; [reflexivity|]. left; lia.
      * destruct (tmo_le0 T); simpl.
        { split; [lia|]. split; [discriminate|]. reflexivity. }
        destruct (next_sel sels) as [a sels1].
        set (wt := if negb (tmo_leb T ri) then ri else T).
        destruct wt as [wz|].
        -- destruct (negb (sa_ready a) && negb (negb (tmo_leb T ri))); simpl.
           { split; [lia|]. split; [discriminate|]. reflexivity. }
           specialize (IH ri (recompute T (sa_el a)) (mk_sock rest wire) sels1). simpl in IH.
           destruct IH as (H1 & H2 & H3).
           split; [lia|]. split; [intro; apply H2; lia|].
           destruct (rr_out (retry_loop (sock_send data) f ri (recompute T (sa_el a)) (mk_sock rest wire) sels1));
             try assumption.
           destruct H3 as (A & B & C). split; [assumption|]. split; [assumption|].
           destruct C as [C|C]; [left; lia | right; assumption].
        -- destruct (sa_ready a); simpl.
           2:{ split; [lia|]. split; [discriminate|]. reflexivity. }
           specialize (IH ri T (mk_sock rest wire) sels1). simpl in IH.
           destruct IH as (H1 & H2 & H3).
           split; [lia|]. split; [intro; apply H2; lia|].
           destruct (rr_out (retry_loop (sock_send data) f ri T (mk_sock rest wire) sels1)); try assumption.
           destruct H3 as (A & B & C). split; [assumption|]. split; [assumption|].
           destruct C as [C|C]; [left; lia | right; assumption].
      * split; [lia|]. split; [discriminate|]. reflexivity.
Qed.

Lemma retry_top_send_facts : forall data fuel ri T s sels,
  let r := retry (sock_send data) fuel ri T s sels in
  (length (sk_script (rr_st r)) <= length (sk_script s))%nat
  /\ ((length (sk_script s) < fuel)%nat -> rr_out r <> RFuel)
  /\ match rr_out r with
     | ROk sent _ =>
         (sent <= length data)%nat
         /\ sk_wire (rr_st r) = sk_wire s ++ firstn sent data
         /\ ((length (sk_script (rr_st r)) < length (sk_script s))%nat
             \/ (sent = length data /\ sk_script (rr_st r) = []))
     | _ => sk_wire (rr_st r) = sk_wire s
     end.
Proof.
  intros. unfold r, retry. destruct (tmo_neg T).
  - simpl. split; [lia|]. split; [discriminate|]. reflexivity.
  - apply retry_send_facts.
Qed.

(* ------------------------------------------------------------------------------------------------------------ *)
(* send_all *)
Definition wire_spec (r : sres) (s : sock) (todo : bytes) : Prop :=
  exists done_, sk_wire (sr_sock r) = sk_wire s ++ done_ /\ prefix_of done_ todo /\ (sr_out r = SOk -> done_ = todo).

Lemma wire_spec_fail : forall {R} (r : rres sock R) (s : sock) todo o,
  sk_wire (rr_st r) = sk_wire s -> o <> SOk -> wire_spec (sres_of_fail r o) s todo.
Proof.
  intros R r s todo o H Ho. exists []. simpl. rewrite app_nil_r. split; [assumption|].
  split; [apply prefix_of_nil|]. intro; contradiction.
Qed.

Lemma send_all_loop_exact : forall F ri fuel rest T s sels,
  wire_spec (send_all_loop F ri fuel rest T s sels) s rest.
Proof.
  intros F ri fuel. induction fuel as [|f IH]; intros rest T s sels.
  - destruct rest; simpl.
    + exists []. simpl. rewrite app_nil_r. split; [reflexivity|]. split; [apply prefix_of_nil|reflexivity].
    + exists []. simpl. rewrite app_nil_r. split; [reflexivity|]. split; [apply prefix_of_nil|discriminate].
  - destruct rest as [|b rest']; simpl.
    + exists []. simpl. rewrite app_nil_r. split; [reflexivity|]. split; [apply prefix_of_nil|reflexivity].
    + set (data := b :: rest').
      unfold send.
      pose proof (retry_top_send_facts data F ri T s sels) as (H1 & H2 & H3). simpl in H3.
      fold data.
      destruct (rr_out (retry (sock_send data) F ri T s sels)) as [sent T1| |c|] eqn:E.
      * destruct H3 as (A & B & _).
        specialize (IH (skipn sent data) (recompute T (rr_dt (retry (sock_send data) F ri T s sels)))
                       (rr_st (retry (sock_send data) F ri T s sels)) (rr_sels (retry (sock_send data) F ri T s sels))).
        destruct IH as (d & D1 & D2 & D3).
        exists (firstn sent data ++ d). simpl.
        split; [rewrite D1, B, app_assoc; reflexivity|].
        split; [apply prefix_of_extend; assumption|].
        intro Hok. rewrite (D3 Hok). apply firstn_skipn.
      * apply wire_spec_fail; [assumption|discriminate].
      * apply wire_spec_fail; [assumption|discriminate].
      * apply wire_spec_fail; [assumption|discriminate].
Qed.

Lemma send_all_exact_proof : forall F ri fuel data T s sels,
  wire_spec (send_all F ri fuel data T s sels) s data.
Proof.
  intros. destruct data as [|b d].
  - simpl. unfold send.
    pose proof (retry_top_send_facts [] F ri T s sels) as (H1 & H2 & H3). simpl in H3.
    exists []. simpl. rewrite app_nil_r.
    destruct (rr_out (retry (sock_send []) F ri T s sels)) as [sent T1| |c|] eqn:E; simpl.
    + destruct H3 as (A & B & _). assert (sent = 0)%nat by (simpl in A; lia). subst.
      simpl in B. rewrite app_nil_r in B. split; [assumption|]. split; [apply prefix_of_nil|reflexivity].
    + split; [assumption|]. split; [apply prefix_of_nil|discriminate].
    + split; [assumption|]. split; [apply prefix_of_nil|discriminate].
    + split; [assumption|]. split; [apply prefix_of_nil|discriminate].
  - apply send_all_loop_exact.
Qed.

(* termination of send_all: fuel > number of scripted answers is enough, whatever the answers are *)
Lemma send_all_loop_terminates : forall F ri fuel rest T s sels,
  (length (sk_script s) < F)%nat -> (length (sk_script s) < fuel)%nat ->
  sr_out (send_all_loop F ri fuel rest T s sels) <> SFuel.
Proof.
  intros F ri fuel. induction fuel as [|f IH]; intros rest T s sels HF Hf; [lia|].
  destruct rest as [|b rest']; simpl; [discriminate|].
  set (data := b :: rest'). unfold send. clearbody data.
  pose proof (retry_top_send_facts data F ri T s sels) as (H1 & H2 & H3). simpl in H3.
  destruct (rr_out (retry (sock_send data) F ri T s sels)) as [sent T1| |c|] eqn:E; simpl.
  - destruct H3 as (A & B & C). destruct C as [C|[C1 C2]].
    + apply IH; lia.
    + subst sent. rewrite skipn_all.
      destruct f; simpl; discriminate.
  - discriminate.
  - discriminate.
  - exfalso. apply H2; [lia|reflexivity].
Qed.

Lemma send_all_terminates_proof : forall F ri fuel data T s sels,
  (length (sk_script s) < F)%nat -> (length (sk_script s) < fuel)%nat ->
  sr_out (send_all F ri fuel data T s sels) <> SFuel.
Proof.
  intros. destruct data as [|b d].
  - simpl. unfold send.
    pose proof (retry_top_send_facts [] F ri T s sels) as (H1 & H2 & H3).
    destruct (rr_out (retry (sock_send []) F ri T s sels)) eqn:E; simpl; try discriminate.
    exfalso. apply H2; [lia|reflexivity].
  - apply send_all_loop_terminates; assumption.
Qed.

(* ------------------------------------------------------------------------------------------------------------ *)
(* sendmsg loop *)
Lemma concat_firstn_prefix : forall (bufs : list bytes) iov, prefix_of (concat (firstn iov bufs)) (concat bufs).
Proof.
  intros. exists (concat (skipn iov bufs)). rewrite <- concat_app, firstn_skipn. reflexivity.
Qed.

Lemma firstn_prefix : forall (p s : bytes) n, prefix_of p s -> (n <= length p)%nat -> firstn n p = firstn n s.
Proof.
  intros p s n [q Hq] Hn. subst s. rewrite firstn_app. replace (n - length p)%nat with 0%nat by lia.
  simpl. rewrite app_nil_r. reflexivity.
Qed.

Lemma prefix_length : forall p s : bytes, prefix_of p s -> (length p <= length s)%nat.
Proof. intros p s [q Hq]. subst. rewrite app_length. lia. Qed.

Lemma sendmsg_loop_step : forall F ri iov f b0 bufs' T s sels,
  sendmsg_loop F ri iov (S f) (b0 :: bufs') T s sels =
  let r := retry (sock_sendmsg iov (b0 :: bufs')) F ri T s sels in
  match rr_out r with
  | ROk sent T1 =>
      sr_add (rr_dt r) (rr_waits r) (rr_calls r)
             (sendmsg_loop F ri iov f (adjust_leftover (b0 :: bufs') sent) T1 (rr_st r) (rr_sels r))
  | o => sres_of_fail r (rout_fail o)
  end.
Proof. reflexivity. Qed.

Lemma sendmsg_loop_exact : forall F ri iov fuel bufs T s sels,
  wire_spec (sendmsg_loop F ri iov fuel bufs T s sels) s (concat bufs).
Proof.
  intros F ri iov fuel. induction fuel as [|f IH]; intros bufs T s sels.
  - destruct bufs; simpl.
    + exists []. simpl. rewrite app_nil_r. split; [reflexivity|]. split; [apply prefix_of_nil|reflexivity].
    + exists []. simpl. rewrite app_nil_r. split; [reflexivity|]. split; [apply prefix_of_nil|discriminate].
  - destruct bufs as [|b0 bufs'].
    + simpl. exists []. simpl. rewrite app_nil_r. split; [reflexivity|]. split; [apply prefix_of_nil|reflexivity].
    + rewrite sendmsg_loop_step. remember (b0 :: bufs') as bufs eqn:Hb. cbv zeta.
      unfold sock_sendmsg.
      set (data := concat (firstn iov bufs)).
      pose proof (retry_top_send_facts data F ri T s sels) as (H1 & H2 & H3). simpl in H3.
      destruct (rr_out (retry (sock_send data) F ri T s sels)) as [sent T1| |c|] eqn:E.
      * destruct H3 as (A & B & _).
        pose proof (concat_firstn_prefix bufs iov) as P. fold data in P.
        pose proof (prefix_length _ _ P) as PL.
        specialize (IH (adjust_leftover bufs sent) T1
                       (rr_st (retry (sock_send data) F ri T s sels)) (rr_sels (retry (sock_send data) F ri T s sels))).
        destruct IH as (d & D1 & D2 & D3).
        rewrite adjust_leftover_concat in D2, D3 by lia.
        exists (firstn sent (concat bufs) ++ d). simpl.
        split.
        { rewrite D1, B, app_assoc. rewrite (firstn_prefix data (concat bufs) sent P A). reflexivity. }
        split; [apply prefix_of_extend; assumption|].
        intro Hok. rewrite (D3 Hok). apply firstn_skipn.
      * apply wire_spec_fail; [assumption|discriminate].
      * apply wire_spec_fail; [assumption|discriminate].
      * apply wire_spec_fail; [assumption|discriminate].
Qed.

Lemma concat_filter_nonempty : forall chunks : list bytes,
  concat (filter (fun b => negb (is_nil b)) chunks) = concat chunks.
Proof.
  induction chunks as [|c cs IH]; simpl; [reflexivity|].
  destruct c; simpl; [assumption | rewrite IH; reflexivity].
Qed.

Lemma build_deque_concat : forall d chunks, concat (build_deque d chunks) = concat chunks.
Proof. intros [|] chunks; simpl; [apply concat_filter_nonempty | reflexivity]. Qed.

Lemma send_iter_exact_proof : forall drop_empty has_sendmsg iov F fuel ri chunks T s sels,
  wire_spec (send_iter drop_empty has_sendmsg iov F fuel ri chunks T s sels) s (concat chunks).
Proof.
  intros. unfold send_iter.
  destruct ((iov <=? 0)%Z || negb has_sendmsg).
  - apply send_all_exact_proof.
  - rewrite <- (build_deque_concat drop_empty chunks). apply sendmsg_loop_exact.
Qed.

(* ---- termination of the repaired loop (no empty view in the deque) *)
Lemma nonempty_length : forall b : bytes, nonempty b -> (0 < length b)%nat.
Proof. intros [|x b] H; [exfalso; apply H; reflexivity | simpl; lia]. Qed.

(* sending everything that was offered removes at least one view *)
Lemma adjust_all_offered : forall iov bufs,
  (0 < iov)%nat -> Forall nonempty bufs -> bufs <> [] ->
  (length (adjust_leftover bufs (length (concat (firstn iov bufs)))) < length bufs)%nat.
Proof.
  intros iov bufs Hiov Hne Hnn.
  destruct bufs as [|b rest]; [contradiction|].
  destruct iov as [|k]; [lia|].
  inversion Hne as [|? ? Hb Hr]; subst.
  pose proof (nonempty_length b Hb) as Lb.
  simpl. rewrite app_length.
  destruct (Nat.eqb (length b + length (concat (firstn k rest))) 0) eqn:E0.
  { apply Nat.eqb_eq in E0. lia. }
  destruct (Nat.leb (length b) (length b + length (concat (firstn k rest)))) eqn:E1.
  - pose proof (adjust_leftover_count rest (length b + length (concat (firstn k rest)) - length b)). lia.
  - apply Nat.leb_gt in E1. lia.
Qed.

(* no_spin: every iteration of the repaired loop makes progress in (remaining bytes, remaining oracle answers) *)
Lemma sendmsg_iteration_progress : forall F ri iov bufs T s sels sent T1,
  (0 < iov)%nat -> Forall nonempty bufs -> bufs <> [] ->
  rr_out (retry (sock_sendmsg iov bufs) F ri T s sels) = ROk sent T1 ->
  (0 < sent)%nat \/ (length (sk_script (rr_st (retry (sock_sendmsg iov bufs) F ri T s sels))) < length (sk_script s))%nat.
Proof.
  intros F ri iov bufs T s sels sent T1 Hiov Hne Hnn E.
  unfold sock_sendmsg in *.
  pose proof (retry_top_send_facts (concat (firstn iov bufs)) F ri T s sels) as (H1 & H2 & H3). simpl in H3.
  rewrite E in H3. destruct H3 as (A & B & [C|[C1 C2]]).
  - right; assumption.
  - left. subst sent.
    destruct bufs as [|b rest]; [contradiction|]. destruct iov; [lia|].
    inversion Hne; subst. simpl. rewrite app_length.
    pose proof (nonempty_length b H3). lia.
Qed.

Lemma sendmsg_loop_terminates : forall F ri iov fuel bufs T s sels,
  (0 < iov)%nat -> Forall nonempty bufs ->
  (length (sk_script s) < F)%nat -> (length (sk_script s) + length bufs <= fuel)%nat ->
  sr_out (sendmsg_loop F ri iov fuel bufs T s sels) <> SFuel.
Proof.
  intros F ri iov fuel. induction fuel as [|f IH]; intros bufs T s sels Hiov Hne HF Hf.
  - destruct bufs; simpl in *; [discriminate | lia].
  - destruct bufs as [|b0 bufs']; [simpl; discriminate|].
    rewrite sendmsg_loop_step.
    assert (Hlen : length (b0 :: bufs') = S (length bufs')) by reflexivity.
    remember (b0 :: bufs') as bufs eqn:Hb. cbv zeta.
    unfold sock_sendmsg.
    set (data := concat (firstn iov bufs)).
    pose proof (retry_top_send_facts data F ri T s sels) as (H1 & H2 & H3). simpl in H3.
    destruct (rr_out (retry (sock_send data) F ri T s sels)) as [sent T1| |c|] eqn:E; simpl.
    + destruct H3 as (A & B & C).
      apply IH; try assumption.
      * apply adjust_leftover_nonempty; assumption.
      * lia.
      * destruct C as [C|[C1 C2]].
        -- pose proof (adjust_leftover_count bufs sent). lia.
        -- subst sent. rewrite C2. simpl.
           assert (Hnn : bufs <> []) by (rewrite Hb; discriminate).
           pose proof (adjust_all_offered iov bufs Hiov Hne Hnn) as L. fold data in L.
           lia.
    + discriminate.
    + discriminate.
    + exfalso. apply H2; [lia|reflexivity].
Qed.

Lemma filter_nonempty_all : forall chunks : list bytes, Forall nonempty (filter (fun b => negb (is_nil b)) chunks).
Proof.
  induction chunks as [|c cs IH]; simpl; [constructor|].
  destruct c; simpl; [assumption|]. constructor; [discriminate|assumption].
Qed.

Lemma filter_length_le : forall {X} (f : X -> bool) l, (length (filter f l) <= length l)%nat.
Proof. induction l; simpl; [lia|]. destruct (f a); simpl; lia. Qed.

(* the whole send_all_from_iterable of the repaired transport, with the fuel the correspondence uses *)
Lemma send_iter_terminates_proof : forall has_sendmsg iov ri chunks T script sels,
  let F := fuel_bound chunks script in
  sr_out (send_iter true has_sendmsg iov F F ri chunks T (mk_sock script []) sels) <> SFuel.
Proof.
  intros. unfold send_iter, F, fuel_bound.
  destruct ((iov <=? 0)%Z || negb has_sendmsg) eqn:E.
  - apply send_all_terminates_proof; simpl; lia.
  - apply sendmsg_loop_terminates.
    + apply orb_false_iff in E. destruct E as [E _]. apply Z.leb_gt in E. lia.
    + apply filter_nonempty_all.
    + simpl; lia.
    + unfold build_deque. cbn [sk_script].
      eapply Nat.le_trans; [apply Nat.add_le_mono_l; apply filter_length_le|]. lia.
Qed.

(* ---- the loop as it is in the unchanged tree does not terminate on a trailing empty chunk (F2) *)
Lemma sendmsg_stuck_on_empty_view : forall F ri iov fuel T w sels,
  (0 < F)%nat -> tmo_neg T = false ->
  sr_out (sendmsg_loop F ri iov fuel [[]] T (mk_sock [] w) sels) = SFuel.
Proof.
  intros F ri iov fuel. induction fuel as [|f IH]; intros T w sels HF HT; [reflexivity|].
  rewrite sendmsg_loop_step. cbv zeta.
  set (r := retry _ _ _ _ _ _).
  assert (Hr : r = mk_rres (ROk 0%nat T) (mk_sock [] w) sels 0%Z [] 1).
  { unfold r, retry. rewrite HT. destruct F as [|F']; [lia|]. unfold sock_sendmsg.
    destruct iov as [|[|k]]; simpl; rewrite ?app_nil_r; reflexivity. }
  rewrite Hr. simpl. apply IH; assumption.
Qed.

Lemma sendmsg_unfixed_spins_proof : forall F fuel ri T sels,
  (0 < F)%nat -> (0 < fuel)%nat -> tmo_neg T = false ->
  sr_out (send_iter false true 1024 F fuel ri [[97%N; 98%N; 99%N]; []] T (mk_sock [] []) sels) = SFuel.
Proof.
  intros F fuel ri T sels HF Hf HT.
  unfold send_iter. simpl.
  destruct fuel as [|f]; [lia|].
  simpl. unfold retry. rewrite HT. destruct F as [|F']; [lia|]. simpl.
  apply sendmsg_stuck_on_empty_view; [lia|assumption].
Qed.

(* ------------------------------------------------------------------------------------------------------------ *)
(* asynchronous TLS backlog loop *)
Lemma tls_write_loop_exact : forall fuel backlog s,
  wire_spec (tls_write_loop fuel backlog s) s (concat backlog).
Proof.
  induction fuel as [|f IH]; intros backlog s.
  - destruct backlog; simpl.
    + exists []. simpl. rewrite app_nil_r. split; [reflexivity|]. split; [apply prefix_of_nil|reflexivity].
    + exists []. simpl. rewrite app_nil_r. split; [reflexivity|]. split; [apply prefix_of_nil|discriminate].
  - destruct backlog as [|data rest]; simpl.
    + exists []. simpl. rewrite app_nil_r. split; [reflexivity|]. split; [apply prefix_of_nil|reflexivity].
    + unfold sock_send. destruct s as [script wire]; simpl.
      destruct script as [|a script']; simpl.
      * rewrite Nat.ltb_irrefl.
        destruct (IH rest (mk_sock [] (wire ++ data))) as (d & D1 & D2 & D3). simpl in D1.
        exists (data ++ d). simpl. split; [rewrite D1, app_assoc; reflexivity|].
        split. { destruct D2 as [q Hq]. exists q. rewrite Hq, app_assoc. reflexivity. }
        intro Hok. rewrite (D3 Hok). reflexivity.
      * destruct a as [n c | w c | c]; simpl.
        -- destruct (Nat.ltb (Nat.min n (length data)) (length data)) eqn:E.
           ++ destruct (IH (skipn (Nat.min n (length data)) data :: rest) (mk_sock script' (wire ++ firstn (Nat.min n (length data)) data)))
                as (d & D1 & D2 & D3). simpl in D1, D2, D3.
              exists (firstn (Nat.min n (length data)) data ++ d). simpl.
              split; [rewrite D1, app_assoc; reflexivity|].
              split.
              { destruct D2 as [q Hq]. exists q.
                rewrite <- app_assoc, <- Hq, app_assoc, firstn_skipn. reflexivity. }
              intro Hok. rewrite (D3 Hok), app_assoc, firstn_skipn. reflexivity.
           ++ apply Nat.ltb_ge in E.
              assert (Hm : Nat.min n (length data) = length data) by lia. rewrite Hm, firstn_all.
              destruct (IH rest (mk_sock script' (wire ++ data))) as (d & D1 & D2 & D3). simpl in D1.
              exists (data ++ d). simpl. split; [rewrite D1, app_assoc; reflexivity|].
              split. { destruct D2 as [q Hq]. exists q. rewrite Hq, app_assoc. reflexivity. }
              intro Hok. rewrite (D3 Hok). reflexivity.
        -- destruct (IH (data :: rest) (mk_sock script' wire)) as (d & D1 & D2 & D3). simpl in *.
           exists d. split; [assumption|]. split; assumption.
        -- exists []. simpl. rewrite app_nil_r. split; [reflexivity|]. split; [apply prefix_of_nil|discriminate].
Qed.

Lemma tls_write_loop_terminates : forall fuel backlog s,
  (length (sk_script s) + length backlog <= fuel)%nat ->
  sr_out (tls_write_loop fuel backlog s) <> SFuel.
Proof.
  induction fuel as [|f IH]; intros backlog s Hf.
  - destruct backlog; simpl in *; [discriminate|lia].
  - destruct backlog as [|data rest]; simpl; [discriminate|].
    unfold sock_send. destruct s as [script wire]; simpl in *.
    destruct script as [|a script']; simpl in *.
    + rewrite Nat.ltb_irrefl. apply IH. simpl. lia.
    + destruct a as [n c | w c | c]; simpl.
      * destruct (Nat.ltb (Nat.min n (length data)) (length data)); apply IH; simpl; lia.
      * apply IH; simpl; lia.
      * discriminate.
Qed.

(* ------------------------------------------------------------------------------------------------------------ *)
(* which readiness event a would-block waits for: a plain socket's send()/sendmsg() only ever reports
   "would block on WRITE" (BlockingIOError / InterruptedError -> WouldBlockOnWrite), and then every selector wait of
   send_all / send_all_from_iterable registers writability -- on every path *)
Definition write_blocks_only (s : sock) : Prop :=
  Forall (fun a => match a with SBlock w _ => w = true | _ => True end) (sk_script s).

Lemma retry_send_write_waits : forall data fuel ri T s sels,
  write_blocks_only s ->
  Forall (fun w => w_write w = true) (rr_waits (retry_loop (sock_send data) fuel ri T s sels))
  /\ write_blocks_only (rr_st (retry_loop (sock_send data) fuel ri T s sels)).
Proof.
  intros data fuel. induction fuel as [|f IH]; intros ri T s sels H; simpl.
  - split; [constructor|assumption].
  - unfold sock_send at 1 3. destruct s as [script wire]. unfold write_blocks_only in *. simpl in *.
    destruct script as [|a rest]; simpl.
    + split; constructor.
    + inversion H as [|? ? Ha Hr]; subst.
      destruct a as [n c|w c|c]; simpl; try (split; [constructor|assumption]).
      simpl in Ha. subst w.
      destruct (tmo_le0 T); simpl; [split; [constructor|assumption]|].
      destruct (next_sel sels) as [a sels1].
      destruct (if negb (tmo_leb T ri) then ri else T) as [wz|].
      * destruct (negb (sa_ready a) && negb (negb (tmo_leb T ri))); simpl.
        -- split; [constructor; [reflexivity|constructor]|assumption].
        -- destruct (IH ri (recompute T (sa_el a)) (mk_sock rest wire) sels1 Hr) as [A B].
           split; [constructor; [reflexivity|exact A]|exact B].
      * destruct (sa_ready a); simpl.
        -- destruct (IH ri T (mk_sock rest wire) sels1 Hr) as [A B].
           split; [constructor; [reflexivity|exact A]|exact B].
        -- split; [constructor; [reflexivity|constructor]|assumption].
Qed.

Lemma retry_top_send_write_waits : forall data fuel ri T s sels,
  write_blocks_only s ->
  Forall (fun w => w_write w = true) (rr_waits (retry (sock_send data) fuel ri T s sels))
  /\ write_blocks_only (rr_st (retry (sock_send data) fuel ri T s sels)).
Proof.
  intros. unfold retry. destruct (tmo_neg T); [simpl; split; [constructor|assumption]|].
  apply retry_send_write_waits; assumption.
Qed.

Lemma send_all_loop_write_waits : forall F ri fuel rest T s sels,
  write_blocks_only s -> Forall (fun w => w_write w = true) (sr_waits (send_all_loop F ri fuel rest T s sels)).
Proof.
  intros F ri fuel. induction fuel as [|f IH]; intros rest T s sels H.
  - destruct rest; constructor.
  - destruct rest as [|b rest']; [constructor|].
    simpl. unfold send.
    destruct (retry_top_send_write_waits (b :: rest') F ri T s sels H) as [A B].
    destruct (rr_out (retry (sock_send (b :: rest')) F ri T s sels)) as [sent T1| |c|]; simpl; try exact A.
    apply Forall_app. split; [exact A|]. apply IH. exact B.
Qed.

Lemma sendmsg_loop_write_waits : forall F ri iov fuel bufs T s sels,
  write_blocks_only s -> Forall (fun w => w_write w = true) (sr_waits (sendmsg_loop F ri iov fuel bufs T s sels)).
Proof.
  intros F ri iov fuel. induction fuel as [|f IH]; intros bufs T s sels H.
  - destruct bufs; constructor.
  - destruct bufs as [|b0 bufs']; [constructor|].
    rewrite sendmsg_loop_step. cbv zeta. unfold sock_sendmsg.
    destruct (retry_top_send_write_waits (concat (firstn iov (b0 :: bufs'))) F ri T s sels H) as [A B].
    destruct (rr_out (retry (sock_send (concat (firstn iov (b0 :: bufs')))) F ri T s sels)) as [sent T1| |c|]; simpl; try exact A.
    apply Forall_app. split; [exact A|]. apply IH. exact B.
Qed.

Lemma send_iter_write_waits : forall drop_empty has_sendmsg iov F fuel ri chunks T s sels,
  write_blocks_only s ->
  Forall (fun w => w_write w = true) (sr_waits (send_iter drop_empty has_sendmsg iov F fuel ri chunks T s sels)).
Proof.
  intros. unfold send_iter. destruct ((iov <=? 0)%Z || negb has_sendmsg).
  - unfold send_all_join, send_all. destruct (concat chunks) as [|b d].
    + unfold send. destruct (retry_top_send_write_waits [] F ri T s sels H) as [A _].
      destruct (rr_out (retry (sock_send []) F ri T s sels)); exact A.
    + apply send_all_loop_write_waits. assumption.
  - apply sendmsg_loop_write_waits. assumption.
Qed.

(* ------------------------------------------------------------------------------------------------------------ *)
(* a zero (or exhausted) budget means "do not wait", not "cannot complete": if no send()/sendmsg() call ever reports
   would-block, send_all / send_all_from_iterable never raise TimeoutError, whatever the timeout (0 included) *)
Definition never_blocks (s : sock) : Prop :=
  Forall (fun a => match a with SBlock _ _ => False | _ => True end) (sk_script s).

Lemma retry_send_never_blocks : forall data fuel ri T s sels,
  never_blocks s ->
  rr_out (retry (sock_send data) fuel ri T s sels) <> RTimeout
  /\ never_blocks (rr_st (retry (sock_send data) fuel ri T s sels)).
Proof.
  intros data fuel ri T s sels H. unfold retry. destruct (tmo_neg T); [simpl; split; [discriminate|assumption]|].
  destruct fuel as [|f]; simpl; [split; [discriminate|assumption]|].
  unfold sock_send. destruct s as [script wire]. unfold never_blocks in *. simpl in *.
  destruct script as [|a rest]; simpl; [split; [discriminate|constructor]|].
  inversion H as [|? ? Ha Hr]; subst.
  destruct a as [n c|w c|c]; simpl; try (split; [discriminate|assumption]). contradiction.
Qed.

Lemma send_all_loop_never_blocks : forall F ri fuel rest T s sels,
  never_blocks s -> sr_out (send_all_loop F ri fuel rest T s sels) <> SExc E_TIMEOUT.
Proof.
  intros F ri fuel. induction fuel as [|f IH]; intros rest T s sels H.
  - destruct rest; simpl; discriminate.
  - destruct rest as [|b rest']; [simpl; discriminate|].
    simpl. unfold send.
    destruct (retry_send_never_blocks (b :: rest') F ri T s sels H) as [A B].
    pose proof (retry_send_facts (b :: rest')) as _.
    destruct (rr_out (retry (sock_send (b :: rest')) F ri T s sels)) as [sent T1| |c|] eqn:E; simpl.
    + apply IH. exact B.
    + contradiction A; reflexivity.
    + intro X. inversion X. subst c.
      (* a raised code is never the TimeoutError code *)
      revert E. unfold retry. destruct (tmo_neg T); [simpl; intro E; inversion E|].
      destruct F as [|F']; simpl; [discriminate|].
      unfold sock_send. destruct s as [script wire]; simpl.
      destruct script as [|a r]; simpl; [discriminate|].
      destruct a as [n k|w k|k]; simpl; try discriminate;
        try (unfold never_blocks in H; simpl in H; inversion H; contradiction);
        try (intro E; inversion E; discriminate).
    + discriminate.
Qed.

Lemma sendmsg_loop_never_blocks : forall F ri iov fuel bufs T s sels,
  never_blocks s -> sr_out (sendmsg_loop F ri iov fuel bufs T s sels) <> SExc E_TIMEOUT.
Proof.
  intros F ri iov fuel. induction fuel as [|f IH]; intros bufs T s sels H.
  - destruct bufs; simpl; discriminate.
  - destruct bufs as [|b0 bufs']; [simpl; discriminate|].
    rewrite sendmsg_loop_step. cbv zeta. unfold sock_sendmsg.
    set (data := concat (firstn iov (b0 :: bufs'))).
    destruct (retry_send_never_blocks data F ri T s sels H) as [A B].
    destruct (rr_out (retry (sock_send data) F ri T s sels)) as [sent T1| |c|] eqn:E; simpl.
    + apply IH. exact B.
    + contradiction A; reflexivity.
    + intro X. inversion X. subst c.
      revert E. unfold retry. destruct (tmo_neg T); [simpl; intro E; inversion E|].
      destruct F as [|F']; simpl; [discriminate|].
      unfold sock_send. destruct s as [script wire]; simpl.
      destruct script as [|a r]; simpl; [discriminate|].
      destruct a as [n k|w k|k]; simpl; try discriminate;
        try (unfold never_blocks in H; simpl in H; inversion H; contradiction);
        try (intro E; inversion E; discriminate).
    + discriminate.
Qed.

Lemma send_iter_never_blocks : forall drop_empty has_sendmsg iov F fuel ri chunks T s sels,
  never_blocks s ->
  sr_out (send_iter drop_empty has_sendmsg iov F fuel ri chunks T s sels) <> SExc E_TIMEOUT.
Proof.
  intros. unfold send_iter. destruct ((iov <=? 0)%Z || negb has_sendmsg).
  - unfold send_all_join, send_all. destruct (concat chunks) as [|b d].
    + unfold send. destruct (retry_send_never_blocks [] F ri T s sels H) as [A _].
      destruct (rr_out (retry (sock_send []) F ri T s sels)) as [v T1| |c|] eqn:E; simpl; try discriminate.
      * contradiction A; reflexivity.
      * intro X. inversion X. subst c.
        revert E. unfold retry. destruct (tmo_neg T); [simpl; intro E; inversion E|].
        destruct F as [|F']; simpl; [discriminate|].
        unfold sock_send. destruct s as [script wire]; simpl.
        destruct script as [|a r]; simpl; [discriminate|].
        destruct a as [n k|w k|k]; simpl; try discriminate;
          try (unfold never_blocks in H; simpl in H; inversion H; contradiction);
          try (intro E; inversion E; discriminate).
    + apply send_all_loop_never_blocks. assumption.
  - apply sendmsg_loop_never_blocks. assumption.
Qed.
