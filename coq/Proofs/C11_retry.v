(* C11: budget properties of _retry, for every callback (any state machine), every selector script, every
   retry interval.  A `wait` records what was requested (w_req) and what the selector answered (w_ready, w_el). *)
From Coq Require Import ZArith List Bool Lia.
From EN Require Import Lib.Bytes IO.Retry.
Import ListNotations.
Open Scope Z_scope.

(* Before every wait the budget left (t minus the time the previous waits took) is positive, and the wait
   requested is finite, positive and not larger than what is left. *)
Fixpoint budget_ok (t : Z) (ws : list wait) : Prop :=
  match ws with
  | [] => True
  | w :: ws' => 0 < t /\ (exists r, w_req w = Some r /\ 0 < r <= t) /\ budget_ok (t - w_el w) ws'
  end.

Definition ri_ok (ri : tmo) : Prop := match ri with None => True | Some x => 0 < x end.

(* the selector never reports "not ready" before the requested wait is over *)
Definition full_wait (w : wait) : Prop :=
  w_ready w = false -> exists r, w_req w = Some r /\ r <= w_el w.
(* no wait lasts longer than requested *)
Definition punctual (w : wait) : Prop := exists r, w_req w = Some r /\ w_el w <= r.

Lemma budget_ok_max : forall x ws, budget_ok (Z.max 0 x) ws -> budget_ok x ws.
Proof.
  intros x [|w ws] H; simpl in *; [exact I|].
  destruct H as (H0 & H1 & H2).
  assert (E : Z.max 0 x = x) by lia. rewrite E in *. repeat split; assumption.
Qed.

Lemma budget_ok_mono : forall ws t t', t <= t' -> budget_ok t ws -> budget_ok t' ws.
Proof.
  induction ws as [|w ws IH]; intros t t' Hle H; simpl in *; [exact I|].
  destruct H as (H0 & (r & Hr & Hr2) & H2).
  split; [lia|]. split; [exists r; split; [assumption|lia]|].
  apply (IH (t - w_el w)); [lia|assumption].
Qed.

Lemma budget_ok_app : forall ws1 ws2 t,
  budget_ok t ws1 -> budget_ok (t - sum_wait_el ws1) ws2 -> budget_ok t (ws1 ++ ws2).
Proof.
  induction ws1 as [|w ws1 IH]; intros ws2 t H1 H2; simpl in *.
  - replace (t - 0) with t in H2 by lia. assumption.
  - destruct H1 as (H0 & Hr & H3). split; [assumption|]. split; [assumption|].
    apply IH; [assumption|]. replace (t - w_el w - sum_wait_el ws1) with (t - (w_el w + sum_wait_el ws1)) by lia.
    assumption.
Qed.

Lemma budget_ok_nonpos : forall t ws, t <= 0 -> budget_ok t ws -> ws = [].
Proof. intros t [|w ws] Ht H; [reflexivity|]. simpl in H. lia. Qed.

(* total waiting time <= T when no wait overshoots *)
Lemma budget_total : forall ws t, 0 <= t -> budget_ok t ws -> Forall punctual ws -> sum_wait_el ws <= t.
Proof.
  induction ws as [|w ws IH]; intros t Ht H HP; simpl in *; [lia|].
  destruct H as (H0 & (r & Hr & Hr2) & H2).
  inversion HP as [|? ? (r' & Hr' & Hle) HP']; subst.
  rewrite Hr in Hr'. inversion Hr'; subst r'.
  specialize (IH (t - w_el w)). assert (0 <= t - w_el w) by lia.
  specialize (IH H H2 HP'). lia.
Qed.

(* in general: everything but the last wait fits strictly inside T (only the last wait can overshoot) *)
Lemma budget_all_but_last : forall ws0 wl t, budget_ok t (ws0 ++ [wl]) -> sum_wait_el ws0 < t.
Proof.
  induction ws0 as [|w ws0 IH]; intros wl t H; simpl in *.
  - lia.
  - destruct H as (H0 & _ & H2). specialize (IH wl (t - w_el w) H2). lia.
Qed.

Section RetryProofs.
  Variables St R : Type.
  Variable cb : St -> cbres R * St * Z.

  Lemma retry_loop_budget : forall fuel ri t st sels,
    ri_ok ri -> budget_ok t (rr_waits (retry_loop cb fuel ri (Some t) st sels)).
  Proof.
    induction fuel as [|f IH]; intros ri t st sels Hri; simpl; [exact I|].
    destruct (cb st) as [[r st1] cost]. destruct r as [v|w|c]; simpl; try exact I.
    destruct (t <=? 0) eqn:Et; simpl; [exact I|]. apply Z.leb_gt in Et.
    destruct (next_sel sels) as [a sels1].
    destruct ri as [x|]; simpl in *.
    - destruct (t <=? x) eqn:Ex; simpl.
      + apply Z.leb_le in Ex.
        destruct (negb (sa_ready a) && true); simpl.
        * split; [lia|]. split; [exists t; split; [reflexivity|lia]|exact I].
        * split; [lia|]. split; [exists t; split; [reflexivity|lia]|].
          apply budget_ok_max. apply IH. exact Hri.
      + apply Z.leb_gt in Ex.
        rewrite andb_false_r. simpl.
        split; [lia|]. split; [exists x; split; [reflexivity|lia]|].
        apply budget_ok_max. apply IH. exact Hri.
    - destruct (negb (sa_ready a) && true); simpl.
      * split; [lia|]. split; [exists t; split; [reflexivity|lia]|exact I].
      * split; [lia|]. split; [exists t; split; [reflexivity|lia]|].
        apply budget_ok_max. apply IH. exact I.
  Qed.

  Lemma retry_budget_proof : forall fuel ri t st sels,
    ri_ok ri -> budget_ok t (rr_waits (retry cb fuel ri (Some t) st sels)).
  Proof.
    intros. unfold retry. destruct (tmo_neg (Some t)); [exact I|]. apply retry_loop_budget; assumption.
  Qed.

  (* TimeoutError only when the budget is really used up *)
  Lemma retry_loop_timeout_exhausted : forall fuel ri t st sels,
    rr_out (retry_loop cb fuel ri (Some t) st sels) = RTimeout ->
    Forall full_wait (rr_waits (retry_loop cb fuel ri (Some t) st sels)) ->
    t <= sum_wait_el (rr_waits (retry_loop cb fuel ri (Some t) st sels)).
  Proof.
    induction fuel as [|f IH]; intros ri t st sels; simpl; [discriminate|].
    destruct (cb st) as [[r st1] cost]. destruct r as [v|w|c]; simpl; try discriminate.
    destruct (t <=? 0) eqn:Et; simpl.
    { apply Z.leb_le in Et. intros; lia. }
    apply Z.leb_gt in Et.
    destruct (next_sel sels) as [a sels1].
    assert (Hgen : forall req (isri : bool),
      (isri = false -> req = t) ->
      rr_out (if negb (sa_ready a) && negb isri
              then mk_rres RTimeout st1 sels1 (cost + sa_el a)
                     [{| w_write := w; w_req := Some req; w_ready := sa_ready a; w_el := sa_el a |}] 1
              else rr_add (cost + sa_el a)
                     [{| w_write := w; w_req := Some req; w_ready := sa_ready a; w_el := sa_el a |}]
                     (retry_loop cb f ri (recompute (Some t) (sa_el a)) st1 sels1)) = RTimeout ->
      Forall full_wait (rr_waits (if negb (sa_ready a) && negb isri
              then mk_rres RTimeout st1 sels1 (cost + sa_el a)
                     [{| w_write := w; w_req := Some req; w_ready := sa_ready a; w_el := sa_el a |}] 1
              else rr_add (cost + sa_el a)
                     [{| w_write := w; w_req := Some req; w_ready := sa_ready a; w_el := sa_el a |}]
                     (retry_loop cb f ri (recompute (Some t) (sa_el a)) st1 sels1))) ->
      t <= sum_wait_el (rr_waits (if negb (sa_ready a) && negb isri
              then mk_rres RTimeout st1 sels1 (cost + sa_el a)
                     [{| w_write := w; w_req := Some req; w_ready := sa_ready a; w_el := sa_el a |}] 1
              else rr_add (cost + sa_el a)
                     [{| w_write := w; w_req := Some req; w_ready := sa_ready a; w_el := sa_el a |}]
                     (retry_loop cb f ri (recompute (Some t) (sa_el a)) st1 sels1)))).
    { intros req isri Hreq.
      destruct (negb (sa_ready a) && negb isri) eqn:Eb; simpl.
      - intros _ HF. apply andb_true_iff in Eb. destruct Eb as [Er Ei].
        apply negb_true_iff in Er. apply negb_true_iff in Ei.
        pose proof (Hreq Ei) as Hq.
        inversion HF as [|? ? Hfw _]. destruct (Hfw Er) as (r & Hr & Hle). simpl in Hr, Hle.
        inversion Hr. lia.
      - intros Hout HF. inversion HF as [|? ? _ HF']; subst.
        specialize (IH ri (Z.max 0 (t - sa_el a)) st1 sels1 Hout HF'). lia. }
    destruct ri as [x|]; simpl.
    - destruct (t <=? x) eqn:Ex; simpl.
      + apply (Hgen t false). reflexivity.
      + apply (Hgen x true). discriminate.
    - apply (Hgen t false). reflexivity.
  Qed.

  Lemma retry_timeout_exhausted_proof : forall fuel ri t st sels,
    rr_out (retry cb fuel ri (Some t) st sels) = RTimeout ->
    Forall full_wait (rr_waits (retry cb fuel ri (Some t) st sels)) ->
    t <= sum_wait_el (rr_waits (retry cb fuel ri (Some t) st sels)).
  Proof.
    intros fuel ri t st sels. unfold retry. destruct (tmo_neg (Some t)); [discriminate|].
    apply retry_loop_timeout_exhausted.
  Qed.

  (* with an infinite timeout _retry never raises TimeoutError *)
  Lemma retry_loop_inf_no_timeout : forall fuel ri st sels,
    rr_out (retry_loop cb fuel ri None st sels) <> RTimeout.
  Proof.
    induction fuel as [|f IH]; intros ri st sels; simpl; [discriminate|].
    destruct (cb st) as [[r st1] cost]. destruct r as [v|w|c]; simpl; try discriminate.
    destruct (next_sel sels) as [a sels1].
    destruct ri as [x|]; simpl.
    - rewrite andb_false_r. simpl. apply IH.
    - destruct (sa_ready a); simpl; [apply IH|discriminate].
  Qed.

  Lemma retry_zero_no_wait : forall fuel ri st sels,
    rr_waits (retry cb fuel ri (Some 0) st sels) = [].
  Proof.
    intros. unfold retry. simpl.
    destruct fuel as [|f]; simpl; [reflexivity|].
    destruct (cb st) as [[r st1] cost]. destruct r; reflexivity.
  Qed.

  (* with timeout 0, _retry makes exactly one attempt and hands the timeout back unchanged *)
  Lemma retry_zero_out : forall fuel ri st sels v T',
    rr_out (retry cb fuel ri (Some 0) st sels) = ROk v T' -> T' = Some 0.
  Proof.
    intros fuel ri st sels v T'. unfold retry. simpl.
    destruct fuel as [|f]; simpl; [discriminate|].
    destruct (cb st) as [[r st1] cost]. destruct r; simpl; try discriminate.
    intro H; inversion H; reflexivity.
  Qed.
End RetryProofs.
