(* C11: budget properties of _retry. *)
From Coq Require Import ZArith List Bool Lia.
From EN Require Import Lib.Bytes IO.Retry.
Import ListNotations.
Open Scope Z_scope.

Section RetryProofs.
  Variables St R : Type.
  Variable cb : St -> cbres R * St * Z.

  Lemma retry_zero_no_wait : forall fuel ri st sels,
    rr_waits (retry cb fuel ri (Some 0) st sels) = [].
  Proof.
    intros. unfold retry. simpl.
    destruct fuel as [|f]; simpl; [reflexivity|].
    destruct (cb st) as [[r st1] cost]. destruct r; reflexivity.
  Qed.
End RetryProofs.
