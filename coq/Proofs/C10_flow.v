(* Read flow control (Conc/SockFlow.v): the layer never loses anything either, a read event always finds room, and the
   slow path of _wait_for_data never meets a paused transport. *)
From Coq Require Import List Bool Arith Lia.
From EN Require Import Lib.Bytes Conc.SockReader Conc.SockReaderSpec Conc.SockFlow Proofs.C10_inv.
Import ListNotations.

Ltac break_inner :=
  repeat match goal with
         | |- context [match ?x with _ => _ end] =>
             lazymatch x with
             | context [match _ with _ => _ end] => fail
             | _ => destruct x eqn:?; simpl in *
             end
         end.
Ltac unfold_sock :=
  unfold step, call, data, eof_received, connection_lost, cancel, wake, turn, resume, finish, park,
         wakeup_read_waiter, schedule_wakeup.

(* ---- how the protocol steps touch the buffer *)
Lemma data_internal : forall s b s' o, uses_ext true s = false -> data true s b = (s', o) ->
  (o = ODisabled /\ s' = s) \/
  (exists fill, o = OData (length b) None fill /\ ibuf s' = ibuf s ++ b /\ lost s' = lost s /\ lost s = false).
Proof.
  intros s b s' o Hu H. destruct s as [ib ex ed w e lo le p mc c n dl r]. unfold uses_ext in Hu. simpl in *.
  revert H. unfold_sock; simpl. break_inner; simpl; intro H; inversion H; subst; simpl; auto;
    try discriminate; right; eexists; repeat split; try reflexivity;
    destruct lo; simpl in *; try discriminate; reflexivity.
Qed.

Lemma data_external : forall s b s' o, uses_ext true s = true -> data true s b = (s', o) ->
  ibuf s' = ibuf s /\ lost s' = lost s.
Proof.
  intros s b s' o Hu H. destruct s as [ib ex ed w e lo le p mc c n dl r]. unfold uses_ext in Hu. simpl in *.
  revert H. unfold_sock; simpl. break_inner; simpl; intro H; inversion H; subst; simpl; auto; discriminate.
Qed.

Lemma other_ibuf : forall s l,
  match l with
  | LData _ | LLost _ | LWake => True
  | _ => ibuf (fst (step true s l)) = ibuf s /\ lost (fst (step true s l)) = lost s
  end.
Proof.
  intros s l. destruct s as [ib ex ed w e lo le p mc c n dl r].
  destruct l; try exact I; unfold_sock; simpl; break_inner; simpl; split; reflexivity.
Qed.

Lemma wake_ibuf : forall s s' o, wake true s = (s', o) ->
  lost s' = lost s /\
  (ibuf s' = ibuf s \/
   (exists k q b, ibuf s' = skipn k (ibuf s) /\ cur s = IStep :: q /\ internal_return s = true /\ o = ORes (RBytes b)) \/
   (exists d, ibuf s' = d ++ ibuf s /\ o = ORes RCancelled)).
Proof.
  intros s s' o H. destruct s as [ib ex ed w e lo le p mc c n dl r]. unfold internal_return. simpl in *.
  revert H. unfold_sock; simpl. break_inner; simpl; intro H; inversion H; subst; simpl; split; auto;
    try (right; left; do 3 eexists; repeat split; try reflexivity; simpl;
         try match goal with Hc : _ || _ = false |- _ => apply orb_false_iff in Hc; destruct Hc as (-> & _) end;
         reflexivity);
    try (right; right; eexists; split; reflexivity).
Qed.

Lemma lost_sticky : forall s l, lost s = true -> lost (fst (step true s l)) = true.
Proof.
  intros s l H. destruct s as [ib ex ed w e lo le p mc c n dl r]. simpl in H. subst lo.
  destruct l; unfold_sock; simpl; break_inner; simpl; reflexivity.
Qed.

Lemma connection_lost_lost : forall s exc, lost (fst (connection_lost s exc)) = true.
Proof.
  intros s exc. destruct s as [ib ex ed w e lo le p mc c n dl r].
  unfold_sock; simpl. break_inner; simpl; try reflexivity; assumption.
Qed.

Section Flow.
  Variable p : fparams.
  Hypothesis lo_lt_hi : flo p < fhigh p.
  Hypothesis hi_le_max : fhigh p <= fmax p.

  Definition FI (f : fstate) : Prop :=
    lost (fs f) = true \/
    ((fpaused f = false -> length (ibuf (fs f)) < fhigh p) /\
     (fpaused f = true -> flo p < length (ibuf (fs f))) /\
     length (ibuf (fs f)) <= fcap f /\ fmax p <= fcap f).

  Lemma fi_init : FI (finit p).
  Proof. right. simpl. repeat split; try discriminate; lia. Qed.

  Lemma fstep_fs_inv : forall f l, Inv true (fs f) -> Inv true (fs (fst (fstep true p f l))).
  Proof.
    intros f l H. destruct l; simpl.
    - pose proof (call_inv true (fs f) (ORecv k) H) as Hc. destruct (call (fs f) (ORecv k)); exact Hc.
    - pose proof (call_inv true (fs f) (OInto k) H) as Hc. destruct (call (fs f) (OInto k)); exact Hc.
    - destruct (fpaused f); [exact H|]. destruct (uses_ext true (fs f)).
      + pose proof (data_inv true (fs f) b H (fun Hf => False_ind _ (Bool.diff_true_false Hf))) as Hd.
        destruct (data true (fs f) b); exact Hd.
      + pose proof (data_inv true (fs f) (firstn (fcap f - length (ibuf (fs f))) b) H
                      (fun Hf => False_ind _ (Bool.diff_true_false Hf))) as Hd.
        destruct (data true (fs f) (firstn (fcap f - length (ibuf (fs f))) b)) as [s' o]. destruct o; exact Hd.
    - destruct (fpaused f); [exact H|].
      pose proof (eof_inv true (fs f) H) as He. destruct (eof_received (fs f)); exact He.
    - pose proof (lost_inv true (fs f) exc H) as He. destruct (connection_lost (fs f) exc); exact He.
    - pose proof (cancel_inv true (fs f) H (fun Hf => False_ind _ (Bool.diff_true_false Hf))) as He.
      destruct (cancel (fs f)); exact He.
    - pose proof (wake_inv true (fs f) H) as He. destruct (wake true (fs f)); exact He.
    - pose proof (turn_inv true (fs f) H) as He. destruct (turn (fs f)); exact He.
  Qed.

  Lemma fstep_fi : forall f l, FI f -> FI (fst (fstep true p f l)).
  Proof.
    intros f l H.
    destruct (lost (fs f)) eqn:Hl.
    { (* once the connection is lost, it stays lost *)
      left. pose proof (lost_sticky (fs f) l Hl) as Hs.
      destruct l; simpl in *.
      - destruct (call (fs f) (ORecv k)); exact Hs.
      - destruct (call (fs f) (OInto k)); exact Hs.
      - destruct (fpaused f); [exact Hl|]. unfold data in *. rewrite Hl in *. simpl in *.
        destruct (uses_ext true (fs f)); simpl; exact Hl.
      - destruct (fpaused f); [exact Hl|]. destruct (eof_received (fs f)); exact Hs.
      - destruct (connection_lost (fs f) exc); exact Hs.
      - destruct (cancel (fs f)); exact Hs.
      - destruct (wake true (fs f)); exact Hs.
      - destruct (turn (fs f)); exact Hs. }
    assert (HFI : FI f) by exact H.
    destruct H as [H|(Hf & Ht & Hc & Hm)]; [congruence|].
    assert (Hsame : forall s' b0, ibuf s' = ibuf (fs f) -> FI (fmk s' (fpaused f) (fcap f)) \/ b0 = true).
    { intros s' b0 Hi. left. right. simpl. rewrite Hi. repeat split; assumption. }
    destruct l; simpl.
    - pose proof (other_ibuf (fs f) (LRecv k)) as (Hi & _). simpl in Hi.
      destruct (call (fs f) (ORecv k)) as [s' o]. simpl in *. right. simpl. rewrite Hi. repeat split; assumption.
    - pose proof (other_ibuf (fs f) (LRecvInto k)) as (Hi & _). simpl in Hi.
      destruct (call (fs f) (OInto k)) as [s' o]. simpl in *. right. simpl. rewrite Hi. repeat split; assumption.
    - destruct (fpaused f) eqn:Hp; [exact HFI|].
      destruct (uses_ext true (fs f)) eqn:Hu.
      + destruct (data true (fs f) b) as [s' o] eqn:Hd. destruct (data_external _ _ _ _ Hu Hd) as (Hi & _).
        right. simpl. rewrite Hi. repeat split; assumption.
      + set (room := fcap f - length (ibuf (fs f))).
        destruct (data true (fs f) (firstn room b)) as [s' o] eqn:Hd.
        destruct (data_internal _ _ _ _ Hu Hd) as [(-> & ->) | (fill & -> & Hi & Hl' & _)].
        * right. simpl. repeat split; assumption.
        * right. simpl. unfold maybe_pause. rewrite Hi, app_length, Hl', Hl. simpl. rewrite andb_true_r.
          assert (Hlen : length (firstn room b) <= room) by (rewrite firstn_length; lia).
          destruct (Nat.leb (fhigh p) (length (ibuf (fs f)) + length (firstn room b))) eqn:E;
            [apply Nat.leb_le in E | apply Nat.leb_gt in E]; repeat split; intros; try discriminate; unfold room in *; lia.
    - destruct (fpaused f) eqn:Hp; [exact HFI|].
      pose proof (other_ibuf (fs f) LEof) as (Hi & _). simpl in Hi.
      destruct (eof_received (fs f)) as [s' o]. simpl in *. right. simpl. rewrite Hi. repeat split; assumption.
    - (* connection_lost *)
      left. pose proof (connection_lost_lost (fs f) exc) as Hcl.
      destruct (connection_lost (fs f) exc) as [s' o]. exact Hcl.
    - pose proof (other_ibuf (fs f) LCancel) as (Hi & _). simpl in Hi.
      destruct (cancel (fs f)) as [s' o]. simpl in *. right. simpl. rewrite Hi. repeat split; assumption.
    - (* wake *)
      destruct (wake true (fs f)) as [s' o] eqn:Hw.
      destruct (wake_ibuf _ _ _ Hw) as (Hl' & Hcases). right. simpl.
      assert (Hres : forall n p1, (p1 = false -> n < fhigh p) ->
                (maybe_resume p s' p1 = false -> length (ibuf s') = n -> n < fhigh p) /\
                (maybe_resume p s' p1 = true -> length (ibuf s') = n -> flo p < n)).
      { intros n p1 Hp1. unfold maybe_resume. rewrite Hl', Hl. simpl. rewrite andb_true_r.
        destruct p1; simpl.
        - destruct (Nat.leb (length (ibuf s')) (flo p)) eqn:E; [apply Nat.leb_le in E | apply Nat.leb_gt in E];
            split; intros; try discriminate; lia.
        - split; intros; [auto | discriminate]. }
      destruct Hcases as [Hi | [(k & q & b & Hi & Hcur & Hint & ->) | (d & Hi & ->)]].
      + rewrite Hi, Nat.ltb_irrefl, Nat.max_l by lia.
        destruct (match cur (fs f) with IStep :: _ => match o with ORes (RBytes _) => internal_return (fs f) | _ => false end | [] => false end).
        * destruct (Hres (length (ibuf (fs f))) (fpaused f) Hf) as (A & B).
          repeat split; intros; try assumption; [apply A | apply B]; auto; rewrite Hi; reflexivity.
        * repeat split; assumption.
      + assert (Hle : length (ibuf s') <= length (ibuf (fs f))) by (rewrite Hi, skipn_length; lia).
        replace (Nat.ltb (length (ibuf (fs f))) (length (ibuf s'))) with false by (symmetry; apply Nat.ltb_ge; exact Hle).
        rewrite Hcur, Hint.
        destruct (Hres (length (ibuf s')) (fpaused f)) as (A & B); [intro Hp0; specialize (Hf Hp0); lia|].
        repeat split; intros; try lia; [apply A | apply B]; auto.
      + rewrite Hi, app_length.
        assert (Hnoint : match cur (fs f) with IStep :: _ => false | [] => false end = false) by (destruct (cur (fs f)) as [|[] ?]; reflexivity).
        replace (match cur (fs f) with IStep :: _ => match ORes RCancelled with ORes (RBytes _) => internal_return (fs f) | _ => false end | [] => false end) with false
          by (destruct (cur (fs f)) as [|[] ?]; reflexivity).
        destruct (Nat.ltb (length (ibuf (fs f))) (length d + length (ibuf (fs f)))) eqn:Eg.
        * unfold maybe_pause. rewrite Hi, app_length, Hl', Hl. simpl. rewrite andb_true_r.
          destruct (fpaused f) eqn:Hp; simpl.
          -- specialize (Ht eq_refl). repeat split; intros; try discriminate; lia.
          -- destruct (Nat.leb (fhigh p) (length d + length (ibuf (fs f)))) eqn:E;
               [apply Nat.leb_le in E | apply Nat.leb_gt in E]; repeat split; intros; try discriminate; lia.
        * apply Nat.ltb_ge in Eg. assert (length d = 0) by lia.
          repeat split; intros; try lia; [specialize (Hf H0) | specialize (Ht H0)]; lia.
    - pose proof (other_ibuf (fs f) LTurn) as (Hi & _). simpl in Hi.
      destruct (turn (fs f)) as [s' o]. simpl in *. right. simpl. rewrite Hi. repeat split; assumption.
  Qed.

  Lemma fexec_fst_cons : forall f l ls,
    fst (fexec true p f (l :: ls)) = fst (fexec true p (fst (fstep true p f l)) ls).
  Proof.
    intros. simpl. destruct (fstep true p f l) as [f1 o]. simpl. destruct (fexec true p f1 ls). reflexivity.
  Qed.

  Lemma fexec_inv : forall ls f, Inv true (fs f) -> FI f ->
    Inv true (fs (fst (fexec true p f ls))) /\ FI (fst (fexec true p f ls)).
  Proof.
    induction ls as [|l ls IH]; intros f HI HF; [split; assumption|].
    rewrite fexec_fst_cons. apply IH; [apply fstep_fs_inv | apply fstep_fi]; assumption.
  Qed.

  Lemma flow_no_loss_proof : forall ls, no_loss_at (fs (frun true p ls)).
  Proof.
    intro ls. unfold frun.
    destruct (fexec_inv ls (finit p) (inv_init true) fi_init) as (HI & _). exact (inv_no_loss _ _ HI).
  Qed.

  Lemma flow_bounds_proof : forall ls,
    let f := frun true p ls in
    lost (fs f) = false ->
    (fpaused f = false -> length (ibuf (fs f)) < fcap f) /\
    (ibuf (fs f) = [] -> fpaused f = false) /\
    (fpaused f = true -> flo p < length (ibuf (fs f))) /\
    (fpaused f = false -> length (ibuf (fs f)) < fhigh p).
  Proof.
    intros ls f Hl. unfold f, frun in *.
    destruct (fexec_inv ls (finit p) (inv_init true) fi_init) as (_ & [HF | (Hf & Ht & Hc & Hm)]); [congruence|].
    repeat split; auto.
    - intro Hp. specialize (Hf Hp). lia.
    - intro Hnil. destruct (fpaused (fst (fexec true p (finit p) ls))) eqn:Hp; [|reflexivity].
      specialize (Ht eq_refl). rewrite Hnil in Ht. simpl in Ht. lia.
  Qed.
End Flow.

(* ---- no deadlock: a paused transport always has more than the low-water mark parked for the application, and one
   receive that brings the fill level down to the low-water mark resumes it *)
From EN Require Import Proofs.C10_queue.

Lemma fstep_is_step : forall p f l,
  fs (fst (fstep true p f l)) = fs f \/ exists l', fs (fst (fstep true p f l)) = fst (step true (fs f) l').
Proof.
  intros p f l. destruct l; simpl.
  - right. exists (LRecv k). simpl. destruct (call (fs f) (ORecv k)); reflexivity.
  - right. exists (LRecvInto k). simpl. destruct (call (fs f) (OInto k)); reflexivity.
  - destruct (fpaused f); [left; reflexivity|]. destruct (uses_ext true (fs f)).
    + right. exists (LData b). simpl. destruct (data true (fs f) b); reflexivity.
    + right. exists (LData (firstn (fcap f - length (ibuf (fs f))) b)). simpl.
      destruct (data true (fs f) (firstn (fcap f - length (ibuf (fs f))) b)) as [s' o]. destruct o; reflexivity.
  - destruct (fpaused f); [left; reflexivity|]. right. exists LEof. simpl. destruct (eof_received (fs f)); reflexivity.
  - right. exists (LLost exc). simpl. destruct (connection_lost (fs f) exc); reflexivity.
  - right. exists LCancel. simpl. destruct (cancel (fs f)); reflexivity.
  - right. exists LWake. simpl. destruct (wake true (fs f)); reflexivity.
  - right. exists LTurn. simpl. destruct (turn (fs f)); reflexivity.
Qed.

Lemma fexec_q : forall p ls f, Inv true (fs f) -> Q (fs f) ->
  Inv true (fs (fst (fexec true p f ls))) /\ Q (fs (fst (fexec true p f ls))).
Proof.
  intros p. induction ls as [|l ls IH]; intros f HI HQ; [split; assumption|].
  rewrite fexec_fst_cons. apply IH.
  - apply fstep_fs_inv. exact HI.
  - destruct (fstep_is_step p f l) as [E | (l' & E)]; rewrite E; [exact HQ | apply step_q; assumption].
Qed.

Section NoDeadlock.
  Variable p : fparams.
  Hypothesis lo_lt_hi : flo p < fhigh p.
  Hypothesis hi_le_max : fhigh p <= fmax p.

  Lemma flow_no_deadlock_proof : forall ls,
    let f := frun true p ls in
    lost (fs f) = false ->
    (* a fill level at or below the low-water mark is never paused *)
    (length (ibuf (fs f)) <= flo p -> fpaused f = false) /\
    (* a paused transport has bytes parked for the application ... *)
    (fpaused f = true -> ibuf (fs f) <> []) /\
    (* ... and the application taking them (down to the low-water mark) resumes it *)
    (fpaused f = true -> tpc (fs f) = PIdle ->
     forall k (into : bool), k <> 0 -> length (ibuf (fs f)) - k <= flo p ->
       fpaused (fst (fexec true p f [if into then LRecvInto k else LRecv k; LTurn; LWake])) = false).
  Proof.
    intros ls f Hl.
    destruct (flow_bounds_proof p lo_lt_hi hi_le_max ls Hl) as (_ & _ & Hp & _). fold f in Hp.
    split; [|split].
    - intro Hle. destruct (fpaused f) eqn:E; [|reflexivity]. specialize (Hp eq_refl). lia.
    - intros E Hnil. specialize (Hp E). rewrite Hnil in Hp. simpl in Hp. lia.
    - intros E Hidle k into Hk Hlen.
      destruct (fexec_q p ls (finit p) (inv_init true) q_init) as (HI & HQ). fold (frun true p ls) in HI, HQ. fold f in HI, HQ.
      specialize (Hp E).
      destruct (inv_idle _ _ HI Hidle) as (Hw & Hx & Hd & Hm).
      pose proof (inv_lost_exc _ _ HI Hl) as Hle.
      unfold Q in HQ. rewrite Hidle in HQ. apply app_eq_nil in HQ. destruct HQ as (Hc & Hn).
      destruct f as [s pa ca]. simpl in *.
      destruct s as [ib ex ed w e lo le pc mc c n dl r]. simpl in *. subst.
      destruct k as [|k]; [congruence|]. destruct ib as [|b0 ib]; [simpl in Hp; lia|].
      assert (Hsk : (length (skipn (S k) (b0 :: ib)) <=? flo p) = true).
      { apply Nat.leb_le. rewrite skipn_length. simpl in *. lia. }
      unfold byte in Hsk.
      destruct into;
        lazy beta iota zeta delta -[skipn firstn length Nat.leb Nat.ltb Nat.max flo fhigh fmax];
        rewrite Hsk;
        match goal with |- context [Nat.ltb ?a ?b] => destruct (Nat.ltb a b) end; reflexivity.
  Qed.
End NoDeadlock.
