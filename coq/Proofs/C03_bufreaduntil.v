(* C03/C15 bridge, buffer-filling path: [consumer_ok_rel] for the real buffered consumer model
   (BufferedStreamDataConsumer) over the buffered read_until framer (_buffered_readuntil), with
   G = safe band of the generator's own limit ([safe sep (limit - 1 - length sep)]) and spec = [spec_events].
   Built on the lead's Proofs/BufReadUntil_proofs.v (bcround, bscan_found, bscan_none, save_remainder). *)
From Coq Require Import List Arith Bool Lia.
From EN Require Import Lib.Bytes Frame.Framer Frame.BufReadUntil Stream.Consumer Stream.SpecDecode Stream.Endpoint
  Stream.EndpointSpec Proofs.Bytes_proofs Proofs.ReadUntil_proofs Proofs.BufReadUntil_proofs Proofs.C03_readuntil.
Import ListNotations.

Lemma firstn_length_firstn : forall {A} k (l : list A), firstn (length (firstn k l)) l = firstn k l.
Proof.
  intros A k l. rewrite firstn_length. destruct (le_lt_dec k (length l)).
  - rewrite Nat.min_l by lia. reflexivity.
  - rewrite Nat.min_r by lia. rewrite !firstn_all2 by lia. reflexivity.
Qed.

Section BRUBridge.
  Context {P : Type}.
  Variable sep : bytes.
  Variable limit : nat.
  Variable keep_end : bool.
  Variable dec : decoder P.
  Variable sizehint : nat.          (* = max_recv_size; the allocation is [limit] whatever it is *)
  Hypothesis sep_ne : sep <> [].
  Hypothesis limit_ok : length sep + 1 <= limit.

  Let sl := length sep.
  Let L := limit - 1 - length sep.
  Notation F := (bru_framer sep limit keep_end dec).
  Definition BM := buf_machine (bru_framer sep limit keep_end dec) sizehint.

  Notation spec_ev := (spec_events sep keep_end dec).
  Definition bru_spec (d : bytes) : list (nres P) := fst (spec_events sep keep_end dec d).
  Definition bru_G (d : bytes) : Prop := safe sep (limit - 1 - length sep) d.

  Notation mkb' := (mkb sep limit keep_end dec).
  Notation brep' := (brep sep limit keep_end dec).
  Notation bpend' := (bpend sep limit keep_end dec).
  Notation bcres' := (bcres sep limit keep_end dec sizehint).
  Notation bscan' := (bscan sep limit keep_end dec).
  Notation fev := (frame_event sep keep_end dec).

  Let ev_step := @spec_events_step P sep L keep_end dec sep_ne.
  Let ev_none := @spec_events_none P sep keep_end dec.
  Let ev_app := @spec_events_app P sep L keep_end dec sep_ne.
  Let sf_app_l := @safe_app_l P sep L keep_end dec sep_ne.
  Let sf_tail_app := @safe_tail_app P sep L keep_end dec sep_ne.
  Let b_nosep := @brep_nosep P sep limit keep_end dec sep_ne limit_ok.
  Let whole_app := @spec_whole_app P sep L keep_end dec sep_ne.
  Let one_frame := @spec_one_frame P sep L keep_end dec 1 sep_ne (Nat.lt_0_succ 0).
  Let s_nil := @spec_nil P sep L keep_end dec sep_ne.
  Let tail_bound := @safe_tail_bound P sep limit keep_end dec sep_ne limit_ok.

  Definition bru_R (c : bcstate F) (d : bytes) (k : nat) : Prop :=
    exists d1 w, d = d1 ++ w /\ snd (spec_ev d1) = [] /\ length (fst (spec_ev d1)) = k /\
                 (bpend' c w \/ brep' c w).
  Definition bru_D (c : bcstate F) (d : bytes) : Prop :=
    exists d1 w, d = d1 ++ w /\ snd (spec_ev d1) = [] /\ brep' c w.

  Lemma sl_pos_bb : 1 <= sl.
  Proof. unfold sl. destruct sep; [congruence|simpl; lia]. Qed.

  (* the scan on the received bytes [b] (non-empty, safe, at most [limit] long), memory [m], after the whole frames [d1] *)
  Lemma bscan_step : forall d1 (m : bytes) st0 b off,
      snd (spec_ev d1) = [] -> b <> [] -> bru_inv sep b off -> safe sep L b ->
      length m = limit -> length b <= limit -> firstn (length b) m = b ->
      let k := length (fst (spec_ev d1)) in
      match bcres' m st0 (bscan' b off) with
      | (c', RStop) => length (bru_spec (d1 ++ b)) = k /\ bru_D c' (d1 ++ b)
      | (c', r) => nth_error (bru_spec (d1 ++ b)) k = Some r /\ bru_R c' (d1 ++ b) (S k)
      end.
  Proof.
    intros d1 m st0 b off Hd1 Hne Hinv Hs Hm Hbl Hfm k. pose proof sl_pos_bb as Hsl.
    unfold bru_spec. rewrite (whole_app _ b Hd1). cbn [fst].
    destruct (find0 sep b) as [p|] eqn:E.
    - rewrite (bscan_found sep limit keep_end dec sep_ne limit_ok _ _ _ Hinv E). fold sl.
      pose proof (find0_Some _ _ _ E) as [Hocc _]. pose proof (occ_bound _ _ _ sep_ne Hocc) as Hb. fold sl in Hb.
      assert (Hnth : nth_error (fst (spec_ev d1) ++ fst (spec_ev b)) k = Some (fev b p)).
      { rewrite nth_error_app2 by (unfold k; lia). unfold k. rewrite Nat.sub_diag.
        rewrite (ev_step _ _ E). reflexivity. }
      assert (HR : bru_R (bc_save_remainder F sizehint (mkb' (Some m) st0 0 None None) (skipn (p + sl) b))
                         (d1 ++ b) (S k)).
      { exists (d1 ++ firstn (p + sl) b), (skipn (p + sl) b).
        split; [rewrite <- app_assoc, firstn_skipn; reflexivity|].
        rewrite (whole_app _ _ Hd1). unfold sl. rewrite (one_frame _ _ E). cbn [fst snd].
        split; [reflexivity|]. split; [rewrite app_length; simpl; unfold k; lia|]. left.
        apply (save_remainder sep limit keep_end dec sizehint sep_ne limit_ok); [exact Hm|].
        rewrite skipn_length. lia. }
      unfold frame_event in Hnth. fold sl in Hnth.
      destruct (dec (firstn (if keep_end then p + sl else p) b)); cbn [bcres]; split; auto.
    - pose proof (tail_bound _ Hs E) as Hbound.
      destruct (bscan_none sep limit keep_end dec sep_ne limit_ok _ _ Hinv E) as [Hn _].
      destruct (Hn Hbound) as (off' & Hscan & Hinv'). rewrite Hscan. cbn [bcres].
      rewrite (ev_none _ E). cbn [fst]. rewrite app_nil_r. split; [reflexivity|].
      exists d1, b. split; [reflexivity|]. split; [exact Hd1|].
      apply brep_wait; try assumption. intros _; right; right; exact I.
  Qed.

  Lemma spec_len_nosep : forall d1 w, snd (spec_ev d1) = [] -> find0 sep w = None ->
      length (bru_spec (d1 ++ w)) = length (fst (spec_ev d1)).
  Proof.
    intros d1 w Hd1 E. unfold bru_spec. rewrite (whole_app _ w Hd1). cbn [fst].
    rewrite (ev_none _ E). cbn [fst]. rewrite app_nil_r. reflexivity.
  Qed.

  Lemma bru_ok_drain : forall c d k c' r, bru_G d -> bru_R c d k -> mdrain BM c = (c', r) ->
      match r with
      | RStop => k = length (bru_spec d) /\ bru_D c' d
      | _ => nth_error (bru_spec d) k = Some r /\ bru_R c' d (S k)
      end.
  Proof.
    intros c d k c' r HG (d1 & w & -> & Hd1 & <- & Hc) E. cbn [BM buf_machine mdrain] in E.
    assert (Hsw : safe sep L w).
    { pose proof (sf_tail_app _ _ HG) as H. rewrite Hd1 in H. exact H. }
    assert (Hidle : forall c0, brep' c0 w -> (c', r) = (c0, RStop) ->
                    match r with
                    | RStop => length (fst (spec_ev d1)) = length (bru_spec (d1 ++ w)) /\ bru_D c' (d1 ++ w)
                    | _ => nth_error (bru_spec (d1 ++ w)) (length (fst (spec_ev d1))) = Some r /\ bru_R c' (d1 ++ w) (S (length (fst (spec_ev d1))))
                    end).
    { intros c0 Hc0 E0. inversion E0; subst c' r. split.
      - rewrite (spec_len_nosep _ _ Hd1 (b_nosep _ _ Hc0)). auto.
      - exists d1, w. auto. }
    assert (Hrep : forall c0, c = c0 -> brep' c0 w ->
                   match r with
                   | RStop => length (fst (spec_ev d1)) = length (bru_spec (d1 ++ w)) /\ bru_D c' (d1 ++ w)
                   | _ => nth_error (bru_spec (d1 ++ w)) (length (fst (spec_ev d1))) = Some r /\ bru_R c' (d1 ++ w) (S (length (fst (spec_ev d1))))
                   end).
    { intros c0 -> Hc0. inversion Hc0 as [m st Hm | m off w0 Hm Hwne Hwl Hwf Hinv Hnf Hx]; subst.
      - rewrite bcnext_none_idle in E. apply (Hidle _ Hc0). symmetry. exact E.
      - apply (Hidle _ Hc0). rewrite <- E. reflexivity. }
    destruct Hc as [Hc | Hc]; [|apply (Hrep c eq_refl Hc)].
    pose proof (bpend_len sep limit keep_end dec limit_ok _ _ Hc) as Hrl.
    inversion Hc as [c0 Hc0 | m r0 Hm Hne Hfm]; subst.
    - apply (Hrep c eq_refl Hc0).
    - rewrite (bcnext_none_pend sep limit keep_end dec sizehint sep_ne limit_ok _ _ Hm Hne Hfm Hrl) in E.
      pose proof (bscan_step d1 m 0 w 0 Hd1 Hne (bru_inv_0 sep limit limit_ok w) Hsw Hm Hrl Hfm) as Hst. cbv zeta in Hst.
      rewrite E in Hst.
      destruct r; auto. destruct Hst as [Hl HD]. split; [symmetry; exact Hl|exact HD].
  Qed.

  Lemma bru_ok_take : forall c d avail, bru_D c d -> avail <> [] -> bru_G (d ++ avail) ->
      exists c' r n room, mtake BM c avail = Some (c', r, n, room) /\
        1 <= n <= length avail /\
        match r with
        | RStop => length (bru_spec (d ++ firstn n avail)) = length (bru_spec d) /\ bru_D c' (d ++ firstn n avail)
        | _ => nth_error (bru_spec (d ++ firstn n avail)) (length (bru_spec d)) = Some r /\
               bru_R c' (d ++ firstn n avail) (S (length (bru_spec d)))
        end.
  Proof.
    intros c d avail (d1 & w & -> & Hd1 & Hc) Hav HG. cbn [BM buf_machine mtake].
    destruct (bcround sep limit keep_end dec sizehint sep_ne limit_ok c w avail Hc Hav) as (m & off & Hm & Hinv & Hfm & _ & Hround).
    cbv zeta in Hround.
    destruct (bc_get_write_buffer F sizehint c) as [c1 v].
    destruct Hround as (-> & Hnext & Hdne & Hdl).
    set (piece := firstn (limit - length w) avail) in *.
    destruct (bcnext F sizehint (bc_fill F c1 piece) (Some (length piece))) as [c3 r] eqn:En.
    exists c3, r, (length piece), (limit - length w).
    split; [reflexivity|].
    assert (Hpl : 1 <= length piece <= length avail).
    { split; [destruct piece; [congruence|simpl; lia]|]. unfold piece. rewrite firstn_length. lia. }
    split; [exact Hpl|].
    assert (Hfp : firstn (length piece) avail = piece) by (unfold piece; apply firstn_length_firstn).
    rewrite Hfp.
    assert (Hs : safe sep L (w ++ piece)).
    { assert (H1 : safe sep L (d1 ++ (w ++ piece))).
      { apply (sf_app_l _ (skipn (length piece) avail)). rewrite <- !app_assoc. rewrite <- Hfp at 1. rewrite firstn_skipn.
        rewrite <- app_assoc in HG. exact HG. }
      pose proof (sf_tail_app _ _ H1) as H. rewrite Hd1 in H. exact H. }
    assert (Hbne : w ++ piece <> []) by (destruct w; [exact Hdne|discriminate]).
    rewrite <- app_length in Hfm.
    pose proof (bscan_step d1 m (length w) (w ++ piece) off Hd1 Hbne Hinv Hs Hm ltac:(rewrite app_length; lia) Hfm) as Hst.
    cbv zeta in Hst.
    rewrite (spec_len_nosep _ _ Hd1 (b_nosep _ _ Hc)). rewrite <- app_assoc.
    assert (E2 : bcres' m (length w) (bscan' (w ++ piece) off) = (c3, r)) by (symmetry; exact Hnext).
    rewrite E2 in Hst. exact Hst.
  Qed.

  Theorem bru_consumer_ok_rel : consumer_ok_rel BM bru_spec bru_G bru_R bru_D.
  Proof.
    constructor.
    - intros d x H. exact (sf_app_l _ _ H).
    - intros d x. unfold bru_spec. rewrite ev_app. cbn [fst]. eexists; reflexivity.
    - intros c d (d1 & w & -> & Hd1 & Hc). exists d1, w. split; [reflexivity|]. split; [exact Hd1|].
      split; [|right; exact Hc]. symmetry. apply (spec_len_nosep _ _ Hd1 (b_nosep _ _ Hc)).
    - exact bru_ok_drain.
    - exact bru_ok_take.
  Qed.

  Lemma bru_R_init : bru_R (bcinit F) [] 0.
  Proof.
    exists [], []. split; [reflexivity|]. rewrite s_nil. split; [reflexivity|]. split; [reflexivity|].
    right. apply (brep_idle sep limit keep_end dec None 0). exact I.
  Qed.
End BRUBridge.
