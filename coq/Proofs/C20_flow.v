(* Invariants of the WriteFlowControl model over every label sequence. *)
From Coq Require Import List Arith Bool Lia.
From EN Require Import Conc.FlowControl.
Import ListNotations.

Definition task (s : wfc) (t : tid) : option ttask := nth_error (w_tasks s) t.

(* ---- upd / map on task lists *)

Lemma nth_error_upd_cases : forall {X} (l : list X) t x u y,
  nth_error (upd t x l) u = Some y -> (u = t /\ y = x) \/ (u <> t /\ nth_error l u = Some y).
Proof.
  induction l as [|a l IH]; intros t x u y H.
  - destruct t, u; simpl in H; discriminate.
  - destruct t as [|t]; destruct u as [|u]; simpl in *.
    + inversion H; auto.
    + right; split; auto.
    + right; split; auto.
    + apply IH in H. destruct H as [[E1 E2]|[N E]]; [left|right]; split; auto.
Qed.

Lemma nth_error_upd_eq : forall {X} (l : list X) t x y, nth_error l t = Some y -> nth_error (upd t x l) t = Some x.
Proof.
  induction l as [|a l IH]; intros t x y H; destruct t; simpl in *; try discriminate; auto.
  eapply IH; eauto.
Qed.

Lemma nth_error_upd_neq : forall {X} (l : list X) t x u, u <> t -> nth_error (upd t x l) u = nth_error l u.
Proof.
  induction l as [|a l IH]; intros t x u N; destruct t, u; simpl; auto; try congruence.
Qed.

Definition comp1 (dq : list fid) (st : fstate) (x : ttask) : ttask :=
  match x with
  | TParked f FPending => if mem_fid f dq then TParked f st else x
  | _ => x
  end.

Lemma complete_all_nth : forall dq st ts t, nth_error (complete_all dq st ts) t = option_map (comp1 dq st) (nth_error ts t).
Proof. intros. unfold complete_all. rewrite nth_error_map. reflexivity. Qed.

Lemma mem_fid_In : forall f l, mem_fid f l = true <-> In f l.
Proof.
  intros f l; unfold mem_fid; rewrite existsb_exists; split.
  - intros [x [Hx E]]. apply Nat.eqb_eq in E. subst; auto.
  - intros H; exists f; split; auto. apply Nat.eqb_refl.
Qed.

Lemma comp1_fid : forall dq st x f st', comp1 dq st x = TParked f st' -> exists st0, x = TParked f st0.
Proof.
  intros dq st x f st' H. destruct x as [|c|g s0]; simpl in H; try discriminate.
  destruct s0; try (inversion H; subst; eauto; fail).
  destruct (mem_fid g dq); inversion H; subst; eauto.
Qed.

Lemma NoDup_app_single : forall (l : list nat) x, NoDup l -> ~ In x l -> NoDup (l ++ [x]).
Proof.
  induction l as [|y l IH]; simpl; intros x H Hx.
  - constructor; auto using NoDup_nil.
  - inversion H; subst. constructor.
    + rewrite in_app_iff. simpl. intros [C|[C|[]]]; auto.
    + apply IH; auto.
Qed.

(* ---- remove_fid *)

Lemma remove_fid_In : forall f l x, In x (remove_fid f l) -> In x l.
Proof.
  intros f l; induction l as [|a l IH]; simpl; intros x H; auto.
  destruct (Nat.eqb f a); simpl in *; auto. destruct H; auto.
Qed.

Lemma remove_fid_keeps : forall f l x, x <> f -> In x l -> In x (remove_fid f l).
Proof.
  intros f l; induction l as [|a l IH]; simpl; intros x N H; auto.
  destruct (Nat.eqb f a) eqn:E.
  - apply Nat.eqb_eq in E. subst a. destruct H; [congruence|auto].
  - simpl. destruct H; auto.
Qed.

Lemma remove_fid_NoDup : forall f l, NoDup l -> NoDup (remove_fid f l).
Proof.
  intros f l; induction l as [|a l IH]; simpl; intros H; auto.
  inversion H; subst. destruct (Nat.eqb f a); auto.
  constructor; auto. intros C. apply remove_fid_In in C. tauto.
Qed.

Lemma remove_fid_gone : forall f l, NoDup l -> ~ In f (remove_fid f l).
Proof.
  intros f l; induction l as [|a l IH]; simpl; intros H; auto.
  inversion H; subst. destruct (Nat.eqb f a) eqn:E.
  - apply Nat.eqb_eq in E. subst; auto.
  - apply Nat.eqb_neq in E. simpl. intros [C|C]; [congruence|]. apply IH in C; auto.
Qed.

(* ---- the invariant *)

Record wfc_inv (s : wfc) : Prop := mkI {
  i_nodup : NoDup (w_deque s);
  i_dq_lt : forall f, In f (w_deque s) -> f < w_next s;
  i_tk_lt : forall t f st, task s t = Some (TParked f st) -> f < w_next s;
  i_uniq : forall t u f st st', task s t = Some (TParked f st) -> task s u = Some (TParked f st') -> t = u;
  i_in_dq : forall t f, task s t = Some (TParked f FPending) -> In f (w_deque s);
  i_live : forall t f, task s t = Some (TParked f FPending) -> w_paused s = true /\ w_lost s = false
}.

Lemma repeat_nth_idle : forall n t x, nth_error (repeat TIdle n) t = Some x -> x = TIdle.
Proof.
  induction n; intros t x H; destruct t; simpl in H; try discriminate.
  - inversion H; auto.
  - eapply IHn; eauto.
Qed.

Lemma wfc_inv_init : forall n, wfc_inv (wfc_init n).
Proof.
  intros n. constructor; simpl; unfold task; simpl; try (intros; exfalso; auto; fail).
  - constructor.
  - intros t f st H. apply repeat_nth_idle in H. discriminate.
  - intros t u f st st' H. apply repeat_nth_idle in H. discriminate.
  - intros t f H. apply repeat_nth_idle in H. discriminate.
  - intros t f H. apply repeat_nth_idle in H. discriminate.
Qed.

(* replacing a task by one that awaits nothing *)
Lemma inv_set_plain : forall s t x, wfc_inv s -> (forall f st, x <> TParked f st) -> wfc_inv (set_task t x s).
Proof.
  intros s t x [I1 I2 I3 I4 I5 I6] Hx. constructor; simpl; auto; unfold task in *; simpl.
  - intros u f st H. apply nth_error_upd_cases in H. destruct H as [[_ E]|[_ E]]; [exfalso; eapply Hx; eauto|eauto].
  - intros u v f st st' H1 H2. apply nth_error_upd_cases in H1. apply nth_error_upd_cases in H2.
    destruct H1 as [[_ E]|[_ E1]]; [exfalso; eapply Hx; eauto|].
    destruct H2 as [[_ E]|[_ E2]]; [exfalso; eapply Hx; eauto|]. eauto.
  - intros u f H. apply nth_error_upd_cases in H. destruct H as [[_ E]|[_ E]]; [exfalso; eapply Hx; eauto|eauto].
  - intros u f H. apply nth_error_upd_cases in H. destruct H as [[_ E]|[_ E]]; [exfalso; eapply Hx; eauto|eauto].
Qed.

(* a task that keeps its future but stops being pending *)
Lemma inv_set_done : forall s t f st0 st, wfc_inv s -> task s t = Some (TParked f st0) -> st <> FPending ->
  wfc_inv (set_task t (TParked f st) s).
Proof.
  intros s t f st0 st [I1 I2 I3 I4 I5 I6] Ht Hst. constructor; simpl; auto; unfold task in *; simpl.
  - intros u g st1 H. apply nth_error_upd_cases in H. destruct H as [[_ E]|[_ E]]; [inversion E; subst; eauto|eauto].
  - intros u v g st1 st2 H1 H2. apply nth_error_upd_cases in H1. apply nth_error_upd_cases in H2.
    destruct H1 as [[U1 E1]|[U1 E1]]; destruct H2 as [[U2 E2]|[U2 E2]]; subst; auto.
    + inversion E1; subst. eapply I4; eauto.
    + inversion E2; subst. eapply I4; eauto.
    + eapply I4; eauto.
  - intros u g H. apply nth_error_upd_cases in H. destruct H as [[_ E]|[_ E]]; [inversion E; congruence|eauto].
  - intros u g H. apply nth_error_upd_cases in H. destruct H as [[_ E]|[_ E]]; [inversion E; congruence|eauto].
Qed.

Lemma drain_body_inv : forall t s s' r, wfc_inv s -> task s t = Some TIdle -> drain_body t s = (s', r) -> wfc_inv s'.
Proof.
  intros t s s' r I Ht H. unfold drain_body in H.
  destruct (w_lost s) eqn:El; [inversion H; subst; auto|].
  destruct (w_paused s) eqn:Ep; simpl in H; [|inversion H; subst; auto].
  inversion H; subst; clear H. destruct I as [I1 I2 I3 I4 I5 I6].
  constructor; simpl; unfold task in *; simpl.
  - apply NoDup_app_single; auto. intros C. apply I2 in C. lia.
  - intros f Hf. apply in_app_iff in Hf. destruct Hf as [Hf|[Hf|[]]]; [apply I2 in Hf; lia|subst; lia].
  - intros u f st H. apply nth_error_upd_cases in H. destruct H as [[_ E]|[_ E]].
    + inversion E; subst. lia.
    + apply I3 in E. lia.
  - intros u v f st st' H1 H2. apply nth_error_upd_cases in H1. apply nth_error_upd_cases in H2.
    destruct H1 as [[U1 E1]|[U1 E1]]; destruct H2 as [[U2 E2]|[U2 E2]]; subst; auto.
    + inversion E1; subst. apply I3 in E2. lia.
    + inversion E2; subst. apply I3 in E1. lia.
    + eapply I4; eauto.
  - intros u f H. apply in_app_iff. apply nth_error_upd_cases in H. destruct H as [[_ E]|[_ E]].
    + inversion E; subst. right; simpl; auto.
    + left. eauto.
  - intros u f H. auto.
Qed.

(* resume_writing / connection_lost: every pending waiter is in the deque, hence completed: nobody stays pending *)
Lemma complete_all_inv : forall s st paused lost exc,
  wfc_inv s -> st <> FPending ->
  wfc_inv (mkW paused lost exc (w_deque s) (w_closing s) (complete_all (w_deque s) st (w_tasks s)) (w_next s)).
Proof.
  intros s st paused lost exc [I1 I2 I3 I4 I5 I6] Hst. constructor; simpl; auto; unfold task in *; simpl.
  - intros t f st1 H. rewrite complete_all_nth in H. destruct (nth_error (w_tasks s) t) as [x|] eqn:E; [|discriminate].
    simpl in H. inversion H. apply comp1_fid in H1. destruct H1 as [st0 E0]. subst. eauto.
  - intros t u f st1 st2 H1 H2. rewrite complete_all_nth in H1, H2.
    destruct (nth_error (w_tasks s) t) as [x|] eqn:E1; [|discriminate].
    destruct (nth_error (w_tasks s) u) as [y|] eqn:E2; [|discriminate].
    simpl in H1, H2. inversion H1. inversion H2. apply comp1_fid in H0. apply comp1_fid in H3.
    destruct H0 as [s1 X1]. destruct H3 as [s2 X2]. subst. eauto.
  - intros t f H. exfalso. rewrite complete_all_nth in H.
    destruct (nth_error (w_tasks s) t) as [x|] eqn:E; [|discriminate]. simpl in H. inversion H. clear H.
    destruct x as [|c|g s0]; simpl in H1; try discriminate.
    destruct s0; try discriminate.
    assert (In g (w_deque s)) by eauto. apply mem_fid_In in H. rewrite H in H1. inversion H1. congruence.
  - intros t f H. exfalso. rewrite complete_all_nth in H.
    destruct (nth_error (w_tasks s) t) as [x|] eqn:E; [|discriminate]. simpl in H. inversion H. clear H.
    destruct x as [|c|g s0]; simpl in H1; try discriminate.
    destruct s0; try discriminate.
    assert (In g (w_deque s)) by eauto. apply mem_fid_In in H. rewrite H in H1. inversion H1. congruence.
Qed.

Lemma fut_done_no_pending : forall f ts t, fut_done f ts = true -> nth_error ts t <> Some (TParked f FPending).
Proof.
  intros f ts t H C. unfold fut_done in H. apply negb_true_iff in H.
  assert (X : existsb (fun x => match x with TParked g FPending => Nat.eqb f g | _ => false end) ts = true).
  { apply existsb_exists. exists (TParked f FPending). split; [eapply nth_error_In; eauto|apply Nat.eqb_refl]. }
  congruence.
Qed.

Lemma wfc_step_inv : forall s l s' o, wfc_inv s -> wfc_step s l = Some (s', o) -> wfc_inv s'.
Proof.
  intros s l s' o I H. destruct l as [t| | |e|b|t|f|t]; simpl in H.
  - (* WDrain *)
    unfold get_task in H. destruct (nth_error (w_tasks s) t) as [x|] eqn:E; [|discriminate].
    destruct x; try discriminate. unfold wfc_drain in H.
    destruct (w_closing s).
    + inversion H; subst. apply inv_set_plain; auto. discriminate.
    + destruct (drain_body t s) as [s1 r] eqn:D. inversion H; subst. eapply drain_body_inv; eauto.
  - (* WPause *)
    inversion H; subst. destruct I as [I1 I2 I3 I4 I5 I6]. constructor; simpl; auto.
    intros t f Ht. split; auto. eapply I6; eauto.
  - (* WResume *)
    inversion H; subst. unfold wfc_resume. apply complete_all_inv; auto. discriminate.
  - (* WLost *)
    inversion H; subst. unfold wfc_lost. destruct (w_lost s); auto. apply complete_all_inv; auto. discriminate.
  - (* WClosing *)
    inversion H; subst. destruct I as [I1 I2 I3 I4 I5 I6]. constructor; simpl; auto.
  - (* WCancel *)
    unfold get_task in H. destruct (nth_error (w_tasks s) t) as [x|] eqn:E; [|discriminate].
    destruct x as [|c|f st]; try discriminate; inversion H; subst.
    + apply inv_set_plain; auto. discriminate.
    + eapply inv_set_done; eauto. discriminate.
  - (* WCallback *)
    destruct (mem_fid f (w_deque s) && fut_done f (w_tasks s)) eqn:C; [|discriminate].
    apply andb_true_iff in C. destruct C as [C1 C2]. inversion H; subst; clear H.
    destruct I as [I1 I2 I3 I4 I5 I6]. constructor; simpl; auto.
    + apply remove_fid_NoDup; auto.
    + intros g Hg. apply remove_fid_In in Hg. auto.
    + intros t g Ht. apply remove_fid_keeps; eauto.
      intros Eq; subst g. eapply fut_done_no_pending; eauto.
  - (* WWake *)
    unfold get_task in H. destruct (nth_error (w_tasks s) t) as [x|] eqn:E; [|discriminate].
    destruct x as [|c|f st]; try discriminate.
    + destruct c.
      * inversion H; subst. apply inv_set_plain; auto. discriminate.
      * destruct (drain_body t (set_task t TIdle s)) as [s1 r] eqn:D. inversion H; subst.
        eapply drain_body_inv; [| |eauto].
        -- apply inv_set_plain; auto. discriminate.
        -- unfold task. simpl. eapply nth_error_upd_eq; eauto.
    + destruct (res_of st); [|discriminate]. inversion H; subst. apply inv_set_plain; auto. discriminate.
Qed.

Lemma wfc_run_inv : forall ls s s', wfc_inv s -> wfc_run s ls = Some s' -> wfc_inv s'.
Proof.
  induction ls as [|l ls IH]; simpl; intros s s' I H.
  - inversion H; subst; auto.
  - destruct (wfc_step s l) as [[s1 o]|] eqn:E; [|discriminate].
    eapply IH; [|eauto]. eapply wfc_step_inv; eauto.
Qed.

Theorem wfc_reachable_inv : forall n ls s, wfc_run (wfc_init n) ls = Some s -> wfc_inv s.
Proof. intros. eapply wfc_run_inv; eauto. apply wfc_inv_init. Qed.

(* ---- statements *)

Lemma complete_pending : forall s st t f, wfc_inv s -> task s t = Some (TParked f FPending) ->
  nth_error (complete_all (w_deque s) st (w_tasks s)) t = Some (TParked f st).
Proof.
  intros s st t f I H. rewrite complete_all_nth. unfold task in H. rewrite H. simpl.
  assert (In f (w_deque s)) by (eapply i_in_dq; eauto). apply mem_fid_In in H0. rewrite H0. reflexivity.
Qed.

Lemma complete_other : forall dq st ts t x, nth_error ts t = Some x -> (forall f, x <> TParked f FPending) ->
  nth_error (complete_all dq st ts) t = Some x.
Proof.
  intros dq st ts t x H N. rewrite complete_all_nth, H. simpl. f_equal.
  destruct x as [|c|f s0]; auto. destruct s0; auto. exfalso. eapply N; eauto.
Qed.

Lemma all_waiters_resumed_proof :
  forall n ls s, wfc_run (wfc_init n) ls = Some s ->
    (forall t f, task s t = Some (TParked f FPending) ->
       task (wfc_resume s) t = Some (TParked f FResult) /\
       wfc_step (wfc_resume s) (WWake t) = Some (set_task t TIdle (wfc_resume s), [ODrain t ROk])) /\
    (forall t x, task s t = Some x -> (forall f, x <> TParked f FPending) -> task (wfc_resume s) t = Some x) /\
    w_deque (wfc_resume s) = w_deque s.
Proof.
  intros n ls s R. apply wfc_reachable_inv in R. split; [|split]; auto.
  - intros t f H. assert (E : task (wfc_resume s) t = Some (TParked f FResult)).
    { unfold task, wfc_resume; simpl. apply complete_pending; auto. }
    split; auto. simpl. unfold get_task. unfold task in E. rewrite E. reflexivity.
  - intros t x H N. unfold task, wfc_resume; simpl. apply complete_other; auto.
Qed.

(* a pending waiter is completed normally by resume_writing only *)
Lemma resumed_only_by_resume_proof :
  forall s l s' o t f, wfc_step s l = Some (s', o) ->
    task s t = Some (TParked f FPending) -> task s' t = Some (TParked f FResult) -> l = WResume.
Proof.
  intros s l s' o t f H P Q. unfold task in *. destruct l as [u| | |e|b|u|g|u]; simpl in H; auto; exfalso.
  - unfold get_task in H. destruct (nth_error (w_tasks s) u) as [x|] eqn:E; [|discriminate].
    destruct x; try discriminate. unfold wfc_drain, drain_body in H.
    destruct (w_closing s); [|destruct (w_lost s); [|destruct (negb (w_paused s))]]; inversion H; subst; simpl in Q;
      try congruence; apply nth_error_upd_cases in Q; destruct Q as [[U X]|[U X]]; try congruence; subst; congruence.
  - inversion H; subst. simpl in Q. congruence.
  - inversion H; subst. unfold wfc_lost in Q. destruct (w_lost s); [congruence|]. simpl in Q.
    rewrite complete_all_nth, P in Q. simpl in Q. destruct (mem_fid f (w_deque s)); inversion Q.
  - inversion H; subst. simpl in Q. congruence.
  - unfold get_task in H. destruct (nth_error (w_tasks s) u) as [x|] eqn:E; [|discriminate].
    destruct x as [|c|g st]; try discriminate; inversion H; subst; simpl in Q;
      apply nth_error_upd_cases in Q; destruct Q as [[U X]|[U X]]; try congruence.
  - destruct (mem_fid g (w_deque s) && fut_done g (w_tasks s)); [|discriminate]. inversion H; subst. simpl in Q. congruence.
  - unfold get_task in H. destruct (nth_error (w_tasks s) u) as [x|] eqn:E; [|discriminate].
    destruct x as [|c|g st]; try discriminate.
    + destruct c.
      * inversion H; subst. simpl in Q. apply nth_error_upd_cases in Q. destruct Q as [[U X]|[U X]]; congruence.
      * unfold drain_body in H. simpl in H.
        destruct (w_lost s); [|destruct (negb (w_paused s))]; inversion H; subst; simpl in Q;
          repeat (match goal with H0 : nth_error (upd _ _ _) _ = Some _ |- _ =>
                    apply nth_error_upd_cases in H0; destruct H0 as [[? ?]|[? H0]]; try congruence end); congruence.
    + destruct (res_of st); [|discriminate]. inversion H; subst. simpl in Q.
      apply nth_error_upd_cases in Q. destruct Q as [[U X]|[U X]]; congruence.
Qed.

Lemma all_waiters_failed_on_loss_proof :
  forall n ls s e, wfc_run (wfc_init n) ls = Some s ->
    (forall t f, task s t = Some (TParked f FPending) ->
       task (wfc_lost e s) t = Some (TParked f (FExc e)) /\
       wfc_step (wfc_lost e s) (WWake t)
         = Some (set_task t TIdle (wfc_lost e s), [ODrain t (if e then RConnExc else RErrno)])) /\
    (forall t f, task (wfc_lost e s) t <> Some (TParked f FPending)).
Proof.
  intros n ls s e R. apply wfc_reachable_inv in R. split.
  - intros t f H. assert (L : w_lost s = false) by (eapply i_live; eauto).
    assert (E : task (wfc_lost e s) t = Some (TParked f (FExc e))).
    { unfold task, wfc_lost. rewrite L. simpl. apply complete_pending; auto. }
    split; auto. simpl. unfold get_task. unfold task in E. rewrite E. destruct e; reflexivity.
  - intros t f C. unfold wfc_lost in C. destruct (w_lost s) eqn:L.
    + apply (i_live s R) in C. destruct C. congruence.
    + assert (I' := complete_all_inv s (FExc e) false true e R ltac:(discriminate)).
      apply (i_live _ I') in C. simpl in C. destruct C. discriminate.
Qed.

Lemma cancel_one_keeps_others_proof :
  forall n ls s t s' o, wfc_run (wfc_init n) ls = Some s -> wfc_step s (WCancel t) = Some (s', o) ->
    (forall u, u <> t -> task s' u = task s u) /\
    w_deque s' = w_deque s /\ w_paused s' = w_paused s /\ w_lost s' = w_lost s /\
    (exists r, wfc_step s' (WWake t) = Some (r, [ODrain t RCancelled])) /\
    (forall u f, u <> t -> task s u = Some (TParked f FPending) ->
       task (wfc_resume s') u = Some (TParked f FResult) /\
       (forall e, task (wfc_lost e s') u = Some (TParked f (FExc e)))).
Proof.
  intros n ls s t s' o R H. assert (I := wfc_reachable_inv _ _ _ R).
  assert (I' : wfc_inv s') by (eapply wfc_step_inv; eauto).
  simpl in H. unfold get_task in H. destruct (nth_error (w_tasks s) t) as [x|] eqn:E; [|discriminate].
  assert (K : forall y, (forall u, u <> t -> task (set_task t y s) u = task s u)).
  { intros y u N. unfold task. simpl. apply nth_error_upd_neq; auto. }
  assert (W : forall y, nth_error (w_tasks (set_task t y s)) t = Some y).
  { intros y. simpl. eapply nth_error_upd_eq; eauto. }
  destruct x as [|c|f st]; try discriminate; inversion H; subst; clear H;
    (split; [apply K|]); (split; [reflexivity|]); (split; [reflexivity|]); (split; [reflexivity|]); split.
  - eexists. simpl. unfold get_task. rewrite W. reflexivity.
  - intros u f N P. rewrite <- (K (TYield true) u N) in P. split.
    + unfold task, wfc_resume; simpl. apply (complete_pending _ FResult u f I' P).
    + intros e. assert (L : w_lost (set_task t (TYield true) s) = false) by (eapply i_live; eauto).
      unfold task, wfc_lost. rewrite L. simpl. apply (complete_pending _ (FExc e) u f I' P).
  - eexists. simpl. unfold get_task. rewrite W. reflexivity.
  - intros u g N P. rewrite <- (K (TParked f FCancelled) u N) in P. split.
    + unfold task, wfc_resume; simpl. apply (complete_pending _ FResult u g I' P).
    + intros e. assert (L : w_lost (set_task t (TParked f FCancelled) s) = false) by (eapply i_live; eauto).
      unfold task, wfc_lost. rewrite L. simpl. apply (complete_pending _ (FExc e) u g I' P).
Qed.

Lemma not_done_has_pending : forall f ts, fut_done f ts = false -> exists t, nth_error ts t = Some (TParked f FPending).
Proof.
  intros f ts H. unfold fut_done in H. apply negb_false_iff in H. apply existsb_exists in H.
  destruct H as [x [Hin Hx]]. destruct x as [|c|g st]; try discriminate. destruct st; try discriminate.
  apply Nat.eqb_eq in Hx. subst g. apply In_nth_error in Hin. exact Hin.
Qed.

Lemma no_waiter_leak_proof :
  forall n ls s, wfc_run (wfc_init n) ls = Some s ->
    NoDup (w_deque s) /\
    (forall t f, task s t = Some (TParked f FPending) -> In f (w_deque s) /\ w_paused s = true /\ w_lost s = false) /\
    (forall t u f st st', task s t = Some (TParked f st) -> task s u = Some (TParked f st') -> t = u) /\
    (forall f, In f (w_deque s) ->
       (exists t, task s t = Some (TParked f FPending)) \/
       (exists s', wfc_step s (WCallback f) = Some (s', []) /\ w_deque s' = remove_fid f (w_deque s) /\
                   ~ In f (w_deque s') /\ w_tasks s' = w_tasks s)).
Proof.
  intros n ls s R. apply wfc_reachable_inv in R. destruct R as [I1 I2 I3 I4 I5 I6].
  split; [auto|]. split; [|split; [auto|]].
  - intros t f H. split; eauto.
  - intros f Hf. destruct (fut_done f (w_tasks s)) eqn:D.
    + right. simpl. apply mem_fid_In in Hf. rewrite Hf, D. simpl. eexists. split; [reflexivity|]. simpl.
      split; auto. split; auto. apply remove_fid_gone; auto.
    + left. apply not_done_has_pending in D. exact D.
Qed.
