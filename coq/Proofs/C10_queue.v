(* The ready queue holds a step of the reader task exactly when the task is runnable; consequence: from any reachable
   idle state a receive returns the parked bytes next (delivery). *)
From Coq Require Import List Bool Arith Lia.
From EN Require Import Lib.Bytes Conc.SockReader Conc.SockReaderSpec Proofs.C10_inv.
Import ListNotations.

Definition Q (s : st) : Prop :=
  match tpc s with
  | PIdle => cur s ++ nxt s = []
  | PYield _ => cur s ++ nxt s = [IStep]
  | PWait _ => cur s ++ nxt s = if is_pending (waiter s) then [] else [IStep]
  end.

Lemma app_nil_both : forall (a b : list item), a ++ b = [] -> a = [] /\ b = [].
Proof. intros a b H. apply app_eq_nil in H. exact H. Qed.

Lemma app_single : forall (q b : list item), (IStep :: q) ++ b = [IStep] -> q = [] /\ b = [].
Proof. intros q b H. simpl in H. assert (H1 : q ++ b = []) by congruence. apply app_eq_nil in H1. exact H1. Qed.

Ltac qnorm :=
  repeat match goal with
         | H : ?a ++ ?b = [] |- _ => apply app_nil_both in H; destruct H; subst
         | H : (IStep :: ?q) ++ ?b = [IStep] |- _ => apply app_single in H; destruct H; subst
         | H : IStep :: ?q ++ ?b = [IStep] |- _ => change (IStep :: q ++ b) with ((IStep :: q) ++ b) in H
         end.

Ltac break_inner :=
  repeat match goal with
         | |- context [match ?x with _ => _ end] =>
             lazymatch x with
             | context [match _ with _ => _ end] => fail
             | _ => destruct x eqn:?; simpl in *
             end
         end.

Lemma step_q : forall fixed s l, Inv fixed s -> Q s -> Q (fst (step fixed s l)).
Proof.
  intros fixed s l HI HQ.
  pose proof (inv_idle _ _ HI) as Hidle. pose proof (inv_yield _ _ HI) as Hyield.
  pose proof (inv_wait _ _ HI) as Hwait.
  clear HI. unfold Q in *.
  destruct s as [ib ex ed w e lo le p mc c n dl r]. simpl in *.
  destruct p as [|o|o].
  - (* idle *)
    destruct (Hidle eq_refl) as (Hw & Hx & Hd & Hm). subst. qnorm.
    destruct l; unfold step, call, data, eof_received, connection_lost, cancel, wake, turn, resume, finish, park,
                        wakeup_read_waiter, schedule_wakeup; simpl;
      break_inner; qnorm; simpl; rewrite ?app_nil_r; auto; try discriminate; try congruence;
      try (match goal with H : _ || true = false |- _ => rewrite orb_true_r in H; discriminate end).
  - (* waiting on the waiter *)
    specialize (Hwait o eq_refl).
    destruct w as [w|]; [|congruence].
    destruct l; unfold step, call, data, eof_received, connection_lost, cancel, wake, turn, resume, finish, park,
                        wakeup_read_waiter, schedule_wakeup; simpl;
      break_inner; qnorm; simpl; rewrite ?app_nil_r; auto; try discriminate; try congruence;
      try (match goal with H : _ || true = false |- _ => rewrite orb_true_r in H; discriminate end).
  - (* in coro_yield *)
    destruct (Hyield o eq_refl) as (Hw & Hx & Hd). subst.
    destruct l; unfold step, call, data, eof_received, connection_lost, cancel, wake, turn, resume, finish, park,
                        wakeup_read_waiter, schedule_wakeup; simpl;
      break_inner; qnorm; simpl; rewrite ?app_nil_r; auto; try discriminate; try congruence;
      try (match goal with H : _ || true = false |- _ => rewrite orb_true_r in H; discriminate end).
Qed.

Lemma q_init : Q init.
Proof. reflexivity. Qed.

Lemma exec_inv_q : forall fixed ls s, Inv fixed s -> Q s -> (fixed = false -> race_free s ls) ->
  Inv fixed (fst (exec fixed s ls)) /\ Q (fst (exec fixed s ls)).
Proof.
  intros fixed. induction ls as [|l ls IH]; intros s HI HQ Hr; [split; assumption|].
  rewrite exec_fst_cons.
  assert (Hrl : fixed = false -> racyb s l = false).
  { intro Hf. pose proof (Hr Hf) as Hr'. simpl in Hr'. destruct Hr' as (A & _). exact A. }
  apply IH.
  - apply step_inv; assumption.
  - apply step_q; assumption.
  - intro Hf. pose proof (Hr Hf) as Hr'. simpl in Hr'. destruct Hr' as (_ & B). subst fixed. exact B.
Qed.

(* delivery: in an idle state with parked bytes and no connection error, a receive of k > 0 bytes returns the first
   k parked bytes at its wake-up in the next iteration *)
Lemma recv_delivers : forall fixed s k (into : bool), Inv fixed s -> Q s ->
  tpc s = PIdle -> lost_exc s = None -> ibuf s <> [] -> k <> 0 ->
  snd (exec fixed s [if into then LRecvInto k else LRecv k; LTurn; LWake])
  = [ONone; ONone; ORes (RBytes (firstn k (ibuf s)))].
Proof.
  intros fixed s k into HI HQ Hp Hle Hib Hk.
  destruct (inv_idle _ _ HI Hp) as (Hw & Hx & Hd & Hm).
  unfold Q in HQ. rewrite Hp in HQ. apply app_nil_both in HQ. destruct HQ as (Hc & Hn).
  destruct s as [ib ex ed w e lo le p mc c n dl r]. simpl in *. subst.
  destruct k as [|k]; [congruence|]. destruct ib as [|b0 ib]; [congruence|].
  destruct into; reflexivity.
Qed.

Lemma later_receive_returns_next_bytes_fixed_proof : forall ls k (into : bool),
  let s := run_labels true ls in
  tpc s = PIdle -> lost_exc s = None -> ibuf s <> [] -> k <> 0 ->
  snd (exec true s [if into then LRecvInto k else LRecv k; LTurn; LWake])
  = [ONone; ONone; ORes (RBytes (firstn k (ibuf s)))].
Proof.
  intros ls k into s Hp Hle Hib Hk.
  destruct (exec_inv_q true ls init (inv_init true) q_init) as (HI & HQ); [discriminate|].
  apply recv_delivers; assumption.
Qed.

Lemma later_receive_returns_next_bytes_race_free_proof : forall ls k (into : bool),
  race_free init ls ->
  let s := run_labels false ls in
  tpc s = PIdle -> lost_exc s = None -> ibuf s <> [] -> k <> 0 ->
  snd (exec false s [if into then LRecvInto k else LRecv k; LTurn; LWake])
  = [ONone; ONone; ORes (RBytes (firstn k (ibuf s)))].
Proof.
  intros ls k into Hr s Hp Hle Hib Hk.
  destruct (exec_inv_q false ls init (inv_init false) q_init (fun _ => Hr)) as (HI & HQ).
  apply recv_delivers; assumption.
Qed.
