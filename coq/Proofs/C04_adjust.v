(* C04: _utils.adjust_leftover_buffer represents skipn, and keeps a deque of non-empty views free of empty views. *)
From Coq Require Import ZArith List Bool Lia Arith.
From EN Require Import Lib.Bytes IO.Retry IO.SendAll IO.SendMsg.
Import ListNotations.

Definition nonempty (b : bytes) : Prop := b <> [].

Lemma adjust_leftover_concat : forall bufs n,
  (n <= length (concat bufs))%nat ->
  concat (adjust_leftover bufs n) = skipn n (concat bufs).
Proof.
  induction bufs as [|b rest IH]; intros n Hn; simpl in *.
  - destruct n; reflexivity.
  - destruct (Nat.eqb n 0) eqn:E0.
    + apply Nat.eqb_eq in E0. subst. reflexivity.
    + apply Nat.eqb_neq in E0.
      rewrite app_length in Hn.
      destruct (Nat.leb (length b) n) eqn:E1.
      * apply Nat.leb_le in E1.
        rewrite IH by lia.
        rewrite skipn_app. rewrite (skipn_all2 b) by lia. reflexivity.
      * apply Nat.leb_gt in E1.
        simpl. rewrite skipn_app.
        replace (n - length b)%nat with 0%nat by lia. reflexivity.
Qed.

Lemma adjust_leftover_nonempty : forall bufs n,
  Forall nonempty bufs -> Forall nonempty (adjust_leftover bufs n).
Proof.
  induction bufs as [|b rest IH]; intros n H; simpl.
  - constructor.
  - inversion H as [|? ? Hb Hr]; subst.
    destruct (Nat.eqb n 0); [assumption|].
    destruct (Nat.leb (length b) n) eqn:E1.
    + apply IH; assumption.
    + apply Nat.leb_gt in E1. constructor; [|assumption].
      unfold nonempty. intro Hs.
      assert (L : length (skipn n b) = 0%nat) by (rewrite Hs; reflexivity).
      rewrite skipn_length in L. lia.
Qed.

(* the deque shrinks by exactly the bytes sent *)
Lemma adjust_leftover_length : forall bufs n,
  (n <= length (concat bufs))%nat ->
  length (concat (adjust_leftover bufs n)) = (length (concat bufs) - n)%nat.
Proof.
  intros. rewrite adjust_leftover_concat by assumption. apply skipn_length.
Qed.

(* number of views never grows *)
Lemma adjust_leftover_count : forall bufs n, (length (adjust_leftover bufs n) <= length bufs)%nat.
Proof.
  induction bufs as [|b rest IH]; intros n; simpl; [lia|].
  destruct (Nat.eqb n 0); simpl; [lia|].
  destruct (Nat.leb (length b) n); simpl; [specialize (IH (n - length b)%nat); lia | lia].
Qed.

Theorem adjust_leftover_spec_proof : forall bufs n,
  (n <= length (concat bufs))%nat ->
  concat (adjust_leftover bufs n) = skipn n (concat bufs)
  /\ (Forall nonempty bufs -> Forall nonempty (adjust_leftover bufs n)).
Proof.
  intros; split; [apply adjust_leftover_concat; assumption | apply adjust_leftover_nonempty].
Qed.
