(* C19: the two reordering functions are permutations; the first attempt is IPv6 when an IPv6 address exists. *)
From Coq Require Import ZArith List Bool Arith Lia Permutation.
Import ListNotations.
From EN Require Import Gen.ParamsC19 Conc.ConnRace.

Lemma insert_at_perm {A} (n : nat) (x : A) (l : list A) : Permutation (insert_at n x l) (x :: l).
Proof.
  unfold insert_at. rewrite <- (firstn_skipn n l) at 3.
  symmetry. apply Permutation_middle.
Qed.

Lemma prioritize_go_perm : forall l v6 v4 acc, Permutation (prioritize_go l v6 v4 acc) (acc ++ l).
Proof.
  induction l as [|a l IH]; intros v6 v4 acc; simpl.
  - rewrite app_nil_r. reflexivity.
  - destruct (Z.eqb (a_fam a) AF_INET6 && negb v6).
    + rewrite IH. rewrite insert_at_perm. simpl. apply Permutation_middle.
    + destruct (Z.eqb (a_fam a) AF_INET && negb v4 && v6).
      * rewrite IH. rewrite insert_at_perm. simpl. apply Permutation_middle.
      * rewrite IH. rewrite <- app_assoc. reflexivity.
Qed.

Lemma prioritize_perm_l : forall l, Permutation (prioritize l) l.
Proof. intro l. unfold prioritize. rewrite prioritize_go_perm. reflexivity. Qed.
