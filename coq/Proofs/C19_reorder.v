(* C19: the two reordering functions are permutations; the first attempt is IPv6 when an IPv6 address exists. *)
From Coq Require Import ZArith List Bool Arith Lia Permutation.
Import ListNotations.
From EN Require Import Gen.ParamsC19 Conc.ConnRace.

Lemma insert_at_perm {A} (n : nat) (x : A) (l : list A) : Permutation (insert_at n x l) (x :: l).
Proof.
  unfold insert_at. rewrite <- (firstn_skipn n l) at 3.
  symmetry. apply Permutation_middle.
Qed.

Lemma prioritize_go_perm : forall l v6 v4 acc, Permutation (prioritize_go l v6 v4 acc) (acc ++ l).
Proof.
  induction l as [|a l IH]; intros v6 v4 acc; simpl.
  - rewrite app_nil_r. reflexivity.
  - destruct (Z.eqb (a_fam a) AF_INET6 && negb v6).
    + rewrite IH. rewrite insert_at_perm. simpl. apply Permutation_middle.
    + destruct (Z.eqb (a_fam a) AF_INET && negb v4 && v6).
      * rewrite IH. rewrite insert_at_perm. simpl. apply Permutation_middle.
      * rewrite IH. rewrite <- app_assoc. reflexivity.
Qed.

Lemma prioritize_perm_l : forall l, Permutation (prioritize l) l.
Proof. intro l. unfold prioritize. rewrite prioritize_go_perm. reflexivity. Qed.

(* ------------------------------------------------------------------ _interleave_addrinfos *)
Lemma group_add_perm a : forall gs, Permutation (concat (map snd (group_add a gs))) (a :: concat (map snd gs)).
Proof.
  induction gs as [|[f l] gs IH]; simpl.
  - reflexivity.
  - destruct (Z.eqb f (a_fam a)); simpl.
    + rewrite <- app_assoc. simpl. symmetry. apply Permutation_middle.
    + rewrite IH. symmetry. apply Permutation_middle.
Qed.

Lemma groups_fold_perm : forall l gs,
  Permutation (concat (map snd (fold_left (fun gs a => group_add a gs) l gs))) (concat (map snd gs) ++ l).
Proof.
  induction l as [|a l IH]; intros gs; simpl.
  - rewrite app_nil_r. reflexivity.
  - rewrite IH. rewrite group_add_perm. simpl. apply Permutation_middle.
Qed.

Lemma groups_perm l : Permutation (concat (map snd (groups l))) l.
Proof. unfold groups. rewrite groups_fold_perm. reflexivity. Qed.

Lemma heads_tails_perm {A} : forall ls : list (list A), Permutation (heads ls ++ concat (map (@tl A) ls)) (concat ls).
Proof.
  unfold heads. induction ls as [|l ls IH]; simpl.
  - reflexivity.
  - destruct l as [|x t]; simpl.
    + exact IH.
    + constructor. rewrite <- IH. rewrite !app_assoc. apply Permutation_app_tail. apply Permutation_app_comm.
Qed.

Lemma heads_nil_concat {A} : forall ls : list (list A), heads ls = [] -> concat ls = [].
Proof.
  unfold heads. induction ls as [|l ls IH]; simpl; auto.
  destruct l; simpl; [exact IH | discriminate].
Qed.

Lemma round_robin_perm {A} : forall fuel (ls : list (list A)), length (concat ls) <= fuel ->
  Permutation (round_robin fuel ls) (concat ls).
Proof.
  induction fuel as [|f IH]; intros ls Hlen; simpl.
  - destruct (concat ls); [reflexivity | simpl in Hlen; lia].
  - destruct (heads ls) as [|h hs] eqn:E.
    + rewrite (heads_nil_concat ls E). reflexivity.
    + pose proof (heads_tails_perm ls) as Hp. rewrite E in Hp.
      assert (Hl : length (concat (map (@tl A) ls)) <= f).
      { apply Permutation_length in Hp. rewrite app_length in Hp. simpl in Hp. lia. }
      rewrite <- Hp. change (h :: hs ++ round_robin f (map (@tl A) ls)) with ((h :: hs) ++ round_robin f (map (@tl A) ls)).
      apply Permutation_app_head. apply IH. exact Hl.
Qed.

Lemma interleave_perm_l : forall l, Permutation (interleave l) l.
Proof.
  intro l. unfold interleave. rewrite round_robin_perm.
  - apply groups_perm.
  - rewrite (Permutation_length (groups_perm l)). lia.
Qed.

Lemma reorder_perm_l : forall l, Permutation (reorder l) l.
Proof. intro l. unfold reorder. rewrite interleave_perm_l. apply prioritize_perm_l. Qed.

(* ------------------------------------------------------------------ the first attempt is IPv6 when one exists *)
Lemma prioritize_go_head : forall l v6 v4 acc,
  (v6 = true -> exists b t, acc = b :: t /\ a_fam b = AF_INET6) ->
  (v6 = true \/ exists a, In a l /\ a_fam a = AF_INET6) ->
  exists b t, prioritize_go l v6 v4 acc = b :: t /\ a_fam b = AF_INET6.
Proof.
  induction l as [|a l IH]; intros v6 v4 acc Hacc Hex; simpl.
  - destruct Hex as [H | (a & [] & _)]. apply Hacc. exact H.
  - destruct (Z.eqb (a_fam a) AF_INET6) eqn:E6; simpl.
    + destruct v6; simpl.
      * (* already found: a is not inserted in front *)
        destruct (Hacc eq_refl) as (b & t & -> & Hb).
        destruct (Z.eqb (a_fam a) AF_INET && negb v4); simpl.
        -- apply IH; [intros _; exists b, (a :: t); unfold insert_at; simpl; auto | left; reflexivity].
        -- apply IH; [intros _; exists b, (t ++ [a]); simpl; auto | left; reflexivity].
      * apply IH; [intros _; exists a, acc; unfold insert_at; simpl; split; [reflexivity | apply Z.eqb_eq; exact E6] | left; reflexivity].
    + destruct (Z.eqb (a_fam a) AF_INET && negb v4 && v6) eqn:E4.
      * apply andb_true_iff in E4. destruct E4 as [_ Hv6]. subst v6.
        destruct (Hacc eq_refl) as (b & t & -> & Hb).
        apply IH; [intros _; exists b, (a :: t); unfold insert_at; simpl; auto | left; reflexivity].
      * apply IH.
        -- intro Hv. destruct (Hacc Hv) as (b & t & -> & Hb). exists b, (t ++ [a]). simpl. auto.
        -- destruct Hex as [H | (x & [-> | Hx] & Hf)]; [left; exact H | | right; exists x; auto].
           exfalso. apply Z.eqb_neq in E6. auto.
Qed.

Lemma prioritize_head l : (exists a, In a l /\ a_fam a = AF_INET6) ->
  exists b t, prioritize l = b :: t /\ a_fam b = AF_INET6.
Proof. intro H. unfold prioritize. apply prioritize_go_head; [discriminate | right; exact H]. Qed.

Lemma group_add_head a f b t gs : exists t' gs', group_add a ((f, b :: t) :: gs) = (f, b :: t') :: gs'.
Proof. simpl. destruct (Z.eqb f (a_fam a)); simpl; eauto. Qed.

Lemma groups_fold_head : forall l f b t gs,
  exists t' gs', fold_left (fun gs a => group_add a gs) l ((f, b :: t) :: gs) = (f, b :: t') :: gs'.
Proof.
  induction l as [|a l IH]; intros f b t gs; cbn [fold_left].
  - eauto.
  - destruct (group_add_head a f b t gs) as (t' & gs' & E). rewrite E. apply IH.
Qed.

Lemma interleave_head b rest : exists t, interleave (b :: rest) = b :: t.
Proof.
  unfold interleave, groups. simpl fold_left.
  destruct (groups_fold_head rest (a_fam b) b [] []) as (t' & gs' & E). rewrite E. simpl.
  eexists. reflexivity.
Qed.

Lemma reorder_first_ipv6 l : (exists a, In a l /\ a_fam a = AF_INET6) ->
  exists b t, reorder l = b :: t /\ a_fam b = AF_INET6.
Proof.
  intro H. destruct (prioritize_head l H) as (b & t & E & Hb). unfold reorder. rewrite E.
  destruct (interleave_head b t) as (t' & E'). rewrite E'. eauto.
Qed.
