(* buffered fixed-size framing (FixedSizePacketSerializer.buffered_incremental_deserialize) under the buffer-filling
   consumer: for ANY input and any sequence of fitting recv_into fills, events = record-by-record decoding *)
From Coq Require Import ZArith List Bool Lia Arith.
From EN Require Import Lib.Bytes Frame.Framer Frame.BufReadUntil Stream.Consumer Stream.SpecDecode
  Proofs.Bytes_proofs Proofs.BufReadUntil_proofs Proofs.Fixed_proofs.
Import ListNotations.

Section BFX.
  Context {P : Type}.
  Variable size : nat.
  Variable dec : decoder P.
  Variable sizehint : nat.
  Hypothesis size_pos : 1 <= size.

  Let F := bfx_framer size dec.
  Let A := Nat.max size sizehint.          (* the allocation *)
  Notation fx_events := (fx_events size dec).

  Definition mkf (m : option bytes) (st al : nat) (ex : option (nat * nat)) (co : option nat) : bcstate F :=
    @Build_bcstate P F m st al ex co.

  Definition fmem_ok (m : option bytes) : Prop := match m with None => True | Some x => length x = A end.

  Inductive frep : bcstate F -> bytes -> Prop :=
  | frep_idle (m : option bytes) st : fmem_ok m -> frep (mkf m st 0 None None) []
  | frep_wait (m : bytes) (w : bytes) :
      length m = A -> w <> [] -> length w < size -> firstn (length w) m = w ->
      frep (mkf (Some m) (length w) 0 None (Some (length w))) w.

  Inductive fpend : bcstate F -> bytes -> Prop :=
  | fpend_nil c : frep c [] -> fpend c []
  | fpend_some (m : bytes) (r : bytes) :
      length m = A -> r <> [] -> firstn (length r) m = r -> fpend (mkf (Some m) 0 (length r) None (Some 0)) r.

  Lemma A_ge : size <= A. Proof. unfold A. lia. Qed.

  (* the generator step as a function of the received bytes *)
  Definition fscan (data : bytes) : bres nat P :=
    if Nat.ltb (length data) size then BNeed (length data) (length data)
    else match dec (firstn size data) with
         | Some p => BDone p (skipn size data)
         | None => BFail EDecode (skipn size data)
         end.

  Lemma bfx_feed_data (mem : bytes) nread n :
    nread + n <= length mem -> bfx_feed size dec nread mem n = fscan (firstn (nread + n) mem).
  Proof.
    intros H. unfold bfx_feed, fscan. rewrite firstn_length, Nat.min_l by exact H.
    destruct (Nat.ltb_spec (nread + n) size) as [|Hge]; [reflexivity|].
    rewrite firstn_firstn_le by lia. rewrite firstn_skipn_swap.
    replace (size + (nread + n - size)) with (nread + n) by lia. reflexivity.
  Qed.

  Definition fcres (m : bytes) (st0 : nat) (r : bres nat P) : bcstate F * nres P :=
    match r with
    | BNeed s start => (mkf (Some m) start 0 None (Some s), RStop)
    | BDone p rest => (bc_save_remainder F sizehint (mkf (Some m) st0 0 None None) rest, RPkt p)
    | BFail e rest => (bc_save_remainder F sizehint (mkf (Some m) st0 0 None None) rest, RErr e)
    | BCrash => (mkf None st0 0 None None, RCrash)
    end.

  Lemma fsave_ne (c : bcstate F) (rest : bytes) :
    rest <> [] ->
    bc_save_remainder F sizehint c rest =
      let '(c1, v) := bc_get_write_buffer F sizehint c in
      match bmem c1, v with
      | Some mem, Some (off, _) =>
          @Build_bcstate P F (Some (write_at mem off rest)) (bstart c1) (balready c1 + length rest) None (bcons c1)
      | _, _ => c1
      end.
  Proof. destruct rest; [congruence | reflexivity]. Qed.

  Lemma fsave_remainder (m : bytes) st (rest : bytes) :
    length m = A -> length rest <= A ->
    fpend (bc_save_remainder F sizehint (mkf (Some m) st 0 None None) rest) rest.
  Proof.
    intros Hm Hr. pose proof A_ge. destruct (list_eq_dec N.eq_dec rest []) as [->|Hne].
    - constructor. constructor. exact Hm.
    - rewrite (fsave_ne _ _ Hne).
      unfold bc_get_write_buffer. cbn [bexported bmem bcons mkf binit F bfx_framer balready bstart fst snd].
      assert (Hl : Nat.eqb (length m - 0) 0 = false) by (apply Nat.eqb_neq; lia).
      cbn [Nat.add]. rewrite Hl. cbn [bmem bstart balready bcons].
      assert (Hw : length (write_at m 0 rest) = A) by (rewrite write_at_length; cbn [Nat.add]; lia).
      pose proof (write_at_firstn m 0 rest ltac:(cbn [Nat.add]; lia)) as Hf. cbn [Nat.add firstn app] in Hf.
      change (fpend (mkf (Some (write_at m 0 rest)) 0 (length rest) None (Some 0)) rest).
      constructor; assumption.
  Qed.

  Lemma fnext_none_idle m st : bcnext F sizehint (mkf m st 0 None None) None = (mkf m st 0 None None, RStop).
  Proof. reflexivity. Qed.

  Lemma fnext_none_pend (m : bytes) (r : bytes) :
    length m = A -> r <> [] -> firstn (length r) m = r -> length r <= A ->
    bcnext F sizehint (mkf (Some m) 0 (length r) None (Some 0)) None = fcres m 0 (fscan r).
  Proof.
    intros Hm Hne Hf Hl. unfold bcnext. cbn [bexported bcons mkf balready bmem bstart].
    assert (Hz : Nat.eqb (0 + length r) 0 = false) by (apply Nat.eqb_neq; destruct r; [congruence | simpl; lia]).
    rewrite Hz. cbn [bfeed F bfx_framer]. rewrite bfx_feed_data by (simpl; lia). cbn [Nat.add]. rewrite Hf.
    destruct (fscan r); reflexivity.
  Qed.

  Lemma fpend_len c r : fpend c r -> length r <= A.
  Proof. intros [c0 _|m r0 Hm _ Hf]; [simpl; lia|]. rewrite <- Hf at 1. rewrite firstn_length. lia. Qed.

  Lemma fx_step' s : size <= length s ->
    fx_events s = (record_event dec (firstn size s) :: fst (fx_events (skipn size s)), snd (fx_events (skipn size s))).
  Proof. apply fx_step; exact size_pos. Qed.

  Lemma fdrain_spec fuel : forall c r,
    fpend c r -> length r < fuel ->
    exists c', bcdrain F sizehint fuel c = (c', fst (fx_events r)) /\ frep c' (snd (fx_events r)).
  Proof.
    induction fuel as [|f IH]; intros c r Hp Hf; [lia|].
    pose proof (fpend_len _ _ Hp) as Hrl. pose proof A_ge.
    destruct Hp as [c Hc|m r Hm Hne Hfm].
    - inversion Hc as [m st Hm|]; subst; [|congruence].
      cbn [bcdrain]. rewrite fnext_none_idle. rewrite (fx_short size dec size_pos) by (simpl; lia).
      eexists; split; [reflexivity | exact Hc].
    - cbn [bcdrain]. rewrite (fnext_none_pend _ _ Hm Hne Hfm Hrl). unfold fscan.
      destruct (Nat.ltb_spec (length r) size) as [Hlt|Hge].
      + cbn [fcres]. rewrite (fx_short size dec size_pos r Hlt). eexists; split; [reflexivity|]. cbn [snd].
        constructor; assumption.
      + rewrite (fx_step' r Hge). unfold record_event.
        assert (Hp1 : fpend (bc_save_remainder F sizehint (mkf (Some m) 0 0 None None) (skipn size r)) (skipn size r))
          by (apply fsave_remainder; [exact Hm | rewrite skipn_length; lia]).
        destruct (IH _ (skipn size r) Hp1) as (c' & Hd & Hc'); [rewrite skipn_length; lia|].
        destruct (dec _); cbn [fcres]; rewrite Hd; eexists; (split; [reflexivity | exact Hc']).
  Qed.

  (* one fitting round on a drained consumer *)
  Lemma fstep_spec fuel c w (d : bytes) :
    frep c w -> d <> [] -> length w + length d <= A -> length (w ++ d) < fuel ->
    exists c', bcstep F sizehint fuel c d = (c', fst (fx_events (w ++ d)), length d) /\ frep c' (snd (fx_events (w ++ d))).
  Proof.
    intros Hc Hne Hfit Hf. pose proof A_ge as HA.
    assert (Hdpos : 0 < length d) by (destruct d; [congruence | simpl; lia]).
    assert (Hcommon : exists (m : bytes), length m = A /\ firstn (length (w ++ d)) m = w ++ d /\
              bcstep F sizehint fuel c d =
                (let '(c1, r) := fcres m (length w) (fscan (w ++ d)) in
                 match r with
                 | RStop => (c1, [], length d)
                 | _ => let '(c2, rs) := bcdrain F sizehint fuel c1 in (c2, r :: rs, length d)
                 end)).
    { destruct Hc as [m0 st Hm0 | m0 w Hm0 Hwne Hwl Hwf].
      - set (m1 := match m0 with Some x => x | None => repeat 0%N A end).
        assert (Hm1 : length m1 = A) by (unfold m1; destruct m0; [exact Hm0 | apply repeat_length]).
        exists (write_at m1 0 d). cbn [app length] in *.
        split; [rewrite write_at_length; simpl; lia|].
        split; [exact (write_at_firstn m1 0 d ltac:(simpl; lia))|].
        unfold bcstep, bc_get_write_buffer. cbn [bexported mkf bmem bcons binit F bfx_framer balloc balready bstart].
        fold A. fold m1. cbn [Nat.add]. rewrite Hm1. rewrite Nat.sub_0_r.
        assert (Hz : Nat.eqb A 0 = false) by (apply Nat.eqb_neq; lia). rewrite Hz.
        rewrite (firstn_all2 (n := A) d) by lia.
        unfold bc_fill, bcnext. cbn [bmem bexported bcons balready bstart].
        assert (Hbad : Nat.ltb A (length d) = false) by (apply Nat.ltb_ge; lia). rewrite Hbad.
        assert (Hz2 : Nat.eqb (length d + 0) 0 = false) by (apply Nat.eqb_neq; lia). rewrite Hz2.
        cbn [bfeed F bfx_framer]. rewrite bfx_feed_data by (rewrite write_at_length; simpl; lia).
        replace (0 + (length d + 0)) with (0 + length d) by lia.
        rewrite (write_at_firstn m1 0 d ltac:(simpl; lia)). cbn [firstn app].
        destruct (fscan d) as [s start|x rest|e rest|]; cbn [fcres]; try reflexivity.
      - exists (write_at m0 (length w) d).
        split; [rewrite write_at_length; lia|].
        split; [rewrite app_length, write_at_firstn by lia; rewrite Hwf; reflexivity|].
        unfold bcstep, bc_get_write_buffer. cbn [bexported mkf bmem bcons balready bstart].
        rewrite Nat.add_0_r. rewrite Hm0.
        assert (Hz : Nat.eqb (A - length w) 0 = false) by (apply Nat.eqb_neq; lia). rewrite Hz.
        rewrite (firstn_all2 (n := A - length w) d) by lia.
        unfold bc_fill, bcnext. cbn [bmem bexported bcons balready bstart].
        assert (Hbad : Nat.ltb (A - length w) (length d) = false) by (apply Nat.ltb_ge; lia). rewrite Hbad.
        assert (Hz2 : Nat.eqb (length d + 0) 0 = false) by (apply Nat.eqb_neq; lia). rewrite Hz2.
        cbn [bfeed F bfx_framer]. rewrite bfx_feed_data by (rewrite write_at_length; lia).
        replace (length w + (length d + 0)) with (length w + length d) by lia.
        rewrite write_at_firstn by lia. rewrite Hwf.
        destruct (fscan (w ++ d)) as [s start|x rest|e rest|]; cbn [fcres]; try reflexivity. }
    destruct Hcommon as (m & Hm & Hfm & Hstep). rewrite Hstep. unfold fscan.
    assert (Hbl : length (w ++ d) <= A) by (rewrite app_length; lia).
    destruct (Nat.ltb_spec (length (w ++ d)) size) as [Hlt|Hge].
    - cbn [fcres]. rewrite (fx_short size dec size_pos _ Hlt). eexists; split; [reflexivity|]. cbn [snd].
      constructor; try assumption. destruct w; [simpl; exact Hne | discriminate].
    - rewrite (fx_step' _ Hge). unfold record_event.
      assert (Hp1 : fpend (bc_save_remainder F sizehint (mkf (Some m) (length w) 0 None None) (skipn size (w ++ d)))
                          (skipn size (w ++ d)))
        by (apply fsave_remainder; [exact Hm | rewrite skipn_length; lia]).
      destruct (fdrain_spec fuel _ _ Hp1) as (c' & Hd & Hc'); [rewrite skipn_length; lia|].
      destruct (dec _); cbn [fcres]; rewrite Hd; eexists; (split; [reflexivity | exact Hc']).
  Qed.

  Lemma view_len_frep c w : frep c w -> view_len F sizehint c = A - length w.
  Proof.
    intros Hc. pose proof A_ge. unfold view_len, bc_get_write_buffer.
    destruct Hc as [m0 st Hm0 | m0 w Hm0 Hwne Hwl Hwf]; cbn [bexported mkf bmem bcons binit F bfx_framer balloc balready bstart snd fst].
    - fold A. assert (Hz : Nat.eqb A 0 = false) by (apply Nat.eqb_neq; lia).
      destruct m0 as [m|]; cbn [Nat.add length].
      + cbn in Hm0. rewrite Hm0, Nat.sub_0_r, Hz. cbn. lia.
      + rewrite repeat_length, Nat.sub_0_r, Hz. cbn. lia.
    - rewrite Nat.add_0_r, Hm0.
      assert (Hz : Nat.eqb (A - length w) 0 = false) by (apply Nat.eqb_neq; lia). rewrite Hz. reflexivity.
  Qed.

  Lemma frep_tail_short c w : frep c w -> length w < size.
  Proof. intros [|]; [simpl; lia | assumption]. Qed.

  (* main theorem: any input, any fitting fills *)
  Theorem bfx_fills_spec fuel ds : forall c w,
    frep c w -> fills_fit F sizehint fuel c ds -> length (w ++ concat ds) < fuel ->
    exists c', bcfills F sizehint fuel c ds = (c', fst (fx_events (w ++ concat ds))) /\
               frep c' (snd (fx_events (w ++ concat ds))).
  Proof.
    induction ds as [|d ds IH]; intros c w Hc Hfit Hf.
    - cbn [bcfills concat]. rewrite app_nil_r. rewrite (fx_short size dec size_pos w (frep_tail_short _ _ Hc)).
      eexists; split; [reflexivity | exact Hc].
    - cbn [bcfills concat fills_fit] in *. destruct Hfit as (Hne & Hlen & Hrest).
      rewrite (view_len_frep _ _ Hc) in Hlen. pose proof (frep_tail_short _ _ Hc) as Hws. pose proof A_ge.
      rewrite app_assoc in Hf.
      destruct (fstep_spec fuel c w d Hc Hne) as (c1 & Hstep & Hc1); [lia | rewrite !app_length in *; lia |].
      rewrite Hstep in Hrest |- *. cbn [fst] in Hrest.
      destruct (IH c1 _ Hc1 Hrest) as (c' & Hd & Hc').
      { pose proof (fx_tail_len size dec size_pos (w ++ d)) as Hl. rewrite !app_length in *. lia. }
      rewrite Hd. rewrite (app_assoc w). rewrite (fx_app size dec size_pos (w ++ d) (concat ds)).
      eexists; split; [reflexivity | exact Hc'].
  Qed.
End BFX.
